"""C19 -- Element and isotope registry is unambiguous and self-consistent
(cherab/core/atomic/elements.pyx, cherab/core/atomic/line.pyx, cherab/openadas/repository/utility.py).

Theorems: coq/Properties/C19.v -- for an ARBITRARY registry that passes the boolean check `wf`
          (any number of species, any names; every spelling and letter case of every identifier).
Tie (T):  harness/c19_translate.py regenerates coq/Gen/C19/Table.v from elements.pyx on every run;
          coq/Gen/C19/Tie.v proves `load table = Some r0` and `wf r0 = true` by vm_compute (kernel
          re-checked) and instantiates every property theorem with r0.
Tie (X):  the imported module is compared with the model executed by Coq on the translated table:
          every exported object field by field (weights bit for bit), lookups in every spelling,
          == / != / hash on registry objects, fresh copies and one-field mutants, Line
          constructor / == / != / hash, encode_transition, valid_charge, dict behaviour.
Search:   the executable statement of the property itself, evaluated on the imported module.
"""
import copy
import decimal
import fractions
import glob
import json
import pickle
import math
import os
import subprocess
import re
import time

from common import (REPO, COQ, VERIF, frac, zlit, coq_string, coqc, coqc_many, parse_evals, parse_zlist)
from c19_translate import translate, TranslateError, commented_rows
import c19_shape

THEOREMS = ["C19_element_lookup_by_every_identifier", "C19_isotope_lookup_by_every_identifier", "C19_lookup_any_argument_form",
            "C19_unknown_keys_rejected", "C19_names_and_symbols_unique",
            "C19_atomic_numbers_match_periodic_table", "C19_isotopes_consistent",
            "C19_eq_hash_agree", "C19_eq_hash_any_same_class", "C19_line_eq_hash_agree",
            "C19_species_work_as_dict_keys", "C19_lines_work_as_dict_keys",
            "C19_isotope_number_by_construction", "C19_wf_key_clauses_necessary",
            "C19_index_builders_refine_spec", "C19_rebuilding_indices_is_idempotent", "C19_lookups_are_case_blind",
            "C19_eq_characterised_by_fields", "C19_dir_order_is_a_sorted_permutation",
            "C19_species_dict_with_deletion_is_a_finite_map", "C19_constructor_argument_policy",
            "C19_int_to_string_injective", "C19_lookup_results_are_sound", "C19_lookup_by_number_is_sound",
            "C19_hash_key_equality_is_an_equivalence", "C19_isotope_on_isotope_takes_parent_number"]

HEADER = ("Require Import Cherab.Common.Qx.\nFrom Coq Require Import String.\n"
          "Require Import Cherab.Model.C19_Registry Cherab.Model.C19_Shape Cherab.Model.C19_Args Cherab.Model.C19_Check.\n")


# ---------------------------------------------------------------------------------------------
# the periodic table of the model (single source: coq/Model/C19_Registry.v)
# ---------------------------------------------------------------------------------------------
def model_periodic_table():
    text = open(os.path.join(COQ, "Model", "C19_Registry.v")).read()
    body = text[text.index("Definition periodic_table"):text.index("Definition alternate_names")]
    rows = [(int(z), n, s) for z, n, s in re.findall(r'\((\d+),"([a-z]+)","([A-Za-z]+)"\)', body)]
    alt_body = text[text.index("Definition alternate_names"):]
    alt_body = alt_body[:alt_body.index(".\n")]
    alts = [(int(z), n) for z, n in re.findall(r'\((\d+),"([a-z]+)"\)', alt_body)]
    return rows, alts


# ---------------------------------------------------------------------------------------------
# Coq literals
# ---------------------------------------------------------------------------------------------
def qlit(x):
    """exact Q literal of a float / int / Fraction; big numerators / denominators (subnormal, huge and 2^k-scaled weights)
    are written in hexadecimal: Coq converts decimal literals in quadratic time (0.3 s for 300 digits)"""
    fr = frac(x)
    n, d = fr.numerator, fr.denominator
    if abs(n) < 10 ** 17 and d < 10 ** 17:
        return "(Qmake %s %d)" % (zlit(n), d)
    return "(Qmake %s 0x%x)" % ("(-0x%x)" % -n if n < 0 else "0x%x" % n, d)


def q(s):
    return coq_string(s)


def sref(ref):
    if ref[0] in ("pickle", "deepcopy", "copy"):      # a copy made by the standard library: modelled by its structure
        return sref(ref[1])
    if ref[0] == "attr":
        return "(RAttr %s)" % q(ref[1])
    if ref[0] == "elem":
        return "(RNewElement %s %s %s %s)" % (q(ref[1]), q(ref[2]), zlit(ref[3]), qlit(ref[4]))
    el = ref[3] if isinstance(ref[3], tuple) else ("attr", ref[3])
    return "(RNewIsotope %s %s %s %s %s)" % (q(ref[1]), q(ref[2]), sref(el), zlit(ref[4]), qlit(ref[5]))


def arg_lit(a):
    """a: ('attr'|'elem'|'iso', ...) reference tuple, or the Python object that is passed to the lookup"""
    if isinstance(a, tuple) and a and a[0] in ("attr", "elem", "iso"):
        return "(ARef %s)" % sref(a)
    if type(a) is int:
        return "(AInt %s)" % zlit(a)
    if type(a) is str:
        return "(AStr %s)" % q(a)
    return "(AOther %s)" % q(ascii_only(str(a)))      # any other object: the code only looks at str(v)


def num_lit(n):
    if n is None:
        return "NNone"
    if type(n) is int:
        return "(NInt %s)" % zlit(n)
    return "(NOther %s %s)" % (boolc(bool(n)), q(ascii_only(str(n))))


def ascii_only(s):
    assert s.isascii(), s
    return s


def canon(t):
    """bool / numpy integer / integral float entries equal (and hash like) the int: CPython / numpy numeric tower"""
    if type(t) in (int, str):
        return t
    if isinstance(t, str):
        return str(t)
    f = float(t)
    assert f == int(f), t
    return int(f)


def tval(t):
    t = canon(t)
    return "(TInt %s)" % zlit(t) if isinstance(t, int) else "(TStr %s)" % q(t)


def tlist(tr):
    return "[" + "; ".join(tval(t) for t in tr) + "]"


def lref(l):
    ref, charge, tr = l
    return "(LRef %s %s %s)" % (sref(ref), zlit(int(charge)), tlist(tr))


def optz(n):
    return "None" if n is None else "(Some %s)" % zlit(n)


def boolc(b):
    return "true" if b else "false"


# ---------------------------------------------------------------------------------------------
# spellings
# ---------------------------------------------------------------------------------------------
def variants(s, rng, extra):
    out = [s, s.lower(), s.upper()]
    if extra >= 1:
        out.append("".join(c.upper() if rng.random() < 0.5 else c.lower() for c in s))
    if extra >= 2:
        out += [s.swapcase(), s.title()]
        out += ["".join(c.upper() if rng.random() < 0.5 else c.lower() for c in s) for _ in range(extra - 1)]
    seen, res = set(), []
    for v in out:
        if v not in seen:
            seen.add(v)
            res.append(v)
    return res


# ---------------------------------------------------------------------------------------------
# the implementation under test
# ---------------------------------------------------------------------------------------------
class Impl:
    def __init__(self):
        from cherab.core.atomic import elements as mod
        from cherab.core.atomic import line as linemod
        from cherab.openadas.repository import utility
        self.mod, self.Line, self.utility = mod, linemod.Line, utility
        self.Element, self.Isotope = mod.Element, mod.Isotope
        self.exports = [(n, getattr(mod, n)) for n in dir(mod)
                        if type(getattr(mod, n)) in (mod.Element, mod.Isotope)]
        self.attr_of = {}
        for n, o in self.exports:
            self.attr_of.setdefault(id(o), n)
        self.elements = [(n, o) for n, o in self.exports if type(o) is mod.Element]
        self.isotopes = [(n, o) for n, o in self.exports if type(o) is mod.Isotope]

    def build(self, ref):
        if ref[0] == "pickle":
            return pickle.loads(pickle.dumps(self.build(ref[2])))
        if ref[0] == "deepcopy":
            return copy.deepcopy(self.build(ref[2]))
        if ref[0] == "copy":
            return copy.copy(self.build(ref[2]))
        if ref[0] == "attr":
            return getattr(self.mod, ref[1])
        if ref[0] == "elem":
            return self.Element(ref[1], ref[2], ref[3], ref[4])
        el = self.build(ref[3]) if isinstance(ref[3], tuple) else getattr(self.mod, ref[3])
        return self.Isotope(ref[1], ref[2], el, ref[4], ref[5])

    def deep_copy_ref(self, attr, o):
        """like ref_fields, but an isotope's element is rebuilt too (an equal, not identical, Element)"""
        r = self.ref_fields(attr, o)
        if r[0] == "iso":
            e = o.element
            r = r[:3] + (("elem", e.name, e.symbol, e.atomic_number, e.atomic_weight),) + r[4:]
        return r

    def ref_fields(self, attr, o):
        """constructor arguments that rebuild an equal copy of an exported object"""
        if type(o) is self.Element:
            return ("elem", o.name, o.symbol, o.atomic_number, o.atomic_weight)
        return ("iso", o.name, o.symbol, self.attr_of.get(id(o.element), "<element not exported>"),
                o.mass_number, o.atomic_weight)

    def expect(self, fn, arg_obj, *a, **kw):
        """run a lookup; returns the Coq `expect` literal and a printable outcome"""
        try:
            r = fn(*a, **kw)
        except ValueError:
            return "EErr", "ValueError"
        except Exception as e:           # any other exception is not what the model predicts
            return "(EAttr %s)" % q("<raised %s>" % type(e).__name__), "raised %s" % type(e).__name__
        if arg_obj is not None and r is arg_obj:
            return "ESelf", "the argument itself"
        a_ = self.attr_of.get(id(r))
        if a_ is None:
            return "(EAttr %s)" % q("<object that is not exported>"), "unexported %r" % (r,)
        return "(EAttr %s)" % q(a_), a_


# ---------------------------------------------------------------------------------------------
# executable statement of the property on the real implementation (failing-input search)
# ---------------------------------------------------------------------------------------------
def search_property(impl, rng, rows, alts, thorough=False):
    """Returns a list of failures {key, claim, ...}; empty = the property holds on the imported module."""
    mod = impl.mod
    fails = []

    def fail(key, claim, **kw):
        fails.append(dict(kw, key=key, claim=claim))

    def cases(s):
        out = {s, s.lower(), s.upper(), s.swapcase(), s.title()}
        for _ in range(6 if thorough else 2):
            out.add("".join(c.upper() if rng.random() < 0.5 else c.lower() for c in s))
        return sorted(out)

    def try_lookup(fn, *a, **kw):
        try:
            return fn(*a, **kw)
        except Exception as e:
            return "%s: %s" % (type(e).__name__, e)

    # (1) every element is found by every identifier, in every letter case
    for attr, e in impl.elements:
        for ident, what in ((e.name, "name"), (e.symbol, "symbol"), (str(e.atomic_number), "atomic number (string)")):
            for s in cases(ident):
                r = try_lookup(mod.lookup_element, s)
                if r is not e:
                    fail("lookup_element:%s:%s" % (what.split()[0], attr), "lookup_element(%r) does not return %s (by %s)" % (s, attr, what),
                         call="lookup_element(%r)" % s, got=repr(r), want=attr)
                    break
        r = try_lookup(mod.lookup_element, e.atomic_number)
        if r is not e:
            fail("lookup_element:number:%s" % attr, "lookup_element(%d) does not return %s" % (e.atomic_number, attr),
                 call="lookup_element(%d)" % e.atomic_number, got=repr(r), want=attr)
        if try_lookup(mod.lookup_element, e) is not e:
            fail("lookup_element:object:%s" % attr, "lookup_element(%s) does not return the object" % attr)
    # (2) every isotope likewise, incl. element + mass number in both spellings and as two arguments
    for attr, i in impl.isotopes:
        el, a = i.element, i.mass_number
        for ident, what in ((i.name, "name"), (i.symbol, "symbol"), (el.symbol + str(a), "element symbol + mass number"),
                            (el.name + str(a), "element name + mass number")):
            for s in cases(ident):
                r = try_lookup(mod.lookup_isotope, s)
                if r is not i:
                    fail("lookup_isotope:%s:%s" % (what.split()[0] + ("-" + what.split()[1] if what.startswith("element") else ""), attr),
                         "lookup_isotope(%r) does not return %s (by %s)" % (s, attr, what),
                         call="lookup_isotope(%r)" % s, got=repr(r), want=attr)
                    break
        forms = [(el, "element object")] + [(s, "element name") for s in cases(el.name)] + \
                [(s, "element symbol") for s in cases(el.symbol)] + [(el.atomic_number, "atomic number"),
                                                                     (str(el.atomic_number), "atomic number (string)")]
        for v, what in forms:
            r = try_lookup(mod.lookup_isotope, v, number=a)
            if r is not i:
                fail("lookup_isotope:element+number:%s" % attr,
                     "lookup_isotope(%r, number=%d) does not return %s (%s + mass number)" % (v, a, attr, what),
                     call="lookup_isotope(%r, number=%d)" % (v, a), got=repr(r), want=attr)
                break
        if try_lookup(mod.lookup_isotope, i) is not i:
            fail("lookup_isotope:object:%s" % attr, "lookup_isotope(%s) does not return the object" % attr)
    # (2b) other spellings of the same identifiers: numpy integers / numpy strings / Decimal are accepted by the unchanged
    #      code through str(); floats, bools, bytes, containers are rejected.  Whatever the code does with such a form, it must
    #      never hand back a DIFFERENT species than the one the value identifies (ValueError or the right object).
    import numpy as np
    for attr, e in impl.elements:
        z = e.atomic_number
        for v in (np.int64(z), np.int32(z), np.str_(e.symbol), np.str_(e.name.upper()), decimal.Decimal(z)):
            r = try_lookup(mod.lookup_element, v)
            if r is not e:
                fail("lookup_element:form:%s:%s" % (type(v).__name__, attr), "lookup_element(%s(%r)) does not return %s"
                     % (type(v).__name__, v, attr), got=repr(r), want=attr)
        for v in (float(z), np.float64(z), np.float32(z), fractions.Fraction(z), str(float(z))):
            r = try_lookup(mod.lookup_element, v)
            if isinstance(r, impl.Element) and r is not e:
                fail("lookup_element:form-wrong:%s:%s" % (type(v).__name__, attr), "lookup_element(%s(%r)) returns %r, a different "
                     "element than number %d" % (type(v).__name__, v, r, z), got=repr(r), want=attr + " or ValueError")
    for attr, i in impl.isotopes:
        el, a = i.element, i.mass_number
        for v, n in ((np.int64(el.atomic_number), np.int64(a)), (el.symbol, str(a)), (np.str_(el.name), np.int32(a)), (el, np.int64(a))):
            r = try_lookup(mod.lookup_isotope, v, n)
            if r is not i:
                fail("lookup_isotope:form:%s+%s:%s" % (type(v).__name__, type(n).__name__, attr),
                     "lookup_isotope(%r, %s(%r)) does not return %s" % (v, type(n).__name__, n, attr), got=repr(r), want=attr)
        for v, n in ((float(el.atomic_number), a), (el.symbol, float(a)), (np.float64(el.atomic_number), np.float64(a))):
            r = try_lookup(mod.lookup_isotope, v, n)
            if isinstance(r, impl.Element) and r is not i:
                fail("lookup_isotope:form-wrong:%s+%s:%s" % (type(v).__name__, type(n).__name__, attr),
                     "lookup_isotope(%r, %r) returns %r, not %s" % (v, n, r, attr), got=repr(r), want=attr + " or ValueError")
    # (2c) the other entry points export the very same objects and functions
    import importlib
    for modname in ("cherab.core.atomic", "cherab.core"):
        pkg = importlib.import_module(modname)
        for n, o in impl.exports + [("lookup_element", mod.lookup_element), ("lookup_isotope", mod.lookup_isotope),
                                    ("Element", mod.Element), ("Isotope", mod.Isotope)]:
            if hasattr(pkg, n) and getattr(pkg, n) is not o:
                fail("reexport:%s:%s" % (modname, n), "%s.%s is not the object defined in cherab.core.atomic.elements" % (modname, n))
            elif modname == "cherab.core.atomic" and not hasattr(pkg, n):
                fail("reexport-missing:%s" % n, "cherab.core.atomic does not export %s" % n)
    # (3) uniqueness
    seen = {}
    for attr, o in impl.exports:
        if o.name in seen and seen[o.name][1] is not o:
            fail("name-shared:%s" % o.name, "two species share the name %r: %s and %s" % (o.name, seen[o.name][0], attr))
        seen.setdefault(o.name, (attr, o))
    for group, what in ((impl.elements, "elements"), (impl.isotopes, "isotopes")):
        seen = {}
        for attr, o in group:
            if o.symbol in seen and seen[o.symbol][1] is not o:
                fail("symbol-shared:%s:%s" % (what, o.symbol), "two %s share the symbol %r: %s and %s" % (what, o.symbol, seen[o.symbol][0], attr))
            seen.setdefault(o.symbol, (attr, o))
    # (4) periodic table
    by_z = {z: (n, s) for z, n, s in rows}
    for attr, e in impl.elements:
        row = by_z.get(e.atomic_number)
        names = ([row[0]] if row else []) + [n for z, n in alts if z == e.atomic_number]
        if row is None or e.symbol.lower() != row[1].lower() or e.name.lower() not in names:
            fail("periodic:%s" % attr, "%s = Element(%r, %r, %d, ..) is not a row of the periodic table (Z=%d is %s)"
                 % (attr, e.name, e.symbol, e.atomic_number, e.atomic_number, row), want=row)
    # (5) isotopes
    exported_elements = {id(o) for _, o in impl.elements}
    for attr, i in impl.isotopes:
        if id(i.element) not in exported_elements:
            fail("isotope-element:%s" % attr, "%s.element is not an exported Element" % attr)
        if i.atomic_number != i.element.atomic_number:
            fail("isotope-Z:%s" % attr, "%s has atomic number %d, its element %d" % (attr, i.atomic_number, i.element.atomic_number))
        if i.mass_number < i.atomic_number or i.mass_number < 1:
            fail("isotope-A:%s" % attr, "%s has mass number %d < atomic number %d" % (attr, i.mass_number, i.atomic_number))
        if not abs(i.atomic_weight - i.mass_number) <= 0.1:
            fail("isotope-weight:%s" % attr, "%s has atomic weight %r, more than 0.1 u from its mass number %d"
                 % (attr, i.atomic_weight, i.mass_number))
    # (6) == / != / hash on all pairs, and as dict keys
    objs = impl.exports
    for ai, (an, a) in enumerate(objs):
        ha = hash(a)
        if not (a == a) or (a != a):
            fail("eq-reflexive:%s" % an, "%s == %s is False or %s != %s is True" % (an, an, an, an))
        for bn, b in objs[ai + 1:]:
            eq1, eq2, ne1, ne2 = a == b, b == a, a != b, b != a
            if a is b:
                continue
            if eq1 or eq2 or not ne1 or not ne2:
                fail("eq-distinct:%s:%s" % (an, bn), "distinct species %s and %s: == gives %s/%s, != gives %s/%s"
                     % (an, bn, eq1, eq2, ne1, ne2))
            if (eq1 or eq2) and ha != hash(b):
                fail("eq-hash:%s:%s" % (an, bn), "%s == %s but their hashes differ" % (an, bn))
    d = {}
    for n, o in objs:
        d[o] = n
    if len(d) != len({id(o) for _, o in objs}):
        fail("dict-len", "a dict keyed by all %d species has %d entries" % (len(objs), len(d)))
    for n, o in objs:
        if d.get(o) != impl.attr_of[id(o)] and d.get(o) != n:
            fail("dict-get:%s" % n, "dict keyed by species: d[%s] gives %r" % (n, d.get(o)))
    # equal copies (same constructor arguments) must compare equal, hash equally and find the same dict slot
    for n, o in objs:
        try:
            c = impl.build(impl.ref_fields(n, o))
        except Exception as e:
            fail("copy-build:%s" % n, "cannot rebuild %s from its own fields: %s" % (n, e))
            continue
        cs = [c]
        if type(o) is impl.Isotope:
            cs.append(impl.build(impl.deep_copy_ref(n, o)))
        for c2 in cs[1:]:
            if not (c2 == o) or (c2 != o) or hash(c2) != hash(o) or d.get(c2) != d.get(o):
                fail("copy-rebuilt-element:Isotope", "an isotope built with the fields of %s on an equal (rebuilt) element: == %s, != %s, "
                     "hashes equal %s, finds the dict entry %s" % (n, c2 == o, c2 != o, hash(c2) == hash(o), d.get(c2) == d.get(o)), species=n)
        # a species that differs in exactly one field is a different species: == False, != True
        ref = impl.ref_fields(n, o)
        for fi, what in ((1, "name"), (2, "symbol"), (len(ref) - 2, "atomic number" if ref[0] == "elem" else "mass number"),
                         (len(ref) - 1, "atomic weight"), (len(ref) - 1, "atomic weight (by one ulp)")):
            r = list(ref)
            r[fi] = r[fi] + "x" if isinstance(r[fi], str) else (r[fi] + 1 if isinstance(r[fi], int) else
                                                                 (math.nextafter(r[fi], math.inf) if "ulp" in what else r[fi] + 0.5))
            m = impl.build(tuple(r))
            if ((m == o) or (o == m)) and hash(m) != hash(o):
                fail("mutant-eq-hash:%s:%s" % (type(o).__name__, what), "a species that differs from %s only in its %s compares equal "
                     "to it but hashes differently" % (n, what), species=n, fields=repr(tuple(r)))
            if (m == o) or not (m != o) or (o == m) or not (o != m):
                fail("mutant-ne:%s:%s" % (type(o).__name__, what), "a species that differs from %s only in its %s: == gives %s, != gives %s"
                     % (n, what, m == o, m != o), species=n, fields=repr(tuple(r)))
        if not (c == o) or not (o == c) or (c != o) or (o != c):
            fail("copy-eq:%s" % type(o).__name__, "a species built with the fields of %s does not compare equal to it" % n, species=n)
        elif hash(c) != hash(o):
            fail("copy-hash:%s" % type(o).__name__, "a species equal to %s hashes differently" % n, species=n)
        elif d.get(c) != d.get(o):
            fail("copy-dict:%s" % type(o).__name__, "a species equal to %s does not find its dict entry" % n, species=n)
    # (6b) copies made by pickle / copy / deepcopy are equal, hash equally and find the dict entry; the hash of a live object
    #      is stable (before / after it has been used as a key and looked up); the fields of a species cannot be re-assigned
    #      (a key that could be mutated in place would be lost in its dict)
    for n, o in objs:
        h0 = hash(o)
        for how, fn in (("pickle", lambda x: pickle.loads(pickle.dumps(x))), ("copy.copy", copy.copy), ("copy.deepcopy", copy.deepcopy)):
            try:
                c = fn(o)
            except Exception as e:
                fail("stdlib-copy:%s:%s" % (how, type(o).__name__), "%s of %s raised %s: %s" % (how, n, type(e).__name__, e), species=n)
                continue
            if not (c == o) or not (o == c) or (c != o) or hash(c) != hash(o) or d.get(c) != d.get(o) or type(c) is not type(o):
                fail("stdlib-copy:%s:%s" % (how, type(o).__name__), "%s of %s: == %s, != %s, hashes equal %s, finds the dict entry %s"
                     % (how, n, c == o, c != o, hash(c) == hash(o), d.get(c) == d.get(o)), species=n)
        if hash(o) != h0 or hash(o) != hash(o):
            fail("hash-unstable:%s" % type(o).__name__, "hash(%s) changes between calls" % n, species=n)
        try:
            c = impl.build(impl.ref_fields(n, o))
        except Exception:
            continue
        for field, val in (("name", "x"), ("symbol", "x"), ("atomic_number", 0), ("atomic_weight", 0.5), ("mass_number", 0), ("element", None)):
            if not hasattr(c, field):
                continue
            hc = hash(c)
            try:
                setattr(c, field, val)
            except (AttributeError, TypeError):
                continue
            if hash(c) != hc:
                fail("mutable-key:%s:%s" % (type(o).__name__, field), "%s.%s can be re-assigned and that changes the hash: a species used "
                     "as a dict key can be lost" % (type(o).__name__, field), species=n)
    # (7) lines
    sample = objs if thorough else rng.sample(objs, min(len(objs), 60))
    trans = [(3, 2), (4, 2), ("2s1 3p1 3P4.0", "2s1 3s1 3S1.0"), ("3", 2)]
    lines = []
    for n, o in sample:
        for c in sorted({0, max(0, o.atomic_number - 1)}):
            for t in trans[:2] + [rng.choice(trans[2:])]:
                try:
                    lines.append(((n, c, t), impl.Line(o, c, t), impl.Line(o, c, t)))
                except Exception as e:
                    fail("line-build", "Line(%s, %d, %r) raised %s" % (n, c, t, e))
    ld = {}
    for k, l1, l2 in lines:
        if not (l1 == l2) or (l1 != l2) or hash(l1) != hash(l2):
            fail("line-eq-hash", "two Line%r objects: == %s, != %s, hashes equal %s" % (k, l1 == l2, l1 != l2, hash(l1) == hash(l2)), line=repr(k))
            break
        ld[l1] = k
    for k, l1, l2 in lines:
        if ld.get(l2) != k:
            fail("line-dict", "dict keyed by lines: an equal Line%r finds %r" % (k, ld.get(l2)), line=repr(k))
            break
    # different lines compare unequal: all pairs of the same species (they differ in charge only, in transition only,
    # or in both) and, across species, lines with the same charge and transition
    by_species = {}
    for k, l1, _ in lines:
        by_species.setdefault(k[0], []).append((k, l1))
    pairs = []
    for n, group in by_species.items():
        pairs += [(group[i], group[j]) for i in range(len(group)) for j in range(i + 1, len(group))]
    firsts = [g[0] for g in by_species.values()]
    pairs += [(a, b) for a, b in zip(firsts, firsts[1:]) if a[0][1:] == b[0][1:]]
    reported = set()
    for (k1, a), (k2, b) in pairs:
        if k1 != k2 and ((a == b) or not (a != b) or (b == a) or not (b != a)):
            differ = "+".join(w for w, i in (("species", 0), ("charge", 1), ("transition", 2)) if k1[i] != k2[i])
            if differ not in reported:
                reported.add(differ)
                fail("line-distinct:" + differ, "different lines Line%r and Line%r (they differ in %s): == gives %s, != gives %s"
                     % (k1, k2, differ, a == b, a != b))
    if len(ld) != len({k for k, _, _ in lines}):
        fail("line-dict-len", "a dict keyed by %d different lines has %d entries" % (len({k for k, _, _ in lines}), len(ld)))
    return fails


# ---------------------------------------------------------------------------------------------
def stmt_lit(s):
    if s["kind"] == "element":
        return "DefElement %s %s %s %s %s" % (q(s["attr"]), q(s["name"]), q(s["symbol"]), zlit(s["Z"]), qlit(s["w"]))
    return "DefIsotope %s %s %s %s %s %s" % (q(s["attr"]), q(s["name"]), q(s["symbol"]), q(s["elem_attr"]),
                                            zlit(s["A"]), qlit(s["w"]))


def run(ctx):
    ctx.trusted += [
        "Coq 8.16.1 kernel, vm_compute (no native_compute)",
        "harness/c19_translate.py (fail-closed translator of the module-level definitions of elements.pyx, 150 lines); "
        "what it cannot see (class bodies, index builders, lookup functions) is tied by the correspondence only",
        "coq/Model/C11_Round.v round53 (binary64 round-to-nearest-even on rationals, gradual underflow, no overflow) taken as the "
        "meaning of a Python float literal / + / - / * / / ; CPython's correctly rounded float() of decimal text",
        "harness/c19_shape.py (fail-closed translator of the method bodies: removes `cdef` lines, <Type> casts and argument types, parses "
        "with ast, 350 lines; the parts it does not translate are compared with a reference text kept in that file)",
        "harness/c19.py: case generator, identity -> attribute-name mapping, Coq literal printer; comparators in Model/C19_Check.v",
        "CPython: dir() is sorted, str.lower() on ASCII, str(int), the == / != dispatch between a class and its subclass, "
        "hash() of tuples of str/int/float respects their equality, dict slot matching = equal hash and (identical or ==); "
        "Cython: cdef class __richcmp__/__hash__ code generation, int/double field conversion",
        "argument forms: an object that is neither str, int nor a species enters the model as its str() (and, for `number`, its truth "
        "value) as computed by Python; bool / numpy-integer / integral-float entries of transitions and charges enter as the int they "
        "equal; pickle / copy / deepcopy results enter as their field structure",
        "coq/Model/C19_Registry.v periodic_table: 118 rows written by hand from the IUPAC list (sanity lemma: numbers 1..118, "
        "names and symbols pairwise different)",
    ]
    ctx.assumptions += [
        "identifiers are ASCII (the translator rejects anything else)",
        "'within 0.1 u' is read as |weight - A| <= 1/10; 'match the periodic table' as: (Z, symbol, name) is a row of it, "
        "letter case ignored, aluminum/sulphur/cesium accepted",
        "'equal species hash equally' is also required of a species rebuilt from the same constructor arguments and of "
        "two Line objects built from the same arguments (distinct objects that are equal)",
    ]
    ctx.rebuild()
    ctx.proofs("Properties.C19", THEOREMS, extra_modules=("Model.C19_Check", "Model.C19_Shape", "Model.C19_Args", "Model.C19_Weights"))

    import cherab
    assert list(cherab.__path__) == [REPO + "/cherab"], cherab.__path__
    rng = ctx.rng
    quick = ctx.quick
    rows, alts = model_periodic_table()
    assert len(rows) == 118, len(rows)

    # ---- (T) translator ----------------------------------------------------------------------------
    src = os.path.join(REPO, "cherab", "core", "atomic", "elements.pyx")
    stmts = None
    try:
        stmts, tinfo = translate(src)
        ctx.obligation("translator: elements.pyx -> %d definitions" % len(stmts), "translator", True, str(tinfo))
    except TranslateError as e:
        ctx.obligation("translator: elements.pyx", "translator", False, str(e))
        ctx.log("translator failed:", e)

    # ---- (T2) shape of the class bodies: __hash__, __richcmp__, __init__, builders, lookup keys -> Gen/C19/Shape.v --------
    p_shape = None
    try:
        shape_defs = c19_shape.translate_shape(src, os.path.join(REPO, "cherab", "core", "atomic", "line.pyx"),
                                               os.path.join(REPO, "cherab", "openadas", "repository", "utility.py"))
        crow = commented_rows(src)
        allrows = sorted(set(crow + ([(s_["Z"], s_["name"], s_["symbol"]) for s_ in stmts if s_["kind"] == "element"] if stmts else [])))
        rows_txt = ("Open Scope string_scope.\nOpen Scope Z_scope.\n(* every (Z, name, symbol) the source mentions, defined or commented out *)\n"
                    "Definition src_rows : list (Z * string * string) := [%s].\n" % "; ".join(
                        "(%s, %s, %s)" % (zlit(z), q(n), q(sy)) for z, n, sy in allrows) +
                    "Lemma source_rows_are_periodic_rows : forallb (fun row => let '(z, n, s) := row in existsb (fun pr => "
                    "let '(z', n', s') := pr in (Z.eqb z z' && String.eqb n n' && String.eqb s s')%bool) periodic_table) src_rows = true.\n"
                    "Proof. vm_compute. reflexivity. Qed.\nEval vm_compute in (Z.of_nat (List.length src_rows)).\n")
        p_shape = ctx.write_gen("Shape.v", HEADER + "Require Import Cherab.Model.C19_Shape.\n" + shape_defs
                                + c19_shape.TIE_LEMMAS + rows_txt)
        ctx.obligation("shape translator: bodies of __hash__/__richcmp__/__init__/builders/lookup keys of elements.pyx, line.pyx; "
                       "utility.py compared with the reference", "translator", True, shape_defs)
    except (c19_shape.ShapeError, TranslateError) as e:
        ctx.obligation("shape translator: class bodies of elements.pyx / line.pyx / utility.py", "translator", False, str(e))
        ctx.log("shape translator failed:", str(e)[:300])

    def finish_shape(ok, out):
        n_rows = parse_evals(out)[-1] if ok and parse_evals(out) else "?"
        ctx.obligation("Gen/C19/Shape.v: 17 tie lemmas (source bodies interpreted = model functions, for all arguments; "
                       "%s source rows, commented ones included, are rows of the model's periodic table)" % n_rows, "tie", ok, out[-1500:])
        ctx.log("shape tie: %s" % ("ok" if ok else "FAILED " + out[-400:]))
        return ok

    impl = Impl()
    ctx.log("imported module: %d elements, %d isotopes" % (len(impl.elements), len(impl.isotopes)))
    # the executable property on the pristine module (before any history has been driven through it)
    fails_first = search_property(impl, rng, rows, alts, thorough=not quick)

    tie_ok = False
    diff_meta = []
    n_cases = n_distinct = n_err = 0
    dist = {}
    samples = []
    if stmts is not None:
        table = (HEADER + "Open Scope string_scope.\n(* generated from %s by harness/c19_translate.py *)\n"
                 "Definition table : list stmt := [\n  " % src + ";\n  ".join(stmt_lit(s) for s in stmts) + "].\n")
        p_table = ctx.write_gen("Table.v", table)
        state = (HEADER + "Require Import Cherab.Gen.C19.Table.\n"
                 "Definition en : env := Eval vm_compute in (match exec table [] with Some e => e | None => [] end).\n"
                 "Definition rg : registry := Eval vm_compute in (registry_of_env en).\n"
                 "Definition ixe : index element := Eval vm_compute in (element_index rg).\n"
                 "Definition ixi : index isotope := Eval vm_compute in (isotope_index rg).\n"
                 )
        state2 = ("(* the builders run a second time on top of the existing dictionaries *)\n"
                  "Definition ixe2 : index element := Eval vm_compute in (fold_left (add_keys element_keys) (elements rg) ixe).\n"
                  "Definition ixi2 : index isotope := Eval vm_compute in (fold_left (add_keys isotope_keys) (isotopes rg) ixi).\n")
        p_state = ctx.write_gen("State.v", state)
        tie = (HEADER + "Require Import Cherab.Gen.C19.Table Cherab.Gen.C19.State Cherab.Properties.C19.\n"
               "Eval vm_compute in (match load table with Some _ => 1%Z | None => 0%Z end :: "
               "Z.of_nat (List.length (elements rg)) :: Z.of_nat (List.length (isotopes rg)) :: "
               "map (fun b : bool => if b then 1%Z else 0%Z) (wf_clauses rg)).\n"
               "Eval vm_compute in (wf_offenders rg).\n"
               "Lemma table_loads : load table = Some rg. Proof. vm_compute. reflexivity. Qed.\n"
               "Lemma table_ok : wf rg = true. Proof. vm_compute. reflexivity. Qed.\n"
               "Lemma table_program_ok : wf_program table = true. Proof. unfold wf_program. rewrite table_loads. exact table_ok. Qed.\n"
               "Definition tie_element_lookup := C19_element_lookup_by_every_identifier rg table_ok.\n"
               "Definition tie_isotope_lookup := C19_isotope_lookup_by_every_identifier rg table_ok.\n"
               "Definition tie_unique := C19_names_and_symbols_unique rg table_ok.\n"
               "Definition tie_periodic := C19_atomic_numbers_match_periodic_table rg table_ok.\n"
               "Definition tie_isotopes := C19_isotopes_consistent rg table_ok.\n"
               "Definition tie_eq_hash := C19_eq_hash_agree rg table_ok.\n"
               "Definition tie_lines := C19_line_eq_hash_agree rg table_ok.\n"
               "Definition tie_species_dict := C19_species_work_as_dict_keys rg table_ok.\n"
               "Definition tie_line_dict := C19_lines_work_as_dict_keys rg table_ok.\n"
               "Print Assumptions tie_isotope_lookup.\n")
        p_tie = ctx.write_gen("Tie.v", tie)
        p_weights = ctx.write_gen("Weights.v", HEADER + "Require Import Cherab.Model.C19_Weights Cherab.Gen.C19.Table.\n"
                                  "(* weight expressions of the source text (literals as exact rationals) and the doubles of Table.v *)\n"
                                  "Definition src_weights : list (wexpr * Q) := [\n  "
                                  + ";\n  ".join("(%s, %s)" % (s_["w_expr"], qlit(s_["w"])) for s_ in stmts) + "].\n"
                                  "Lemma weights_are_rounded_source_text : weights_ok src_weights table = true.\n"
                                  "Proof. vm_compute. reflexivity. Qed.\n")
        t0 = time.time()
        ok_t, out_t = coqc(p_table, timeout=300)
        ctx.obligation("Gen/C19/Table.v compiles (%d definitions)" % len(stmts), "tie", ok_t, out_t)
        ok_s, out_s = coqc(p_state, timeout=300) if ok_t else (False, "Table.v failed")
        ctx.obligation("Gen/C19/State.v: the model executes the translated module body", "tie", ok_s, out_s)

        def finish_tie(ok_tie, out_tie):
            vals = parse_evals(out_tie)
            clause = parse_zlist(vals[0]) if vals and vals[0].startswith("[") else []
            names = ["module body loads", "#elements", "#isotopes", "names pairwise different", "element index keys disjoint",
                     "isotope index keys disjoint", "elements are rows of the periodic table", "isotopes consistent"]
            detail = ", ".join("%s=%s" % (n, v) for n, v in zip(names, clause)) + ("; offenders: " + vals[1].split("]")[0] + "]" if len(vals) > 1 else "")
            closed = "Closed under the global context" in out_tie
            good = ok_tie and closed
            ctx.obligation("Gen/C19/Tie.v: load table = Some rg, wf rg = true (vm_compute, kernel-checked), theorems instantiated",
                           "tie", good, detail + ("\n" + out_tie[-1500:] if not good else ""))
            ctx.log("tie: %s %s" % ("ok" if good else "FAILED", detail))
            return good

        # ---- (X) correspondence (Tie.v is compiled in the same parallel batch) ---------------------------
        if ok_s:
            cases, meta = build_cases(ctx, impl, stmts, rows, rng, quick, dist)
            n_cases = len(cases)
            n_distinct = len({cases[i] for i in range(n_cases) if not meta[i]["kind"].startswith("trivial:")})
            n_err = sum(1 for i in range(n_cases) if " EErr" in cases[i] or meta[i]["kind"].endswith("rejected"))
            heavy = [i for i in range(n_cases) if meta[i]["kind"] == "dict_history"]
            light = [i for i in range(n_cases) if meta[i]["kind"] != "dict_history" and "ixe2" not in cases[i]]
            late = [i for i in range(n_cases) if "ixe2" in cases[i]]
            per = 800 if quick else 500      # (cases cost 1-3 ms each; loading the libraries costs ~1 s per file)
            groups = ([[i] for i in heavy] + [late[k:k + per] for k in range(0, len(late), per)]
                      + [light[k:k + per] for k in range(0, len(light), per)])
            files = []
            for gi, ids in enumerate(groups):
                txt = (HEADER + "Require Import Cherab.Gen.C19.State.\nOpen Scope string_scope.\nOpen Scope Z_scope.\n"
                       + (state2 if ids and "ixe2" in cases[ids[0]] else "") +
                       "Definition results : list bool := [\n  " + ";\n  ".join(cases[i] for i in ids) + "].\n"
                       "Eval vm_compute in (failing results).\n")
                files.append((ctx.write_gen("cases_%03d.v" % gi, txt), ids))
            p_out = ctx.write_gen("outside.v", HEADER + "Require Import Cherab.Gen.C19.State.\nOpen Scope string_scope.\nOpen Scope Z_scope.\n"
                                  "Definition outs : list bool := [\n  " + ";\n  ".join(ctx.c19_outside) + "].\n"
                                  "Eval vm_compute in (Z.of_nat (List.length (filter (fun b => b) outs))).\n")
            res = coqc_many([p_tie, p_weights] + ([p_shape] if p_shape else []) + [p_out] + [f for f, _ in files], timeout=900)
            ok_w, out_w = res[p_weights]
            ctx.obligation("Gen/C19/Weights.v: every weight of the table is the binary64 round-to-nearest-even evaluation of its "
                           "source expression (literals and operations rounded one by one) and within 2^-51 of the exact value",
                           "tie", ok_w, out_w[-1200:])
            tie_ok_w = ok_w
            v_out = parse_evals(res[p_out][1]) if res[p_out][0] else []
            dist["init_policy:model_makes_no_prediction(Outside)"] = int(v_out[0]) if v_out else -1
            dist["init_policy:calls"] = len(ctx.c19_outside)
            tie_ok = finish_tie(*res[p_tie]) and tie_ok_w
            if p_shape:
                tie_ok = finish_shape(*res[p_shape]) and tie_ok
                p_shape = None
            for f, ids in files:
                ok, out = res[f]
                vals = parse_evals(out) if ok else []
                good = ok and len(vals) == 1
                failing = parse_zlist(vals[0]) if good else []
                kinds = sorted({meta[i]["kind"].split(":")[0] for i in ids})
                ctx.obligation("correspondence %s (%d cases: %s)" % (os.path.basename(f), len(ids), ",".join(kinds)),
                               "correspondence", good and not failing,
                               out if not good else "DIFF at local indices %s: %s" % (failing, [meta[ids[i]] for i in failing[:3]]))
                if not good:
                    ctx.broken.append("coqc failed on %s: %s" % (f, out[-500:]))
                diff_meta += [meta[ids[i]] for i in failing]
            ctx.log("correspondence: %d cases in %d files, %d disagree (%.1fs with the tie)"
                    % (n_cases, len(files), len(diff_meta), time.time() - t0))
            samples = [meta[light[0]], meta[light[len(light) // 2]], meta[light[-1]]]
        else:
            ctx.obligation("Gen/C19/Tie.v: load table = Some rg, wf rg = true", "tie", False, "State.v / Table.v failed")

    if p_shape:          # the table translator failed, the shape tie is still checked
        finish_shape(*coqc(p_shape, timeout=300))
    # ---- failing-input search: always run (cheap); decisive when something above broke --------------
    t0 = time.time()
    # ... and again on the same live module after the histories of the correspondence (thousands of lookups, dicts, a second
    # run of the index builders); a failure that shows up only now is keyed "after-history:"
    fails = list(fails_first)
    first_keys = {f["key"] for f in fails_first}
    for f in search_property(impl, rng, rows, alts, thorough=not quick):
        if f["key"] not in first_keys:
            fails.append(dict(f, key="after-history:" + f["key"], claim="after the lookups, dict histories and a second run of the "
                                                                        "index builders: " + f["claim"]))
    ctx.obligation("executable property on the implementation (%d elements, %d isotopes, all pairs)"
                   % (len(impl.elements), len(impl.isotopes)), "search", not fails, str(fails[:3]))
    ctx.log("search: %d failures (%.1fs)" % (len(fails), time.time() - t0))
    if ctx.replay:
        want = json.load(open(ctx.replay)).get("key", "")
        hit = [f for f in fails if "c19:" + f["key"] == want]
        ctx.log("replay %s: key %s %s" % (ctx.replay, want, "FAILS AGAIN: %s" % hit[0]["claim"] if hit else "no longer fails"))
    seen_keys = set()
    for f in fails:
        if f["key"] in seen_keys or len(seen_keys) >= 6:
            continue
        seen_keys.add(f["key"])
        ctx.violation("c19:" + f["key"], f["claim"], f, found=True)
    if not fails:
        if diff_meta:
            for m in diff_meta[:3]:
                ctx.violation("c19-diff:%s" % m["kind"],
                              "model and implementation disagree on a %s case (%s); the executable property found no failing input"
                              % (m["kind"], m.get("call", "")), {"case": m, "correspondence": "coq/Gen/C19/cases_*.v"}, found=False)
        elif stmts is not None and not tie_ok:
            ctx.violation("c19-tie", "wf no longer holds of the registry translated from elements.pyx (or the tie does not compile); "
                          "the executable property found no failing input", {"tie": "coq/Gen/C19/Tie.v"}, found=False)

    ctx.coverage.update({
        "evaluations": n_cases,
        "distinct_nontrivial": n_distinct,
        "expected_error_cases": n_err,
        "rule": "one case = one call of the implementation (a lookup, a comparison of two objects, a Line constructor, one dict "
                "scenario, one exported object) compared exactly with the model evaluated by Coq; trivial = comparison of an "
                "object with itself; the table tie (Tie.v) and the search enumerate ALL exported objects and all pairs",
        "distribution": dist,
        "registry": {"elements": len(impl.elements), "isotopes": len(impl.isotopes),
                     "definitions_translated": len(stmts) if stmts is not None else None},
        "tolerance": {"all discrete outputs": "exact", "weights": "bit for bit (exact rational of the double) between table and module; the table's double is "
                      "EXACTLY the round-to-nearest-even replay of the source expression (Gen/C19/Weights.v), and within 2^-51 relative of the "
                      "exact value of the text (bound (1+2^-53)^5 - 1 for <= 3 literals and 2 operations; measured maximum 2.2e-16)"},
        "partial": [],
        "compared_in_coq": {
            "Gen/C19/Tie.v": "load table = Some rg; wf rg = true (5 clauses, all species); every wf-dependent theorem instantiated with rg",
            "Gen/C19/Weights.v": "all 374 weights: double in the table == binary64 RNE replay of the source expression (exact); "
                                 "|double - exact text value| <= 2^-51 relative",
            "Gen/C19/Shape.v": "17 lemmas by reflexivity, for all arguments: hash tuples, ==/!= chains (Element, Isotope, Line), index key "
                               "expressions of both builders, the three lookup key expressions, constructor signatures and bodies "
                               "(incl. super().__init__ arguments) as translated from the current source = the model's functions; control flow, "
                               "guards, type tests, __repr__, utility.py compared statement by statement with the reference text; every "
                               "(Z, name, symbol) in the source, commented-out rows included, is a row of the model's periodic table",
            "cases_*.v": "exact comparison of: exported fields (weights bit for bit), returned object of every lookup, ==, !=, hash equality, "
                         "Line construction / ==, !=, hash equality, repr, encode_transition, valid_charge, every step of a dict history, "
                         "object built or exception kind (ValueError / TypeError / OverflowError / AttributeError) for every constructor "
                         "and helper argument form",
            "tolerances": "none: every comparison is exact (doubles as exact rationals)"},
        "search": {"failures": len(fails), "pairs_compared": len(impl.exports) * (len(impl.exports) - 1) // 2},
    })
    ctx.coverage["samples"] = samples
    if not quick:
        p = subprocess.run(["coqchk", "-silent", "-o", "-Q", COQ, "Cherab", "Cherab.Properties.C19"], cwd=COQ,
                           stdout=subprocess.PIPE, stderr=subprocess.STDOUT, text=True, timeout=1800)
        ctx.obligation("coqchk -o Cherab.Properties.C19", "coqchk", p.returncode == 0, p.stdout[-1500:])
    ctx.grep_gate()


# ---------------------------------------------------------------------------------------------
# correspondence cases
# ---------------------------------------------------------------------------------------------
def build_cases(ctx, impl, stmts, rows, rng, quick, dist):
    mod = impl.mod
    cases, meta = [], []

    def add(kind, text, **m):
        cases.append(text)
        meta.append(dict(m, kind=kind))
        dist[kind] = dist.get(kind, 0) + 1

    extra = 1 if quick else 5
    wdec = {}
    for s in stmts:
        wdec[s["attr"]] = s["w_exact"]

    # -- exported objects, field by field --------------------------------------------------------------
    add("export_count", "check_export_count en rg %s %s" % (zlit(len(impl.elements)), zlit(len(impl.isotopes))),
        call="dir(module)")
    add("periodic_table", "check_periodic_table [%s]" % "; ".join("(%s, %s, %s)" % (zlit(z), q(n), q(s)) for z, n, s in rows),
        call="periodic table used by the search == the model's")
    for attr, o in impl.exports:
        wd = wdec.get(attr, o.atomic_weight)
        if type(o) is impl.Element:
            add("export_element", "check_export en (XElement %s %s %s %s %s %s)" % (
                q(attr), q(o.name), q(o.symbol), zlit(o.atomic_number), qlit(o.atomic_weight), qlit(wd)), call=attr)
        else:
            add("export_isotope", "check_export en (XIsotope %s %s %s %s %s %s %s %s)" % (
                q(attr), q(o.name), q(o.symbol), q(impl.attr_of.get(id(o.element), "<element not exported>")),
                zlit(o.atomic_number), zlit(o.mass_number), qlit(o.atomic_weight), qlit(wd)), call=attr)

    # -- lookups ------------------------------------------------------------------------------------------
    import numpy as np
    ix = {"e": "ixe", "i": "ixi"}          # which model indices the cases use (ixe2/ixi2 after the builders ran again)
    replayable = []                        # (fn, a, number, arg_obj, style) of every lookup: re-run later on the same live module

    def le(kind, a, arg_obj=None, record=True):
        v = a if arg_obj is None else arg_obj
        ex, shown = impl.expect(mod.lookup_element, arg_obj, v)
        add(kind, "check_lookup_element en %s %s %s" % (ix["e"], arg_lit(a), ex), call="lookup_element(%r)" % (a,), got=shown)
        if record:
            replayable.append(("e", a, None, arg_obj, "pos"))

    def li(kind, a, number, arg_obj=None, style=None, record=True):
        v = a if arg_obj is None else arg_obj
        style = style or rng.choice(["kw", "pos"] + (["omit"] if number is None else []))
        if style == "omit":
            ex, shown = impl.expect(mod.lookup_isotope, arg_obj, v)
        elif style == "pos":
            ex, shown = impl.expect(mod.lookup_isotope, arg_obj, v, number)
        else:
            ex, shown = impl.expect(mod.lookup_isotope, arg_obj, v, number=number)
        add(kind, "check_lookup_isotope en %s %s %s %s %s" % (ix["e"], ix["i"], arg_lit(a), num_lit(number), ex),
            call="lookup_isotope(%r, %s%r)" % (a, {"kw": "number=", "pos": "", "omit": "<omitted> "}[style], number), got=shown)
        if record:
            replayable.append(("i", a, number, arg_obj, style))

    for path in sorted(glob.glob(os.path.join(VERIF, "corpus", "C19", "*.json"))):
        for c in json.load(open(path)).get("cases", []):
            if c["fn"] == "lookup_element":
                le("corpus:lookup_element", c["arg"])
            else:
                li("corpus:lookup_isotope", c["arg"], c.get("number"))
    for attr, e in impl.elements:
        for ident, what in ((e.name, "name"), (e.symbol, "symbol"), (str(e.atomic_number), "numstr")):
            for s in variants(ident, rng, extra):
                le("lookup_element:" + what, s)
        le("lookup_element:int", e.atomic_number)
        le("lookup_element:object", ("attr", attr), arg_obj=e)
        # near misses
        le("lookup_element:miss", rng.choice([" " + e.name, e.symbol + " ", e.name[:-1], e.name + "x", e.symbol + "1"]))
    for attr, i in impl.isotopes:
        el, a = i.element, i.mass_number
        idents = ((i.name, "name"), (i.symbol, "symbol"), (el.symbol + str(a), "elsym+A"), (el.name + str(a), "elname+A"))
        for ident, what in idents:
            vs = variants(ident, rng, extra)
            if quick:
                vs = vs[:1] + rng.sample(vs[1:], min(1, len(vs) - 1))
            for s in vs:
                li("lookup_isotope:" + what, s, None)
        el_attr = impl.attr_of.get(id(el))
        forms = [(rng.choice(variants(el.name, rng, extra)), None), (rng.choice(variants(el.symbol, rng, extra)), None),
                 (el.atomic_number, None), (str(el.atomic_number), None)]
        if el_attr is not None:
            forms.append((("attr", el_attr), el))
        for v, ob in (rng.sample(forms, 2) if quick else forms):
            li("lookup_isotope:element+A", v, a, arg_obj=ob)
        if not quick or rng.random() < 0.5:
            li("lookup_isotope:object", ("attr", attr), rng.choice([None, a, 0]), arg_obj=i)
        # near misses: wrong mass number, number 0 (falsy: the element string alone is looked up), element lookups of isotope keys
        li("lookup_isotope:miss", rng.choice([el.symbol, el.name]), rng.choice([a + 1, a - 1, 0, 999]))
        if not quick or rng.random() < 0.3:
            li("lookup_isotope:miss", rng.choice([i.symbol + " ", " " + i.name, i.name + "0", el.symbol + "-" + str(a)]), None)
        le("lookup_element:isotope-key", rng.choice([i.symbol, i.name, el.symbol + str(a)]))
        if rng.random() < 0.3:
            le("lookup_element:isotope-object", ("attr", attr), arg_obj=i)
            if el_attr is not None:
                li("lookup_isotope:element-object-no-number", ("attr", el_attr), rng.choice([None, 0]), arg_obj=el)
    defined = {e.atomic_number for _, e in impl.elements}
    for z in list(range(-2, 125)):
        if z not in defined or rng.random() < 0.1:
            le("lookup_element:number-sweep", z)
            le("lookup_element:number-sweep", rng.choice([str(z), "0" + str(z), str(z) + ".0", "+" + str(z)]))
    for s in ["", " ", "none", "None", "<element: hydrogen>", "<Element: hydrogen>", "<Isotope: deuterium>", "h-2", "H_2"]:
        le("lookup_element:odd", s)
        li("lookup_isotope:odd", s, None)
        li("lookup_isotope:odd", s, 2)

    # -- unusual but valid argument forms (numpy scalars, bool, float, Decimal, bytes, None, containers, subclass
    #    instances): the unchanged code looks at str(v) only; a rejection is recorded as the expected outcome ------
    class PyElement(impl.Element):       # an instance of a Python subclass is not `type(v) is Element`
        pass

    def odd_element_forms(e):
        z = e.atomic_number
        return [np.int64(z), np.int32(z), np.uint8(z), float(z), np.float64(z), np.float32(z), decimal.Decimal(z),
                fractions.Fraction(z), np.str_(e.symbol), np.str_(e.name.upper()), e.symbol.encode(), (z,), [z], {z},
                bool(z == 1), None, complex(z), PyElement(e.name, e.symbol, z, e.atomic_weight)]

    def odd_numbers(a):
        return [np.int64(a), np.int32(a), np.uint16(a), str(a), " " + str(a), str(a) + " ", "0" + str(a), float(a),
                np.float64(a), decimal.Decimal(a), fractions.Fraction(a), True, False, "", "0", [], [a], (a,), -a, 0.0, -0.0, np.int64(0)]

    sel_e = impl.elements if not quick else rng.sample(impl.elements, 25)
    for attr, e in sel_e:
        forms = odd_element_forms(e)
        for v in (forms if not quick else rng.sample(forms, 6)):
            le("form:lookup_element:" + type(v).__name__, v)
    sel_i = impl.isotopes if not quick else rng.sample(impl.isotopes, 40)
    for attr, i in sel_i:
        el, a = i.element, i.mass_number
        nums = odd_numbers(a)
        for n in (nums if not quick else rng.sample(nums, 5)):
            v = rng.choice([el.symbol, el.name.upper(), el.atomic_number, np.int64(el.atomic_number), np.str_(el.symbol), el])
            if v is el and id(el) not in impl.attr_of:
                continue
            if v is el:
                li("form:lookup_isotope:number=" + type(n).__name__, ("attr", impl.attr_of[id(el)]), n, arg_obj=el)
            else:
                li("form:lookup_isotope:number=" + type(n).__name__, v, n)
        for v in rng.sample(odd_element_forms(el), 3):
            li("form:lookup_isotope:element=" + type(v).__name__, v, a)
            li("form:lookup_isotope:element=" + type(v).__name__, v, None)
    # -- objects that pass the `type(v) is ...` shortcut without being registry members -------------------------------
    for attr, i in (impl.isotopes if not quick else rng.sample(impl.isotopes, 40)):
        el, a = i.element, i.mass_number
        if id(el) not in impl.attr_of:
            continue
        fe = ("elem", "not-" + el.name, el.symbol, el.atomic_number + 100, 1.0)          # a foreign Element carrying a registry symbol
        fi = ("iso", "not-" + i.name, i.symbol, impl.attr_of[id(el)], a, float(a))
        le("fresh-object:lookup_element(element)", fe, arg_obj=impl.build(fe))
        le("fresh-object:lookup_element(isotope)", fi, arg_obj=impl.build(fi))
        li("fresh-object:lookup_isotope(isotope)", fi, rng.choice([None, a, 0]), arg_obj=impl.build(fi))
        li("fresh-object:lookup_isotope(element,A)", fe, a, arg_obj=impl.build(fe))
        li("fresh-object:lookup_isotope(element)", fe, None, arg_obj=impl.build(fe))
        fu = ("elem", el.name, el.symbol + "q", el.atomic_number, el.atomic_weight)      # unknown symbol
        li("fresh-object:lookup_isotope(unknown-symbol,A)", fu, a, arg_obj=impl.build(fu))
    # -- the same argument driven across the `if number:` guard and back (truthy -> falsy -> truthy) ----------------------
    for attr, i in (impl.isotopes if not quick else rng.sample(impl.isotopes, 20)):
        el, a = i.element, i.mass_number
        v = rng.choice([el.symbol, el.name, i.symbol, i.name, el.atomic_number])
        for n in [a, 0, None, a, "", a + 1, False, np.int64(a), -0.0, a]:
            li("guard-sequence:number", v, n)
    # -- repr / str of exported and fresh objects (what lookup_* sees of an object it does not recognise) -----------------
    for attr, o in (impl.exports if not quick else rng.sample(impl.exports, 60)):
        add("repr", "check_repr en %s %s" % (sref(("attr", attr)), q(repr(o))), call="repr(%s)" % attr, got=repr(o))
        c = impl.ref_fields(attr, o)
        add("repr", "check_repr en %s %s" % (sref(c), q(str(impl.build(c)))), call="str(copy of %s)" % attr, got=str(impl.build(c)))

    # -- == / != / hash ----------------------------------------------------------------------------------------
    def eq(kind, ra, rb):
        a, b = impl.build(ra), impl.build(rb)
        if ra == rb and ra[0] == "attr":
            b = a
        e, n, h = (a == b), (a != b), (hash(a) == hash(b))
        if not (isinstance(e, bool) and isinstance(n, bool)):
            e, n = bool(e), bool(n)
        add(kind, "check_eq en %s %s %s %s %s" % (sref(ra), sref(rb), boolc(e), boolc(n), boolc(h)),
            call="%r ==/!=/hash %r" % (ra, rb), got=(e, n, h))

    def mutate(ref, which):
        r = list(ref)
        if which == "name":
            r[1] = r[1] + "x"
        elif which == "case":
            r[1] = r[1].upper()
        elif which == "symbol":
            r[2] = r[2] + "x"
        elif which == "weight-ulp":
            r[-1] = math.nextafter(r[-1], math.inf)
        elif which == "weight":
            r[-1] = r[-1] + 0.5
        elif which == "Z/A":
            r[3 if r[0] == "elem" else 4] += 1
        elif which == "element":
            others = [n for n, _ in impl.elements if n != r[3]]
            r[3] = rng.choice(others)
        return tuple(r)

    names = [n for n, _ in impl.exports]
    for attr, o in impl.exports:
        if not quick or rng.random() < 0.25:
            eq("trivial:eq_self", ("attr", attr), ("attr", attr))
        copy = impl.ref_fields(attr, o)
        if copy[0] == "iso" and copy[3].startswith("<"):
            continue
        eq("eq_copy", ("attr", attr), copy)
        if copy[0] == "iso":
            deep = impl.deep_copy_ref(attr, o)
            eq("eq_copy_rebuilt_element", ("attr", attr), deep)
            eq("eq_copy_rebuilt_element", deep, copy)
            e_ = o.element
            emut = ("elem", e_.name, e_.symbol, e_.atomic_number, math.nextafter(e_.atomic_weight, 0.0))
            eq("eq_mutant:element-weight-ulp", ("attr", attr), deep[:3] + (emut,) + deep[4:])
        if not quick or rng.random() < 0.3:
            eq("eq_copy_rev", copy, ("attr", attr))
        muts = ["name", "case", "symbol", "weight-ulp", "weight", "Z/A"] + (["element"] if copy[0] == "iso" else [])
        for which in (rng.sample(muts, 2) if quick else muts):
            m = mutate(copy, which)
            eq("eq_mutant:" + which, ("attr", attr), m)
            eq("eq_mutant_of_copy:" + which, m, copy)
        if copy[0] == "iso":
            # the isotope against its own element, and against an Element with the isotope's four base fields
            base = ("elem", o.name, o.symbol, o.atomic_number, o.atomic_weight)
            both = not quick
            side = rng.random() < 0.5
            if both or side:
                eq("eq_isotope_vs_element", ("attr", attr), ("attr", copy[3]))
                eq("eq_cross_class_same_fields", base, ("attr", attr))
            if both or not side:
                eq("eq_element_vs_isotope", ("attr", copy[3]), ("attr", attr))
                eq("eq_cross_class_same_fields", ("attr", attr), base)
    if quick:
        for _ in range(400):
            a, b = rng.choice(names), rng.choice(names)
            eq("eq_random_pair", ("attr", a), ("attr", b))
    else:
        for a in names:                      # every ordered pair of exported objects
            for b in names:
                eq("eq_all_pairs" if a != b else "trivial:eq_self", ("attr", a), ("attr", b))

    # -- copies made through the other entry points (pickle, copy.copy, copy.deepcopy) ------------------------------------
    for attr, o in (impl.exports if not quick else rng.sample(impl.exports, 50)):
        if type(o) is impl.Isotope and id(o.element) not in impl.attr_of:
            continue
        src = ("attr", attr)
        for how, struct in (("pickle", impl.deep_copy_ref(attr, o)), ("deepcopy", impl.deep_copy_ref(attr, o)),
                            ("copy", impl.ref_fields(attr, o))):
            r = (how, struct, src)
            eq("eq_stdlib_copy:" + how, src, r)
            if not quick or rng.random() < 0.3:
                eq("eq_stdlib_copy:" + how, r, struct)
    # -- boundary values of the weight comparison (exact float ==): one ulp either side, +-0.0, subnormal, huge,
    #    powers of two apart; boundary atomic numbers (0, 1, 2, INT_MAX) --------------------------------------------------
    for attr, o in (impl.exports if not quick else rng.sample(impl.exports, 40)):
        c = impl.ref_fields(attr, o)
        if c[0] == "iso" and c[3].startswith("<"):
            continue
        w = c[-1]
        ws = [math.nextafter(w, math.inf), math.nextafter(w, -math.inf), w * 2.0, w / 2.0, w * 2.0 ** 52, w * 2.0 ** -52,
              w * 2.0 ** 900, w * 2.0 ** -1000, 0.0, -0.0, 5e-324, -5e-324, 2.2250738585072014e-308, 1.7976931348623157e308, -w,
              float(round(w)), float(np.float32(w))]
        for w2 in (ws if not quick else rng.sample(ws, 4)):
            m = c[:-1] + (w2,)
            eq("eq_boundary_weight", ("attr", attr), m)
            eq("eq_boundary_weight", m, c[:-1] + (rng.choice(ws),))
    for z in (0, 1, 2, -1, 2 ** 31 - 1, -2 ** 31 + 1):
        for w in (0.0, -0.0, 1.0):
            a_, b_ = ("elem", "x", "X", z, w), ("elem", "x", "X", rng.choice([z, z + 1 if z < 2 ** 31 - 1 else z - 1]), rng.choice([0.0, -0.0, 1.0]))
            eq("eq_boundary_Z", a_, b_)

    # -- lines ----------------------------------------------------------------------------------------------------
    trans_pool = [(3, 2), (4, 2), (2, 3), ("2s1 3p1 3P4.0", "2s1 3s1 3S1.0"), ("2S1 3P1 3P4.0", "2s1 3s1 3S1.0"),
                  ("3", 2), (3, "2"), ("n=3", "n=2")]
    line_refs = []
    for attr, o in (rng.sample(impl.exports, min(len(impl.exports), 80)) if quick else impl.exports):
        zed = o.atomic_number
        for c in sorted({-1, 0, zed - 1, zed, rng.randint(0, max(0, zed - 1))}):
            t = rng.choice(trans_pool)
            l = (("attr", attr), c, t)
            try:
                impl.Line(o, c, t)
                built = True
            except ValueError:
                built = False
            add("line_new:" + ("ok" if built else "rejected"), "check_line_new en %s %s" % (lref(l), boolc(built)),
                call="Line(%s, %d, %r)" % (attr, c, t), got=built)
            if built:
                line_refs.append(l)
            vc = impl.utility.valid_charge(o, c)
            add("valid_charge", "check_valid_charge en %s %s %s" % (sref(("attr", attr)), zlit(c), boolc(vc)),
                call="valid_charge(%s, %d)" % (attr, c), got=vc)

    def leq(kind, la, lb):
        a = impl.Line(impl.build(la[0]), la[1], la[2])
        b = impl.Line(impl.build(lb[0]), lb[1], lb[2])
        e, n, h = bool(a == b), bool(a != b), hash(a) == hash(b)
        add(kind, "check_line_eq en %s %s %s %s %s" % (lref(la), lref(lb), boolc(e), boolc(n), boolc(h)),
            call="Line%r ==/!=/hash Line%r" % (la, lb), got=(e, n, h))

    for l in line_refs:
        leq("line_eq_same_args", l, l)
        ref, c, t = l
        o = impl.build(ref)
        choices = ["charge", "transition", "species", "copy-species"]
        which = rng.choice(choices)
        if which == "charge" and o.atomic_number >= 2:
            leq("line_eq_other_charge", l, (ref, (c + 1) % o.atomic_number, t))
        elif which == "transition":
            leq("line_eq_other_transition", l, (ref, c, rng.choice([x for x in trans_pool if x != t])))
        elif which == "species":
            other = rng.choice([n for n, x in impl.exports if x.atomic_number > c and n != ref[1]])
            leq("line_eq_other_species", l, (("attr", other), c, t))
        else:
            leq("line_eq_copied_species", l, (impl.ref_fields(ref[1], o), c, t))
    # transitions of length 0, 1, 3; bool / numpy / integral-float entries and charges (they equal the int); elements with
    # boundary atomic numbers (Z = 0: no charge state at all, Z = 1, Z = INT_MAX)
    odd_trans = [(), (3,), ("3d",), (3, 2, 1), ("a", "b", "c"), (True, 2), (np.int64(3), np.int32(2)), (3.0, 2.0), (np.str_("n=3"), "n=2"),
                 (3, 2)]
    sel = rng.sample(line_refs, min(len(line_refs), 40 if quick else 400))
    for ref, c, t in sel:
        o = impl.build(ref)
        t2 = rng.choice(odd_trans)
        c2 = rng.choice([c, bool(c) if c in (0, 1) else c, np.int64(c), np.int32(c)])
        a = impl.Line(o, c2, t2)
        b = impl.Line(o, c, tuple(canon(x) for x in t2))
        e, n, h = bool(a == b), bool(a != b), hash(a) == hash(b)
        add("line_forms", "check_line_eq en %s %s %s %s %s" % (lref((ref, c2, t2)), lref((ref, c, t2)), boolc(e), boolc(n), boolc(h)),
            call="Line(%r, %r, %r) vs plain ints" % (ref, c2, t2), got=(e, n, h))
        t3 = rng.choice(odd_trans)
        leq("line_eq_transition_lengths", (ref, c, tuple(canon(x) for x in t2)), (ref, c, tuple(canon(x) for x in t3)))
    for z in (0, 1, 2, 2 ** 31 - 1):
        fe = ("elem", "x", "X", z, 1.0)
        for c in sorted(c for c in {-1, 0, 1, z - 2, z - 1, z} if -2 ** 31 <= c < 2 ** 31):
            try:
                impl.Line(impl.build(fe), c, (3, 2))
                built = True
            except ValueError:
                built = False
            add("line_new:boundary_Z", "check_line_new en %s %s" % (lref((fe, c, (3, 2))), boolc(built)),
                call="Line(Element(Z=%d), %d, (3, 2))" % (z, c), got=built)
            vc = impl.utility.valid_charge(impl.build(fe), rng.choice([c, np.int64(c), float(c)]))
            add("valid_charge:boundary_Z", "check_valid_charge en %s %s %s" % (sref(fe), zlit(c), boolc(bool(vc))),
                call="valid_charge(Element(Z=%d), %d)" % (z, c), got=bool(vc))
    enc = [(t, tuple) for t in trans_pool] + [((rng.randint(1, 20), rng.randint(1, 20)), rng.choice([tuple, list])) for _ in range(10)]
    enc += [((9, 10), list), ((99, 100), tuple), ((100, 101), tuple), ((), tuple), ((3,), tuple), ((3, 2, 1), list), (("A", "b", "C"), tuple),
            ((True, False), tuple), ((3.0, 2.5), tuple), ((np.int64(3), np.str_("N=2")), list), ((None, 2), tuple), ("ab", str), ("abc", str)]
    for t, ctor in enc:
        arg = ctor(t) if ctor is not str else t
        try:
            got = impl.utility.encode_transition(arg)
        except ValueError:
            got = None
        # entries that are neither int nor str enter the model through their str() (the code only formats str(entry))
        ent = [x if type(x) in (int, str) else str(x) for x in t]
        add("encode_transition" + ("" if got is not None else ":rejected"),
            "check_encode_transition [%s] %s" % ("; ".join("(TInt %s)" % zlit(x) if type(x) is int else "(TStr %s)" % q(x) for x in ent),
                                                 "None" if got is None else "(Some %s)" % q(got)),
            call="encode_transition(%r)" % (arg,), got=got)

    # -- argument-validation policy of the constructors and helpers (Model/C19_Args.v): every argument position is fed
    #    values of every kind; the model predicts the object that is built or the kind of exception -------------------------
    EXC = {ValueError: "ExcValue", TypeError: "ExcType", OverflowError: "ExcOverflow", AttributeError: "ExcAttribute"}

    def pv(x):
        """Python value -> (parg literal); species are passed by reference tuples ('attr', ..) / ('elem', ..)"""
        if isinstance(x, tuple) and x and x[0] in ("attr", "elem", "iso"):
            return "(PRef %s)" % sref(x)
        if type(x) is str:
            return "(PA (PStr %s))" % q(x)
        if isinstance(x, str):
            return "(PA (PStrSub %s))" % q(str(x))
        if type(x) is bool or isinstance(x, np.bool_):
            return "(PA (PBool %s))" % boolc(bool(x))
        if isinstance(x, (int, np.integer)):
            return "(PA (PInt %s))" % zlit(int(x))
        if isinstance(x, (float, np.floating)):
            f = float(x)
            return "(PA PNan)" if f != f else ("(PA PInf)" if f in (math.inf, -math.inf) else "(PA (PFloat %s))" % qlit(f))
        if x is None:
            return "(PA PNone)"
        if type(x) is tuple and all(type(t) in (int, str) for t in x):
            return "(PA (PTuple %s))" % tlist(x)
        if type(x) is list and all(type(t) in (int, str) for t in x):
            return "(PA (PList %s))" % tlist(x)
        return "(PA POther)"

    def real(x):
        return impl.build(x) if isinstance(x, tuple) and x and x[0] in ("attr", "elem", "iso") else x

    el_refs = [("attr", n) for n, _ in rng.sample(impl.elements, 6)]
    iso_refs = [("attr", n) for n, _ in rng.sample(impl.isotopes, 4)]
    pools = {
        "str": ["x", "Xy", "", np.str_("x"), 5, b"x", 1.5, ["x"], ("x",)],
        "int": [0, 1, 3, True, False, 2.9, -2.9, -0.0, 0.5, np.int64(7), np.int32(-4), np.float64(2.5), np.float32(7.75), None, "3",
                2 ** 31 - 1, 2 ** 31, -2 ** 31 + 1, -2 ** 31 - 1, 2 ** 64, 1e30, -1e30, math.inf, -math.inf, math.nan, b"1", (1,), [1]],
        "double": [0, 1, True, 2.5, -0.0, np.float32(1.5), np.int64(3), None, "1.0", 2 ** 1024, -2 ** 1030, 2 ** 53 - 1, -(2 ** 52), 5e-324, [1.0]],
        "element": el_refs + [("elem", "x", "X", 5, 1.0), "h", 1, 2.5, ("h",)],
        "tuple": [(3, 2), (), ("a", "b"), (1, 2, 3), [3, 2], "ab", 5, 2.5],
    }
    good = {"str": ["x", "Sy"], "int": [3, 1, 0], "double": [2.5, 1], "element": el_refs, "tuple": [(3, 2), ("a", "b")]}
    sigs = {0: ("Element", impl.Element, ["str", "str", "int", "double"]),
            1: ("Isotope", impl.Isotope, ["str", "str", "element", "int", "double"]),
            2: ("Line", impl.Line, ["element", "int", "tuple"])}

    def init_case(cls, args):
        cname, ctor, _ = sigs[cls]
        nested = (cls == 1 and len(args) == 5 and isinstance(args[2], tuple) and args[2] and args[2][0] == "attr"
                  and type(real(args[2])) is impl.Isotope)
        mcls = 3 if nested else cls                  # an Isotope built on an Isotope: separate constructor model
        try:
            o = ctor(*[real(a) for a in args])
        except tuple(EXC) as e:
            got, shown = "(BRaise %s)" % EXC[type(e)], type(e).__name__
        else:
            def find(obj):
                for a in args:
                    if isinstance(a, tuple) and a and a[0] in ("attr", "elem", "iso") and (real(a) is obj if a[0] == "attr" else real(a) == obj):
                        return a
                return None
            if cls == 0:
                got = "(BElement %s %s %s %s)" % (q(o.name), q(o.symbol), zlit(o.atomic_number), qlit(o.atomic_weight))
            elif nested:
                got = "(BNested %s %s %s %s %s %s)" % (q(o.name), q(o.symbol), zlit(o.atomic_number), qlit(o.atomic_weight),
                                                       zlit(o.mass_number), sref(args[2]) if o.element is real(args[2]) else "(RAttr \"<?>\")")
            elif cls == 1:
                er = find(o.element)
                got = "(BIsotope %s %s %s %s %s %s)" % (q(o.name), q(o.symbol), zlit(o.atomic_number), qlit(o.atomic_weight),
                                                        zlit(o.mass_number), sref(er) if er else "(RAttr \"<?>\")")
            else:
                er = find(o.element)
                got = "(BLine %s %s %s)" % (sref(er) if er else "(RAttr \"<?>\")", zlit(o.charge), tlist(o.transition))
            shown = repr(o)
        txt = "[%s]" % "; ".join(pv(a) for a in args)
        add("init_policy:" + cname + ("-on-Isotope" if nested else ""), "check_init en %s %s %s" % (zlit(mcls), txt, got), call="%s(%s)" % (cname, ", ".join(repr(a) for a in args)), got=shown)
        outside_exprs.append("init_outside en %s %s" % (zlit(mcls), txt))

    n_policy = 0
    outside_exprs = ctx.c19_outside = []
    for cls, (cname, ctor, sig) in sigs.items():
        for pos, kind in enumerate(sig):
            vals = pools[kind] + (iso_refs if kind == "element" else [])
            for v in (vals if not quick else rng.sample(vals, min(len(vals), 7))):
                args = [rng.choice(good[k]) for k in sig]
                args[pos] = v
                if cls == 2 and pos != 1:
                    args[1] = 0
                init_case(cls, args)
                n_policy += 1
        if cls == 1:                                   # an Isotope as the element of an Isotope (accepted: subclass instance)
            for ir in iso_refs:
                init_case(1, ["x", "Sy", ir, rng.choice([2, True, 3.7, np.int64(5)]), rng.choice([2.5, 1, np.float32(1.5)])])
                init_case(1, [rng.choice(pools["str"]), "Sy", ir, rng.choice(pools["int"]), rng.choice(pools["double"])])
        for _ in range(12 if quick else 150):          # two or three unusual arguments at once (order of the checks), wrong arity
            args = [rng.choice(pools[k] + good[k] * 3) for k in sig]
            r_ = rng.random()
            if r_ < 0.15:
                args = args[:-1]
            elif r_ < 0.3:
                args = args + [rng.choice([1, "x", None])]
            init_case(cls, args)
    # helpers
    for _ in range(40 if quick else 600):
        e_ = rng.choice(el_refs + iso_refs + [("elem", "x", "X", 0, 1.0), "h", 1, None])
        c_ = rng.choice(pools["int"])
        try:
            r = impl.utility.valid_charge(real(e_), c_)
            got, shown = "(HBool %s)" % boolc(bool(r)), bool(r)
        except tuple(EXC) as e:
            got, shown = "(HRaise %s)" % EXC[type(e)], type(e).__name__
        add("helper_policy:valid_charge", "check_valid_charge_py en %s %s %s" % (pv(e_), pv(c_), got),
            call="valid_charge(%r, %r)" % (e_, c_), got=shown)
    for t_ in pools["tuple"] + [("A", 2), [9, 10], ("99", 100), None, True, np.str_("ab"), ("h",), "abc", "", el_refs[0]]:
        try:
            r = impl.utility.encode_transition(real(t_))
            got, shown = "(HStr %s)" % q(r), r
        except tuple(EXC) as e:
            got, shown = "(HRaise %s)" % EXC[type(e)], type(e).__name__
        lit = pv(t_)
        lit = lit[4:-1] if lit.startswith("(PA ") else "(PSpecies (SE (mkElement \"\" \"\" 0 0)))"
        add("helper_policy:encode_transition", "check_encode_py %s %s" % (lit, got), call="encode_transition(%r)" % (t_,), got=shown)

    # -- dictionaries: ONE live dict (and one live set) driven through a history of assignments, re-assignments of the same
    #    value, deletions, re-insertions and reads, every step compared with the model --------------------------------------
    for rep in range(2 if quick else 8):
        ops, pyd = [], {}
        pool = list(impl.exports)
        rng.shuffle(pool)
        pool = pool[:70] if quick else (pool if rep == 0 else pool[:150])
        val = 0
        keys = []          # (kref text, builder) of everything that was ever used as a key

        def kspecies(ref):
            return ("KS " + sref(ref), lambda ref=ref: impl.build(ref))

        def kline(l):
            return ("KL " + lref(l), lambda l=l: impl.Line(impl.build(l[0]), l[1], l[2]))

        def put(k, same_value=False):
            nonlocal val
            obj = k[1]()
            if not (same_value and obj in pyd):
                val += 1
                v = val
            else:
                v = pyd[obj]
            pyd[obj] = v
            ops.append("DSet (%s) %s" % (k[0], zlit(v)))
            keys.append(k)

        def get(k):
            ops.append("DGet (%s) %s" % (k[0], optz(pyd.get(k[1]()))))

        def delete(k):
            pyd.pop(k[1](), None)
            ops.append("DDel (%s)" % k[0])

        def length():
            ops.append("DLen %s" % zlit(len(pyd)))

        for attr, o in pool:
            put(kspecies(("attr", attr)))
        length()
        lsel = rng.sample(line_refs, min(len(line_refs), 40))
        for l in lsel:
            put(kline(l))
        length()
        for step in range(150 if quick else 400):
            attr, o = rng.choice(pool)
            fresh = impl.ref_fields(attr, o)
            if fresh[0] == "iso" and fresh[3].startswith("<"):
                continue
            cand = [kspecies(("attr", attr)), kspecies(fresh), kspecies(impl.deep_copy_ref(attr, o)),
                    kspecies(mutate(fresh, rng.choice(["name", "symbol", "weight-ulp", "weight", "Z/A", "case"]))),
                    kspecies(("pickle", impl.deep_copy_ref(attr, o), ("attr", attr))), kline(rng.choice(lsel)),
                    rng.choice(keys)]
            # (an Element built with an isotope's four base fields compares equal to the isotope but hashes differently - the
            #  cross-class quirk covered by the eq_cross_class_same_fields cases; such look-alikes are not used as dict keys
            #  here because the dict model is run with a hash that respects ==, which holds within one class only)
            k = rng.choice(cand)
            act = rng.choice(["set", "set", "set-same", "get", "get", "del", "del-get-set", "len"])
            if act == "set":
                put(k)
            elif act == "set-same":
                put(k, same_value=True)
            elif act == "get":
                get(k)
            elif act == "del":
                delete(k)
                get(k)
            elif act == "del-get-set":
                delete(k)
                get(k)
                put(k)
                get(k)
            else:
                length()
        for k in rng.sample(keys, min(len(keys), 60)):
            get(k)
        length()
        add("dict_history", "check_dict en [%s]" % "; ".join(ops),
            call="one dict through %d steps (set / set same value / get / pop / len; species, copies, mutants, lines)" % len(ops),
            got={"len": len(pyd)})

    # -- the same live module again: every kind of lookup re-run after all of the above, then once more after the index
    #    builders have been called a second time (model: the builders run again on top of the existing indices) ------------
    def rerun(kind, n):
        for fn, a_, number, arg_obj, style in rng.sample(replayable, min(len(replayable), n)):
            if fn == "e":
                le(kind, a_, arg_obj=arg_obj, record=False)
            else:
                li(kind, a_, number, arg_obj=arg_obj, style=style, record=False)
    rerun("history:second-call", 150 if quick else 3000)
    snap = (dict(getattr(mod, "_element_index", {})), dict(getattr(mod, "_isotope_index", {})))
    if hasattr(mod, "_build_element_index") and hasattr(mod, "_build_isotope_index"):
        mod._build_element_index()
        mod._build_isotope_index()
        ix["e"], ix["i"] = "ixe2", "ixi2"
        rerun("history:after-rebuilding-indices", 200 if quick else 4000)
        ix["e"], ix["i"] = "ixe", "ixi"
    after = (dict(getattr(mod, "_element_index", {})), dict(getattr(mod, "_isotope_index", {})))
    same = all(set(x) == set(y) and all(x[k] is y[k] for k in x) for x, y in zip(snap, after))
    ctx.obligation("index dictionaries unchanged by %d lookups and a second run of the builders" % len(replayable), "correspondence", same,
                   "" if same else "keys/objects differ: %s" % [sorted(set(x) ^ set(y))[:5] for x, y in zip(snap, after)])
    return cases, meta
