"""C01 -- scene builder, public mutators and observations (implementation side).

A *configuration* maps every settable field to a value id.  `Scene(config)` builds a complete scene
(plasma + beam + laser with all model kinds) from scratch in that configuration; `scene.apply(op)`
performs ONE public mutator call on the live objects; `scene.observe()` returns the observable
results (spectra along fixed sight lines, beam density samples, z_effective, ...).

The property: after any sequence of ops, scene.observe() == Scene(final config).observe().
"""
import gc
import math

from raysect.core import Node, Point3D, Vector3D, translate, rotate_z, rotate_basis, AffineMatrix3D
from raysect.core.math.function.float import Arg3D
from raysect.optical import World, Ray
from raysect.optical.material.emitter.inhomogeneous import NumericalIntegrator
from raysect.primitive import Sphere, Box

from cherab.core import Plasma, Beam, Species, Maxwellian
from cherab.core.laser import Laser
from cherab.core.atomic import (AtomicData, Line, deuterium, hydrogen, carbon,
                                ImpactExcitationPEC, RecombinationPEC, ThermalCXPEC, BeamCXPEC, BeamStoppingRate,
                                BeamPopulationRate, BeamEmissionPEC, LineRadiationPower, ContinuumPower,
                                CXRadiationPower, FreeFreeGauntFactor)
from cherab.core.model import (ExcitationLine, RecombinationLine, ThermalCXLine, Bremsstrahlung,
                               TotalRadiatedPower, BeamCXLine, BeamEmissionLine, SingleRayAttenuator)
from cherab.core.model.laser import (SeldenMatobaThomsonSpectrum, ConstantBivariateGaussian, UniformEnergyDensity,
                                     GaussianBeamAxisymmetric, TrivariateGaussian, GaussianSpectrum, ConstantSpectrum)
from cherab.core.math.integrators import GaussianQuadrature

AMU = 1.66053906660e-27
ME = 9.1093837015e-31


# ---------------------------------------------------------------------------------------------
# counting / constant stubs for the atomic data provider
# ---------------------------------------------------------------------------------------------
def _h(*args):
    """deterministic small number from the arguments (providers differ by their seed)"""
    s = 0
    for a in args:
        for ch in str(a):
            s = (s * 131 + ord(ch)) % 1000003
    return 1.0 + (s % 997) / 997.0


class _Rate:
    def _init(self, prov, name, key, scale):
        self.prov, self.name, self.key = prov, name, key
        self.value = scale * _h(prov.seed, name, *key)


class XPEC(ImpactExcitationPEC, _Rate):
    def __init__(self, *a):
        self._init(*a)

    def evaluate(self, ne, te):
        self.prov.evals[self.name] = self.prov.evals.get(self.name, 0) + 1
        return self.value * (1 + 1e-21 * ne) * (1 + 1e-3 * te)


class RPEC(RecombinationPEC, _Rate):
    def __init__(self, *a):
        self._init(*a)

    def evaluate(self, ne, te):
        self.prov.evals[self.name] = self.prov.evals.get(self.name, 0) + 1
        return self.value * (1 + 2e-21 * ne) * (1 + 2e-3 * te)


class TPEC(ThermalCXPEC, _Rate):
    def __init__(self, *a):
        self._init(*a)

    def evaluate(self, ne, te, td):
        self.prov.evals[self.name] = self.prov.evals.get(self.name, 0) + 1
        return self.value * (1 + 1e-21 * ne) * (1 + 1e-3 * te) * (1 + 1e-2 * td)


class BCX(BeamCXPEC, _Rate):
    def __init__(self, meta, *a):
        BeamCXPEC.__init__(self, meta)
        self._init(*a)

    def evaluate(self, energy, temperature, density, z_effective, b_field):
        self.prov.evals[self.name] = self.prov.evals.get(self.name, 0) + 1
        return self.value * (1 + 1e-6 * energy) * (1 + 1e-3 * temperature) * (1 + 1e-21 * min(density, 1e22)) * (1 + 0.1 * z_effective) * (1 + 0.1 * b_field)


class BSTOP(BeamStoppingRate, _Rate):
    def __init__(self, *a):
        self._init(*a)

    def evaluate(self, energy, density, temperature):
        self.prov.evals[self.name] = self.prov.evals.get(self.name, 0) + 1
        return self.value * (1 + 1e-6 * energy) * (1 + 1e-21 * min(density, 1e22)) * (1 + 1e-3 * temperature)


class BPOP(BeamPopulationRate, _Rate):
    def __init__(self, *a):
        self._init(*a)

    def evaluate(self, energy, density, temperature):
        self.prov.evals[self.name] = self.prov.evals.get(self.name, 0) + 1
        return self.value * (1 + 1e-6 * energy) * (1 + 1e-21 * min(density, 1e22)) * (1 + 1e-3 * temperature)


class BEM(BeamEmissionPEC, _Rate):
    def __init__(self, *a):
        self._init(*a)

    def evaluate(self, energy, density, temperature):
        self.prov.evals[self.name] = self.prov.evals.get(self.name, 0) + 1
        return self.value * (1 + 1e-6 * energy) * (1 + 1e-21 * min(density, 1e22)) * (1 + 1e-3 * temperature)


class LPOW(LineRadiationPower, _Rate):
    def __init__(self, *a):
        self._init(*a)

    def evaluate(self, ne, te):
        self.prov.evals[self.name] = self.prov.evals.get(self.name, 0) + 1
        return self.value * (1 + 1e-21 * ne) * (1 + 1e-3 * te)


class CPOW(ContinuumPower, _Rate):
    def __init__(self, *a):
        self._init(*a)

    def evaluate(self, ne, te):
        self.prov.evals[self.name] = self.prov.evals.get(self.name, 0) + 1
        return self.value * (1 + 2e-21 * ne) * (1 + 1e-3 * te)


class XPOW(CXRadiationPower, _Rate):
    def __init__(self, *a):
        self._init(*a)

    def evaluate(self, ne, te):
        self.prov.evals[self.name] = self.prov.evals.get(self.name, 0) + 1
        return self.value * (1 + 3e-21 * ne) * (1 + 1e-3 * te)


class GAUNT(FreeFreeGauntFactor):
    def __init__(self, prov, value):
        self.prov, self.value = prov, value

    def evaluate(self, z, temperature, wavelength):
        if self.prov is not None:
            self.prov.evals["gaunt"] = self.prov.evals.get("gaunt", 0) + 1
        return self.value * (1 + 0.01 * z) * (1 + 1e-4 * temperature) * (1 + 1e-4 * wavelength)


WAVELENGTHS = {("deuterium", 0, (3, 2)): 656.1, ("hydrogen", 0, (3, 2)): 656.28, ("carbon", 5, (8, 7)): 529.05,
               ("carbon", 5, (10, 8)): 606.0}


class Provider(AtomicData):
    """constant-rate atomic data; logs every accessor call (calls) and every rate evaluation (evals)"""

    def __init__(self, seed):
        self.seed = seed
        self.calls = {}
        self.evals = {}

    def _c(self, name):
        self.calls[name] = self.calls.get(name, 0) + 1

    def wavelength(self, ion, charge, transition):
        self._c("wavelength")
        el = ion.element.name if hasattr(ion, "element") and not hasattr(ion, "atomic_number_only") and ion.__class__.__name__ == "Isotope" else ion.name
        return WAVELENGTHS.get((el, charge, tuple(transition)), 600.0) + 0.01 * self.seed

    def impact_excitation_pec(self, ion, charge, transition):
        self._c("impact_excitation_pec")
        return XPEC(self, "xpec", (ion.name, charge, transition), 1e-38)

    def recombination_pec(self, ion, charge, transition):
        self._c("recombination_pec")
        return RPEC(self, "rpec", (ion.name, charge, transition), 2e-39)

    def thermal_cx_pec(self, donor_ion, donor_charge, receiver_ion, receiver_charge, transition):
        self._c("thermal_cx_pec")
        return TPEC(self, "tpec", (donor_ion.name, donor_charge, receiver_ion.name, receiver_charge, transition), 1e-36)

    def beam_cx_pec(self, donor_ion, receiver_ion, receiver_charge, transition):
        self._c("beam_cx_pec")
        return [BCX(1, self, "bcx1", (donor_ion.name, receiver_ion.name, receiver_charge, transition), 1e-33),
                BCX(2, self, "bcx2", (donor_ion.name, receiver_ion.name, receiver_charge, transition), 3e-33)]

    def beam_stopping_rate(self, beam_ion, plasma_ion, charge):
        self._c("beam_stopping_rate")
        return BSTOP(self, "bstop", (beam_ion.name, plasma_ion.name, charge), 2e-14)

    def beam_population_rate(self, beam_ion, metastable, plasma_ion, charge):
        self._c("beam_population_rate")
        return BPOP(self, "bpop", (beam_ion.name, metastable, plasma_ion.name, charge), 0.05)

    def beam_emission_pec(self, beam_ion, plasma_ion, charge, transition):
        self._c("beam_emission_pec")
        return BEM(self, "bem", (beam_ion.name, plasma_ion.name, charge, transition), 1e-35)

    def line_radiated_power_rate(self, element, charge):
        self._c("line_radiated_power_rate")
        return LPOW(self, "lpow", (element.name, charge), 1e-36)

    def continuum_radiated_power_rate(self, element, charge):
        self._c("continuum_radiated_power_rate")
        return CPOW(self, "cpow", (element.name, charge), 1e-37)

    def cx_radiated_power_rate(self, element, charge):
        self._c("cx_radiated_power_rate")
        return XPOW(self, "xpow", (element.name, charge), 1e-36)

    def free_free_gaunt_factor(self):
        self._c("free_free_gaunt_factor")
        return GAUNT(self, 1.1 + 0.01 * self.seed)


# ---------------------------------------------------------------------------------------------
# value tables: FIELD -> list of constructors of a fresh value
# ---------------------------------------------------------------------------------------------
def _profile(n0, gx, gz):
    return n0 * (1 + gx * Arg3D('x') + gz * Arg3D('z'))


SPECIES = [
    (deuterium, 0, 1e17, 5.0, (0.2, 0.1)),
    (deuterium, 1, 3e19, 250.0, (0.3, 0.2)),
    (carbon, 6, 4e17, 260.0, (0.1, -0.2)),
    (carbon, 5, 1e16, 200.0, (-0.2, 0.1)),
    (deuterium, 1, 2e19, 400.0, (0.0, 0.3)),      # alternative D+ (replaces id 1 when added)
    (hydrogen, 0, 5e16, 8.0, (0.1, 0.1)),
]

BEAM_BASIS = rotate_basis(Vector3D(1, 0, 0), Vector3D(0, 0, 1))

VALUES = {
    # ---- scene graph: the intermediate node some objects may be parented to
    "a_transform": [lambda: translate(0, 0.02, 0.01), lambda: translate(0.01, 0.03, 0.0), lambda: rotate_z(3) * translate(0, 0.02, 0.01)],
    # ---- plasma
    "p_transform": [lambda: translate(0, 0, 0), lambda: translate(0.03, -0.02, 0.01), lambda: rotate_z(7) * translate(0.01, 0, 0)],
    "p_parent": ["world", "nodeA"],
    "p_bfield": [lambda: Vector3D(0, 0, 1.5), lambda: Vector3D(0.5, 0, 1.0), lambda: None],
    "p_edist": [(4e19, 300.0, (0.2, 0.1)), (3e19, 150.0, (-0.1, 0.3))],
    "p_composition": [(0, 1, 2, 3), (0, 4, 2, 3), (1, 2), (0, 1, 2, 3, 5)],
    "p_geometry": [lambda: Sphere(1.0), lambda: Sphere(0.8), lambda: Box(Point3D(-0.9, -0.9, -0.9), Point3D(0.9, 0.9, 0.9))],
    "p_geometry_transform": [lambda: None, lambda: translate(0.02, 0, 0)],
    "p_integrator": [lambda: NumericalIntegrator(step=0.02), lambda: NumericalIntegrator(step=0.025)],
    "p_atomic_data": [lambda: Provider(1), lambda: Provider(2)],
    "p_models": [(0, 1, 2, 3, 4), (0,), (3, 4, 2), (), (1, 0), (4, 3, 2, 1, 0)],
    "brems_gaunt": [lambda: None, lambda: GAUNT(None, 1.3)],
    "brems_integrator": [lambda: GaussianQuadrature(), lambda: GaussianQuadrature(relative_tolerance=1e-3, min_order=2, max_order=6)],
    # ---- beam
    "b_transform": [lambda: translate(-0.9, 0, 0) * BEAM_BASIS, lambda: translate(-0.9, 0.03, 0.01) * BEAM_BASIS,
                    lambda: translate(-0.85, 0, 0) * rotate_z(4) * BEAM_BASIS],
    "b_parent": ["world", "nodeA"],
    "b_energy": [60000.0, 45000.0],
    "b_power": [1e6, 2e6],
    "b_temperature": [10.0, 20.0],
    "b_element": [deuterium, hydrogen],
    "b_sigma": [0.05, 0.07, 0.035],
    "b_divergence_x": [0.0, 0.6, 1.2],
    "b_divergence_y": [0.0, 0.8],
    "b_length": [1.5, 1.1, 1.8],
    "b_atomic_data": [lambda: Provider(3), lambda: Provider(4)],
    "b_plasma": ["plasma"],
    "b_attenuator": [0, 1],                       # identity of the attenuator object (a new object per assignment)
    "att_step": [0.05, 0.04],
    "att_clamp_to_zero": [True, False],
    "att_clamp_sigma": [5.0, 3.0],
    "b_models": [(0, 1), (0,), (1,), (), (1, 0)],
    "b_integrator": [lambda: NumericalIntegrator(step=0.02), lambda: NumericalIntegrator(step=0.025)],
    "cx_line": [lambda: Line(carbon, 5, (8, 7)), lambda: Line(carbon, 5, (10, 8))],
    "bes_line": [lambda: Line(deuterium, 0, (3, 2)), lambda: Line(hydrogen, 0, (3, 2))],
    # ---- laser
    "l_transform": [lambda: translate(0.1, 0.1, -0.5), lambda: translate(0.12, 0.1, -0.5)],
    "l_parent": ["world", "nodeA"],
    "l_profile": [0, 1, 2, 3],                    # kind of profile object (new object per assignment)
    "lp_pulse_length": [1e-8, 2e-8],
    "lp_stddev_x": [0.02, 0.025],
    "lp_stddev_y": [0.015, 0.012],
    "lp_waist_z": [0.4, 0.3],
    "lp_stddev_waist": [0.01, 0.012],
    "lp_wavelength": [1060.0, 1030.0],
    "lp_mean_z": [0.5, 0.45],
    "lp_length": [1.0, 0.8],
    "lp_radius": [0.05, 0.04],
    "lp_energy": [1.0, 2.0],
    "lp_polarization": [lambda: Vector3D(0, 1, 0), lambda: Vector3D(1, 0, 0)],
    "l_spectrum": [0, 1],                         # kind of spectrum object (new object per assignment)
    "ls_min": [1059.0, 1058.0],
    "ls_max": [1061.0, 1062.0],
    "ls_bins": [3, 5],
    "ls_mean": [1060.0, 1060.4],
    "ls_stddev": [0.3, 0.5],
    "l_models": [(0,), ()],
    "l_integrator": [lambda: NumericalIntegrator(step=0.01), lambda: NumericalIntegrator(step=0.0125)],
    "l_importance": [1.0, 2.0],
}
FIELDS = list(VALUES)
LIST_FIELDS = {"p_composition": len(SPECIES), "p_models": 5, "b_models": 2, "l_models": 1}


def default_config():
    return {f: (VALUES[f][0] if f in LIST_FIELDS else 0) for f in FIELDS}


def _val(field, idx):
    v = VALUES[field][idx]
    return v() if callable(v) else v


# ---------------------------------------------------------------------------------------------
class Scene:
    def __init__(self, config, fresh_models=False):
        # fresh_models: assigning a model list creates NEW model objects and drops the old ones (a user who does
        # `plasma.models = [ExcitationLine(...)]` keeps no reference to the replaced models, which are then
        # garbage collected while still registered with the notifiers)
        self.fresh_models = fresh_models
        self.cfg = dict(config)
        c = self.cfg
        self.world = World()
        self.nodeA = Node(parent=self.world, transform=_val("a_transform", c["a_transform"]))
        # pools of reusable objects (a user would create them once and re-attach them)
        self.species = [self._make_species(i) for i in range(len(SPECIES))]
        self.pmodels = self._new_pool("p_models", first=True)
        self.bmodels = self._new_pool("b_models")
        self.lmodels = self._new_pool("l_models")
        self.providers = []
        # ---- plasma
        p = self.plasma = Plasma(parent=self._parent(c["p_parent"]), transform=_val("p_transform", c["p_transform"]))
        p.b_field = _val("p_bfield", c["p_bfield"])
        p.electron_distribution = self._make_edist(c["p_edist"])
        p.composition = [self.species[i] for i in c["p_composition"]]
        p.atomic_data = self._provider("p_atomic_data", c["p_atomic_data"])
        p.geometry = _val("p_geometry", c["p_geometry"])
        p.geometry_transform = _val("p_geometry_transform", c["p_geometry_transform"])
        p.integrator = _val("p_integrator", c["p_integrator"])
        self.pmodels[3].gaunt_factor = _val("brems_gaunt", c["brems_gaunt"])
        self.pmodels[3].integrator = _val("brems_integrator", c["brems_integrator"])
        p.models = [self.pmodels[i] for i in c["p_models"]]
        # ---- beam
        b = self.beam = Beam(parent=self._parent(c["b_parent"]), transform=_val("b_transform", c["b_transform"]))
        b.plasma = p
        b.atomic_data = self._provider("b_atomic_data", c["b_atomic_data"])
        b.energy = _val("b_energy", c["b_energy"])
        b.power = _val("b_power", c["b_power"])
        b.temperature = _val("b_temperature", c["b_temperature"])
        b.element = _val("b_element", c["b_element"])
        b.sigma = _val("b_sigma", c["b_sigma"])
        b.divergence_x = _val("b_divergence_x", c["b_divergence_x"])
        b.divergence_y = _val("b_divergence_y", c["b_divergence_y"])
        b.length = _val("b_length", c["b_length"])
        b.attenuator = self._make_attenuator()
        b.integrator = _val("b_integrator", c["b_integrator"])
        b.models = [self.bmodels[i] for i in c["b_models"]]
        # ---- laser
        la = self.laser = Laser(parent=self._parent(c["l_parent"]), transform=_val("l_transform", c["l_transform"]))
        la.integrator = _val("l_integrator", c["l_integrator"])
        la.plasma = p
        la.laser_profile = self._make_profile()
        la.laser_spectrum = self._make_spectrum()
        la.importance = _val("l_importance", c["l_importance"])
        la.models = [self.lmodels[i] for i in c["l_models"]]

    # ---- constructors of values ---------------------------------------------------------------
    def _new_pool(self, fam, first=False):
        c = self.cfg
        if fam == "p_models":
            pool = [ExcitationLine(Line(deuterium, 0, (3, 2))), RecombinationLine(Line(deuterium, 0, (3, 2))),
                    ThermalCXLine(Line(carbon, 5, (8, 7))), Bremsstrahlung(), TotalRadiatedPower(carbon, 5)]
            if not first:
                pool[3].gaunt_factor = _val("brems_gaunt", c["brems_gaunt"])
                pool[3].integrator = _val("brems_integrator", c["brems_integrator"])
            return pool
        if fam == "b_models":
            return [BeamCXLine(_val("cx_line", c["cx_line"])), BeamEmissionLine(_val("bes_line", c["bes_line"]))]
        return [SeldenMatobaThomsonSpectrum()]

    def _models_for(self, fam, idxs):
        """the model objects for a list assignment; in fresh_models mode the pool is replaced and the old objects die"""
        attr = {"p_models": "pmodels", "b_models": "bmodels", "l_models": "lmodels"}[fam]
        if self.fresh_models:
            setattr(self, attr, self._new_pool(fam))
        return [getattr(self, attr)[i] for i in idxs]

    def _parent(self, name):
        return self.world if name in (0, "world") else self.nodeA

    def _make_species(self, i):
        el, ch, n0, t, (gx, gz) = SPECIES[i]
        dist = Maxwellian(_profile(n0, gx, gz), t, Vector3D(1e4 * (i + 1), 0, 2e3 * i), el.atomic_weight * AMU)
        return Species(el, ch, dist)

    def _make_edist(self, idx):
        n0, t, (gx, gz) = VALUES["p_edist"][idx]
        return Maxwellian(_profile(n0, gx, gz), t, Vector3D(0, 0, 0), ME)

    def _provider(self, field, idx):
        prov = _val(field, idx)
        self.providers.append((field, prov))
        return prov

    def _make_attenuator(self):
        c = self.cfg
        return SingleRayAttenuator(step=_val("att_step", c["att_step"]), clamp_to_zero=_val("att_clamp_to_zero", c["att_clamp_to_zero"]),
                                   clamp_sigma=_val("att_clamp_sigma", c["att_clamp_sigma"]))

    def _make_profile(self):
        c = self.cfg
        kind = c["l_profile"]
        length, radius = _val("lp_length", c["lp_length"]), _val("lp_radius", c["lp_radius"])
        energy, pol = _val("lp_energy", c["lp_energy"]), _val("lp_polarization", c["lp_polarization"])
        plen = _val("lp_pulse_length", c["lp_pulse_length"])
        sx, sy = _val("lp_stddev_x", c["lp_stddev_x"]), _val("lp_stddev_y", c["lp_stddev_y"])
        if kind == 0:
            return ConstantBivariateGaussian(pulse_energy=energy, pulse_length=plen, laser_radius=radius, laser_length=length,
                                             stddev_x=sx, stddev_y=sy, polarization=pol)
        if kind == 1:
            return UniformEnergyDensity(energy_density=energy, laser_length=length, laser_radius=radius, polarization=pol)
        if kind == 3:
            return TrivariateGaussian(pulse_energy=energy, pulse_length=plen * 1e-1, mean_z=_val("lp_mean_z", c["lp_mean_z"]),
                                      laser_length=length, laser_radius=radius, stddev_x=sx, stddev_y=sy, polarization=pol)
        return GaussianBeamAxisymmetric(pulse_energy=energy, pulse_length=plen, laser_length=length, laser_radius=radius,
                                        waist_z=_val("lp_waist_z", c["lp_waist_z"]), stddev_waist=_val("lp_stddev_waist", c["lp_stddev_waist"]),
                                        laser_wavelength=_val("lp_wavelength", c["lp_wavelength"]), polarization=pol)

    def _make_spectrum(self):
        c = self.cfg
        mn, mx, bins = _val("ls_min", c["ls_min"]), _val("ls_max", c["ls_max"]), _val("ls_bins", c["ls_bins"])
        if c["l_spectrum"] == 0:
            return GaussianSpectrum(mn, mx, bins, _val("ls_mean", c["ls_mean"]), _val("ls_stddev", c["ls_stddev"]))
        return ConstantSpectrum(mn, mx, bins)

    # ---- ONE public mutator per op ----------------------------------------------------------------
    def apply(self, op):
        kind = op[0]
        c = self.cfg
        p, b, la = self.plasma, self.beam, self.laser
        if kind == "comp_add":
            sp = self.species[op[1]]
            p.composition.add(sp)
            cur = [i for i in c["p_composition"] if (SPECIES[i][0], SPECIES[i][1]) != (SPECIES[op[1]][0], SPECIES[op[1]][1])]
            # dict semantics: an existing (element, charge) key keeps its position, a new one is appended
            old = list(c["p_composition"])
            pos = [k for k, i in enumerate(old) if (SPECIES[i][0], SPECIES[i][1]) == (SPECIES[op[1]][0], SPECIES[op[1]][1])]
            if pos:
                old[pos[0]] = op[1]
            else:
                old.append(op[1])
            c["p_composition"] = tuple(old)
            return
        if kind == "comp_clear":
            p.composition.clear()
            c["p_composition"] = ()
            return
        if kind == "models_add":
            fam, i = op[1], op[2]
            if fam == "p_models":
                p.models.add(self.pmodels[i])
            elif fam == "b_models":
                b.models.add(self.bmodels[i])
            c[fam] = tuple(c[fam]) + (i,)
            return
        if kind == "models_clear":
            fam = op[1]
            (p.models if fam == "p_models" else b.models).clear()
            c[fam] = ()
            return
        assert kind == "set"
        f, v = op[1], op[2]
        c[f] = v
        if f == "a_transform":
            self.nodeA.transform = _val(f, v)
        elif f == "p_transform":
            p.transform = _val(f, v)
        elif f == "p_parent":
            p.parent = self._parent(VALUES[f][v])
        elif f == "p_bfield":
            p.b_field = _val(f, v)
        elif f == "p_edist":
            p.electron_distribution = self._make_edist(v)
        elif f == "p_composition":
            p.composition = [self.species[i] for i in v]
        elif f == "p_geometry":
            p.geometry = _val(f, v)
        elif f == "p_geometry_transform":
            p.geometry_transform = _val(f, v)
        elif f == "p_integrator":
            p.integrator = _val(f, v)
        elif f == "p_atomic_data":
            p.atomic_data = self._provider(f, v)
        elif f == "p_models":
            p.models = self._models_for("p_models", v)
            if self.fresh_models:
                gc.collect()
        elif f == "brems_gaunt":
            self.pmodels[3].gaunt_factor = _val(f, v)
        elif f == "brems_integrator":
            self.pmodels[3].integrator = _val(f, v)
        elif f == "bes_line":
            self.bmodels[1].line = _val(f, v)
        elif f == "b_transform":
            b.transform = _val(f, v)
        elif f == "b_parent":
            b.parent = self._parent(VALUES[f][v])
        elif f == "b_energy":
            b.energy = _val(f, v)
        elif f == "b_power":
            b.power = _val(f, v)
        elif f == "b_temperature":
            b.temperature = _val(f, v)
        elif f == "b_element":
            b.element = _val(f, v)
        elif f == "b_sigma":
            b.sigma = _val(f, v)
        elif f == "b_divergence_x":
            b.divergence_x = _val(f, v)
        elif f == "b_divergence_y":
            b.divergence_y = _val(f, v)
        elif f == "b_length":
            b.length = _val(f, v)
        elif f == "b_atomic_data":
            b.atomic_data = self._provider(f, v)
        elif f == "b_plasma":
            b.plasma = p
        elif f == "b_attenuator":
            b.attenuator = self._make_attenuator()
        elif f == "att_step":
            b.attenuator.step = _val(f, v)
        elif f == "att_clamp_to_zero":
            # clamp_to_zero is a constructor argument only (not writable): the supported change is a new attenuator
            b.attenuator = self._make_attenuator()
        elif f == "att_clamp_sigma":
            b.attenuator.clamp_sigma = _val(f, v)
        elif f == "b_models":
            b.models = self._models_for("b_models", v)
            if self.fresh_models:
                gc.collect()
        elif f == "b_integrator":
            b.integrator = _val(f, v)
        elif f == "cx_line":
            self.bmodels[0].line = _val(f, v)
        elif f == "l_transform":
            la.transform = _val(f, v)
        elif f == "l_parent":
            la.parent = self._parent(VALUES[f][v])
        elif f == "l_profile":
            la.laser_profile = self._make_profile()
        elif f == "lp_length":
            la.laser_profile.laser_length = _val(f, v)
        elif f == "lp_radius":
            la.laser_profile.laser_radius = _val(f, v)
        elif f == "lp_energy":
            if c["l_profile"] == 1:
                la.laser_profile.energy_density = _val(f, v)
            else:
                la.laser_profile.pulse_energy = _val(f, v)
        elif f == "lp_pulse_length":
            if c["l_profile"] in (0, 2):
                la.laser_profile.pulse_length = _val(f, v)
            elif c["l_profile"] == 3:
                la.laser_profile.pulse_length = _val(f, v) * 1e-1
        elif f in ("lp_stddev_x", "lp_stddev_y"):
            if c["l_profile"] in (0, 3):
                setattr(la.laser_profile, f[3:], _val(f, v))
        elif f == "lp_waist_z":
            if c["l_profile"] == 2:
                la.laser_profile.waist_z = _val(f, v)
        elif f == "lp_stddev_waist":
            if c["l_profile"] == 2:
                la.laser_profile.stddev_waist = _val(f, v)
        elif f == "lp_wavelength":
            if c["l_profile"] == 2:
                la.laser_profile.laser_wavelength = _val(f, v)
        elif f == "lp_mean_z":
            if c["l_profile"] == 3:
                la.laser_profile.mean_z = _val(f, v)
        elif f == "lp_polarization":
            la.laser_profile.set_polarization(_val(f, v))
        elif f == "l_spectrum":
            la.laser_spectrum = self._make_spectrum()
        elif f == "ls_min":
            la.laser_spectrum.min_wavelength = _val(f, v)
        elif f == "ls_max":
            la.laser_spectrum.max_wavelength = _val(f, v)
        elif f == "ls_bins":
            la.laser_spectrum.bins = _val(f, v)
        elif f == "ls_mean":
            if c["l_spectrum"] == 0:
                la.laser_spectrum.mean = _val(f, v)
        elif f == "ls_stddev":
            if c["l_spectrum"] == 0:
                la.laser_spectrum.stddev = _val(f, v)
        elif f == "l_models":
            la.models = self._models_for("l_models", v)
            if self.fresh_models:
                gc.collect()
        elif f == "l_integrator":
            la.integrator = _val(f, v)
        elif f == "l_importance":
            la.importance = _val(f, v)
        else:
            raise KeyError(f)

    # ---- observations ----------------------------------------------------------------------------
    RAYS = [
        (Point3D(0.0, -2.0, 0.02), Vector3D(0, 1, 0)),
        (Point3D(0.0, -2.0, 0.05), Vector3D(0.05, 1, 0.02)),
        (Point3D(-1.6, -0.7, 0.35), Vector3D(1.0, 0.45, -0.2)),
    ]
    BEAM_POINTS = [(0.0, 0.0, 0.3), (0.02, -0.01, 0.9), (0.0, 0.0, 1.4), (0.1, 0.05, 0.6), (0.0, 0.3, 1.0), (0.0, 0.0, 1.7)]

    def observe(self):
        """list of (label, ('ok', tuple of hex floats) | ('err', exception class name))"""
        out = []

        def rec(label, fn):
            try:
                vals = fn()
                out.append((label, ("ok", tuple(float(v).hex() for v in vals))))
            except Exception as e:       # noqa: the exception class is part of the observable behaviour
                out.append((label, ("err", type(e).__name__)))
        for k, (o, d) in enumerate(self.RAYS):
            rec("ray%d" % k, lambda: Ray(origin=o, direction=d.normalise(), min_wavelength=500.0, max_wavelength=1100.0,
                                          bins=12).trace(self.world).samples)
        rec("beam_density", lambda: [self.beam.density(*pt) for pt in self.BEAM_POINTS])
        rec("beam_direction", lambda: [comp for pt in self.BEAM_POINTS[:3] for comp in self.beam.direction(*pt)])
        rec("z_effective", lambda: [self.plasma.z_effective(0.1, 0.0, 0.2)])
        rec("ion_density", lambda: [self.plasma.ion_density(0.1, 0.0, 0.2)])
        return out


def random_op(rng, cfg):
    """one random public mutator, valid in configuration cfg"""
    r = rng.random()
    if r < 0.06:
        return ("comp_add", rng.randrange(len(SPECIES)))
    if r < 0.08:
        return ("comp_clear",)
    if r < 0.13:
        fam = rng.choice(["p_models", "b_models"])
        return ("models_add", fam, rng.randrange(LIST_FIELDS[fam]))
    if r < 0.16:
        return ("models_clear", rng.choice(["p_models", "b_models"]))
    f = rng.choice(FIELDS)
    n = len(VALUES[f])
    if f in LIST_FIELDS:
        return ("set", f, rng.choice(VALUES[f]))
    return ("set", f, rng.randrange(n))


def same(obs_a, obs_b, rel=1e-9):
    """observations agree: same outcome kind per label; numbers within rel * (largest magnitude of the label)"""
    diffs = []
    for (la, a), (lb, b) in zip(obs_a, obs_b):
        assert la == lb
        if a[0] != b[0]:
            diffs.append((la, a[0] + (":" + a[1] if a[0] == "err" else ""), b[0] + (":" + b[1] if b[0] == "err" else "")))
            continue
        if a[0] == "err":
            if a[1] != b[1]:
                diffs.append((la, "err:" + a[1], "err:" + b[1]))
            continue
        xa = [float.fromhex(v) for v in a[1]]
        xb = [float.fromhex(v) for v in b[1]]
        if len(xa) != len(xb):
            diffs.append((la, "len %d" % len(xa), "len %d" % len(xb)))
            continue
        scale = max([abs(v) for v in xa + xb if v == v] + [0.0])
        worst = 0.0
        for u, w in zip(xa, xb):
            if (u != u) != (w != w):
                worst = float("inf")
            elif u == u:
                worst = max(worst, abs(u - w))
        if worst > rel * scale:
            diffs.append((la, "max abs diff %.3e" % worst, "scale %.3e" % scale))
    return diffs
