"""C08 -- ADF parsers return the file's numbers under the documented conventions
(cherab/openadas/parse/{utility,adf11,adf12,adf15,adf21,adf22}.py, cherab/openadas/install.py).

Theorems: coq/Properties/C08.v (all record widths, counts, grid sizes, block lists).
Tie:  (T) the regular expressions of adf11.py/adf15.py are re-translated from the source into the regex AST of
      the Coq matcher on every run (harness/c08_regex.py -> coq/Gen/C08/Regex.v);
      (X) files written by independent writers (harness/c08_writers.py) are parsed by the real parsers and by the
      Coq model (vm_compute, on the text of the same file); tables are compared inside Coq.
Search: parse(write(t)) = t, install + read back = parse, mismatching element header, absent block -- on the
      real implementation.
"""
import itertools
import json
import math
import os
import pathlib
import shutil
from fractions import Fraction

import numpy as np

from common import zlit, coqc, coqc_many, parse_evals, parse_zlist, coq_string, frac
import c08_writers as W
import c08_regex
import c08_layout

THEOREMS = ["C08_readvalues_roundtrip", "C08_readvalues_any_records", "C08_tokens_roundtrip",
            "C08_adf11_axis_order", "C08_adf2x_axis_order", "C08_adf11_charge_convention", "C08_dict_last_write_wins",
            "C08_block_lookup_found", "C08_block_lookup_absent_rejected", "C08_adf11_header_mismatch_rejected",
            "C08_adas2x_file_roundtrip", "C08_take_vals_stream", "C08_adf15_block_roundtrip",
            "C08_dispatch_table_sound", "C08_adf11_wiring_sound", "C08_thermalcx_planes",
            "C08_parse_int_digits", "C08_parse_float_fixed", "C08_parse_float_exp",
            "C08_adf12_block_roundtrip", "C08_adf12_file_roundtrip", "C08_adf11_blocks_roundtrip", "C08_adf11_file_roundtrip",
            "C08_matcher_star", "C08_separator_regex_is_direct", "C08_separator_rejects_data", "C08_separator_accepts_header"]

ERR = {ValueError: "EValue", RuntimeError: "ERuntime", IndexError: "EIndex", KeyError: "EKey", TypeError: "EType",
       AttributeError: "EAttr"}
TOL = Fraction(1, 2 ** 50)

KNOWN_KEYS = {
    "adf15-elem": "c08:adf15-element-header-not-checked",
    "adf21-elem": "c08:adf21-element-header-not-checked",
    "adf22-elem": "c08:adf22-element-header-not-checked",
    "adf11-small": "c08:adf11-unresolved-small-density-grid-misread",
    "adf12-npmeta": "c08:adf12-numpy-metastable-rejected-install-corrupts-repository-file",
}


# ---------------------------------------------------------------------------------------------------
# generic tables: list of (keys tuple, shape list, list of value lists)
# ---------------------------------------------------------------------------------------------------
def err_of(exc):
    for cls, name in ERR.items():
        if type(exc) is cls:
            return name
    for cls, name in ERR.items():
        if isinstance(exc, cls):
            return name
    return "EOther"


def flat(a):
    return [float(x) for x in np.asarray(a, dtype=np.float64).ravel()]


def tbl_adf2x(r):
    sen = np.asarray(r["sen"])
    return [((), [sen.shape[0], sen.shape[1], len(r["t"])] if sen.ndim == 2 else [-1, -1, -1],
             [flat(r["e"]), flat(r["n"]), flat(r["t"]), flat(sen), flat(r["st"]),
              [float(r["eref"]), float(r["nref"]), float(r["tref"]), float(r["sref"])]])]


def tbl_adf12(d, refs=("ebref", "tiref", "niref", "zref", "bref", "qref")):
    out = []
    for tr, r in d.items():
        out.append(((int(tr[0]), int(tr[1])), [len(r["eb"]), len(r["ti"]), len(r["ni"]), len(r["z"]), len(r["b"])],
                    [flat(r[k]) for k in ("eb", "ti", "ni", "z", "b", "qeb", "qti", "qni", "qz", "qb")]
                    + [[float(r[k]) for k in refs]]))
    return out


def tbl_adf11(d, ratekey="rates"):
    out = []
    for z1, r in d.items():
        rt = np.asarray(r[ratekey])
        out.append(((int(z1),), list(rt.shape), [flat(r["ne"]), flat(r["te"]), flat(rt)]))
    return out


def tbl_adf15(rates, wl, el, ch):
    out = []
    for cls in rates:
        for tr, r in rates[cls][el][ch].items():
            rt = np.asarray(r["rate"])
            out.append(((cls,) + tuple(tr), list(rt.shape), [flat(r["ne"]), flat(r["te"]), flat(rt)]))
    if el in wl and ch in wl[el]:
        for tr, w in wl[el][ch].items():
            out.append((("wavelength",) + tuple(tr), [], [[float(w)]]))
    return out


def exp_adf2x(ex):
    return [((), [len(ex["e"]), len(ex["n"]), len(ex["t"])],
             [ex["e"], ex["n"], ex["t"], [v for row in ex["sen"] for v in row], ex["st"],
              [ex["eref"], ex["nref"], ex["tref"], ex["sref"]]])]


def exp_adf12(ex):
    return [(tr, [len(r["eb"]), len(r["ti"]), len(r["ni"]), len(r["z"]), len(r["b"])],
             [r[k] for k in ("eb", "ti", "ni", "z", "b", "qeb", "qti", "qni", "qz", "qb")]
             + [[r[k] for k in ("ebref", "tiref", "niref", "zref", "bref", "qref")]]) for tr, r in ex.items()]


def exp_adf11(ex):
    return [((z1,), [len(r["ne"]), len(r["te"])], [r["ne"], r["te"], [v for row in r["rates"] for v in row]])
            for z1, r in ex.items()]


def exp_adf15(ex):
    if ex == "absent-block":
        return "ERuntime"
    rates, wl = ex
    out = [((cls,) + tuple(key), [len(r["ne"]), len(r["te"])], [r["ne"], r["te"], [v for row in r["rate"] for v in row]])
           for (cls, key), r in rates.items()]
    out += [(("wavelength",) + tuple(key), [], [[w]]) for key, w in wl.items()]
    return out


def close(a, b):
    a, b = frac(a), frac(b)
    return abs(a - b) <= TOL * max(abs(a), abs(b))


def tables_match(a, b):
    """order-insensitive; returns None or a short description of the first difference"""
    if isinstance(a, str) or isinstance(b, str):
        return None if a == b else "outcome %s vs %s" % (a if isinstance(a, str) else "table", b if isinstance(b, str) else "table")
    da = {tuple(k): (s, v) for k, s, v in a}
    db = {tuple(k): (s, v) for k, s, v in b}
    if set(da) != set(db):
        return "key sets differ: only in first %s, only in second %s" % (sorted(map(str, set(da) - set(db)))[:4], sorted(map(str, set(db) - set(da)))[:4])
    for k in da:
        (sa, va), (sb, vb) = da[k], db[k]
        if list(sa) != list(sb):
            return "shape of %s: %s vs %s" % (k, sa, sb)
        if len(va) != len(vb):
            return "number of arrays of %s" % (k,)
        for i, (x, y) in enumerate(zip(va, vb)):
            if len(x) != len(y):
                return "length of array %d of %s: %d vs %d" % (i, k, len(x), len(y))
            for j, (p, q) in enumerate(zip(x, y)):
                if not close(p, q):
                    return "value [%d][%d] of %s: %r vs %r" % (i, j, k, float(p), float(q))
    return None


# ---------------------------------------------------------------------------------------------------
# Coq literals
# ---------------------------------------------------------------------------------------------------
def qlit(x):
    """exact literal: a double as (qd mantissa exponent) = m * 2^e with a hexadecimal mantissa, a decimal fraction as
    (qe m k) = m * 10^k, anything else as Qmake (numeral elaboration is the dominant cost of a case file)"""
    if isinstance(x, float):
        if x != x or x in (float("inf"), float("-inf")):
            raise ValueError("non-finite value from the implementation: %r" % x)
        if x == 0:
            return "0"
        m, e = math.frexp(x)
        mi = int(m * 2 ** 53)
        while mi % 2 == 0:
            mi //= 2
            e += 1
        return "(qd %s (%d))" % (("0x%x" % mi) if mi > 0 else "(-0x%x)" % -mi, e - 53)
    fr = Fraction(x)
    if fr == 0:
        return "0"
    d, k = fr.denominator, 0
    while d % 10 == 0:
        d //= 10
        k += 1
    if d == 1:
        return "(qe %s (%d))" % (zlit(fr.numerator), -k)
    for k in range(1, 40):
        if (10 ** k) % fr.denominator == 0:
            return "(qe %s (%d))" % (zlit(fr.numerator * (10 ** k // fr.denominator)), -k)
    return "(Qmake %s %d)" % (zlit(fr.numerator), fr.denominator)


def key_lit(k):
    return "KZ %s" % zlit(k) if isinstance(k, int) else "KS (S_ %s)" % coq_string(k)


def tbl_lit(t):
    if isinstance(t, str):
        return "(Err %s)" % t
    ents = []
    for keys, shape, vals in t:
        ents.append("{| e_keys := [%s]; e_shape := [%s]; e_vals := [%s] |}" % (
            "; ".join(key_lit(k) for k in keys), "; ".join(zlit(s) + "%Z" for s in shape),
            "; ".join("[" + "; ".join(qlit(v) for v in vs) + "]" for vs in vals)))
    return "(Ok [" + ";\n   ".join(ents) + "])"


def raw_tbl_lit(t):
    s = tbl_lit(t)
    return s[len("(Ok "):-1]


# ---------------------------------------------------------------------------------------------------
# cases
# ---------------------------------------------------------------------------------------------------
class Case:
    def __init__(self, kind, cls, text, fname="file.dat", **kw):
        self.kind, self.cls, self.text, self.fname = kind, cls, text, fname
        self.expected = None          # table / error name: what the property demands
        self.known = None             # key into KNOWN_KEYS when the class is a recorded finding
        self.model_expected = True    # compare the model with `expected` inside Coq
        self.extra = []               # further (label, coq bool) checks
        self.__dict__.update(kw)
        self.impl = None
        self.notes = {}


# ---------------------------------------------------------------------------------------------------
# case constructors + the "every header field with more than one digit" family
# ---------------------------------------------------------------------------------------------------
def mk_adf2x(which, t, cls, trailing=""):
    norm = "1" if which == "adf22bmp" else "1/1000000"
    c = Case(which, cls, W.write_adf2x(t, trailing=trailing), tokens=t, norm=norm)
    c.expected = exp_adf2x(W.expected_adf2x(t, Fraction(norm)))
    c.model = "parse_adas2x %s (lines FILE)" % qlit(Fraction(norm))
    return c


def mk_adf12(blocks, cls, annotate=True):
    c = Case("adf12", cls, W.write_adf12(blocks, annotate=annotate), tokens=blocks)
    c.expected = exp_adf12(W.expected_adf12(blocks))
    c.model = "parse_adf12 (lines FILE)"
    return c


def mk_adf11(t, cls, install=None):
    c = Case("adf11", cls, W.write_adf11(t), tokens=t, element=t["name"].lower(), z=t["z"])
    if install:
        c.install = install
    c.expected = exp_adf11(W.expected_adf11(t))
    c.model = "parse_adf11 rx11_src %d (S_ %s) (lines FILE)" % (t["z"], coq_string(t["name"].lower()))
    return c


def mk_adf15(t, cls, elname, ch, hf=None, fname="file.dat"):
    c = Case("adf15", cls, W.write_adf15(t), fname=fname, tokens=t, element=elname, charge=ch, header_format=hf)
    c.expected = exp_adf15(W.expected_adf15(t))
    zel = dict(W.ELEMENTS)[elname]
    c.model = "parse_adf15 rx15_src %s %s %s %s (lines FILE)" % tuple(
        "true" if b else "false" for b in (hf == "hydrogen" or elname == "hydrogen", hf == "hydrogen-like", zel - ch == 1, "bnd#" in fname))
    return c


ADF15_CALL = {"hydrogen": ("hydrogen", 0), "hydrogen-like": ("carbon", 5), "full": ("carbon", 2)}
ADF11_TYPES = ["scd", "acd", "ccd", "plt", "prb", "prc"]


def square_cases(rng, reps=1):
    """Tables whose axis lengths COINCIDE (neb == ndt, also == ntt; n_ne == n_te; all five ADF12 grids equal), with values that
    are not symmetric under transposition: a swap of axes that a shape test cannot see has a failing input here."""
    out = []

    def asym(rows):
        n = len(rows)
        return any(rows[i][j] != rows[j][i] for i in range(n) for j in range(n) if i != j and len(rows[i]) == n)

    for rep in range(reps):
        for k, which in enumerate(("adf21", "adf22bmp", "adf22bme")):
            n = rng.choice([2, 3, 8, 9] if k != rep % 3 else [2, 3])
            while True:
                t = W.gen_adf2x(rng, neb=n, ndt=n, ntt=n if k == rep % 3 else None)
                if asym(t["sv"]):
                    break
            out.append(mk_adf2x(which, t, "square grid %dx%d/%d (neb == ndt)" % (n, n, len(t["tt"]))))
        for fmt in ("hydrogen", "hydrogen-like", "full"):
            n = rng.choice([2, 3, 8, 9])
            while True:
                t = W.gen_adf15(rng, fmt, nblocks=rng.choice([1, 2]), nd=n, nt=n)
                if all(asym(b["rows"]) for b in t["blocks"]):
                    break
            out.append(mk_adf15(t, "%s square blocks %dx%d (n_ne == n_te)" % (fmt, n, n), *ADF15_CALL[fmt]))
        for resolved in (False, True):
            n = rng.choice([2, 3, 9]) if not resolved else rng.choice([2, 3, 8, 9])
            while True:
                t = W.gen_adf11(rng, nd=n, nt=n, resolved=resolved, element=rng.choice(W.ELEMENTS[1:4]), safe=True)
                if all(asym(b["rows"]) for b in t["blocks"]) and len(t["blocks"]) <= 4:
                    break
            out.append(mk_adf11(t, "%s square blocks %dx%d (n_ne == n_te)" % ("resolved" if resolved else "unresolved", n, n),
                                install=rng.choice(ADF11_TYPES)))
        n = rng.choice([2, 6, 7, 12])
        out.append(mk_adf12(W.gen_adf12(rng, nblocks=2, equal=n), "all five grids of length %d" % n))
    for c in out:
        c.square = True
    return out


def is_square(c):
    """axis lengths of the 2-D tables of the case coincide"""
    t = c.tokens
    try:
        if c.kind.startswith("adf2"):
            return len(t["eb"]) == len(t["dt"])
        if c.kind == "adf11":
            return len(t["dens"]) == len(t["temps"])
        if c.kind == "adf15":
            return bool(t["blocks"]) and all(len(b["dens"]) == len(b["temps"]) for b in t["blocks"])
        if c.kind == "adf12":
            return bool(t) and all(len({len(b[k]) for k in ("ener", "tiev", "densi", "zeff", "bmag")}) == 1 for b in t)
    except (KeyError, TypeError):
        pass
    return False


def multi_digit_cases(rng, formats=("adf2x", "adf12", "adf11", "adf15"), reps=1, python_only=False, quick=True):
    """Files in which every count / index / charge field of the headers has two or three digits somewhere: all Z charge-state
    blocks of elements with Z >= 10 (Z1 = 10 ... 36), two-digit IPRT/IGRD in resolved ADF11, grids with >= 10 and >= 100 points,
    ADF15 with >= 10 and >= 100 blocks (ISEL and NSEL), >= 10 configurations, ADF12 with >= 10 blocks.  Grids are kept tiny where
    the block count is large.  A 'one digit' slip in any header field has a failing input here."""
    out = []
    heavy = [e for e in W.ELEMENTS if e[1] >= 10]
    for rep in range(reps):
        if "adf11" in formats:
            for el in [("neon", 10), rng.choice(heavy[1:])] + (heavy[1:] if reps > 1 else []):
                t = W.gen_adf11(rng, nd=rng.choice([1, 2, 3, 9]) if el[1] < 20 else 1, nt=2, resolved=False, element=el, full=True, safe=True)
                out.append(mk_adf11(t, "all %d charge states of %s, unresolved" % (el[1], el[0]), install=rng.choice(ADF11_TYPES)))
            t = W.gen_adf11(rng, nd=rng.choice([1, 2]), nt=2, element=("neon", 10), meta=[1] * 11)
            out.append(mk_adf11(t, "all 10 charge states of neon, resolved layout", install=rng.choice(ADF11_TYPES)))
            el, meta = rng.choice([(("helium", 2), [1, 11, 1]), (("lithium", 3), [1, 10, 2, 1]), (("beryllium", 4), [2, 1, 12, 1])])
            t = W.gen_adf11(rng, nd=rng.choice([1, 2]), nt=2, element=el, meta=meta)
            out.append(mk_adf11(t, "resolved, metastable counts %s (two-digit IPRT/IGRD)" % meta, install=rng.choice(ADF11_TYPES)))
            for nd, nt in ((rng.choice([99, 100, 101]), 1), (1, rng.choice([99, 100, 101])), (rng.choice([9, 10, 11]), rng.choice([9, 10, 11]))):
                t = W.gen_adf11(rng, nd=nd, nt=nt, resolved=False, element=("hydrogen", 1), safe=True)
                out.append(mk_adf11(t, "grid nd=%d nt=%d" % (nd, nt), install=rng.choice(ADF11_TYPES)))
        if "adf12" in formats:
            blocks = W.gen_adf12(rng, nblocks=rng.choice([9, 10, 11]), small=True)
            out.append(mk_adf12(blocks, "blocks=%d (two-digit count)" % len(blocks), annotate=bool(rng.getrandbits(1))))
        if "adf15" in formats:
            for nb, nd, nt in ((rng.choice([9, 10, 11]), 1, 2), (rng.choice([99, 100, 101]), 1, 1), (1, rng.choice([9, 10, 11]), rng.choice([9, 10, 11])),
                               (1, 1, rng.choice([99, 100, 101])), (1, rng.choice([99, 100, 101]), 1)):
                fmt = rng.choice(["hydrogen", "hydrogen-like", "full"])
                t = W.gen_adf15(rng, fmt, nblocks=nb, nd=nd, nt=nt, ncfg=12 if fmt == "full" else None)
                c = mk_adf15(t, "%s blocks=%d nd=%d nt=%d (multi-digit ISEL / counts)" % (fmt, nb, nd, nt), *ADF15_CALL[fmt])
                # _extract_rate re-scans the file for every transition: >= 100 blocks are 10^4 header matches in the Coq matcher
                # (~13 s); like the >= 100-block ADF12 file, the Coq side of this class runs in the thorough tier only
                c.python_only = quick and nb >= 99
                out.append(c)
        if "adf2x" in formats:
            for k, (neb, ndt, ntt) in enumerate(((rng.choice([99, 100, 101]), 1, 1), (2, rng.choice([9, 10, 11]), rng.choice([9, 10, 11])), (1, rng.choice([99, 100, 101]), rng.choice([99, 100, 101])))):
                which = ("adf21", "adf22bmp", "adf22bme")[(k + rep) % 3]
                t = W.gen_adf2x(rng, neb=neb, ndt=ndt, ntt=ntt)
                t["zt"] = rng.choice([10, 18, 26])
                out.append(mk_adf2x(which, t, "grid %dx%d/%d ZT=%d (multi-digit counts)" % (neb, ndt, ntt, t["zt"])))
    for c in out:
        c.multi_digit = True
        if python_only:
            c.python_only = True
            c.cls = "seeded search: " + c.cls
    return out


def gen_cases(ctx, E):
    rng = ctx.rng
    q = ctx.quick
    cases = []
    el = lambda n: getattr(E, n)
    # boundary values as a regular ingredient of the data: exact zeros, negative zeros, the smallest / largest printable
    # magnitudes, exponents over the whole printable range (see c08_writers.PROFILE)
    W.PROFILE.update(p=0.04, wide=0.04)

    # ---- ADF21 / ADF22 -------------------------------------------------------------------------------
    n2x = 12 if q else 90
    for i in range(n2x):
        which = ("adf21", "adf22bmp", "adf22bme")[i % 3]
        small = q or i % 4
        t = W.gen_adf2x(rng, neb=rng.choice([1, 2, 7, 8, 9, 16, 17]) if small else None,
                        ndt=rng.choice([1, 2, 3, 8, 9]) if small else None)
        if i % 7 == 3:
            t["comments"] = False
        txt = W.write_adf2x(t, trailing=" " * rng.choice([0, 0, 20]))
        norm = "1" if which == "adf22bmp" else "1/1000000"
        c = Case(which, "grid %dx%d/%d exp=%s" % (len(t["eb"]), len(t["dt"]), len(t["tt"]), t["expchar"]), txt,
                 tokens=t, norm=norm)
        c.expected = exp_adf2x(W.expected_adf2x(t, Fraction(norm)))
        c.model = "parse_adas2x %s (lines FILE)" % qlit(Fraction(norm))
        nrec = (len(t["eb"]) + 7) // 8
        c.beam = ("hydrogen", "deuterium", "hydrogen", "tritium")[i % 4]      # element or isotope as the beam species
        c.np_ints = (i % 5 == 2)                                              # charge / transition as NumPy integers
        c.extra.append(("coq writer = file records (EB section)",
                        "check_writer 8 [%s] (firstn %d (skipn 4 (lines FILE)))" % ("; ".join("S_ " + coq_string(x) for x in t["eb"]), nrec)))
        cases.append(c)
    # element header of the file (SPEC=) differs from the requested target: the property demands a rejection
    for which in ("adf21", "adf22bme"):
        t = W.gen_adf2x(rng, neb=3, ndt=2, ntt=2)
        t["spec"] = "NE"
        c = Case(which, "element-mismatch", W.write_adf2x(t), tokens=t, norm="1/1000000", target="carbon")
        c.expected = "EValue"
        c.known = "adf21-elem" if which == "adf21" else "adf22-elem"
        c.model_expected = False
        c.model = "parse_adas2x %s (lines FILE)" % qlit(Fraction(1, 10 ** 6))
        cases.append(c)

    # ---- ADF12 -----------------------------------------------------------------------------------------
    n12 = 8 if q else 50
    for i in range(n12):
        blocks = W.gen_adf12(rng, nblocks=rng.choice([1, 2, 3]) if q else rng.choice([1, 2, 3, 5, 9, 14]), distinct=(i % 5 != 4))
        txt = W.write_adf12(blocks, annotate=(i % 3 != 2))
        c = Case("adf12", "blocks=%d" % len(blocks), txt, tokens=blocks)
        c.expected = exp_adf12(W.expected_adf12(blocks))
        c.model = "parse_adf12 (lines FILE)"
        cases.append(c)
    c = mk_adf12([], "blocks=0 (empty table)")
    cases.append(c)
    # more than 99 blocks (the count is an I5 field)
    blocks = W.gen_adf12(rng, nblocks=rng.choice([99, 100, 101, 123]))
    c = Case("adf12", "blocks=%d (around the 99/100 text boundary)" % len(blocks), W.write_adf12(blocks, annotate=False), tokens=blocks)
    c.expected = exp_adf12(W.expected_adf12(blocks))
    c.model = "parse_adf12 (lines FILE)"      # a normal passing case since fix b20e7d4 (count read from the whole I5 field)
    c.python_only = q        # 200 kB of text: the Coq side of this class runs in the thorough tier
    cases.append(c)

    # ---- ADF11 -----------------------------------------------------------------------------------------
    n11 = 18 if q else 120
    types = ["scd", "acd", "ccd", "plt", "prb", "prc"]
    for i in range(n11):
        while True:
            t = W.gen_adf11(rng, nd=rng.choice([1, 2, 7, 8, 9, 10, 17]) if q else None,
                            nt=rng.choice([1, 2, 3, 5, 9]) if q else None,
                            resolved=(i % 3 == 0) if q else None,
                            element=rng.choice(W.ELEMENTS[:3]) if q and i % 3 == 0 else None)
            if q and len(t["blocks"]) > 3:
                continue
            small = (not t["resolved"]) and len(t["dens"]) <= 8 and t["temps"][0].startswith("-")
            if not small:
                break
        if i % 5 == 2:
            rng.shuffle(t["blocks"])              # the charge of a block is what its header says, not its position
        if i % 7 == 3:
            t["name"] = t["name"].capitalize()    # '/Carbon': the comparison of names is case-insensitive on the file side
        c = Case("adf11", "%s nd=%d nt=%d blocks=%d term=%s" % ("resolved" if t["resolved"] else "unresolved", len(t["dens"]),
                                                              len(t["temps"]), len(t["blocks"]), t["terminator"]),
                 W.write_adf11(t), tokens=t, element=t["name"].lower(), z=t["z"], install=types[i % 6])
        c.expected = exp_adf11(W.expected_adf11(t))
        c.model = "parse_adf11 rx11_src %d (S_ %s) (lines FILE)" % (t["z"], coq_string(t["name"].lower()))
        c.as_path = (i % 6 == 1)                  # pathlib.Path instead of str
        if i % 5 == 2:
            c.cls += " shuffled-blocks"
        cases.append(c)
    # an isotope where the file names the element: the unchanged code compares names, so deuterium is rejected (recorded outcome)
    t = W.gen_adf11(rng, nd=9, nt=2, resolved=False, element=("hydrogen", 1))
    c = Case("adf11", "isotope requested (deuterium, file /HYDROGEN)", W.write_adf11(t), tokens=t, element="deuterium", z=1)
    c.expected = "EValue"
    c.model = "parse_adf11 rx11_src 1 (S_ \"deuterium\") (lines FILE)"
    cases.append(c)
    # corpus of past disagreements / findings (token tables; the text is re-written by the writer), run with the rest
    cdir = os.path.join(os.path.dirname(os.path.dirname(os.path.abspath(__file__))), "corpus", "C08")
    for fn in sorted(f for f in os.listdir(cdir) if f.endswith(".json")) if os.path.isdir(cdir) else []:
        ent = json.load(open(os.path.join(cdir, fn)))
        if ent["kind"] == "adf11":
            t = ent["tokens"]
            c = Case("adf11", "corpus:" + fn, W.write_adf11(t), tokens=t, element=t["name"].lower(), z=t["z"])
            c.expected = exp_adf11(W.expected_adf11(t))
            c.known = ent.get("known")
            c.model_expected = not c.known
            c.model = "parse_adf11 rx11_src %d (S_ %s) (lines FILE)" % (t["z"], coq_string(t["name"].lower()))
            cases.append(c)
    # recorded finding: unresolved file, <= 8 densities, first log10(Te) negative
    for nd in ((8, 3) if q else (8, 3, 1, 5)):
        while True:
            t = W.gen_adf11(rng, nd=nd, nt=rng.choice([5, 9]), resolved=False)
            if t["temps"][0].startswith("-") and len(t["blocks"]) <= 3:
                break
        c = Case("adf11", "unresolved nd<=8 first logTe<0", W.write_adf11(t), tokens=t, element=t["name"].lower(), z=t["z"])
        c.expected = exp_adf11(W.expected_adf11(t))
        c.known = "adf11-small"
        c.model_expected = False
        c.model = "parse_adf11 rx11_src %d (S_ %s) (lines FILE)" % (t["z"], coq_string(t["name"].lower()))
        cases.append(c)
    # element header does not match the requested element: name / nuclear charge
    for variant in ("name", "z", "both"):
        t = W.gen_adf11(rng, nd=9, nt=3, element=("carbon", 6))
        req = "carbon"
        if variant == "name":
            t["name"] = "NEON"            # header: Z=6 /NEON, requested: carbon
        elif variant == "z":
            t["z"] = 10                   # header: Z=10 /CARBON, requested: carbon (Z=6)
        else:
            req = "neon"                  # header: Z=6 /CARBON, requested: neon (Z=10)
        c = Case("adf11", "element-mismatch:" + variant, W.write_adf11(t), tokens=t, element=req, z=dict(W.ELEMENTS)[req])
        c.expected = "EValue"
        c.model = "parse_adf11 rx11_src %d (S_ %s) (lines FILE)" % (c.z, coq_string(req))
        cases.append(c)

    # ---- ADF15 -----------------------------------------------------------------------------------------
    n15 = 24 if q else 180
    for i in range(n15):
        fmt = ("hydrogen", "hydrogen-like", "full")[i % 3]
        t = W.gen_adf15(rng, fmt, nblocks=rng.choice([1, 2, 3]) if q else None,
                        nd=rng.choice([1, 2, 8, 9]) if q else None, nt=rng.choice([1, 3, 8, 9]) if q else None,
                        permute_index=(i % 4 == 1), duplicate=(i % 6 == 4))
        fname = "file.dat"
        if fmt == "hydrogen":
            sel = i % 9
            if sel == 0:
                elname, ch, hf = "neon", 3, "hydrogen"
            elif sel == 3:
                elname, ch, hf, fname = "carbon", 5, None, "pec#bnd#c5.dat"       # fall back to the hydrogen index format
            else:
                elname, ch, hf = "hydrogen", 0, None
        elif fmt == "hydrogen-like":
            elname, ch, hf = ("carbon", 5, None) if i % 2 else ("neon", 3, "hydrogen-like")
        else:
            elname, ch, hf = rng.choice([("carbon", 2, None), ("neon", 6, None), ("argon", 15, None)])
        malformed = None
        if i % 10 == 7 and len(t["blocks"]) >= 1:
            malformed = "absent-block"
            t["blocks"].pop(rng.randrange(len(t["blocks"])))
        elif i % 30 == 11:
            malformed = "bad-first-line"
        elif i % 30 == 20:
            malformed = "unknown-type"
            t["index"][rng.randrange(len(t["index"]))]["type"] = "IONIS"
        txt = W.write_adf15(t)
        if malformed == "bad-first-line":
            txt = txt.replace("    /", "  /", 1)
        c = Case("adf15", "%s blocks=%d %s" % (fmt, len(t["blocks"]), malformed or "ok"), txt, fname=fname, tokens=t,
                 element=elname, charge=ch, header_format=hf)
        if malformed == "absent-block":
            c.expected = "ERuntime"
        elif malformed in ("bad-first-line", "unknown-type"):
            c.expected = "EValue"
        else:
            c.expected = exp_adf15(W.expected_adf15(t))
        zel = dict(W.ELEMENTS)[elname]
        c.model = "parse_adf15 rx15_src %s %s %s %s (lines FILE)" % tuple(
            "true" if b else "false" for b in (hf == "hydrogen" or elname == "hydrogen", hf == "hydrogen-like",
                                               zel - ch == 1, "bnd#" in fname))
        if not malformed:
            form = i % 8                             # the charge as int / NumPy integer / decimal string / float; the path as Path
            c.charge_arg = {1: np.int64(ch), 3: str(ch), 5: float(ch)}.get(form, ch)
            c.as_path = (form == 6 and "bnd#" not in fname)
            if form in (1, 3, 5, 6):
                c.cls += " argform=%s" % {1: "np.int64", 3: "str", 5: "float", 6: "Path"}[form]
        cases.append(c)
    # thermal-CX (CHEXC) blocks at both ends of the charge range: the hydrogen-like ion (receiver = bare nucleus, charge Z) and the
    # neutral (receiver charge 1), for several elements -- the install path re-keys them to receiver charge + 1
    light = [e for e in W.ELEMENTS if 2 <= e[1] <= 18]
    for elname, z in rng.sample(light, 3 if q else 6):
        t = W.gen_adf15(rng, "hydrogen-like", nblocks=rng.choice([1, 2]), nd=rng.choice([1, 2]), nt=rng.choice([2, 3]), force_type="CHEXC")
        cases.append(mk_adf15(t, "hydrogen-like %s+%d with CHEXC (receiver = bare nucleus)" % (elname, z - 1), elname, z - 1))
        t = W.gen_adf15(rng, "full", nblocks=rng.choice([1, 2]), nd=rng.choice([1, 2]), nt=rng.choice([2, 3]), force_type="CHEXC")
        cases.append(mk_adf15(t, "neutral %s with CHEXC (receiver charge 1)" % elname, elname, 0))
    # isotopes: deuterium is not `hydrogen`, so without header_format the hydrogen index layout is not tried (recorded rejection:
    # RuntimeError); with header_format='hydrogen' the file is read
    for hf in (None, "hydrogen"):
        t = W.gen_adf15(rng, "hydrogen", nblocks=2, nd=2, nt=2)
        c = Case("adf15", "isotope deuterium header_format=%s" % hf, W.write_adf15(t), tokens=t, element="deuterium", charge=0, header_format=hf)
        c.expected = exp_adf15(W.expected_adf15(t)) if hf else "ERuntime"
        c.model = "parse_adf15 rx15_src %s false true false (lines FILE)" % ("true" if hf else "false")
        cases.append(c)
    # F11: a neon file parsed as carbon
    t = W.gen_adf15(rng, "full", nblocks=2, nd=2, nt=3)
    t["title"] = "NE+ 3 PHOTON EMISSIVITY COEFFICIENTS"
    c = Case("adf15", "element-mismatch", W.write_adf15(t), tokens=t, element="carbon", charge=2, header_format=None)
    c.expected = "EValue"
    c.known = "adf15-elem"
    c.model_expected = False
    c.model = "parse_adf15 rx15_src false false false false (lines FILE)"
    cases.append(c)
    # ---- multi-digit header fields, every format, both tiers ------------------------------------------------
    cases += multi_digit_cases(rng, reps=1 if q else 3, quick=q)
    # ---- coinciding axis lengths (square tables), every family, both tiers -------------------------------------------
    cases += square_cases(rng, reps=1 if q else 4)
    return cases


# ---------------------------------------------------------------------------------------------------
# running the implementation
# ---------------------------------------------------------------------------------------------------
def arg_forms(c, E):
    """the beam species (an element or an isotope), the carbon target, and the integer arguments either as Python ints or as
    NumPy integers (both are accepted by the API and must give the same tables)"""
    B = getattr(E, getattr(c, "beam", "hydrogen"))
    if getattr(c, "np_ints", False):
        return B, E.carbon, np.int64(6), (np.int64(3), np.int32(2))
    return B, E.carbon, 6, (3, 2)


def run_impl(ctx, c, E, parse, workdir):
    path = os.path.join(workdir, c.fname)
    with open(path, "w") as fh:
        fh.write(c.text)
    ctx.crumb({"kind": c.kind, "cls": c.cls, "file_text": c.text[:20000]})
    H, C, q6, tr32 = arg_forms(c, E)
    if getattr(c, "as_path", False):
        path = pathlib.Path(path)
    try:
        if c.kind == "adf21":
            tgt = getattr(E, getattr(c, "target", "carbon"))
            c.impl = tbl_adf2x(parse.parse_adf21(H, tgt, q6, path)[H][tgt][6])
        elif c.kind == "adf22bmp":
            c.impl = tbl_adf2x(parse.parse_adf22bmp(H, 2, C, q6, path)[H][2][C][6])
        elif c.kind == "adf22bme":
            tgt = getattr(E, getattr(c, "target", "carbon"))
            c.impl = tbl_adf2x(parse.parse_adf22bme(H, tgt, q6, tr32, path)[H][tgt][6][(3, 2)])
        elif c.kind == "adf12":
            r = parse.parse_adf12(H, 1, C, 6, path)
            d = {}
            if H in r:
                for tr, by_meta in r[H][C][6].items():
                    assert list(by_meta.keys()) == [1], by_meta.keys()
                    d[tr] = by_meta[1]
            c.impl = tbl_adf12(d)
        elif c.kind == "adf11":
            el = getattr(E, c.element)
            r = parse.parse_adf11(el, path)
            c.raw = r[el] if el in r else {}
            c.impl = tbl_adf11(c.raw)
        elif c.kind == "adf15":
            el = getattr(E, c.element)
            rates, wl = parse.parse_adf15(el, getattr(c, "charge_arg", c.charge), path, header_format=c.header_format)
            c.impl = tbl_adf15(rates, wl, el, c.charge)
    except Exception as exc:            # mapped to the enum and compared with the model; never dropped
        c.impl = err_of(exc)
        c.notes["exception"] = repr(exc)[:300]
    return str(path)


def _call(fails, what, f, *args, **kw):
    """run an install / accessor call; an exception is an OUTCOME (recorded in `fails`, compared with what the model says is
    there), never the end of the run"""
    try:
        return True, f(*args, **kw)
    except Exception as exc:
        fails.append("%s raised %r" % (what, exc))
        return False, None


def roundtrip(ctx, c, E, path, workdir):
    """install_adf*(file) into a fresh repository, read back with the repository's get_* and compare with the
    parser's tables (exactly: the repository stores doubles as JSON).  Returns a list of failure strings."""
    from cherab.openadas import install, repository
    repo = os.path.join(workdir, "repo_%s" % c.kind)
    shutil.rmtree(repo, ignore_errors=True)
    home_repo = os.path.join(os.environ["HOME"], ".cherab")
    H, C, q6, tr32 = arg_forms(c, E)
    fails = []
    kw = dict(download=False, repository_path=repo, adas_path=workdir)
    back = None
    if c.kind in ("adf21", "adf22bmp", "adf22bme"):
        inst, iargs, get, gargs = {
            "adf21": (install.install_adf21, (H, C, q6), repository.get_beam_stopping_rate, (H, C, 6)),
            "adf22bmp": (install.install_adf22bmp, (H, 2, C, q6), repository.get_beam_population_rate, (H, 2, C, 6)),
            "adf22bme": (install.install_adf22bme, (H, C, q6, tr32), repository.get_beam_emission_rate, (H, C, 6, (3, 2)))}[c.kind]
        ok, _ = _call(fails, "install_%s%r of a file the parser accepts" % (c.kind, tuple(str(a) for a in iargs)), inst, *iargs, c.fname, **kw)
        if ok:
            ok, r = _call(fails, "%s%r after the install (expected: the table parsed from the file)" % (get.__name__, tuple(str(a) for a in gargs)),
                          get, *gargs, repo)
            if ok:
                back = tbl_adf2x(r)
    elif c.kind == "adf12":
        ok, _ = _call(fails, "install_adf12(%s, 1, C, 6) of a file the parser accepts" % H.symbol, install.install_adf12, H, 1, C, 6, c.fname, **kw)
        d = {}
        for keys, _, _ in (c.impl if ok else []):
            ok2, got = _call(fails, "get_beam_cx_rates(%s, C, 6, transition %s) after the install (expected: the block parsed from the file)" % (H.symbol, keys),
                             repository.get_beam_cx_rates, H, C, 6, keys, repo)
            if not ok2:
                continue
            metas = got if isinstance(got, dict) else dict(got)
            if sorted(int(k) for k in metas.keys()) != [1]:
                fails.append("beam CX rates of %s stored under metastables %s, installed metastable 1" % (keys, list(metas.keys())))
                continue
            d[keys] = list(metas.values())[0]
        # the repository's beam-CX table has no slot for the reference abscissae (ebref ... bref): compared without them
        back = tbl_adf12(d, refs=("qref",))
        parsed = [(k, sh, vals[:-1] + [vals[-1][-1:]]) for k, sh, vals in c.impl]
        diff = tables_exact(parsed, back) if ok else None
        if diff:
            fails.append("install + read back differs from the parsed tables: " + diff)
        return fails, back
    elif c.kind == "adf15":
        el = getattr(E, c.element)
        ok, _ = _call(fails, "install_adf15(%s, %r) of a file the parser accepts" % (el.symbol, getattr(c, "charge_arg", c.charge)),
                      install.install_adf15, el, getattr(c, "charge_arg", c.charge), c.fname, header_format=c.header_format, **kw)
        back = []
        for keys, shape, vals in (c.impl if ok else []):
            tr = tuple(keys[1:])
            if keys[0] == "wavelength":
                ok2, w = _call(fails, "get_wavelength(%s, %d, %s) after install_adf15 (expected %r from the file's index)" % (el.symbol, c.charge, tr, vals[0][0]),
                               repository.get_wavelength, el, c.charge, tr, repo)
                if ok2:
                    back.append((keys, [], [[float(w)]]))
            elif keys[0] == "thermalcx":
                ok2, r = _call(fails, "get_pec_thermal_cx_rate(donor H 0, receiver %s charge %d, transition %s) after install_adf15(%s, %d) of a file with "
                                      "a CHEXC block for that transition (expected: the %dx%d table of the block, on two donor temperatures)"
                               % (el.symbol, c.charge + 1, tr, el.symbol, c.charge, shape[0], shape[1]),
                               repository.get_pec_thermal_cx_rate, E.hydrogen, 0, el, c.charge + 1, tr, repo)
                if not ok2:
                    continue
                rate = np.asarray(r["rate"])
                td = np.asarray(r["td"])
                if rate.ndim != 3 or rate.shape[2] != len(td) or not np.array_equal(rate[:, :, 0], rate[:, :, -1]):
                    fails.append("thermal CX PEC %s read back with shape %s / donor-temperature dependence" % (tr, rate.shape))
                    continue
                back.append((keys, list(rate.shape[:2]), [flat(r["ne"]), flat(r["te"]), flat(rate[:, :, 0])]))
                c.back3d = getattr(c, "back3d", []) + [(("hydrogen", 0, c.charge + 1) + tr, list(rate.shape),
                                                        [flat(r["ne"]), flat(r["te"]), flat(td), flat(rate)])]
            else:
                get = repository.get_pec_excitation_rate if keys[0] == "excitation" else repository.get_pec_recombination_rate
                ok2, r = _call(fails, "%s(%s, %d, %s) after install_adf15 (expected: the %s block of the file)" % (get.__name__, el.symbol, c.charge, tr, keys[0]),
                               get, el, c.charge, tr, repo)
                if ok2:
                    rate = np.asarray(r["rate"])
                    back.append((keys, list(rate.shape), [flat(r["ne"]), flat(r["te"]), flat(rate)]))
    else:
        return fails, None
    if back is not None and not fails:
        diff = tables_exact(c.impl, back)
        if diff:
            fails.append("install + read back differs from the parsed tables: " + diff)
    if os.path.exists(home_repo):
        fails.append("install wrote outside the repository path given (%s exists)" % home_repo)
        shutil.rmtree(home_repo, ignore_errors=True)
    return fails, back


def tables_exact(a, b):
    da = {tuple(k): (list(s), v) for k, s, v in a}
    db = {tuple(k): (list(s), v) for k, s, v in b}
    if set(da) != set(db):
        return "key sets differ (%s / %s)" % (sorted(map(str, set(da) - set(db)))[:3], sorted(map(str, set(db) - set(da)))[:3])
    for k in da:
        if da[k][0] != db[k][0]:
            return "shape of %s: %s vs %s" % (k, da[k][0], db[k][0])
        if da[k][1] != db[k][1]:
            return "values of %s differ" % (k,)
    return None


ADF11_GET = {"scd": ("install_adf11scd", "get_ionisation_rate", "Scd"), "acd": ("install_adf11acd", "get_recombination_rate", "Acd"),
             "ccd": ("install_adf11ccd", "get_thermal_cx_rate", "Ccd"), "plt": ("install_adf11plt", "get_line_radiated_power_rate", "Plt"),
             "prb": ("install_adf11prb", "get_continuum_radiated_power_rate", "Prb"), "prc": ("install_adf11prc", "get_cx_radiated_power_rate", "Prc")}


def roundtrip_adf11(ctx, c, E, workdir):
    """install_adf11<type> + get_* for every charge; returns (failures, pow table, read-back table)."""
    from cherab.openadas import install, repository
    repo = os.path.join(workdir, "repo_adf11")
    shutil.rmtree(repo, ignore_errors=True)
    el = getattr(E, c.element)
    inst, get, _ = ADF11_GET[c.install]
    kw = dict(download=False, repository_path=repo, adas_path=workdir)
    if c.install == "ccd":
        getattr(install, inst)(E.hydrogen, 0, el, c.fname, **kw)
    else:
        getattr(install, inst)(el, c.fname, **kw)
    back = {}
    for ch in range(-1, el.atomic_number + 2):
        try:
            if c.install == "ccd":
                back[ch] = getattr(repository, get)(E.hydrogen, 0, el, ch, repo)
            else:
                back[ch] = getattr(repository, get)(el, ch, repo)
        except RuntimeError:             # the repository's "not available": this charge was not stored
            pass
    corr = -1 if c.install in ("scd", "plt") else 0
    fails = []
    want = sorted(z1 + corr for z1 in c.raw)
    if sorted(back) != want:
        fails.append("%s: blocks Z1=%s stored under charges %s; the %s convention is Z1%+d" % (c.install, sorted(c.raw), sorted(back), c.install, corr))
    powt = [((int(z1),), list(np.asarray(r["rates"]).shape),
             [flat(np.power(10.0, r["ne"])), flat(np.power(10.0, r["te"])), flat(np.power(10.0, r["rates"]))]) for z1, r in c.raw.items()]
    backt = tbl_adf11(back, "rate")
    # executable statement on the implementation: read back = 10**parsed with the unit factors, axis order (ne, te)
    for z1, r in c.raw.items():
        b = back.get(z1 + corr)
        if b is None:
            continue
        for name, val in (("ne", 1e6 * np.power(10.0, r["ne"])), ("te", np.power(10.0, r["te"])), ("rate", 1e-6 * np.power(10.0, r["rates"]))):
            got = np.asarray(b[name])
            if got.shape != val.shape or not np.allclose(got, val, rtol=1e-13, atol=0):
                fails.append("%s Z1=%d: %s read back is not 10**(file value) with the unit factor (shape %s vs %s)" % (c.install, z1, name, got.shape, val.shape))
    return fails, powt, backt


# ---------------------------------------------------------------------------------------------------
# histories on ONE repository: sequences of installs through every entry point
# ---------------------------------------------------------------------------------------------------
def install_call(c, E):
    """(name of the install function, positional arguments before file_path)"""
    B, C, q6, tr32 = arg_forms(c, E)
    if c.kind == "adf21":
        return "adf21", (B, C, q6)
    if c.kind == "adf22bmp":
        return "adf22bmp", (B, 2, C, q6)
    if c.kind == "adf22bme":
        return "adf22bme", (B, C, q6, tr32)
    if c.kind == "adf12":
        return "adf12", (B, 1, C, 6)
    if c.kind == "adf15":
        return "adf15", (getattr(E, c.element), getattr(c, "charge_arg", c.charge))
    el = getattr(E, c.element)
    return "adf11" + c.install, ((E.hydrogen, 0, el) if c.install == "ccd" else (el,))


def install_case(c, E, repo, adas_dir, rel, via="direct"):
    """via: 'direct' install_adfNN(...), 'files' install_files({...}) (the dispatcher, mixed-case key), 'cache' the file is found in
    <repository>/_download_cache (download=True, no adas_path; nothing is fetched).  repo None = the default repository."""
    from cherab.openadas import install, repository
    name, args = install_call(c, E)
    kw = {}
    if c.kind == "adf15" and c.header_format is not None:
        kw["header_format"] = c.header_format
        via = "direct" if via == "files" else via
    if via == "files":
        key = name[:3].upper() + name[3:]
        install.install_files({key: [tuple(args) + (rel,)]}, download=False, repository_path=repo, adas_path=adas_dir)
    elif via == "cache":
        root = repo or repository.utility.DEFAULT_REPOSITORY_PATH
        dst = os.path.join(root, "_download_cache", rel)
        os.makedirs(os.path.dirname(dst), exist_ok=True)
        shutil.copyfile(os.path.join(adas_dir, rel), dst)
        getattr(install, "install_" + name)(*args, rel, download=True, repository_path=repo, **kw)
    else:
        getattr(install, "install_" + name)(*args, rel, download=False, repository_path=repo, adas_path=adas_dir, **kw)


def read_tree(root):
    out = {}
    for d, dirs, files in os.walk(root):
        if "_download_cache" in d:
            continue
        for f in files:
            p = os.path.join(d, f)
            rel = os.path.relpath(p, root)
            try:
                out[rel] = json.load(open(p))
            except ValueError as e:
                out[rel] = "UNREADABLE: %s" % e
    return out


def merge_tree(model, tree):
    """the stateless model of a repository fed with a sequence of installs: beam stopping / population files are replaced, beam CX
    files are keyed by transition then metastable, every other file by its top-level key (charge or transition); a key that
    is written again is replaced, the other keys stay"""
    for path, content in tree.items():
        if path.startswith(("beam/stopping", "beam/population")) or not isinstance(content, dict):
            model[path] = content
        elif path.startswith("beam/cx"):
            tgt = model.setdefault(path, {})
            for k, v in content.items():
                tgt.setdefault(k, {}).update(v)
        else:
            model.setdefault(path, {}).update(content)


def tree_diff(model, actual):
    if set(model) != set(actual):
        return "files differ: missing %s, unexpected %s" % (sorted(set(model) - set(actual))[:3], sorted(set(actual) - set(model))[:3])
    for path in model:
        a, b = model[path], actual[path]
        if a != b:
            if isinstance(a, dict) and isinstance(b, dict) and set(a) != set(b):
                return "%s: keys missing %s, unexpected %s" % (path, sorted(set(a) - set(b))[:4], sorted(set(b) - set(a))[:4])
            bad = [k for k in a if a[k] != b[k]][:3] if isinstance(a, dict) and isinstance(b, dict) else []
            return "%s: content differs (keys %s)" % (path, bad)
    return None


def run_histories(ctx, E, cases, workdir, n_hist):
    """Drive ONE repository through a sequence of installs (several formats, files whose keys overlap, the same file twice, a
    file with fewer charge states after one with more), through install_adfNN, install_files and the download-cache route, with
    an explicit repository path and with the default one; after EVERY step the whole repository tree must equal the merge of
    the trees that fresh single installs of the same files produce."""
    from cherab.openadas import repository
    rng = ctx.rng
    ok = [c for c in cases if isinstance(c.impl, list) and isinstance(c.expected, list) and not c.known and len(c.text) < 60000
          and tables_match(c.impl, c.expected) is None and (c.kind != "adf11" or getattr(c, "install", None))]
    fails, steps = [], 0
    fresh = {}
    for hi in range(n_hist):
        default_repo = (hi % 2 == 1)
        by_kind = {}
        for c in ok:
            by_kind.setdefault(c.kind + getattr(c, "install", ""), []).append(c)
        seq = []
        for k, lst in by_kind.items():
            seq += rng.sample(lst, min(2, len(lst)))
        rng.shuffle(seq)
        seq = seq[:10]
        seq += [seq[0], seq[len(seq) // 2]]                      # the same files once more, after others touched the repository
        adas_dir = os.path.join(workdir, "hist_adas_%d" % hi) + "/"
        repo = None if default_repo else os.path.join(workdir, "hist_repo_%d" % hi)
        root = repo or repository.utility.DEFAULT_REPOSITORY_PATH
        shutil.rmtree(root, ignore_errors=True)
        model = {}
        vias = itertools.cycle(["direct", "files", "cache"])
        for si, c in enumerate(seq):
            rel = "adf%02d/sub dir/%02d_%s" % (si % 3, si, c.fname)
            os.makedirs(os.path.dirname(os.path.join(adas_dir, rel)), exist_ok=True)
            with open(os.path.join(adas_dir, rel), "w") as fh:
                fh.write(c.text)
            if id(c) not in fresh:
                fr = os.path.join(workdir, "hist_fresh")
                shutil.rmtree(fr, ignore_errors=True)
                install_case(c, E, fr, adas_dir, rel, "direct")
                fresh[id(c)] = read_tree(fr)
            via = next(vias)
            ctx.crumb({"history": hi, "step": si, "via": via, "kind": c.kind, "cls": c.cls})
            try:
                install_case(c, E, repo, adas_dir, rel, via)
                d = None
            except Exception as exc:      # a file that installs alone must install in a sequence / through every route
                d = "install raised %r" % (exc,)
            merge_tree(model, json.loads(json.dumps(fresh[id(c)])))
            steps += 1
            d = d or tree_diff(model, read_tree(root))
            if d:
                fails.append((c, "a sequence of installs into one repository leaves, after every step, the tables of the files installed "
                                 "(each key from the file that wrote it last)",
                              "history %d (%s repository), step %d via %s (%s %s): %s; sequence so far: %s" % (
                                  hi, "default" if default_repo else "explicit", si, via, c.kind, c.cls, d,
                                  [(x.kind, x.cls[:30]) for x in seq[:si + 1]])))
                break
        shutil.rmtree(os.path.join(os.environ["HOME"], ".cherab"), ignore_errors=True)
    # dispatcher sweep: ONE install_files call whose configuration holds one file of every kind (all eleven branches, mixed-case
    # keys) into a fresh repository = the merge of the single installs
    from cherab.openadas import install
    adas_dir = os.path.join(workdir, "sweep_adas")
    repo = os.path.join(workdir, "sweep_repo")
    shutil.rmtree(repo, ignore_errors=True)
    os.makedirs(adas_dir, exist_ok=True)
    config, model, used = {}, {}, []
    by_kind = {}
    for c in ok:
        if c.kind != "adf15" or c.header_format is None:
            by_kind.setdefault(c.kind + getattr(c, "install", ""), []).append(c)
    for k in sorted(by_kind):
        c = rng.choice(by_kind[k])
        rel = "%02d_%s" % (len(used), c.fname)
        with open(os.path.join(adas_dir, rel), "w") as fh:
            fh.write(c.text)
        if id(c) not in fresh:
            fr = os.path.join(workdir, "hist_fresh")
            shutil.rmtree(fr, ignore_errors=True)
            install_case(c, E, fr, adas_dir, rel, "direct")
            fresh[id(c)] = read_tree(fr)
        name, args = install_call(c, E)
        config[name[:5].upper() + name[5:]] = [tuple(args) + (rel,)]
        merge_tree(model, json.loads(json.dumps(fresh[id(c)])))
        used.append(c)
    if used:
        try:
            install.install_files(config, download=False, repository_path=repo, adas_path=adas_dir)
            d = tree_diff(model, read_tree(repo))
        except Exception as exc:
            d = "install_files raised %r" % (exc,)
        steps += len(used)
        if d:
            fails.append((used[0], "install_files(configuration) installs every file of the configuration as the matching install_adfNN does",
                          "one configuration with the kinds %s: %s" % (sorted(config), d)))
    return fails, steps


def probe_locate(workdir):
    """_locate_adas_file in all sixteen situations (adas_path given / file there / download / file in the cache); a download
    attempt is observed through the stubbed urlretrieve.  Returns the Coq literal of the observations."""
    from cherab.openadas import install
    obs = []
    for k in range(16):
        given, there, download, cached = bool(k & 8), bool(k & 4), bool(k & 2), bool(k & 1)
        root = os.path.join(workdir, "locate_%d" % k)
        adas, repo = os.path.join(root, "adas"), os.path.join(root, "repo")
        os.makedirs(adas)
        os.makedirs(os.path.join(repo, "_download_cache", "adf99"))
        if there:
            os.makedirs(os.path.join(adas, "adf99"))
            open(os.path.join(adas, "adf99", "x.dat"), "w").write("a")
        if cached:
            open(os.path.join(repo, "_download_cache", "adf99", "x.dat"), "w").write("c")
        try:
            p = install._locate_adas_file("adf99/x.dat", download=download, adas_path=adas if given else None, repository_path=repo)
            if p is None:
                r = "NotLocated"
            elif os.path.abspath(p) == os.path.abspath(os.path.join(adas, "adf99", "x.dat")):
                r = "InAdasPath"
            elif os.path.abspath(p) == os.path.abspath(os.path.join(repo, "_download_cache", "adf99", "x.dat")):
                r = "InCache"
            else:
                r = "NotLocated (* unexpected path %s *)" % os.path.basename(str(p))
        except RuntimeError as exc:
            r = "Download" if "download attempted" in str(exc) else "NotLocated"
        obs.append("(%s, %s, %s, %s, %s)" % tuple(["true" if b else "false" for b in (given, there, download, cached)] + [r]))
    return "[" + "; ".join(obs) + "]"


def numpy_metastable_history(ctx, E, cases, workdir):
    """ADF12 with the donor metastable given as a NumPy integer: the unchanged code rejects the form (TypeError from json) --
    recorded as the expected outcome -- but a rejected install must not damage the repository: the same file installed next
    with a Python int must be stored and read back."""
    from cherab.openadas import install, repository
    c = next((x for x in cases if x.kind == "adf12" and isinstance(x.impl, list) and x.impl and len(x.text) < 30000), None)
    if c is None:
        return []
    repo = os.path.join(workdir, "repo_np_meta")
    shutil.rmtree(repo, ignore_errors=True)
    path = os.path.join(workdir, "np_meta.dat")
    open(path, "w").write(c.text)
    kw = dict(download=False, repository_path=repo, adas_path=workdir)
    first = "accepted"
    try:
        install.install_adf12(E.hydrogen, np.int64(1), E.carbon, 6, "np_meta.dat", **kw)
    except TypeError as exc:
        first = "TypeError: %s" % exc
    try:
        install.install_adf12(E.hydrogen, 2, E.carbon, 6, "np_meta.dat", **kw)
        got = dict(repository.get_beam_cx_rates(E.hydrogen, E.carbon, 6, tuple(c.impl[0][0]), repo))
        if 2 not in [int(k) for k in got]:
            return [(c, "adf12-npmeta", "installing the file and reading it back yields the same tables",
                     "metastable 2 not readable after a rejected install with metastable np.int64(1) (%s)" % first)]
    except Exception as exc:
        return [(c, "adf12-npmeta", "installing the file and reading it back yields the same tables",
                 "install_adf12(H, np.int64(1), C, 6) -> %s; the next install_adf12(H, 2, C, 6) of the same file into the same repository "
                 "fails with %r: the rejected call left a truncated JSON file behind" % (first, exc))]
    return []


# ---------------------------------------------------------------------------------------------------
def run(ctx):
    ctx.trusted += [
        "Coq 8.16.1 kernel, vm_compute (no native_compute)",
        "harness/c08_writers.py (independent writers of the ADF formats as known to the author; no real ADAS file is available offline), "
        "harness/c08.py (case generator, table flattening, Q literal printer), comparator Model/C08_Check.v",
        "harness/c08_regex.py: fail-closed translation of the source's regular expressions (parsed by CPython's re._parser) into the "
        "AST of the Coq matcher; the matcher itself (Model/C08_Text.v) is tied to Python's re only by the correspondence",
        "CPython float()/int() (modelled as exact decimal values; compared at 2^-50 relative), NumPy fromstring/reshape/swapaxes/power, "
        "libm pow for 10**x (oracle: bracketed between integer powers of ten inside Coq), json round trip of doubles",
    ]
    ctx.assumptions += [
        "well-formed file = output of the writers in harness/c08_writers.py: FORTRAN records (I5 counts, 8 or 6 fields per record, a new "
        "record for every READ), D or E exponents in data records, E exponents in ADF21/22 header scalars, ADF11 files end with a 'C---' "
        "comment block, ADF15 comment index in the hydrogen / hydrogen-like / full-configuration layouts",
        "for a metastable-resolved ADF11 file the table of a charge state is that of the last (IPRT, IGRD) block of the stage",
    ]
    ctx.rebuild()
    ctx.proofs("Properties.C08", THEOREMS, extra_modules=("Model.C08_Check", "Proofs.C08_Findings", "Proofs.C08_Matcher"))

    import cherab
    from common import REPO
    assert list(cherab.__path__) == [REPO + "/cherab"], cherab.__path__
    from cherab.core.atomic import elements as E
    from cherab.openadas import parse
    import urllib.request

    def _no_network(url, target, *a, **k):      # the check never downloads: a download attempt is a failure of the local look-up
        raise RuntimeError("download attempted for %s" % url)
    urllib.request.urlretrieve = _no_network

    # ---- (T) regular expressions from the current source --------------------------------------------------
    rx_text, problems, patterns = c08_regex.translate(REPO)
    ctx.obligation("translator: regular expressions of adf11.py / adf15.py -> coq/Gen/C08/Regex.v", "translator",
                   not problems, "\n".join(problems))
    if problems:
        ctx.log("translator problems: %s" % problems)
        # fall back to the patterns of the reference source so that the correspondence can still run and the
        # search can decide; the failed obligation already makes the run a violation
        ref = os.path.join(os.path.dirname(os.path.dirname(os.path.abspath(__file__))), "corpus", "C08", "Regex_ref.v")
        if os.path.exists(ref):
            rx_text = open(ref).read()      # last translation of a source on which the whole check passed (committed)
    rx_ok = False
    if rx_text:
        rx_path = ctx.write_gen("Regex.v", rx_text)
        rx_ok, out = coqc(rx_path, timeout=300)
        ctx.obligation("Gen/C08/Regex.v compiles", "translator", rx_ok, out)
        if rx_ok:
            tie = ("Require Import Cherab.Common.Qx Cherab.Model.C08_Text Cherab.Model.C08_Adf Cherab.Gen.C08.Regex Cherab.Proofs.C08_Matcher.\n"
                   "(* the separator expression translated from the current source is the one the matcher theorems are about *)\n"
                   "Lemma sep_tie : r11_sep rx11_src = sep_ref. Proof. reflexivity. Qed.\n")
            tie_ok, tie_out = coqc(ctx.write_gen("RegexTie.v", tie), timeout=300)
            ctx.obligation("Gen/C08/RegexTie.v: the separator expression of the source is sep_ref (C08_separator_regex_is_direct applies)",
                           "tie", tie_ok and not problems, tie_out)

    # ---- (T) constants and policy tables of the models, from the current source, with kernel-checked tie lemmas -------------
    lay_text, lay_problems, layout = c08_layout.translate(REPO)
    ctx.obligation("translator: columns / readvalues arguments / unit factors / charge-corrected types / install_files dispatch / "
                   "install_adf11* wiring read off the source", "translator", not lay_problems, "\n".join(lay_problems))
    lay_ok, lay_out = coqc(ctx.write_gen("Layout.v", lay_text), timeout=300)
    ctx.obligation("Gen/C08/Layout.v: %d tie lemmas (model constants = source constants; dispatch_ok, wiring_ok) accepted by the kernel"
                   % lay_text.count("Lemma "), "tie", lay_ok, lay_out)
    if lay_problems or not lay_ok:
        ctx.log("layout tie broken: %s %s" % (lay_problems, lay_out[-400:]))
        problems = list(problems) + ["adf2x adf12 adf11.py adf15.py (layout tie of the source constants broken: search seeded with every format)"]

    workdir = os.path.join(os.environ.get("VERIF_SCRATCH", "/var/tmp"), "c08")
    shutil.rmtree(workdir, ignore_errors=True)
    os.makedirs(workdir)

    # ---- corpus first, then generated cases ------------------------------------------------------------------
    cases = gen_cases(ctx, E)
    if problems:
        # the translator tie is broken: before anything is concluded, the search is seeded with files that exercise the patterns of
        # the parser(s) whose expressions changed -- the multi-digit / many-block families (implementation only, no Coq side)
        fmts = tuple(f for f in ("adf2x", "adf12", "adf11", "adf15") if any(f in pr for pr in problems)) or ("adf11", "adf15")
        extra = multi_digit_cases(ctx.rng, formats=fmts, reps=3, python_only=True)
        ctx.log("translator tie broken: search seeded with %d extra %s files" % (len(extra), "/".join(fmts)))
        cases += extra
    search_fails = []           # (case, known-key-or-None, claim, detail)
    n_roundtrip = 0
    for c in cases:
        path = run_impl(ctx, c, E, parse, workdir)
        # executable property on the implementation: parse(write(t)) = t / rejection
        diff = tables_match(c.impl, c.expected)
        if diff:
            claim = {"EValue": "a file whose element header does not match / malformed file is rejected",
                     "ERuntime": "a file whose requested block is absent is rejected"}.get(
                c.expected if isinstance(c.expected, str) else "", "parsed tables equal the file's numeric content under the documented conventions")
            search_fails.append((c, c.known, claim, diff + ((" [" + c.notes["exception"] + "]") if "exception" in c.notes else "")))
        if isinstance(c.impl, str) or isinstance(c.expected, str) or diff:
            continue
        # install + read back
        if c.kind == "adf11":
            if getattr(c, "install", None):
                try:
                    fails, powt, backt = roundtrip_adf11(ctx, c, E, workdir)
                except Exception as exc:      # an exception of install_adf11* / get_* on a file the parser accepts is the failing input
                    fails, powt, backt = ["install_adf11%s / read back raised %r" % (c.install, exc)], [], []
                n_roundtrip += 1
                c.extra.append(("install_adf11%s + read back = 10**model with units, under the %s charge convention" % (c.install, c.install),
                                "check_adf11_install_exact %s (MODEL) %s %s" % (ADF11_GET[c.install][2], raw_tbl_lit(powt), raw_tbl_lit(backt))))
                for f in fails:
                    search_fails.append((c, None, "installing the file and reading it back yields the same tables", f))
        else:
            c.back3d = []
            try:
                fails, _ = roundtrip(ctx, c, E, path, workdir)
            except Exception as exc:          # safety net: no accessor failure may end the run
                fails = ["install / read back raised %r" % (exc,)]
            n_roundtrip += 1
            if c.back3d or (c.kind == "adf15" and any(k[0] == "thermalcx" for k, _, _ in c.impl)):
                c.extra.append(("thermal-CX blocks read back from the repository (3-D, two donor temperatures) = model",
                                "check_thermalcx_exact %d (MODEL) %s" % (c.charge, raw_tbl_lit(c.back3d))))
            for f in fails:
                search_fails.append((c, None, "installing the file and reading it back yields the same tables", f))

    # ---- parsers are stateless: a file parsed again after all the others gives the same tables ---------------------
    n_reparse = 0
    for c in cases[::4]:
        first = c.impl
        run_impl(ctx, c, E, parse, workdir)
        n_reparse += 1
        if (isinstance(first, str) or isinstance(c.impl, str)) and first != c.impl or \
                (isinstance(first, list) and isinstance(c.impl, list) and tables_exact(first, c.impl)):
            search_fails.append((c, None, "parsing the same file again gives the same tables", "second parse differs from the first"))
        c.impl = first
    # ---- histories on one repository ------------------------------------------------------------------------------
    hist_fails, n_hist_steps = run_histories(ctx, E, cases, workdir, 2 if ctx.quick else 8)
    for c, claim, detail in hist_fails:
        search_fails.append((c, None, claim, detail))
    search_fails += numpy_metastable_history(ctx, E, cases, workdir)
    ctx.log("histories: %d install steps on shared repositories, %d failures; %d files parsed twice" % (n_hist_steps, len(hist_fails), n_reparse))

    first_coq = next((c for c in cases if not getattr(c, "python_only", False)), None)
    if first_coq is not None:
        first_coq.extra.append(("_locate_adas_file probed in 16 situations = model decision", "check_locate %s" % probe_locate(workdir)))
    # ---- (X) correspondence: the model is run by Coq on the text of the same files ---------------------------
    coq_cases = [c for c in cases if not getattr(c, "python_only", False)]
    ctx.log("implementation runs done (%d files); writing the Coq cases" % len(cases))
    blocks = []                 # per case: (case, definitions text, [(label, bool expr)])
    for gi, c in enumerate(coq_cases):
        name = "f%d" % gi
        # string literals longer than a few 10 kB overflow coqc's stack: the text is the concatenation of 8 kB pieces
        pieces = [c.text[i:i + 8000] for i in range(0, len(c.text), 8000)] or [""]
        defs = ["Definition %s : str := %s." % (name, " ++ ".join("S_ %s" % coq_string(p) for p in pieces)),
                "Definition m%d := Eval vm_compute in (%s)." % (gi, c.model.replace("FILE", name))]
        spec = {"adf21": "(spec_2x (qe 1 (-6)))", "adf22bme": "(spec_2x (qe 1 (-6)))", "adf22bmp": "(spec_2x 1)",
                "adf12": "spec_12", "adf11": "spec_11", "adf15": "spec_15"}[c.kind]
        c.checks = [("model = implementation, bit for bit (round53 of the decimal value, then the one double operation of the conversion)",
                     "res_exact %s m%d %s" % (spec, gi, tbl_lit(c.impl)))]
        if c.model_expected and c.expected is not None:
            c.checks.append(("model = what the writer wrote (exact rationals)", "res_same m%d %s" % (gi, tbl_lit(c.expected))))
        for label, expr in c.extra:
            c.checks.append((label, expr.replace("FILE", name).replace("(MODEL)", "m%d" % gi)))
        blocks.append((c, "\n".join(defs), c.checks))
    shards, cur, size = [], [], 0
    for blk in blocks:
        sz = len(blk[1]) + sum(len(e) for _, e in blk[2])
        if cur and size + sz > 45000:
            shards.append(cur)
            cur, size = [], 0
        cur.append(blk)
        size += sz
    if cur:
        shards.append(cur)
    paths = []
    for fi, sh in enumerate(shards):
        lines = ["Require Import Cherab.Common.Qx Cherab.Model.C08_Text Cherab.Model.C08_Adf Cherab.Model.C08_Check Cherab.Gen.C08.Regex.",
                 "From Coq Require Import Ascii String.", "Open Scope Z_scope.", "Open Scope Q_scope."]
        checks = []
        for c, defs, chk in sh:
            lines.append(defs)
            checks += [(c, label, expr) for label, expr in chk]
        lines.append("Definition results : list bool := [\n  " + ";\n  ".join(e for _, _, e in checks) + "].")
        lines.append("Eval vm_compute in (failing results).")
        paths.append((ctx.write_gen("cases_%03d.v" % fi, "\n".join(lines) + "\n"), checks))
    ctx.log("running coqc on %d case files" % len(paths))
    res = coqc_many([p for p, _ in paths], timeout=1500, jobs=16 if ctx.quick else 10) if rx_ok else {}
    # a coqc process that dies without an error message (killed under memory pressure on a shared machine) is re-run alone
    for p, _ in paths:
        for _attempt in range(3):
            ok, out = res.get(p, (True, ""))
            if ok or "Error" in out or "TIMEOUT" in out:
                break
            ctx.log("re-running %s (coqc exited without an error message)" % os.path.basename(p))
            res[p] = coqc(p, timeout=1500)
    diffs = []
    n_checks = 0
    for p, checks in paths:
        ok, out = res.get(p, (False, "Regex.v did not compile"))
        vals = parse_evals(out) if ok else []
        good = ok and len(vals) == 1
        failing = parse_zlist(vals[0]) if good else []
        n_checks += len(checks)
        ctx.obligation("correspondence %s (%d files, %d comparisons)" % (os.path.basename(p), len({id(c) for c, _, _ in checks}), len(checks)),
                       "correspondence", good and not failing,
                       out[-1500:] if not good else "; ".join("%s %s: %s" % (checks[i][0].kind, checks[i][0].cls, checks[i][1]) for i in failing))
        if not good:
            ctx.broken.append("coqc failed on %s: %s" % (p, out[-600:]))
        diffs += [checks[i] for i in failing]
    ctx.log("correspondence: %d files, %d comparisons in Coq, %d disagree; %d install/read-back round trips" % (
        len(coq_cases), n_checks, len(diffs), n_roundtrip))

    # ---- violations -------------------------------------------------------------------------------------------
    unknown = [s for s in search_fails if s[1] is None]
    ctx.obligation("executable property on the implementation (%d files; %d recorded findings reproduced)" % (
        len(cases), len({s[1] for s in search_fails if s[1]})), "search", not unknown,
        "; ".join("%s %s: %s" % (s[0].kind, s[0].cls, s[3][:200]) for s in unknown[:4]))
    reported = set()
    for c, known, claim, detail in search_fails:
        key = KNOWN_KEYS[known] if known else "c08:%s:%s" % (c.kind, claim[:48])
        if key in reported:
            continue
        reported.add(key)
        ctx.violation(key, "%s: %s -- %s (%s)" % (c.kind.upper(), claim, detail, c.cls),
                      {"kind": c.kind, "class": c.cls, "file_name": c.fname, "file_text": c.text[:60000],
                       "call": {k: getattr(c, k) for k in ("element", "z", "charge", "header_format", "target", "install", "norm") if hasattr(c, k)},
                       "claim": claim, "observed": detail}, found=True)
    # recorded findings that no longer reproduce would silently shrink the check: say so
    for tag, key in KNOWN_KEYS.items():
        if key in ctx.known and not any(s[1] == tag for s in search_fails) and any(c.known == tag for c in cases):
            ctx.log("note: recorded finding %s did not reproduce on this tree" % key)
    if diffs and not unknown:
        for c, label, _ in diffs[:3]:
            ctx.violation("c08-diff:%s:%s" % (c.kind, label[:40]),
                          "%s: %s fails for a %s file; the executable property found no failing input" % (c.kind.upper(), label, c.cls),
                          {"kind": c.kind, "class": c.cls, "file_text": c.text[:60000], "check": label}, found=False)

    # ---- coverage -----------------------------------------------------------------------------------------------
    by_kind, by_outcome = {}, {}
    for c in cases:
        by_kind[c.kind] = by_kind.get(c.kind, 0) + 1
        o = c.impl if isinstance(c.impl, str) else "table"
        by_outcome[o] = by_outcome.get(o, 0) + 1
    not_mult = sum(1 for c in cases if c.kind.startswith("adf2") and (len(c.tokens["eb"]) % 8 or len(c.tokens["dt"]) % 8))
    ctx.coverage.update({
        "evaluations": len(cases),
        "distinct_nontrivial": len({(c.kind, c.cls) for c in cases}),
        "rule": "one case = one generated file parsed by the real parser and by the Coq model; distinct = distinct (format, class) where class "
                "records grid sizes / block counts / header layout / malformation; every case has >= 1 value per table",
        "distribution": {"by_format": by_kind, "implementation_outcome": by_outcome, "comparisons_in_coq": n_checks,
                         "install_readback_roundtrips": n_roundtrip,
                         "history_install_steps_on_shared_repositories": n_hist_steps, "files_parsed_twice": n_reparse,
                         "adf2x_grids_not_multiple_of_8": not_mult,
                         "square_vs_non_square_tables": {k: {"square (axis lengths coincide)": sum(1 for c in cases if c.kind == k and is_square(c)),
                                                             "non-square": sum(1 for c in cases if c.kind == k and not is_square(c))}
                                                         for k in sorted({c.kind for c in cases})},
                         "adf11_resolved": sum(1 for c in cases if c.kind == "adf11" and c.tokens.get("resolved")),
                         "adf15_formats": {f: sum(1 for c in cases if c.kind == "adf15" and c.tokens["fmt"] == f) for f in ("hydrogen", "hydrogen-like", "full")},
                         "adf15_types": {t: sum(1 for c in cases if c.kind == "adf15" for b in c.tokens["blocks"] if b["type"] == t) for t in ("EXCIT", "RECOM", "CHEXC")},
                         "rejection_cases": sum(1 for c in cases if isinstance(c.expected, str)),
                         "python_only_cases": sum(1 for c in cases if getattr(c, "python_only", False))},
        "tolerance": {"values": "0 (exact): every double returned by the implementation equals round53 (RNE binary64, Model/C11_Round.v) of the "
                                "decimal value of its token followed by the one double operation of its conversion (x*1e6, x*double(1e-6), w/10); "
                                "checked by Qeq_bool inside Coq",
                      "model = writer's tokens": "0 (exact rationals)",
                      "keys, shapes, charge states, transitions, exception kinds": "exact",
                      "install/read-back (ADF12/15/21/22)": "bitwise equal doubles",
                      "ADF11 install/read-back": "0 given the oracle value P of 10**x: read back = round53(P*1e6), P, round53(P*double(1e-6)); "
                                                 "the oracle itself is bracketed by 10^floor(x), 10^ceil(x) in Coq"},
        "regex_patterns_translated": patterns,
        "source_constants_tied_by_kernel_lemmas": layout,
        "partial": ["file level: ADF21/22 file, ADF12 block + file, ADF15 block and ADF11 block loop + file round trips are theorems; in the ADF11 "
                    "and ADF15 ones the recognition of lines by regular expressions enters as hypotheses on the lines. Of these the separator "
                    "expression ^\\s*C*-{2,} is proved equal to a direct recogniser on all strings (and tied to the source by Gen/C08/RegexTie.v); "
                    "the other expressions (first separator with C{0}, end tests C{1}/C{0,1}, 'C' line, Z1 search, the ADF15 header / index / "
                    "block-id expressions with capture groups) are translated from the source and tied by the correspondence only: the star "
                    "lemma covers unbounded repetition of one-character tests, not bounded repetition nor capture groups",
                    "text -> number: parse_int / parse_float are proved to return the decimal value of the printed digits for the I, F and "
                    "1PE/1PD token shapes; that CPython's float() is round-to-nearest-even to binary64 of that value is no longer a tolerance: "
                    "it is checked exactly on every value by the correspondence (model of binary64 RNE: Model/C11_Round.v)",
                    "ADF21/22 header column positions are read off the source (kernel tie lemma) and agree with the writer; no published "
                    "sample is available offline"],
        "compared_in_coq": {"model = implementation tables (keys, shapes exact; values 2^-50)": "every file",
                            "model = writer's tokens": "every well-formed file",
                            "ADF11 install + read back through 10**x oracle": "every ADF11 file with an install type",
                            "thermal-CX 3-D tables read back": "every ADF15 file with CHEXC blocks",
                            "_locate_adas_file decision": "16 probed situations",
                            "Coq writer records = file records": "EB section of every ADF21/22 file",
                            "kernel tie lemmas": "Gen/C08/Layout.v (columns, readvalues arguments, sections, unit factors, charge-corrected "
                                                 "types, donor temperatures, dispatch_ok, wiring_ok); Gen/C08/Regex.v (patterns)"},
    })
    ctx.coverage["samples"] = [{"kind": c.kind, "class": c.cls, "first_lines": c.text.splitlines()[:6]} for c in (cases[0], cases[-2])]
    ctx.grep_gate()
