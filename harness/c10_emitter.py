"""C10: emitter state-machine histories, argument-validation cases (both compared inside Coq with Model/C10_Emitter.v)
and the translator that regenerates the numeric constants of the model from the current source (coq/Gen/C10/Consts.v)."""
import os
import re
from fractions import Fraction

import numpy as np

from common import qlit, REPO
import common


def zl(n):
    return "(%d)%%Z" % int(n)


def zlist(xs):
    return "(" + common.zlist(xs) + ")%Z"


def shp(sh):
    return "(%s, %s, %s)" % (zl(sh[0]), zl(sh[1]), zl(sh[2]))


def blist(bs):
    return "[" + "; ".join("true" if b else "false" for b in bs) + "]"


def observe(mat, err):
    vm = [int(v) for v in np.asarray(mat.voxel_map).ravel()]
    return "(%s, %s, %s, %s)" % (zlist(vm), zl(mat.bins), blist([bool(b) for b in np.asarray(mat.mask).ravel()]), zl(err))


def emitter_histories(rng, impl, count, gen_grid, variant_form, fails):
    """the SAME emitter object through constructor + 4..8 assignments: masks (random, None, the mask it already reports, the
    active region of the map it carries), voxel maps (random, the one it carries), wrong shapes; after every step the map,
    bins, reported mask and error kind are recorded; the model replays the history inside Coq"""
    lines, dist = [], {}
    for hi in range(count):
        g = gen_grid(rng, "cart" if hi % 2 == 0 else "cyl", True, False)
        sh = tuple(g["shape"])
        n = sh[0] * sh[1] * sh[2]

        def rnd_vm():
            B = rng.randint(1, max(1, n // 2))
            v = [rng.randint(-1, B - 1) for _ in range(n)]
            v[rng.randrange(n)] = B - 1
            return v

        def rnd_mask():
            m = [rng.random() < 0.6 for _ in range(n)]
            m[rng.randrange(n)] = True
            return m
        route = rng.choice(["none", "mask", "voxel_map", "both"])
        vm0 = rnd_vm() if route in ("voxel_map", "both") else None
        m0 = rnd_mask() if route in ("mask", "both") else None
        mat = impl.material(g, vm=vm0, mask=m0)
        vm_c = "None" if vm0 is None else "(Some (%s, %s))" % (shp(sh), zlist(vm0))
        m_c = "None" if m0 is None else "(Some (%s, %s))" % (shp(sh), blist(m0))
        o0 = observe(mat, 0)
        ops, outs = [], []
        for _ in range(rng.randint(4, 8)):
            kind = rng.choice(["mask", "mask-none", "mask-same", "mask-active-region", "voxel_map", "voxel_map-same",
                               "mask-wrong-shape", "voxel_map-wrong-shape"])
            dist[kind] = dist.get(kind, 0) + 1
            err = 0
            try:
                if kind == "mask":
                    m = rnd_mask()
                    mat.mask = variant_form(rng, np.array(m, dtype=bool).reshape(sh), "mask")[0]
                    ops.append("OpMask (Some (%s, %s))" % (shp(sh), blist(m)))
                elif kind == "mask-none":
                    mat.mask = None
                    ops.append("OpMask None")
                elif kind == "mask-same":
                    m = np.asarray(mat.mask).copy()
                    mat.mask = mat.mask
                    ops.append("OpMask (Some (%s, %s))" % (shp(sh), blist([bool(b) for b in m.ravel()])))
                elif kind == "mask-active-region":
                    m = np.asarray(mat.voxel_map) > -1
                    mat.mask = variant_form(rng, m, "mask")[0]
                    ops.append("OpMask (Some (%s, %s))" % (shp(sh), blist([bool(b) for b in m.ravel()])))
                elif kind == "voxel_map":
                    v = rnd_vm()
                    mat.voxel_map = variant_form(rng, np.array(v).reshape(sh), "voxel_map")[0]
                    ops.append("OpVoxelMap (%s, %s)" % (shp(sh), zlist(v)))
                elif kind == "voxel_map-same":
                    v = [int(x) for x in np.asarray(mat.voxel_map).ravel()]
                    mat.voxel_map = mat.voxel_map
                    ops.append("OpVoxelMap (%s, %s)" % (shp(sh), zlist(v)))
                elif kind == "mask-wrong-shape":
                    bad = (sh[0], sh[1] + 1, sh[2]) if rng.random() < 0.5 else (sh[0] + 1, sh[1], sh[2])
                    ops.append("OpMask (Some (%s, %s))" % (shp(bad), blist([True] * (bad[0] * bad[1] * bad[2]))))
                    mat.mask = np.ones(bad, dtype=bool)
                else:
                    bad = (sh[0], sh[1], sh[2] + 1)
                    ops.append("OpVoxelMap (%s, %s)" % (shp(bad), zlist([0] * (bad[0] * bad[1] * bad[2]))))
                    mat.voxel_map = np.zeros(bad, dtype=np.int32)
            except ValueError:
                err = 1
            outs.append(observe(mat, err))
            # the same statement on the implementation alone (failing input for the search): after an accepted assignment
            # the object holds the one-source-per-cell map of the mask / the map it was given, and bins = max + 1
            if err == 0 and "wrong" not in kind:
                held = [int(x) for x in np.asarray(mat.voxel_map).ravel()]
                if kind.startswith("mask"):
                    mm = [True] * n if kind == "mask-none" else [bool(b) for b in np.asarray(m).ravel()]
                    run, want = 0, []
                    for b in mm:
                        want.append(run if b else -1)
                        run += 1 if b else 0
                else:
                    want = [int(x) for x in v]
                if held != want or int(mat.bins) != max(want) + 1:
                    fails.append({"claim": "mask / voxel_map setter: after obj.%s the object holds %s and bins = max + 1, whatever map it "
                                           "carried before" % ("mask = m" if kind.startswith("mask") else "voxel_map = v",
                                                               "the one-source-per-cell map of m" if kind.startswith("mask") else "v"),
                                  "grid": {"kind": g["kind"], "shape": list(sh)}, "assignment": kind, "history_so_far": ops,
                                  "expected_map": want, "held_map": held, "bins": int(mat.bins)})
        lines.append("b2z (check_em_history %s %s %s %s [%s] [%s])" % (shp(sh), vm_c, m_c, o0, "; ".join(ops), "; ".join(outs)))
    return lines, dist


def _outcome(fn, fails, what, info):
    """0 = accepted, 1 = ValueError, 2 = any other exception (never expected: recorded as a failing input)"""
    try:
        fn()
        return 0
    except ValueError:
        return 1
    except Exception as exc:      # noqa: BLE001
        fails.append({"claim": "%s: accepted or rejected with ValueError (got %s)" % (what, type(exc).__name__),
                      "key": "c10:exception:%s:%s" % (what[:40], type(exc).__name__), "error": "%s: %s" % (type(exc).__name__, exc),
                      "input": info})
        return 2


def validation_cases(rng, impl, count, fails):
    """argument validation of the emitters and the integrators: the error kind (none / ValueError) against the model;
    half of the cylindrical cases have a period on either side of 360/k inside or outside the 1e-3 tolerance"""
    em = impl.em
    lines = []
    periods = [(360.0, 1), (180.0, 2), (90.0, 3), (30.0, 12), (7.2, 50), (100.0, 1), (50.0, 3), (361.5, 1), (350.0, 1), (45.0, 8),
               (59.0, 6), (72.0, 5), (36.5, 10), (359.9, 1), (360.2, 1)]
    for i in range(count):
        sh = [rng.choice([1, 2, 3, 0, -1, 2, 4]) if rng.random() < 0.25 else rng.randint(1, 4) for _ in range(3)]
        st = [rng.choice([0.0, -0.5, 1.0]) if rng.random() < 0.2 else rng.choice([0.25, 0.5, 1.0, 1.5]) for _ in range(3)]
        if i % 2 == 0:
            err = _outcome(lambda: em.CartesianRayTransferEmitter(tuple(sh), tuple(st)), fails, "CartesianRayTransferEmitter(grid_shape, grid_steps)",
                           {"grid_shape": sh, "grid_steps": st})
            lines.append("b2z (check_validate_cart %s (%s, %s, %s) %s)" % (shp(sh), qlit(st[0]), qlit(st[1]), qlit(st[2]), zl(err)))
        else:
            dphi, nphi = rng.choice(periods)
            if rng.random() < 0.5:
                k = rng.randint(1, 12)
                nphi = rng.choice([1, 2, 3, 5])
                dphi = 360.0 / k * (1 + rng.choice([-1, 1]) * rng.choice([1e-4, 5e-4, 9e-4, 2e-3, 5e-3])) / nphi
            sh[1] = nphi if rng.random() < 0.85 else sh[1]
            st[1] = dphi
            rmin = rng.choice([0.0, 0.5, 2.0, -0.25, -1e-9]) if rng.random() < 0.4 else rng.choice([0.0, 1.0])
            err = _outcome(lambda: em.CylindricalRayTransferEmitter(tuple(sh), tuple(st), rmin=rmin), fails,
                           "CylindricalRayTransferEmitter(grid_shape, grid_steps, rmin)", {"grid_shape": sh, "grid_steps": st, "rmin": rmin})
            lines.append("b2z (check_validate_cyl %s (%s, %s, %s) %s %s)" % (shp(sh), qlit(st[0]), qlit(st[1]), qlit(st[2]), qlit(rmin), zl(err)))
    for _ in range(max(4, count // 4)):
        step = rng.choice([0.0, -0.1, 1e-300, 0.01, 2.5])
        ms = rng.choice([-1, 0, 1, 2, 3, 50])
        integ = em.CartesianRayTransferIntegrator(0.1, 2) if rng.random() < 0.5 else em.CylindricalRayTransferIntegrator(0.1, 2)
        e1 = e2 = 0
        try:
            integ.step = step
        except ValueError:
            e1 = 1
        try:
            integ.min_samples = ms
        except ValueError:
            e2 = 1
        ok_state = (integ.step == (step if not e1 else 0.1)) and (integ.min_samples == (ms if not e2 else 2))
        lines.append("b2z (check_validate_integrator %s %s %s %s && %s)" % (qlit(step), zl(ms), zl(e1), zl(e2), "true" if ok_state else "false"))
    return lines


# ---------------------------------------------------------------------------------------------
# translator: numeric constants of the model, regenerated from the current source (fail-closed)
# ---------------------------------------------------------------------------------------------
def _q(x):
    fr = Fraction(*float(x).as_integer_ratio())
    return "(%d # %d)" % (fr.numerator, fr.denominator) if fr.denominator != 1 else "(%d # 1)" % fr.numerator


def translate_constants():
    """reads cherab/tools/raytransfer/emitters.pyx; every pattern must match exactly the expected number of times, else
    ValueError (the check is then broken, not passed).  Returns the text of coq/Gen/C10/Consts.v."""
    src = open(os.path.join(REPO, "cherab", "tools", "raytransfer", "emitters.pyx"), newline="").read().replace("\r\n", "\n")

    def grab(pattern, times, what):
        found = re.findall(pattern, src)
        if len(found) != times or len(set(found)) != 1:
            raise ValueError("translator: expected %d identical matches of %s, found %r" % (times, what, found))
        return found[0]
    num = r"([0-9]+\.?[0-9]*(?:[eE][-+]?[0-9]+)?)"
    short = float(grab(r"if length < " + num + r" \* self\._step:", 2, "'if length < K * self._step'"))
    half = float(grab(r"t = \(it \+ " + num + r"\) \* dt", 2, "'t = (it + K) * dt'"))
    wrap = float(grab(r"phi = \(phi \+ " + num + r"\) % period", 1, "'phi = (phi + K) % period' in the integrator"))
    wrap2 = float(grab(r"phi = \(phi \+ " + num + r"\) % self\._period", 1, "'phi = (phi + K) % self._period' in emission_function"))
    deg = float(grab(r"phi = \(" + num + r" / pi\) \* atan2\(", 2, "'(K / pi) * atan2'"))
    full = float(grab(r"num_sectors = " + num + r" / period", 1, "'num_sectors = K / period'"))
    tol = float(grab(r"if abs\(round\(num_sectors\) - num_sectors\) > " + num + r":", 1, "period tolerance"))
    ms = int(grab(r"if value < ([0-9]+):\s*\n\s*raise ValueError\(\"At least two samples", 1, "min_samples guard"))
    grab(r"if value (<=) 0:\s*\n\s*raise ValueError\(\"Numerical integration step", 1, "step guard '<= 0'")
    grab(r"if i (<) 1:\s*\n\s*raise ValueError\('Number of grid cells", 1, "grid_shape guard '< 1'")
    grab(r"if step (<=) 0:\s*\n\s*raise ValueError\('Grid steps", 1, "grid_steps guard '<= 0'")
    grab(r"if value (<) 0:\s*\n\s*raise ValueError\(\"Attribute 'rmin'", 1, "rmin guard '< 0'")
    grab(r"n = max\(self\._min_samples, <int>\(length / self\._step\)\)", 2, "n = max(min_samples, <int>(length/step))")
    grab(r"self\._bins = self\._voxel_map\.max\(\) \+ (1)\b", 2, "bins = max + 1")
    txt = ("(* generated from %s by harness/c10_emitter.py:translate_constants on every run *)\n"
           "Require Import Cherab.Common.Qx Cherab.Model.C10_RayTransfer Cherab.Model.C10_Emitter.\n"
           "Open Scope Q_scope.\n"
           "Definition src_short_factor : Q := %s.\nDefinition src_half : Q := %s.\nDefinition src_wrap : Q := %s.\n"
           "Definition src_wrap_emission : Q := %s.\nDefinition src_deg : Q := %s.\nDefinition src_full_circle : Q := %s.\n"
           "Definition src_period_tol : Q := %s.\nDefinition src_min_samples : Z := %d%%Z.\n"
           "(* the constants written in the model are those of the source *)\n"
           "Lemma consts_tie :\n"
           "  src_short_factor = c01 /\\ c1em3 = src_period_tol /\\\n"
           "  (forall dt k, t_of dt k = (inject_Z k + src_half) * dt) /\\\n"
           "  (forall period dphi phi, iphi_of_phi period dphi phi = ctrunc (Qmod (phi + src_wrap) period / dphi)) /\\\n"
           "  src_wrap_emission = src_wrap /\\ src_full_circle = src_wrap /\\ Qeq_bool (2 * src_deg) src_full_circle = true /\\\n"
           "  (forall m, validate_min_samples m = if (m <? src_min_samples)%%Z then ErrValue else ErrNone).\n"
           "Proof. repeat split; reflexivity. Qed.\n"
           % ("cherab/tools/raytransfer/emitters.pyx", _q(short), _q(half), _q(wrap), _q(wrap2), _q(deg), _q(full), _q(tol), ms))
    return txt


# ---------------------------------------------------------------------------------------------
# periods on both sides of 360/k inside the accepted tolerance
# ---------------------------------------------------------------------------------------------
def _product_table():
    """for k = 1..12: (n_polar, 'above' | 'below') such that n_polar * fl((360/k) / n_polar) rounds above / below 360/k"""
    tab = {}
    for k in range(1, 13):
        P0 = 360.0 / k
        for n in range(2, 61):
            prod = n * (P0 / n)
            if prod != P0:
                tab.setdefault((k, "product-above" if prod > P0 else "product-below"), []).append(n)
    return tab


PRODUCT_TABLE = _product_table()
PERIOD_CLASSES = ["exact", "user-above", "user-below", "product-above", "product-below"]


def offperiod_cases(rng, impl, count, S, fails, stats):
    """cylindrical grids whose period n_polar * dphi lies on either side of 360/k (k = 1..12) inside the emitter's tolerance:
    user-supplied periods 360/k * (1 +- 1e-4 .. 9e-4) and products n_polar * fl(period / n_polar) that round above / below.
    emission_function at azimuths spread over the whole circle is compared inside Coq with the code's own fold fed the atan2
    value (check_emission_phi); a chord sweeping ~150 degrees of azimuth goes through the executable property (sum, per-cell
    entries against the chord in the folded cells, merged maps)."""
    import math
    from common import qlit, dyadic
    lines = []
    classes = {}
    for ci in range(count):
        cls = PERIOD_CLASSES[ci % len(PERIOD_CLASSES)]
        k = 1 + (ci // len(PERIOD_CLASSES)) % 12
        P0 = 360.0 / k
        if cls.startswith("product"):
            cand = PRODUCT_TABLE.get((k, cls))
            if not cand:
                cls, cand = "exact", None
        if cls.startswith("product"):
            nphi = rng.choice(cand)
            P = P0
        else:
            nphi = rng.choice([1, 2, 3, 4, 5, 7, 12])
            # the emitter accepts |round(360/period) - 360/period| <= 1e-3, i.e. a relative offset below 1e-3 / k
            eps = rng.choice([1e-4, 2e-4, 5e-4, 9e-4]) / k
            P = P0 * (1 + eps) if cls == "user-above" else P0 * (1 - eps) if cls == "user-below" else P0
        dphi = P / nphi                       # what RayTransferCylinder computes from (period, n_polar)
        nr, nz = rng.randint(1, 2), rng.randint(1, 2)
        dr, dz = rng.choice([0.5, 1.0, 0.75]), rng.choice([0.5, 1.0])
        g = {"kind": "cyl", "shape": [nr, nphi, nz], "dr": dr, "dz": dz, "rmin": 0.0, "dphi": dphi, "nphi": nphi,
             "period": nphi * dphi, "rmax": nr * dr, "zmax": nz * dz, "scale": 1.0, "period_class": "%s/k=%d" % (cls, k)}
        classes[cls] = classes.get(cls, 0) + 1
        n = nr * nphi * nz
        B = rng.randint(2, 6)
        vm = [rng.randint(-1, B - 1) for _ in range(n)]
        vm[rng.randrange(n)] = B - 1
        g["vm"] = vm

        def unit():
            mat = impl.material(g, vm=vm)
            g["bins"] = int(mat.bins)
            # emission_function at azimuths over the whole circle
            for i in range(8):
                a = math.radians(-180.0 + 360.0 * (i + rng.random()) / 8)
                rr = (rng.randrange(nr) + rng.uniform(0.2, 0.8)) * dr
                p = [rr * math.cos(a), rr * math.sin(a), (rng.randrange(nz) + rng.uniform(0.2, 0.8)) * dz]
                phi = (180. / math.pi) * math.atan2(p[1], p[0])
                init = [dyadic(rng, 0, 4, 4) for _ in range(g["bins"])]
                out, err = impl.emission(mat, p, init)
                lines.append("check_emission_phi %s {| q_rmin := 0; q_dr := %s; q_dz := %s; q_nphi := %s; q_dphi := %s; q_nr := %s |} %s "
                             "(%s, %s, %s) %s %s %s %s" % (shp(g["shape"]), qlit(dr), qlit(dz), zl(nphi), qlit(dphi), zl(nr), zlist(vm),
                                                          qlit(p[0]), qlit(p[1]), qlit(p[2]), qlit(phi),
                                                          "[" + "; ".join(qlit(v) for v in init) + "]", "[" + "; ".join(qlit(v) for v in out) + "]", zl(err)))
                # the same statement on the implementation alone: exactly the bin of the folded cell is incremented
                cell = S.cyl_cell_py(g, p[0], p[1], p[2])
                src = vm[S.flat(g, cell)] if S.in_shape(g, cell) else None
                want = list(init)
                if src is not None and src >= 0:
                    want[src] += 1.0
                fold = ((phi + 360.0) % g["period"]) / dphi
                near = abs(fold - round(fold)) < 1e-9 or abs(abs(phi) - 180.0) < 1e-9
                if not near and (err or out != want):
                    fails.append({"claim": "emission_function credits the cell of the point, the azimuth folded with the stated period "
                                           "(period on either side of 360/k within the accepted tolerance)",
                                  "grid": {kk: vv for kk, vv in g.items() if not kk.startswith("_")}, "point": p, "azimuth_deg": phi,
                                  "expected_cell": list(cell), "expected_source": src, "before": init, "after": out, "error": err})
                    break
            # a chord that sweeps a wide range of azimuths
            if n <= 60:
                a0 = rng.uniform(-math.pi, math.pi)
                a1 = a0 + math.radians(rng.uniform(120, 170))
                R = 0.85 * g["rmax"]
                p0 = [R * math.cos(a0), R * math.sin(a0), rng.uniform(0.1, 0.9) * g["zmax"]]
                p1 = [R * math.cos(a1), R * math.sin(a1), rng.uniform(0.1, 0.9) * g["zmax"]]
                step = rng.uniform(0.03, 0.1) * min(dr, dz)
                m12 = [1.0, 0, 0, 0, 0, 1.0, 0, 0, 0, 0, 1.0, 0]
                L = impl.length(m12, p0, p1)
                c = {"class": "off-period", "step": step, "min_samples": 2, "m12": m12, "p0": p0, "p1": p1, "length": L,
                     "n": max(2, int(L / step))}
                stats["off_period_rays"] = stats.get("off_period_rays", 0) + 1
                return S.check_segment(impl, g, c, stats, rng)
            return []
        r = S.guard(fails, "cylindrical emitter with period %s" % g["period_class"].split("/")[0],
                    {k2: v for k2, v in g.items() if not k2.startswith("_")}, unit)
        if r:
            fails.extend(r)
    stats["period_classes"] = classes
    return lines
