"""C10: emitter state-machine histories, argument-validation cases (both compared inside Coq with Model/C10_Emitter.v)
and the translator that regenerates the numeric constants of the model from the current source (coq/Gen/C10/Consts.v)."""
import os
import re
from fractions import Fraction

import numpy as np

from common import qlit, REPO
import common


def zl(n):
    return "(%d)%%Z" % int(n)


def zlist(xs):
    return "(" + common.zlist(xs) + ")%Z"


def shp(sh):
    return "(%s, %s, %s)" % (zl(sh[0]), zl(sh[1]), zl(sh[2]))


def blist(bs):
    return "[" + "; ".join("true" if b else "false" for b in bs) + "]"


def observe(mat, err):
    vm = [int(v) for v in np.asarray(mat.voxel_map).ravel()]
    return "(%s, %s, %s, %s)" % (zlist(vm), zl(mat.bins), blist([bool(b) for b in np.asarray(mat.mask).ravel()]), zl(err))


def emitter_histories(rng, impl, count, gen_grid, variant_form, fails):
    """the SAME emitter object through constructor + 4..8 assignments: masks (random, None, the mask it already reports, the
    active region of the map it carries), voxel maps (random, the one it carries), wrong shapes; after every step the map,
    bins, reported mask and error kind are recorded; the model replays the history inside Coq"""
    lines, dist = [], {}
    for hi in range(count):
        g = gen_grid(rng, "cart" if hi % 2 == 0 else "cyl", True, False)
        sh = tuple(g["shape"])
        n = sh[0] * sh[1] * sh[2]

        def rnd_vm():
            B = rng.randint(1, max(1, n // 2))
            v = [rng.randint(-1, B - 1) for _ in range(n)]
            v[rng.randrange(n)] = B - 1
            return v

        def rnd_mask():
            m = [rng.random() < 0.6 for _ in range(n)]
            m[rng.randrange(n)] = True
            return m
        route = rng.choice(["none", "mask", "voxel_map", "both"])
        vm0 = rnd_vm() if route in ("voxel_map", "both") else None
        m0 = rnd_mask() if route in ("mask", "both") else None
        mat = impl.material(g, vm=vm0, mask=m0)
        vm_c = "None" if vm0 is None else "(Some (%s, %s))" % (shp(sh), zlist(vm0))
        m_c = "None" if m0 is None else "(Some (%s, %s))" % (shp(sh), blist(m0))
        o0 = observe(mat, 0)
        ops, outs = [], []
        for _ in range(rng.randint(4, 8)):
            kind = rng.choice(["mask", "mask-none", "mask-same", "mask-active-region", "voxel_map", "voxel_map-same",
                               "mask-wrong-shape", "voxel_map-wrong-shape"])
            dist[kind] = dist.get(kind, 0) + 1
            err = 0
            try:
                if kind == "mask":
                    m = rnd_mask()
                    mat.mask = variant_form(rng, np.array(m, dtype=bool).reshape(sh), "mask")[0]
                    ops.append("OpMask (Some (%s, %s))" % (shp(sh), blist(m)))
                elif kind == "mask-none":
                    mat.mask = None
                    ops.append("OpMask None")
                elif kind == "mask-same":
                    m = np.asarray(mat.mask).copy()
                    mat.mask = mat.mask
                    ops.append("OpMask (Some (%s, %s))" % (shp(sh), blist([bool(b) for b in m.ravel()])))
                elif kind == "mask-active-region":
                    m = np.asarray(mat.voxel_map) > -1
                    mat.mask = variant_form(rng, m, "mask")[0]
                    ops.append("OpMask (Some (%s, %s))" % (shp(sh), blist([bool(b) for b in m.ravel()])))
                elif kind == "voxel_map":
                    v = rnd_vm()
                    mat.voxel_map = variant_form(rng, np.array(v).reshape(sh), "voxel_map")[0]
                    ops.append("OpVoxelMap (%s, %s)" % (shp(sh), zlist(v)))
                elif kind == "voxel_map-same":
                    v = [int(x) for x in np.asarray(mat.voxel_map).ravel()]
                    mat.voxel_map = mat.voxel_map
                    ops.append("OpVoxelMap (%s, %s)" % (shp(sh), zlist(v)))
                elif kind == "mask-wrong-shape":
                    bad = (sh[0], sh[1] + 1, sh[2]) if rng.random() < 0.5 else (sh[0] + 1, sh[1], sh[2])
                    ops.append("OpMask (Some (%s, %s))" % (shp(bad), blist([True] * (bad[0] * bad[1] * bad[2]))))
                    mat.mask = np.ones(bad, dtype=bool)
                else:
                    bad = (sh[0], sh[1], sh[2] + 1)
                    ops.append("OpVoxelMap (%s, %s)" % (shp(bad), zlist([0] * (bad[0] * bad[1] * bad[2]))))
                    mat.voxel_map = np.zeros(bad, dtype=np.int32)
            except ValueError:
                err = 1
            outs.append(observe(mat, err))
        lines.append("b2z (check_em_history %s %s %s %s [%s] [%s])" % (shp(sh), vm_c, m_c, o0, "; ".join(ops), "; ".join(outs)))
    return lines, dist


def validation_cases(rng, impl, count):
    """argument validation of the emitters and the integrators: the error kind (none / ValueError) against the model"""
    em = impl.em
    lines = []
    periods = [(360.0, 1), (180.0, 2), (90.0, 3), (30.0, 12), (7.2, 50), (100.0, 1), (50.0, 3), (361.5, 1), (350.0, 1), (45.0, 8),
               (59.0, 6), (72.0, 5), (36.5, 10), (359.9, 1), (360.2, 1)]
    for i in range(count):
        sh = [rng.choice([1, 2, 3, 0, -1, 2, 4]) if rng.random() < 0.25 else rng.randint(1, 4) for _ in range(3)]
        st = [rng.choice([0.0, -0.5, 1.0]) if rng.random() < 0.2 else rng.choice([0.25, 0.5, 1.0, 1.5]) for _ in range(3)]
        if i % 2 == 0:
            err = 0
            try:
                em.CartesianRayTransferEmitter(tuple(sh), tuple(st))
            except ValueError:
                err = 1
            lines.append("b2z (check_validate_cart %s (%s, %s, %s) %s)" % (shp(sh), qlit(st[0]), qlit(st[1]), qlit(st[2]), zl(err)))
        else:
            dphi, nphi = rng.choice(periods)
            sh[1] = nphi if rng.random() < 0.85 else sh[1]
            st[1] = dphi
            rmin = rng.choice([0.0, 0.5, 2.0, -0.25, -1e-9]) if rng.random() < 0.4 else rng.choice([0.0, 1.0])
            err = 0
            try:
                em.CylindricalRayTransferEmitter(tuple(sh), tuple(st), rmin=rmin)
            except ValueError:
                err = 1
            lines.append("b2z (check_validate_cyl %s (%s, %s, %s) %s %s)" % (shp(sh), qlit(st[0]), qlit(st[1]), qlit(st[2]), qlit(rmin), zl(err)))
    for _ in range(max(4, count // 4)):
        step = rng.choice([0.0, -0.1, 1e-300, 0.01, 2.5])
        ms = rng.choice([-1, 0, 1, 2, 3, 50])
        integ = em.CartesianRayTransferIntegrator(0.1, 2) if rng.random() < 0.5 else em.CylindricalRayTransferIntegrator(0.1, 2)
        e1 = e2 = 0
        try:
            integ.step = step
        except ValueError:
            e1 = 1
        try:
            integ.min_samples = ms
        except ValueError:
            e2 = 1
        ok_state = (integ.step == (step if not e1 else 0.1)) and (integ.min_samples == (ms if not e2 else 2))
        lines.append("b2z (check_validate_integrator %s %s %s %s && %s)" % (qlit(step), zl(ms), zl(e1), zl(e2), "true" if ok_state else "false"))
    return lines


# ---------------------------------------------------------------------------------------------
# translator: numeric constants of the model, regenerated from the current source (fail-closed)
# ---------------------------------------------------------------------------------------------
def _q(x):
    fr = Fraction(*float(x).as_integer_ratio())
    return "(%d # %d)" % (fr.numerator, fr.denominator) if fr.denominator != 1 else "(%d # 1)" % fr.numerator


def translate_constants():
    """reads cherab/tools/raytransfer/emitters.pyx; every pattern must match exactly the expected number of times, else
    ValueError (the check is then broken, not passed).  Returns the text of coq/Gen/C10/Consts.v."""
    src = open(os.path.join(REPO, "cherab", "tools", "raytransfer", "emitters.pyx"), newline="").read().replace("\r\n", "\n")

    def grab(pattern, times, what):
        found = re.findall(pattern, src)
        if len(found) != times or len(set(found)) != 1:
            raise ValueError("translator: expected %d identical matches of %s, found %r" % (times, what, found))
        return found[0]
    num = r"([0-9]+\.?[0-9]*(?:[eE][-+]?[0-9]+)?)"
    short = float(grab(r"if length < " + num + r" \* self\._step:", 2, "'if length < K * self._step'"))
    half = float(grab(r"t = \(it \+ " + num + r"\) \* dt", 2, "'t = (it + K) * dt'"))
    wrap = float(grab(r"phi = \(phi \+ " + num + r"\) % period", 1, "'phi = (phi + K) % period' in the integrator"))
    wrap2 = float(grab(r"phi = \(phi \+ " + num + r"\) % self\._period", 1, "'phi = (phi + K) % self._period' in emission_function"))
    deg = float(grab(r"phi = \(" + num + r" / pi\) \* atan2\(", 2, "'(K / pi) * atan2'"))
    full = float(grab(r"num_sectors = " + num + r" / period", 1, "'num_sectors = K / period'"))
    tol = float(grab(r"if abs\(round\(num_sectors\) - num_sectors\) > " + num + r":", 1, "period tolerance"))
    ms = int(grab(r"if value < ([0-9]+):\s*\n\s*raise ValueError\(\"At least two samples", 1, "min_samples guard"))
    grab(r"if value (<=) 0:\s*\n\s*raise ValueError\(\"Numerical integration step", 1, "step guard '<= 0'")
    grab(r"if i (<) 1:\s*\n\s*raise ValueError\('Number of grid cells", 1, "grid_shape guard '< 1'")
    grab(r"if step (<=) 0:\s*\n\s*raise ValueError\('Grid steps", 1, "grid_steps guard '<= 0'")
    grab(r"if value (<) 0:\s*\n\s*raise ValueError\(\"Attribute 'rmin'", 1, "rmin guard '< 0'")
    grab(r"n = max\(self\._min_samples, <int>\(length / self\._step\)\)", 2, "n = max(min_samples, <int>(length/step))")
    grab(r"self\._bins = self\._voxel_map\.max\(\) \+ (1)\b", 2, "bins = max + 1")
    txt = ("(* generated from %s by harness/c10_emitter.py:translate_constants on every run *)\n"
           "Require Import Cherab.Common.Qx Cherab.Model.C10_RayTransfer Cherab.Model.C10_Emitter.\n"
           "Open Scope Q_scope.\n"
           "Definition src_short_factor : Q := %s.\nDefinition src_half : Q := %s.\nDefinition src_wrap : Q := %s.\n"
           "Definition src_wrap_emission : Q := %s.\nDefinition src_deg : Q := %s.\nDefinition src_full_circle : Q := %s.\n"
           "Definition src_period_tol : Q := %s.\nDefinition src_min_samples : Z := %d%%Z.\n"
           "(* the constants written in the model are those of the source *)\n"
           "Lemma consts_tie :\n"
           "  src_short_factor = c01 /\\ c1em3 = src_period_tol /\\\n"
           "  (forall dt k, t_of dt k = (inject_Z k + src_half) * dt) /\\\n"
           "  (forall period dphi phi, iphi_of_phi period dphi phi = ctrunc (Qmod (phi + src_wrap) period / dphi)) /\\\n"
           "  src_wrap_emission = src_wrap /\\ src_full_circle = src_wrap /\\ Qeq_bool (2 * src_deg) src_full_circle = true /\\\n"
           "  (forall m, validate_min_samples m = if (m <? src_min_samples)%%Z then ErrValue else ErrNone).\n"
           "Proof. repeat split; reflexivity. Qed.\n"
           % ("cherab/tools/raytransfer/emitters.pyx", _q(short), _q(half), _q(wrap), _q(wrap2), _q(deg), _q(full), _q(tol), ms))
    return txt
