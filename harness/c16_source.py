"""C16: fail-closed translator from the CURRENT source of cherab/tools/spectroscopy/{instrument,spectrometer,
polychromator}.py to the tables the Coq model of C16 mirrors (coq/Gen/C16/Source.v).

What is extracted (with Python's ast; no code is executed):
  * for every property setter of the four classes: the guard kind and the ordered list of effects
    (attribute assignments, _clear_spectral_settings(), _update_wavelength_to_pixel(), cache := None);
  * the bodies of _clear_spectral_settings and _update_wavelength_to_pixel (top-level effects);
  * the statement sequence of every __init__ (which setters run in which order, whether super().__init__ is called);
  * the lazy getters of SpectroscopicInstrument (which cache is tested, which hook is called) and create_pipelines;
  * constants: default arguments, the literal 1.e-15, the initial values of the Polychromator fold, pipeline classes,
    kwargs keys, the exception class of every raise in a guard.
Any statement shape the translator does not know becomes EUnknown "<text>", which matches nothing in the model's
tables: the tie lemma then fails to compile (fail-closed).
"""
import ast
import os
from fractions import Fraction

from common import qlit, coq_string

FILES = ["cherab/tools/spectroscopy/instrument.py", "cherab/tools/spectroscopy/spectrometer.py",
         "cherab/tools/spectroscopy/polychromator.py"]
CLASSES = ["SpectroscopicInstrument", "Spectrometer", "CzernyTurnerSpectrometer", "Polychromator"]
# functions the model mirrors by hand as a whole (model definition named in Model/C16_Check.v next to the pinned text)
PINNED = {("SpectroscopicInstrument", "create_pipelines"), ("Spectrometer", "_update_pipeline_classes"),
          ("Spectrometer", "_update_pipeline_kwargs"), ("Spectrometer", "_update_spectral_settings"), ("Spectrometer", "calibrate"),
          ("Polychromator", "_update_pipeline_classes"), ("Polychromator", "_update_pipeline_kwargs"),
          ("Polychromator", "_update_spectral_settings")}
PINNED_ALSO = {("PolychromatorFilter", "__init__"), ("TrapezoidalFilter", "__init__"),
               ("CzernyTurnerSpectrometer", "_update_wavelength_to_pixel")}


def cs(s):
    return coq_string(s) + "%string"


def src(node, limit=160):
    return " ".join(ast.unparse(node).split())[:limit]


def body_text(fn):
    """the whole function body without the docstring, normalised by ast.unparse (comments and layout do not matter)"""
    body = [st for st in fn.body if not (isinstance(st, ast.Expr) and isinstance(st.value, ast.Constant) and isinstance(st.value.value, str))]
    return " ; ".join(" ".join(ast.unparse(st).split()) for st in body)


def is_self_attr(node, name=None):
    return isinstance(node, ast.Attribute) and isinstance(node.value, ast.Name) and node.value.id == "self" \
        and (name is None or node.attr == name)


def is_none(node):
    return isinstance(node, ast.Constant) and node.value is None


def raise_kind(stmt):
    """'ValueError' for `raise ValueError(...)`"""
    if isinstance(stmt, ast.Raise) and isinstance(stmt.exc, ast.Call) and isinstance(stmt.exc.func, ast.Name):
        return stmt.exc.func.id
    return None


def guard_if(stmt):
    """(test text, exception class) for `if <test>: raise X(...)` with nothing else"""
    if isinstance(stmt, ast.If) and not stmt.orelse and len(stmt.body) == 1 and raise_kind(stmt.body[0]):
        return src(stmt.test), raise_kind(stmt.body[0])
    return None


def validation_loop(stmt):
    """a `for` loop that only validates / builds local lists: returns the list of (test, exception) guards, or None"""
    if not isinstance(stmt, ast.For) or stmt.orelse:
        return None
    guards = []
    for st in stmt.body:
        g = guard_if(st)
        if g:
            guards.append(g)
        elif isinstance(st, ast.Assign) and all(isinstance(t, (ast.Name, ast.Subscript)) or
                                                (isinstance(t, ast.Attribute) and not is_self_attr(t)) for t in st.targets):
            continue                       # local name, local array element, x.flags.writeable
        elif isinstance(st, ast.Expr) and isinstance(st.value, ast.Call) and isinstance(st.value.func, ast.Attribute) \
                and st.value.func.attr == "append" and isinstance(st.value.func.value, ast.Name):
            continue                       # local_list.append(...)
        elif isinstance(st, ast.For):      # the inner recurrence loop of _update_wavelength_to_pixel
            if validation_loop(st) is None:
                return None
        else:
            return None
    return guards


def effects_of_body(body, ctor=False):
    """ordered effect tokens of a function body; (guard, effects, raises)"""
    effs, has_int, guards, custom = [], False, [], False
    for st in body:
        if isinstance(st, ast.Expr) and isinstance(st.value, ast.Constant) and isinstance(st.value.value, str):
            continue                                             # docstring
        g = guard_if(st)
        if g:
            if g[0].startswith("self.") and g[0].endswith("is None") and False:
                pass
            guards.append(g)
            continue
        if isinstance(st, ast.If) and not st.orelse and len(st.body) == 1 and isinstance(st.body[0], ast.Return) \
                and st.body[0].value is None and isinstance(st.test, ast.Compare) and is_self_attr(st.test.left) \
                and len(st.test.ops) == 1 and isinstance(st.test.ops[0], ast.Is) and is_none(st.test.comparators[0]):
            effs.append("EReturnIfNone %s" % cs(st.test.left.attr))
            continue
        loop = validation_loop(st)
        if loop is not None:
            custom = True
            guards += loop
            continue
        if isinstance(st, ast.Assign) and len(st.targets) == 1:
            t, v = st.targets[0], st.value
            if isinstance(t, ast.Name) and t.id == "value" and isinstance(v, ast.Call) and isinstance(v.func, ast.Name) \
                    and v.func.id == "int" and len(v.args) == 1 and isinstance(v.args[0], ast.Name) and v.args[0].id == "value":
                has_int = True
                continue
            if isinstance(t, ast.Name):
                continue                                         # local name
            if is_self_attr(t):
                if t.attr == "_pipeline_kwargs" and is_none(v):
                    effs.append("EKwNone")
                elif t.attr == "_pipeline_classes" and is_none(v):
                    effs.append("EClNone")
                elif t.attr.startswith("_"):
                    effs.append("EAssign %s" % cs(t.attr))
                elif ctor:
                    effs.append("ESet %s" % cs(t.attr))          # goes through the property setter
                else:
                    effs.append("EUnknown %s" % cs(src(st)))
                continue
        if isinstance(st, ast.Expr) and isinstance(st.value, ast.Call):
            f = st.value.func
            if is_self_attr(f, "_clear_spectral_settings") and not st.value.args:
                effs.append("EClear")
                continue
            if is_self_attr(f, "_update_wavelength_to_pixel") and not st.value.args:
                effs.append("EUpdW2p")
                continue
            if ctor and isinstance(f, ast.Attribute) and f.attr == "__init__" and isinstance(f.value, ast.Call) \
                    and isinstance(f.value.func, ast.Name) and f.value.func.id == "super":
                effs.append("ESuper")
                continue
        effs.append("EUnknown %s" % cs(src(st)))
    pos = [g for g in guards if g[0] == "value <= 0"]
    if custom:
        guard = "GCustom"
    elif has_int and len(guards) == 1 and pos:
        guard = "GIntPos"
    elif not has_int and len(guards) == 1 and pos:
        guard = "GPos"
    elif not has_int and not guards:
        guard = "GNone"
    else:
        guard = "GUnknown"
    return guard, effs, sorted({g[1] for g in guards})


def default_value(node):
    if isinstance(node, ast.Constant):
        if isinstance(node.value, bool):
            return "DStr %s" % cs(repr(node.value))
        if isinstance(node.value, str):
            return "DStr %s" % cs(node.value)
        if node.value is None:
            return "DNone"
        if isinstance(node.value, (int, float)) and not isinstance(node.value, bool):
            return "DNum %s" % qlit(float(node.value) if isinstance(node.value, float) else node.value)
    return "DUnknown %s" % cs(src(node))


def translate(repo):
    setters, methods, ctors, getters, defaults, consts = [], [], [], [], [], []
    py_defaults = {}
    members = []       # which functions each class of the anchored files defines (an added override changes behaviour)
    eps_literals = []
    for rel in FILES:
        tree = ast.parse(open(os.path.join(repo, rel)).read())
        for cls in [n for n in tree.body if isinstance(n, ast.ClassDef)]:
            members.append((cls.name, [src(b) for b in cls.bases],
                            ["%s%s" % (n.name, "".join("@" + src(d) for d in n.decorator_list)) for n in cls.body
                             if isinstance(n, ast.FunctionDef)]
                            + ["<%s>" % type(n).__name__ for n in cls.body
                               if not isinstance(n, ast.FunctionDef) and not (isinstance(n, ast.Expr) and isinstance(n.value, ast.Constant))]))
            for fn in [n for n in cls.body if isinstance(n, ast.FunctionDef)]:
                decos = [src(d) for d in fn.decorator_list]
                if any(d.endswith(".setter") for d in decos) and cls.name in CLASSES:
                    guard, effs, raises = effects_of_body(fn.body)
                    setters.append((cls.name, fn.name, guard, effs, raises))
                elif fn.name in ("_clear_spectral_settings", "_update_wavelength_to_pixel") and cls.name in CLASSES:
                    guard, effs, raises = effects_of_body(fn.body)
                    if fn.name == "_clear_spectral_settings":
                        # every assignment must be `= None`
                        for st in fn.body:
                            if isinstance(st, ast.Assign) and not is_none(st.value):
                                effs.append("EUnknown %s" % cs(src(st)))
                    methods.append((cls.name, fn.name, guard, effs, raises))
                elif fn.name == "__init__":
                    guard, effs, raises = effects_of_body(fn.body, ctor=True) if cls.name in CLASSES else ("GNone", [], [])
                    if cls.name in CLASSES:
                        ctors.append((cls.name, effs))
                    args = fn.args.args[1:]
                    for a, d in zip(args[len(args) - len(fn.args.defaults):], fn.args.defaults):
                        defaults.append((cls.name, a.arg, default_value(d)))
                        if isinstance(d, ast.Constant):
                            py_defaults[(cls.name, a.arg)] = d.value
                    for n in ast.walk(fn):
                        if isinstance(n, ast.Constant) and isinstance(n.value, float) and 0 < n.value < 1e-10:
                            eps_literals.append((cls.name, n.value))
                elif "property" in decos and cls.name == "SpectroscopicInstrument":
                    # if self._X is None: self._update_Y()   return self._X
                    ok = len([s for s in fn.body if not isinstance(s, ast.Expr) or not isinstance(s.value, ast.Constant)]) in (1, 2)
                    cache, hook, ret = "", "", ""
                    for st in fn.body:
                        if isinstance(st, ast.If) and isinstance(st.test, ast.Compare) and is_self_attr(st.test.left) \
                                and isinstance(st.test.ops[0], ast.Is) and is_none(st.test.comparators[0]) and len(st.body) == 1 \
                                and isinstance(st.body[0], ast.Expr) and isinstance(st.body[0].value, ast.Call) \
                                and is_self_attr(st.body[0].value.func) and not st.orelse:
                            cache, hook = st.test.left.attr, st.body[0].value.func.attr
                        elif isinstance(st, ast.Return) and is_self_attr(st.value):
                            ret = st.value.attr
                        elif isinstance(st, ast.Expr) and isinstance(st.value, ast.Constant):
                            pass
                        else:
                            ok = False
                    getters.append((fn.name, cache if ok else "?", hook if ok else "?", ret if ok else "?"))
                elif (cls.name, fn.name) in PINNED:
                    consts.append(("%s.%s" % (cls.name, fn.name), body_text(fn)))
                if (cls.name, fn.name) in PINNED_ALSO:
                    consts.append(("%s.%s" % (cls.name, fn.name), body_text(fn)))
    return {"setters": setters, "methods": methods, "ctors": ctors, "getters": getters, "defaults": defaults,
            "consts": consts, "eps": eps_literals, "py_defaults": py_defaults, "members": members}


def coq_text(t):
    def lst(items):
        return "[" + ";\n   ".join(items) + "]"
    eps = sorted({v for _, v in t["eps"]})
    lines = ["(* generated by harness/c16_source.py from the current source; do not edit *)",
             "Require Import Cherab.Common.Qx Cherab.Model.C16_Instruments Cherab.Model.C16_Source.",
             "From Coq Require Import String.", "Open Scope Q_scope.",
             "Definition src_setters : list setter_row := " + lst(
                 "(%s, %s, %s, [%s], [%s])" % (cs(c), cs(n), g, "; ".join(e), "; ".join(cs(r) for r in rs))
                 for c, n, g, e, rs in t["setters"] + t["methods"]) + ".",
             "Definition src_ctors : list (string * list eff) := " + lst(
                 "(%s, [%s])" % (cs(c), "; ".join(e)) for c, e in t["ctors"]) + ".",
             "Definition src_getters : list (string * string * string * string) := " + lst(
                 "(%s, %s, %s, %s)" % tuple(cs(x) for x in g) for g in t["getters"]) + ".",
             "Definition src_defaults : list (string * string * dflt) := " + lst(
                 "(%s, %s, %s)" % (cs(c), cs(a), d) for c, a, d in t["defaults"]) + ".",
             "Definition src_consts : list (string * string) := " + lst(
                 "(%s, %s)" % (cs(k), cs(v)) for k, v in t["consts"]) + ".",
             "Definition src_members : list (string * list string * list string) := " + lst(
                 "(%s, [%s], [%s])" % (cs(c), "; ".join(cs(b) for b in bs), "; ".join(cs(m) for m in ms)) for c, bs, ms in t["members"]) + ".",
             "Definition src_eps : list Q := [%s]." % "; ".join(qlit(v) for v in eps),
             "Definition src_eps_sites : Z := %d." % len(t["eps"]),
             "(* rows that differ from the tables the model mirrors (empty when the tie holds) *)",
             "Eval vm_compute in (source_diff src_setters src_ctors src_getters src_defaults src_consts src_members src_eps src_eps_sites).",
             "(* the tie: every table the model mirrors is the one the current source has *)",
             "Lemma source_tie : source_ok src_setters src_ctors src_getters src_defaults src_consts src_members src_eps src_eps_sites = true.",
             "Proof. vm_compute. reflexivity. Qed."]
    return "\n".join(lines) + "\n"
