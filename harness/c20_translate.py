"""C20: fail-closed translator of generate_derivative_operators (cherab/tools/inversions/admt_utils.py).

The per-cell body of the function is a straight-line program in a tiny language: eight neighbour look-ups
(`try: n_X = grid_index_2d_to_1d_map[ix + a, iy + b] / except KeyError: at_F = True | pass / else: assignments`),
four flag conjunctions, and (possibly nested) `if` blocks whose bodies are assignments `Op[ith_cell, target] = const`.
The translator reads that program off the syntax tree of the CURRENT source and emits, for each of the five operators,
the same sequence of guarded assignments in the combinators of coq/Model/C20_Stencil.v (`when`, `upd`, `has`), plus the
final scaling statements.  Anything it does not recognise raises TranslateError (the obligation then fails).

coq/Gen/C20/Source.v then states, and the kernel checks, that for EVERY grid size and cell the nine coefficients of the
source-derived stencil equal those of the model the theorems are about (tie lemmas `src_*_is_model`, by case analysis on
the eight look-up outcomes), and that the scalings agree.
"""
import ast
import os
from fractions import Fraction

OPS = ["Dx", "Dy", "Dxx", "Dyy", "Dxy"]


class TranslateError(Exception):
    pass


def _fail(node, msg):
    raise TranslateError("admt_utils.py line %s: %s" % (getattr(node, "lineno", "?"), msg))


def _const(node):
    """exact rational value of a constant expression: int/float literal, unary minus, a / b"""
    if isinstance(node, ast.Constant) and isinstance(node.value, (int, float)) and not isinstance(node.value, bool):
        return Fraction(node.value)
    if isinstance(node, ast.UnaryOp) and isinstance(node.op, ast.USub):
        return -_const(node.operand)
    if isinstance(node, ast.BinOp) and isinstance(node.op, ast.Div):
        return _const(node.left) / _const(node.right)
    _fail(node, "unsupported constant expression %s" % ast.dump(node))


def _offset(node, var):
    """`var`, `var + k`, `var - k` -> k"""
    if isinstance(node, ast.Name) and node.id == var:
        return 0
    if isinstance(node, ast.BinOp) and isinstance(node.left, ast.Name) and node.left.id == var \
            and isinstance(node.right, ast.Constant) and isinstance(node.right.value, int):
        if isinstance(node.op, ast.Add):
            return node.right.value
        if isinstance(node.op, ast.Sub):
            return -node.right.value
    _fail(node, "unsupported index expression %s" % ast.dump(node))


class Translator:
    def __init__(self):
        self.neigh = {}       # n_X -> (a, b)
        self.flags = {}       # at_F -> (a, b): at_F = lookup of (a, b) failed
        self.conj = {}        # top_left -> (at_top, at_left)
        self.prog = {o: [] for o in OPS}     # operator -> list of (cond, [(a, b, value), ...])

    # ---- conditions: Coq boolean expressions over h -----------------------------------------------------------
    def cond_name(self, name, node):
        if name in self.flags:
            a, b = self.flags[name]
            return "negb (h (%d) (%d))" % (a, b)
        if name in self.conj:
            l, r = self.conj[name]
            return "(%s && %s)" % (self.cond_name(l, node), self.cond_name(r, node))
        _fail(node, "unknown flag %s" % name)

    def cond(self, node):
        if isinstance(node, ast.Name):
            return self.cond_name(node.id, node)
        if isinstance(node, ast.UnaryOp) and isinstance(node.op, ast.Not):
            return "negb %s" % self.cond(node.operand)
        if isinstance(node, ast.BoolOp):
            op = " && " if isinstance(node.op, ast.And) else " || "
            return "(" + op.join(self.cond(v) for v in node.values) + ")"
        _fail(node, "unsupported condition %s" % ast.dump(node))

    # ---- assignments ----------------------------------------------------------------------------------------------
    def op_assign(self, st):
        """`Op[ith_cell, target] = const` -> (Op, a, b, value) or None"""
        if not (isinstance(st, ast.Assign) and len(st.targets) == 1 and isinstance(st.targets[0], ast.Subscript)):
            return None
        t = st.targets[0]
        if not (isinstance(t.value, ast.Name) and t.value.id in OPS):
            return None
        idx = t.slice
        if not (isinstance(idx, ast.Tuple) and len(idx.elts) == 2 and isinstance(idx.elts[0], ast.Name)
                and idx.elts[0].id == "ith_cell" and isinstance(idx.elts[1], ast.Name)):
            _fail(st, "unsupported subscript of %s" % t.value.id)
        tgt = idx.elts[1].id
        if tgt == "ith_cell":
            a, b = 0, 0
        elif tgt in self.neigh:
            a, b = self.neigh[tgt]
        else:
            _fail(st, "assignment to unknown neighbour %s" % tgt)
        return t.value.id, a, b, _const(st.value)

    def block(self, stmts, cond):
        """a list of statements executed under the Coq condition `cond` (None = unconditionally)"""
        groups = {}
        for st in stmts:
            oa = self.op_assign(st)
            if oa is not None:
                o, a, b, v = oa
                groups.setdefault(o, []).append((a, b, v))
                continue
            # flush what has been collected so far (keeps the source order per operator)
            self.flush(groups, cond)
            groups = {}
            if isinstance(st, ast.If):
                if st.orelse:
                    _fail(st, "if with else branch")
                c = self.cond(st.test)
                self.block(st.body, c if cond is None else "(%s && %s)" % (cond, c))
            elif isinstance(st, ast.Pass):
                pass
            else:
                self.toplevel(st, cond)
        self.flush(groups, cond)

    def flush(self, groups, cond):
        for o, ups in groups.items():
            self.prog[o].append((cond, ups))

    def toplevel(self, st, cond):
        if cond is not None:
            _fail(st, "unsupported statement inside an if block: %s" % type(st).__name__)
        # at_top, ... = False, ... / n_left, ... = np.nan, ...
        if isinstance(st, ast.Assign) and isinstance(st.targets[0], ast.Tuple):
            names = [e.id for e in st.targets[0].elts if isinstance(e, ast.Name)]
            if len(names) != len(st.targets[0].elts):
                _fail(st, "unsupported tuple assignment")
            if names == ["ix", "iy"]:
                v = st.value
                if not (isinstance(v, ast.Subscript) and isinstance(v.value, ast.Name) and v.value.id == "grid_index_1d_to_2d_map"
                        and isinstance(v.slice, ast.Name) and v.slice.id == "ith_cell"):
                    _fail(st, "ix, iy are not read from grid_index_1d_to_2d_map[ith_cell]")
                return
            vals = st.value.elts if isinstance(st.value, ast.Tuple) else None
            if vals is None or len(vals) != len(names):
                _fail(st, "unsupported tuple assignment")
            if all(n.startswith("at_") for n in names):
                if not all(isinstance(v, ast.Constant) and v.value is False for v in vals):
                    _fail(st, "boundary flags not initialised to False")
                self.init_flags = names
                return
            if all(n.startswith("n_") for n in names):
                if not all(isinstance(v, ast.Attribute) and v.attr == "nan" for v in vals):
                    _fail(st, "neighbour indices not initialised to nan")
                return
            _fail(st, "unsupported tuple assignment to %s" % names)
        # top_left = at_top and at_left
        if isinstance(st, ast.Assign) and isinstance(st.targets[0], ast.Name) and isinstance(st.value, ast.BoolOp) \
                and isinstance(st.value.op, ast.And) and len(st.value.values) == 2 \
                and all(isinstance(v, ast.Name) for v in st.value.values):
            self.conj[st.targets[0].id] = (st.value.values[0].id, st.value.values[1].id)
            return
        if isinstance(st, ast.Try):
            return self.lookup(st)
        _fail(st, "unsupported statement %s" % type(st).__name__)

    def lookup(self, st):
        if len(st.body) != 1 or st.finalbody or len(st.handlers) != 1:
            _fail(st, "unsupported try statement")
        b = st.body[0]
        if not (isinstance(b, ast.Assign) and isinstance(b.targets[0], ast.Name) and isinstance(b.value, ast.Subscript)
                and isinstance(b.value.value, ast.Name) and b.value.value.id == "grid_index_2d_to_1d_map"
                and isinstance(b.value.slice, ast.Tuple) and len(b.value.slice.elts) == 2):
            _fail(st, "try body is not a look-up in grid_index_2d_to_1d_map")
        name = b.targets[0].id
        a = _offset(b.value.slice.elts[0], "ix")
        bb = _offset(b.value.slice.elts[1], "iy")
        if name in self.neigh or (a, bb) in self.neigh.values() or (a, bb) == (0, 0) or abs(a) > 1 or abs(bb) > 1:
            _fail(st, "neighbour %s at (%d, %d) repeated or outside the 3x3 stencil" % (name, a, bb))
        h = st.handlers[0]
        if not (isinstance(h.type, ast.Name) and h.type.id == "KeyError" and len(h.body) == 1):
            _fail(st, "handler is not a single-statement `except KeyError`")
        hb = h.body[0]
        if isinstance(hb, ast.Assign) and isinstance(hb.targets[0], ast.Name) and isinstance(hb.value, ast.Constant) \
                and hb.value.value is True:
            flag = hb.targets[0].id
            if flag in self.flags:
                _fail(st, "flag %s set by two look-ups" % flag)
            self.flags[flag] = (a, bb)
        elif not isinstance(hb, ast.Pass):
            _fail(st, "unsupported handler body")
        self.neigh[name] = (a, bb)
        # else-branch: assignments executed iff the look-up succeeded
        groups = {}
        for s in st.orelse:
            oa = self.op_assign(s)
            if oa is None:
                _fail(s, "unsupported statement in try/else")
            groups.setdefault(oa[0], []).append(oa[1:])
        self.flush(groups, "h (%d) (%d)" % (a, bb))


def qcoq(v):
    v = Fraction(v)
    if v.denominator == 1:
        return "(%d)" % v.numerator if v.numerator < 0 else "%d" % v.numerator
    return "((%d)#%d)" % (v.numerator, v.denominator)


def translate(repo):
    """-> (Coq text of Gen/C20/Source.v, summary dict)"""
    path = os.path.join(repo, "cherab", "tools", "inversions", "admt_utils.py")
    tree = ast.parse(open(path).read())
    fn = [n for n in tree.body if isinstance(n, ast.FunctionDef) and n.name == "generate_derivative_operators"]
    if len(fn) != 1:
        raise TranslateError("generate_derivative_operators not found exactly once")
    fn = fn[0]
    loops = [n for n in fn.body if isinstance(n, ast.For)]
    if len(loops) != 1:
        raise TranslateError("expected exactly one for loop in generate_derivative_operators, found %d" % len(loops))
    loop = loops[0]
    if not (isinstance(loop.target, ast.Name) and loop.target.id == "ith_cell" and isinstance(loop.iter, ast.Call)
            and isinstance(loop.iter.func, ast.Name) and loop.iter.func.id == "range" and len(loop.iter.args) == 1
            and isinstance(loop.iter.args[0], ast.Name) and loop.iter.args[0].id == "num_cells") or loop.orelse:
        _fail(loop, "loop is not `for ith_cell in range(num_cells)`")
    tr = Translator()
    tr.block(loop.body, None)
    want_flags = {"at_left": (-1, 0), "at_right": (1, 0), "at_bottom": (0, 1), "at_top": (0, -1)}
    if tr.flags != want_flags:
        raise TranslateError("boundary flags are set by other look-ups than the model's: %r" % tr.flags)
    if len(tr.neigh) != 8:
        raise TranslateError("expected 8 neighbour look-ups, found %d" % len(tr.neigh))
    # ---- statements before the loop: operators start as zero matrices ------------------------------------------
    zero_init = set()
    after = {}
    seen_loop = False
    for st in fn.body:
        if st is loop:
            seen_loop = True
            continue
        if isinstance(st, ast.Assign) and isinstance(st.targets[0], ast.Name) and st.targets[0].id in OPS:
            o = st.targets[0].id
            if not seen_loop:
                v = st.value
                if not (isinstance(v, ast.Call) and isinstance(v.func, ast.Attribute) and v.func.attr == "zeros"):
                    _fail(st, "%s is not initialised with np.zeros" % o)
                zero_init.add(o)
            else:
                # Op = Op / <expr in dx, dy>
                v = st.value
                if not (isinstance(v, ast.BinOp) and isinstance(v.op, ast.Div) and isinstance(v.left, ast.Name) and v.left.id == o):
                    _fail(st, "unsupported rescaling of %s" % o)
                if o in after:
                    _fail(st, "%s rescaled twice" % o)
                after[o] = scale_expr(v.right)
    if zero_init != set(OPS) or set(after) != set(OPS):
        raise TranslateError("operators not all zero-initialised / rescaled exactly once: %r %r" % (sorted(zero_init), sorted(after)))
    # ---- emit ----------------------------------------------------------------------------------------------------------
    out = ["(* generated by harness/c20_translate.py from cherab/tools/inversions/admt_utils.py -- do not edit *)",
           "Require Import Cherab.Common.Qx.", "Require Import Cherab.Model.C20_Stencil Cherab.Proofs.C20_Source.",
           "Open Scope Z_scope.", "", "Section Cell.", "  Variables nx ny ix iy : Z.", "  Let h := has nx ny ix iy.",
           "  Local Notation \"s |> f\" := (f s) (at level 50, left associativity, only parsing).",
           "  Local Open Scope Q_scope."]
    for o in OPS:
        lines = ["  Definition src_raw_%s : stencil :=" % o, "    st0"]
        for cond, ups in tr.prog[o]:
            body = "fun s => " + "".join("upd (%d) (%d) %s (" % (a, b, qcoq(v)) for a, b, v in reversed(ups)) + "s" + ")" * len(ups)
            lines.append("    |> (%s)" % (body if cond is None else "when (%s)%%Z (%s)" % (cond, body)))
        out.append("\n".join(lines) + ".")
    out.append("End Cell.")
    out.append("")
    out.append("Definition src_scale (o : opname) (dx dy : Q) : Q :=\n  match o with\n" +
               "\n".join("  | O%s => %s" % (o, after[o]) for o in OPS) + "\n  end%Q.")
    out.append("")
    for o in OPS:
        out.append("Lemma src_%s_is_model : forall nx ny ix iy, coeffs (src_raw_%s nx ny ix iy) = coeffs (raw_%s nx ny ix iy).\n"
                   "Proof. tie_by_lookup_cases src_raw_%s raw_%s. Qed." % (o, o, o, o, o))
    out.append("Lemma src_scale_is_model : forall o dx dy, src_scale o dx dy = model_scale o dx dy.\n"
               "Proof. intros [] dx dy; reflexivity. Qed.")
    out.append("")
    out.append("(* the theorems about the model therefore speak about the source-derived rows *)")
    out.append("Lemma src_rows_apply_as_model : forall nx ny ix iy f,\n"
               "  apply (src_raw_Dx nx ny ix iy) f ix iy = apply (raw_Dx nx ny ix iy) f ix iy /\\\n"
               "  apply (src_raw_Dy nx ny ix iy) f ix iy = apply (raw_Dy nx ny ix iy) f ix iy /\\\n"
               "  apply (src_raw_Dxx nx ny ix iy) f ix iy = apply (raw_Dxx nx ny ix iy) f ix iy /\\\n"
               "  apply (src_raw_Dyy nx ny ix iy) f ix iy = apply (raw_Dyy nx ny ix iy) f ix iy /\\\n"
               "  apply (src_raw_Dxy nx ny ix iy) f ix iy = apply (raw_Dxy nx ny ix iy) f ix iy.\n"
               "Proof. intros; refine (conj _ (conj _ (conj _ (conj _ _)))); apply apply_of_coeffs; [apply src_Dx_is_model|apply src_Dy_is_model|"
               "apply src_Dxx_is_model|apply src_Dyy_is_model|apply src_Dxy_is_model]. Qed.")
    out.append("Print Assumptions src_rows_apply_as_model.")
    summary = {"neighbour_lookups": {k: list(v) for k, v in sorted(tr.neigh.items())}, "flags": {k: list(v) for k, v in tr.flags.items()},
               "conjunctions": {k: list(v) for k, v in tr.conj.items()},
               "guarded_assignment_groups": {o: len(tr.prog[o]) for o in OPS},
               "assignments": {o: sum(len(u) for _, u in tr.prog[o]) for o in OPS}, "scalings": after}
    return "\n".join(out) + "\n", summary


def scale_expr(node):
    """dx, dy, dx**2, dy**2, dx * dy -> Coq Q expression"""
    if isinstance(node, ast.Name) and node.id in ("dx", "dy"):
        return node.id
    if isinstance(node, ast.BinOp) and isinstance(node.op, ast.Pow) and isinstance(node.left, ast.Name) \
            and node.left.id in ("dx", "dy") and isinstance(node.right, ast.Constant) and node.right.value == 2:
        return "%s * %s" % (node.left.id, node.left.id)
    if isinstance(node, ast.BinOp) and isinstance(node.op, ast.Mult):
        return "%s * %s" % (scale_expr(node.left), scale_expr(node.right))
    _fail(node, "unsupported scaling expression %s" % ast.dump(node))


# =================================================================================================================
# calculate_admt: the coefficient formulas, translated into expressions over the model's jet (Model/C20_Admt.v)
# =================================================================================================================
MATVEC = {("Dx", "psi_at_voxels"): "px", ("Dy", "psi_at_voxels"): "py", ("Dxx", "psi_at_voxels"): "pxx",
          ("Dxy", "psi_at_voxels"): "pxy", ("Dyy", "psi_at_voxels"): "pyy",
          ("Dx", "Dperp"): "dperp_x", ("Dy", "Dperp"): "dperp_y", ("Dx", "Dpar"): "dpar_x", ("Dy", "Dpar"): "dpar_y"}
OPKEYS = {"Dx": "ODx", "Dy": "ODy", "Dxx": "ODxx", "Dxy": "ODxy", "Dyy": "ODyy"}
COEFFS = ["cx", "cy", "cxx", "cyy", "cxy"]


class AdmtTranslator:
    def __init__(self):
        self.ops = {}        # local name -> operator key ("Dx" ...), from derivative_operators["Dx"]
        self.env = {"voxel_radii": "rad j", "Dperp": "dperp j", "Dpar": "dpar j"}    # python name -> Coq expression over j
        self.defs = []       # (coq name, coq body) in source order
        self.diag = set()
        self.assembly = None
        self.scale = None
        self.dpar_literal = None
        self.dperp_expr = None

    def expr(self, node):
        """elementwise numpy expression -> Coq Q expression (fully parenthesised)"""
        if isinstance(node, ast.Name):
            if node.id not in self.env:
                _fail(node, "calculate_admt: unknown name %s in a coefficient formula" % node.id)
            return self.env[node.id]
        if isinstance(node, ast.Constant) and isinstance(node.value, (int, float)) and not isinstance(node.value, bool):
            return qcoq(Fraction(node.value))
        if isinstance(node, ast.UnaryOp) and isinstance(node.op, ast.USub):
            return "(- %s)" % self.expr(node.operand)
        if isinstance(node, ast.BinOp):
            if isinstance(node.op, ast.Pow):
                if not (isinstance(node.right, ast.Constant) and node.right.value == 2):
                    _fail(node, "calculate_admt: only squares are supported")
                b = self.expr(node.left)
                return "(%s * %s)" % (b, b)
            if isinstance(node.op, ast.MatMult):
                key = self.matvec(node)
                return "%s j" % key
            sym = {ast.Add: "+", ast.Sub: "-", ast.Mult: "*", ast.Div: "/"}.get(type(node.op))
            if sym is None:
                _fail(node, "calculate_admt: unsupported operator %s" % type(node.op).__name__)
            return "(%s %s %s)" % (self.expr(node.left), sym, self.expr(node.right))
        _fail(node, "calculate_admt: unsupported expression %s" % ast.dump(node)[:120])

    def matvec(self, node):
        if not (isinstance(node.left, ast.Name) and isinstance(node.right, ast.Name) and node.left.id in self.ops):
            _fail(node, "calculate_admt: unsupported matrix product")
        k = (self.ops[node.left.id], node.right.id)
        if k not in MATVEC:
            _fail(node, "calculate_admt: matrix product %s @ %s has no counterpart in the model's jet" % k)
        return MATVEC[k]

    def statement(self, st):
        if isinstance(st, ast.Expr) and isinstance(st.value, ast.Constant) and isinstance(st.value.value, str):
            return      # docstring
        if isinstance(st, ast.Return):
            if not (isinstance(st.value, ast.Name) and st.value.id == "admt_operator"):
                _fail(st, "calculate_admt does not return admt_operator")
            return
        if isinstance(st, ast.AugAssign):
            if not (isinstance(st.target, ast.Name) and st.target.id == "admt_operator" and isinstance(st.op, ast.Mult)):
                _fail(st, "unsupported augmented assignment")
            v = st.value
            if not (isinstance(v, ast.Call) and isinstance(v.func, ast.Attribute) and v.func.attr == "sqrt" and len(v.args) == 1
                    and isinstance(v.args[0], ast.BinOp) and isinstance(v.args[0].op, ast.Mult)
                    and sorted(n.id for n in (v.args[0].left, v.args[0].right) if isinstance(n, ast.Name)) == ["dx", "dy"]):
                _fail(st, "the operator is not scaled by np.sqrt(dx * dy)")
            if self.assembly is None or self.scale is not None:
                _fail(st, "scaling before assembly / twice")
            self.scale = "sqrt(dx*dy)"
            return
        if not (isinstance(st, ast.Assign) and len(st.targets) == 1 and isinstance(st.targets[0], ast.Name)):
            _fail(st, "calculate_admt: unsupported statement %s" % type(st).__name__)
        name, v = st.targets[0].id, st.value
        # Dx = derivative_operators["Dx"]
        if isinstance(v, ast.Subscript) and isinstance(v.value, ast.Name) and v.value.id == "derivative_operators":
            key = v.slice.value if isinstance(v.slice, ast.Constant) else None
            if key not in OPKEYS or name != key:
                _fail(st, "unexpected operator look-up")
            self.ops[name] = key
            return
        # Dpar = np.full(psi_at_voxels.shape, 1)
        if name == "Dpar":
            if not (isinstance(v, ast.Call) and isinstance(v.func, ast.Attribute) and v.func.attr == "full" and len(v.args) == 2
                    and isinstance(v.args[1], ast.Constant)):
                _fail(st, "Dpar is not np.full(shape, <literal>)")
            self.dpar_literal = Fraction(v.args[1].value)
            return
        if name == "Dperp":
            if not (isinstance(v, ast.BinOp) and isinstance(v.op, ast.Div) and isinstance(v.left, ast.Name) and v.left.id == "Dpar"
                    and isinstance(v.right, ast.Name) and v.right.id == "anisotropy"):
                _fail(st, "Dperp is not Dpar / anisotropy")
            self.dperp_expr = "Dpar / anisotropy"
            return
        # cx = np.diag(cx)
        if isinstance(v, ast.Call) and isinstance(v.func, ast.Attribute) and v.func.attr == "diag":
            if not (len(v.args) == 1 and isinstance(v.args[0], ast.Name) and v.args[0].id == name and name in COEFFS):
                _fail(st, "unsupported np.diag use")
            self.diag.add(name)
            return
        if name == "admt_operator":
            self.assembly = self.assemble(v)
            return
        # a jet component: dpsidx = Dx @ psi_at_voxels
        if isinstance(v, ast.BinOp) and isinstance(v.op, ast.MatMult):
            self.env[name] = "%s j" % self.matvec(v)
            return
        # an elementwise formula
        body = self.expr(v)
        coq = "src_" + name
        self.defs.append((coq, body))
        self.env[name] = "%s j" % coq

    def assemble(self, node):
        """cx @ Dx + cy @ Dy + cxx @ Dxx + 2 * cxy @ Dxy + cyy @ Dyy -> [(factor, coeff name, operator key)]"""
        terms = []

        def walk(n):
            if isinstance(n, ast.BinOp) and isinstance(n.op, ast.Add):
                walk(n.left)
                walk(n.right)
                return
            fac = Fraction(1)
            # 2 * cxy @ Dxy parses as (2 * cxy) @ Dxy
            if isinstance(n, ast.BinOp) and isinstance(n.op, ast.MatMult) and isinstance(n.right, ast.Name) and n.right.id in self.ops:
                left = n.left
                if isinstance(left, ast.BinOp) and isinstance(left.op, ast.Mult) and isinstance(left.left, ast.Constant):
                    fac = Fraction(left.left.value)
                    left = left.right
                if isinstance(left, ast.Name) and left.id in COEFFS and left.id in self.diag:
                    terms.append((fac, left.id, self.ops[n.right.id]))
                    return
            _fail(n, "unsupported term in the assembly of the ADMT operator")
        walk(node)
        return terms


def translate_admt(repo):
    path = os.path.join(repo, "cherab", "tools", "inversions", "admt_utils.py")
    tree = ast.parse(open(path).read())
    fn = [n for n in tree.body if isinstance(n, ast.FunctionDef) and n.name == "calculate_admt"]
    if len(fn) != 1:
        raise TranslateError("calculate_admt not found exactly once")
    fn = fn[0]
    args = [a.arg for a in fn.args.args]
    if args != ["voxel_radii", "derivative_operators", "psi_at_voxels", "dx", "dy", "anisotropy"]:
        raise TranslateError("calculate_admt: unexpected parameter list %r" % args)
    tr = AdmtTranslator()
    for st in fn.body:
        tr.statement(st)
    if tr.dpar_literal is None or tr.dperp_expr is None or tr.assembly is None or tr.scale is None or tr.diag != set(COEFFS):
        raise TranslateError("calculate_admt: Dpar / Dperp / diag / assembly / scaling not all found")
    if sorted(tr.ops) != sorted(OPKEYS):
        raise TranslateError("calculate_admt: operators looked up: %r" % sorted(tr.ops))
    names = [n for n, _ in tr.defs]
    for c in COEFFS + ["normalisation"]:
        if "src_" + c not in names:
            raise TranslateError("calculate_admt: coefficient %s is not defined by an elementwise formula" % c)
    out = ["(* generated by harness/c20_translate.py from calculate_admt -- do not edit *)",
           "Require Import Cherab.Common.Qx.",
           "Require Import Cherab.Model.C20_Stencil Cherab.Model.C20_Admt Cherab.Proofs.C20_Source.",
           "Open Scope Q_scope.", ""]
    for n, b in tr.defs:
        out.append("Definition %s (j : jet) : Q := %s." % (n, b))
    out.append("")
    out.append("Definition src_dpar : Q := %s." % qcoq(tr.dpar_literal))
    out.append("Definition src_dperp (aniso : Q) : Q := src_dpar / aniso.")
    out.append("Lemma src_diffusivities_are_model : forall psi aniso rad0 nx ny ix iy dx dy,\n"
               "  dpar (jet_of psi aniso rad0 nx ny ix iy dx dy) = src_dpar /\\ dperp (jet_of psi aniso rad0 nx ny ix iy dx dy) = src_dperp aniso.\n"
               "Proof. intros; split; reflexivity. Qed.")
    model = {"normalisation": "normalisation", "cxx": "c_xx", "cyy": "c_yy", "cxy": "c_xy", "cx": "c_x", "cy": "c_y",
             "ddiff_term_cx": "ddiff_term_cx", "dnorm_term_cx": "dnorm_term_cx", "ddiff_term_cy": "ddiff_term_cy",
             "dnorm_term_cy": "dnorm_term_cy", "toroidal_term_cx": "toroidal_term_cx", "toroidal_term_cy": "toroidal_term_cy"}
    done = []
    out.append("Ltac unfold_all := cbv beta delta [%s c_x c_y c_xx c_yy c_xy ddiff_term_cx dnorm_term_cx ddiff_term_cy dnorm_term_cy "
               "toroidal_term_cx toroidal_term_cy normalisation] in *." % " ".join(n for n, _ in tr.defs))
    out.append("Ltac side_cond Hn Hr := try assumption; let E := fresh in intro E; first [ apply Hn; rewrite <- E; ring | apply Hr; rewrite <- E; ring ].")
    out.append("Ltac admt_tie Hn Hr := unfold_all; field; repeat split; side_cond Hn Hr.")
    for n, _ in tr.defs:
        base = n[4:]
        if base not in model:
            raise TranslateError("calculate_admt: formula %s has no counterpart in the model" % base)
        prev = " ".join("rewrite ?%s_is_model by assumption;" % d for d in done)
        out.append("Lemma %s_is_model : forall j, ~ normalisation j == 0 -> ~ rad j == 0 -> %s j == %s j.\n"
                   "Proof. intros j Hn Hr; first [ reflexivity | admt_tie Hn Hr ]. Qed." % (n, n, model[base]))
        done.append(n)
    terms = " + ".join("%ssrc_%s j * op_row %s nx ny ix iy dx dy a b" % ("" if f == 1 else "%s * " % qcoq(f), c, OPKEYS[o])
                       for f, c, o in tr.assembly)
    out.append("")
    out.append("Definition src_admt_row (j : jet) (nx ny ix iy : Z) (dx dy s : Q) : stencil :=\n  fun a b => (%s) * s." % terms)
    out.append("Lemma src_admt_row_is_model : forall j nx ny ix iy dx dy s a b, ~ normalisation j == 0 -> ~ rad j == 0 ->\n"
               "  src_admt_row j nx ny ix iy dx dy s a b == admt_row j nx ny ix iy dx dy s a b.\n"
               "Proof.\n  intros j nx ny ix iy dx dy s a b Hn Hr. unfold src_admt_row, admt_row.\n"
               "  rewrite (src_cx_is_model j Hn Hr), (src_cy_is_model j Hn Hr), (src_cxx_is_model j Hn Hr), (src_cxy_is_model j Hn Hr), "
               "(src_cyy_is_model j Hn Hr). ring.\nQed.")
    out.append("Print Assumptions src_admt_row_is_model.")
    summary = {"formulas": [n[4:] for n, _ in tr.defs], "jet_components": {k: v for k, v in tr.env.items() if not v.startswith("src_")},
               "assembly": [[str(f), c, o] for f, c, o in tr.assembly], "scaling": tr.scale, "Dpar": str(tr.dpar_literal), "Dperp": tr.dperp_expr}
    return "\n".join(out) + "\n", summary
