import json,sys
props={json.loads(l)['id']:json.loads(l) for l in open('/verif/properties.jsonl')}
pid=sys.argv[1]; tag=sys.argv[2]; hint=sys.argv[3] if len(sys.argv)>3 else ""
p=props[pid]
W=f"/tmp/seed_{tag}"
print(f"""You are helping to evaluate a verification tool by playing the role of a developer who introduces a subtle regression. Work autonomously; there is nobody to ask.

The software: cherab-core (Python/Cython plasma-spectroscopy package built on raysect). You have your own scratch git worktree of it at {W}/repo (already contains the compiled extension modules). Work ONLY inside {W}. Do not read, list or use anything under /verif, and do not edit /repo (another checkout of the same code that other people are using).

A semantic property the package is supposed to satisfy:

  {p['title']}
  {p['statement']}
  (It is meant to hold {p['quantifier']['text']}.)
  Code it is anchored in: {', '.join(p['anchors']['files'])}

YOUR TASK: make ONE realistic change to the source under {W}/repo/cherab that BREAKS this property while the package still builds and its existing test suite still passes. It should look like something a developer could plausibly commit (a refactoring slip, an optimisation with a wrong corner case, a copy-paste error, a wrong default, a forgotten notification, a swapped argument, an off-by-one at a boundary), not sabotage, and it must need something specific to manifest: a particular multi-step sequence of operations, an unusual but valid input, a boundary case, a particular size or ordering, or two cooperating sites that each look fine alone - NOT something the first ordinary use would expose. Keep the diff small (typically 1-15 changed lines). Do not touch tests. {hint}

How to work:
  * Run Python against your worktree with  {W}/pyrun script.py  (plain `python` would import the other checkout!). 
  * If you change a .pyx or .pxd file, rebuild in place:  cd {W}/repo && /venv/bin/python setup.py build_ext -j4 --inplace  (about 15-60 s; a .pxd change rebuilds many modules - prefer .pyx or .py changes).
  * Run the existing tests from the worktree root:  cd {W}/repo && timeout 1800 /venv/bin/python -m pytest -q -p no:cacheprovider -x <path or nothing for the whole suite>  (the conftest.py there makes `import cherab` resolve to the worktree; whole suite ~1-3 min: 579 passed, 3 skipped on the unchanged code). The WHOLE suite must still pass with your change.
  * Set OMP_NUM_THREADS=1 for anything using scipy/numpy solvers.

Deliver, in {W}/out/ :
  1. patch.diff  -  `cd {W}/repo && git diff > {W}/out/patch.diff` (source changes only; it must apply with `git apply` to a clean checkout of the same commit).
  2. demo.py  -  a small self-contained program (run as `{W}/pyrun {W}/out/demo.py`) that exits 0 and prints PASS on the unchanged code and exits 1 and prints FAIL (with the observed vs expected values) on the changed code. It must demonstrate a violation of the property as stated above, not merely a difference in behaviour.
  3. meta.json  -  {{"property": "{pid}", "summary": "<one sentence: what the change does>", "needs_to_manifest": "<what specific input/sequence is needed>", "files_changed": [...], "why_tests_pass": "<one sentence>", "ran": ["<the commands you ran to confirm: demo on changed code, demo on unchanged code (git stash), full test suite on changed code>"]}}

Before finishing, confirm yourself: (a) demo FAILS with the change, (b) revert your change with `git diff > {W}/out/patch.diff && git apply -R {W}/out/patch.diff` -> rebuild if needed -> demo PASSES -> re-apply with `git apply {W}/out/patch.diff` -> rebuild if needed (NEVER use `git stash`: the stash is shared between all worktrees of this repository and other people are using it), (c) the full test suite passes with the change. Leave the worktree with your change applied. Your final message: the summary line, the diff (inline), and the three confirmations with their actual output lines.""")
