(* Executable model of GaussianQuadrature.evaluate (cherab/core/math/integrators/integrators1d.pyx, lines 189-223),
   the default integrator of Bremsstrahlung: Gauss-Legendre rules of increasing order taken from flat caches of
   roots and weights (orders min_order .. max_order concatenated, _build_cache lines 163-181), stopped when two
   successive rules agree to the relative tolerance.  Definitions only. *)
Require Import Cherab.Common.Qx.
From Coq Require Import Qabs.
Open Scope Q_scope.

Definition Qltb (x y : Q) : bool := negb (Qle_bool y x).

Section GQ.
  Variables roots weights : list Q.     (* self._roots, self._weights *)

  (* the slice [ibegin, ibegin + order) of a cache *)
  Definition slice {A} (l : list A) (ibegin order : nat) : list A := firstn order (skipn ibegin l).

  (* newval = 0; for i in range(ibegin, ibegin + order): x = c + d * roots[i]; newval += weights[i] * f(x); newval *= d
     (Qred only normalises the representation of the running sum) *)
  Definition rule (ibegin order : nat) (f : Q -> Q) (c d : Q) : Q :=
    fold_left (fun acc rw => Qred (acc + snd rw * f (c + d * fst rw)))
              (combine (slice roots ibegin order) (slice weights ibegin order)) 0 * d.

  (* for order in range(min_order, max_order + 1): ...; error = abs(newval - oldval); oldval = newval; ibegin += order;
     if error < rtol * abs(newval): break.   oldval = None stands for INFINITY (first pass: never converged);
     fuel = number of orders still to try; the value returned after the last order is the last newval *)
  Fixpoint gq_loop (fuel order ibegin : nat) (oldval : option Q) (f : Q -> Q) (c d rtol : Q) : Q :=
    match fuel with
    | O => match oldval with Some v => v | None => 0 end
    | S m =>
      let newval := rule ibegin order f c d in
      let converged := match oldval with
                       | None => false
                       | Some o => Qltb (Qabs (newval - o)) (rtol * Qabs newval)
                       end in
      if converged then newval else gq_loop m (S order) (ibegin + order) (Some newval) f c d rtol
    end.

  (* c = 0.5 * (a + b); d = 0.5 * (b - a) *)
  Definition gq_evaluate (min_order max_order : nat) (rtol : Q) (f : Q -> Q) (a b : Q) : Q :=
    gq_loop (S max_order - min_order) min_order 0 None f ((1 # 2) * (a + b)) ((1 # 2) * (b - a)) rtol.

  (* position of the j-th rule tried in the caches, and the list of all rules the loop can return *)
  Fixpoint ib_at (order ibegin j : nat) : nat :=
    match j with O => ibegin | S j' => ib_at (S order) (ibegin + order) j' end.
End GQ.
