(* C02 -- model of the bookkeeping of GaussianQuadrature (cherab/core/math/integrators/integrators1d.pyx):
   (min_order, max_order), the layout of the cached Gauss-Legendre rows written by _build_cache and the
   index ibegin with which evaluate() walks them.  Definitions only. *)
Require Import Cherab.Common.Qx.
Open Scope Z_scope.

(* q_min/q_max: _min_order/_max_order; c_min/c_max: the orders the cache was last built for *)
Record qstate := { q_min : Z; q_max : Z; c_min : Z; c_max : Z }.

(* public routes: the three property setters (relative_tolerance carries "value > 0") and the integrand setter *)
Inductive qop := SetMin (v : Z) | SetMax (v : Z) | SetRtol (positive : bool) | SetIntegrand.

Definition rebuild (mn mx : Z) : qstate := {| q_min := mn; q_max := mx; c_min := mn; c_max := mx |}.

(* __init__ (integrators1d.pyx:83-97): None = ValueError *)
Definition q_init (mx mn : Z) (rtol_positive : bool) : option qstate :=
  if (mn <? 1) || (mx <? 1) then None
  else if mx <? mn then None
  else if negb rtol_positive then None
  else Some (rebuild mn mx).

(* setters (integrators1d.pyx:108-161): (new state, ValueError raised) *)
Definition q_step (s : qstate) (o : qop) : qstate * bool :=
  match o with
  | SetMin v => if v <? 1 then (s, true) else if q_max s <? v then (s, true) else (rebuild v (q_max s), false)
  | SetMax v => if v <? 1 then (s, true) else if v <? q_min s then (s, true) else (rebuild (q_min s) v, false)
  | SetRtol positive => (s, negb positive)
  | SetIntegrand => (s, false)
  end.

Fixpoint q_run (s : qstate) (ops : list qop) : qstate * list bool :=
  match ops with
  | [] => (s, [])
  | o :: t => let '(s1, e) := q_step s o in let '(s2, es) := q_run s1 t in (s2, e :: es)
  end.

(* from + (from+1) + ... (n terms): rows are stored one after the other, the row of order k has k entries *)
Fixpoint sum_orders (from : Z) (n : nat) : Z :=
  match n with O => 0 | S k => from + sum_orders (from + 1) k end.

(* where _build_cache put the row of order o (the running index i of its loop) *)
Definition row_in_cache (s : qstate) (o : Z) : Z := sum_orders (c_min s) (Z.to_nat (o - c_min s)).
(* ibegin when the loop of evaluate() reaches order o *)
Definition row_in_eval (s : qstate) (o : Z) : Z := sum_orders (q_min s) (Z.to_nat (o - q_min s)).
(* n = (max + min) (max - min + 1) // 2, the allocated length *)
Definition cache_len (s : qstate) : Z := (c_max s + c_min s) * (c_max s - c_min s + 1) / 2.

(* ---- exact integral of a polynomial sum_k c_k x^k (k counted from k0) over [a, b], for the correspondence ---- *)
Open Scope Q_scope.
Fixpoint poly_int (cs : list Q) (k : Z) (a b : Q) : Q :=
  match cs with
  | [] => 0
  | c :: t => c * (Qpower b (k + 1) - Qpower a (k + 1)) / inject_Z (k + 1) + poly_int t (k + 1) a b
  end.

(* ---- StarkFunction (stark.pyx:46-76) and the bin integral add_lorentzian_line obtains from GaussianQuadrature.evaluate
   (the loop itself is the model of Model/C03_Quadrature.v: rules of increasing order from the flat caches, stopped when
   two successive rules agree to the relative tolerance) ---- *)
Require Cherab.Model.C03_Quadrature.
From Coq Require Import Qabs.
Section StarkGQ.
  Variable powQ : Q -> Q -> Q.           (* C pow *)
  Variable normc : Q.                    (* STARK_NORM_COEFFICIENT *)
  (* __init__: _a = (0.5 lambda_1_2)**2.5, _norm = (0.5 lambda_1_2)**1.5 / STARK_NORM_COEFFICIENT;
     evaluate: _norm / (fabs(x - _x0)**2.5 + _a) *)
  Definition stark_function (lam w x : Q) : Q :=
    (powQ ((1 # 2) * w) (3 # 2) / normc) / (powQ (Qabs (x - lam)) (5 # 2) + powQ ((1 # 2) * w) (5 # 2)).
  Variables roots weights : list Q.
  Definition stark_bin_integral (mn mx : nat) (rtol : Q) (lam w a b : Q) : Q :=
    C03_Quadrature.gq_evaluate roots weights mn mx rtol (stark_function lam w) a b.
End StarkGQ.
