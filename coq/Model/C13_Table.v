(* C13 -- the routing table: for every wrapper class of the anchored files, what its [evaluate] hands to the wrapped
   function, as a term of a small language.  [source_table] is written by hand; harness/c13_translate.py regenerates the
   same table from the CURRENT .pyx sources on every run (coq/Gen/C13/Table.v) and the kernel checks that the two are
   equal (coq/Gen/C13/Tie.v).  Proofs/C13_Table.v proves that the meaning of each entry is the model function of
   Model/C13_Wrappers.v.  Definitions only. *)
Require Import Cherab.Common.Qx.
Require Import Cherab.Model.C13_Wrappers.
From Coq Require Import String.
Open Scope string_scope.

Inductive rterm : Set :=
| RArg (i : Z)                      (* the i-th argument of evaluate(self, x, y, z): 0 = x, 1 = y, 2 = z *)
| RAttr (name : string)             (* self.<name> *)
| RClamp (t lo hi : rterm)          (* clamp(t, lo, hi) *)
| RRem (t p : rterm)                (* remainder(t, p)  (periodic.pxd) *)
| RHypot (a b : rterm)              (* hypot(a, b) *)
| RAtan2 (a b : rterm)              (* atan2(a, b) *)
| RDeg (t : rterm)                  (* t / M_PI * 180 *)
| RPick (i : Z).                    (* d[i] after the loop of Swizzle3D.evaluate: x, y or z according to self.shape[i] in 0, 1, 2
                                       (any other value raises ValueError there; the constructor admits none, see
                                       swizzle3_validate) *)

Inductive rpost : Set :=
| PNone                             (* the wrapped function's value is returned as it is *)
| PClampOut (lo hi : rterm)         (* clamp(value, lo, hi) *)
| PIso (outer : string)             (* self.<outer>.evaluate(value) *)
| PRotZ (deg : rterm).              (* value.transform(rotate_z(deg)) *)

Inductive rbody : Set :=
| RCall (fn : string) (args : list rterm) (post : rpost)     (* return self.<fn>.evaluate(args...) then post *)
| RIfAxis (k : Z) (yes no : rbody).                           (* if self.axis == k: yes  else: no *)

Definition aX := RArg 0.  Definition aY := RArg 1.  Definition aZ := RArg 2.
Definition A_ (s : string) := RAttr s.

Definition source_table : list (string * rbody) := [
  ("IsoMapper2D", RCall "function2d" [aX; aY] (PIso "function1d"));
  ("IsoMapper3D", RCall "function3d" [aX; aY; aZ] (PIso "function1d"));
  ("Swizzle2D", RCall "function2d" [aY; aX] PNone);
  ("Swizzle3D", RCall "function3d" [RPick 0; RPick 1; RPick 2] PNone);
  ("AxisymmetricMapper", RCall "function2d" [RHypot aX aY; aZ] PNone);
  ("VectorAxisymmetricMapper", RCall "function2d" [RHypot aX aY; aZ] (PRotZ (RDeg (RAtan2 aY aX))));
  ("ClampOutput1D", RCall "_f" [aX] (PClampOut (A_ "_min") (A_ "_max")));
  ("ClampOutput2D", RCall "_f" [aX; aY] (PClampOut (A_ "_min") (A_ "_max")));
  ("ClampOutput3D", RCall "_f" [aX; aY; aZ] (PClampOut (A_ "_min") (A_ "_max")));
  ("ClampInput1D", RCall "_f" [RClamp aX (A_ "_xmin") (A_ "_xmax")] PNone);
  ("ClampInput2D", RCall "_f" [RClamp aX (A_ "_xmin") (A_ "_xmax"); RClamp aY (A_ "_ymin") (A_ "_ymax")] PNone);
  ("ClampInput3D", RCall "_f" [RClamp aX (A_ "_xmin") (A_ "_xmax"); RClamp aY (A_ "_ymin") (A_ "_ymax");
                               RClamp aZ (A_ "_zmin") (A_ "_zmax")] PNone);
  ("Slice2D", RIfAxis 0 (RCall "_function" [A_ "value"; aX] PNone) (RCall "_function" [aX; A_ "value"] PNone));
  ("Slice3D", RIfAxis 0 (RCall "_function" [A_ "value"; aX; aY] PNone)
              (RIfAxis 1 (RCall "_function" [aX; A_ "value"; aY] PNone) (RCall "_function" [aX; aY; A_ "value"] PNone)));
  ("PolygonMask2D", RCall "_mesh" [aX; aY] PNone);
  ("PeriodicTransform1D", RCall "function1d" [RRem aX (A_ "period")] PNone);
  ("PeriodicTransform2D", RCall "function2d" [RRem aX (A_ "period_x"); RRem aY (A_ "period_y")] PNone);
  ("PeriodicTransform3D", RCall "function3d" [RRem aX (A_ "period_x"); RRem aY (A_ "period_y"); RRem aZ (A_ "period_z")] PNone);
  ("VectorPeriodicTransform1D", RCall "function1d" [RRem aX (A_ "period")] PNone);
  ("VectorPeriodicTransform2D", RCall "function2d" [RRem aX (A_ "period_x"); RRem aY (A_ "period_y")] PNone);
  ("VectorPeriodicTransform3D", RCall "function3d" [RRem aX (A_ "period_x"); RRem aY (A_ "period_y"); RRem aZ (A_ "period_z")] PNone);
  ("CylindricalTransform", RCall "function3d" [RHypot aX aY; RAtan2 aY aX; aZ] PNone);
  ("VectorCylindricalTransform", RCall "function3d" [RHypot aX aY; RAtan2 aY aX; aZ] (PRotZ (RDeg (RAtan2 aY aX))))
].

(* classes of the anchored files whose evaluate is not expressible in the language: none *)
Definition not_in_table : list string := [].

(* ---- meaning ---------------------------------------------------------------------------------------------------- *)
Section Meaning.
  Context {A : Type}.
  Variable clamp : A -> A -> A -> A.
  Variable rem : A -> A -> A.
  Variable hypot atan2 : A -> A -> A.
  Variable deg : A -> A.
  Variable arg : Z -> A.
  Variable attr : string -> A.
  Variable axis : Z.
  Variable shape : Z -> Z.

  Fixpoint ev (t : rterm) : A :=
    match t with
    | RArg i => arg i
    | RAttr s => attr s
    | RClamp u lo hi => clamp (ev u) (ev lo) (ev hi)
    | RRem u p => rem (ev u) (ev p)
    | RHypot a b => hypot (ev a) (ev b)
    | RAtan2 a b => atan2 (ev a) (ev b)
    | RDeg u => deg (ev u)
    | RPick i => pick3 (shape i) (arg 0) (arg 1) (arg 2)
    end.
  (* the arguments handed to the wrapped function, and the post-processing of its value *)
  Fixpoint routed (b : rbody) : list A :=
    match b with
    | RCall _ args _ => map ev args
    | RIfAxis k yes no => if (axis =? k)%Z then routed yes else routed no
    end.
  Fixpoint post_of (b : rbody) : rpost :=
    match b with
    | RCall _ _ p => p
    | RIfAxis k yes no => if (axis =? k)%Z then post_of yes else post_of no
    end.
End Meaning.

Fixpoint lookup (name : string) (t : list (string * rbody)) : option rbody :=
  match t with
  | [] => None
  | (n, b) :: r => if String.eqb n name then Some b else lookup name r
  end.

(* ---- samplers.pyx: every sampling function as a descriptor of its loop nest ------------------------------------------ *)
Inductive axsrc : Set :=
| AxLin (r : Z)       (* linspace(range_r[0], range_r[1], range_r[2]) of the r-th range argument *)
| AxGiven (a : Z)     (* ascontiguousarray(a-th array argument, dtype=float) *)
| AxColumn (c : Z).   (* ascontiguousarray(points[:, c], dtype=float) *)

Record sdesc : Set := {
  sd_axes : list axsrc;           (* the coordinate arrays, in the order x, y, z *)
  sd_bounds : list nat;           (* the loop nest, outer -> inner: loop t runs over the length of coordinate array (nth t) *)
  sd_store : list nat;            (* v_view[...] = ...: the loop positions used as indices, in order *)
  sd_args : list (nat * nat);     (* evaluate(...): argument = (coordinate array, loop position indexing it) *)
  sd_comps : list (nat * nat);    (* vector samplers: (last index, component 0 = x, 1 = y, 2 = z); [] for scalar samplers *)
  sd_checks : list (Z * string);  (* argument checks in source order: (argument, "len" | "order" | "count" | "ndim" | "points_shape") *)
  sd_return : list string         (* what is returned, in order *)
}.

Definition ids (d : nat) : list nat := seq 0 d.
Definition zids (d : nat) : list Z := map Z.of_nat (seq 0 d).
Definition vec_comps (vector : bool) : list (nat * nat) := if vector then [(0, 0); (1, 1); (2, 2)]%nat else [].
Definition axis_names (d : nat) : list string := firstn d ["axis0"; "axis1"; "axis2"].

Definition range_desc (d : nat) (vector : bool) : sdesc :=
  {| sd_axes := map AxLin (zids d); sd_bounds := ids d; sd_store := ids d; sd_args := map (fun t => (t, t)) (ids d);
     sd_comps := vec_comps vector;
     sd_checks := map (fun r => (r, "len")) (zids d) ++ map (fun r => (r, "order")) (zids d) ++ map (fun r => (r, "count")) (zids d);
     sd_return := axis_names d ++ ["v"] |}.
Definition grid_desc (d : nat) (vector : bool) : sdesc :=
  {| sd_axes := map AxGiven (zids d); sd_bounds := ids d; sd_store := ids d; sd_args := map (fun t => (t, t)) (ids d);
     sd_comps := vec_comps vector; sd_checks := map (fun r => (r, "ndim")) (zids d); sd_return := ["v"] |}.
Definition points_desc (d : nat) (vector : bool) : sdesc :=
  {| sd_axes := map AxColumn (zids d); sd_bounds := [0%nat]; sd_store := [0%nat]; sd_args := map (fun t => (t, 0%nat)) (ids d);
     sd_comps := vec_comps vector; sd_checks := [(Z.of_nat d, "points_shape")]; sd_return := ["v"] |}.
Definition points1_desc : sdesc :=
  {| sd_axes := [AxGiven 0]; sd_bounds := [0%nat]; sd_store := [0%nat]; sd_args := [(0, 0)%nat]; sd_comps := [];
     sd_checks := []; sd_return := ["v"] |}.

Definition sampler_table : list (string * sdesc) := [
  ("sample1d", range_desc 1 false); ("sample1d_points", points1_desc);
  ("sample2d", range_desc 2 false); ("sample2d_points", points_desc 2 false); ("sample2d_grid", grid_desc 2 false);
  ("sample3d", range_desc 3 false); ("sample3d_points", points_desc 3 false); ("sample3d_grid", grid_desc 3 false);
  ("samplevector2d", range_desc 2 true); ("samplevector2d_points", points_desc 2 true); ("samplevector2d_grid", grid_desc 2 true);
  ("samplevector3d", range_desc 3 true); ("samplevector3d_points", points_desc 3 true); ("samplevector3d_grid", grid_desc 3 true)
].

(* the loop nest executed: all index tuples in loop order (outermost index slowest), each with the key it is stored under
   and the value stored *)
Fixpoint enum (bounds : list nat) : list (list nat) :=
  match bounds with
  | [] => [[]]
  | n :: r => flat_map (fun i => map (cons i) (enum r)) (seq 0 n)
  end.
Definition run_desc {A B} (d : sdesc) (f : list A -> B) (axes : list (list A)) (dflt : A) : list (list nat * B) :=
  map (fun t => (map (fun v => nth v t 0%nat) (sd_store d),
                 f (map (fun av => nth (nth (snd av) t 0%nat) (nth (fst av) axes []) dflt) (sd_args d))))
      (enum (map (fun ax => List.length (nth ax axes [])) (sd_bounds d))).

Fixpoint lookup_s (name : string) (t : list (string * sdesc)) : option sdesc :=
  match t with
  | [] => None
  | (n, b) :: r => if String.eqb n name then Some b else lookup_s name r
  end.

(* ---- periodic.pxd: the inline function remainder(x1, x2) as a little imperative program ------------------------------ *)
Inductive fexpr : Set :=
| FVar (n : string) | FZero
| FFmod (a b : fexpr)            (* fmod(a, b) *)
| FAdd (a b : fexpr)             (* a + b *)
| FNextafter0 (a : fexpr).       (* nextafter(a, 0) *)
Inductive fcond : Set := FEq (a b : fexpr) | FLt (a b : fexpr).
Inductive fstmt : Set :=
| FAssign (v : string) (e : fexpr)
| FIfReturn (c : fcond) (e : fexpr)          (* if c: return e *)
| FIf (c : fcond) (body : list fstmt)         (* if c: body   (no else) *)
| FReturn (e : fexpr).

Definition source_remainder : list fstmt := [
  FIfReturn (FEq (FVar "x2") FZero) (FVar "x1");
  FAssign "x1" (FFmod (FVar "x1") (FVar "x2"));
  FIf (FLt (FVar "x1") FZero) [
    FAssign "x1" (FAdd (FVar "x1") (FVar "x2"));
    FIf (FEq (FVar "x1") (FVar "x2")) [ FAssign "x1" (FNextafter0 (FVar "x2")) ]
  ];
  FReturn (FVar "x1")
].

Section RunRemainder.
  Context {A : Type}.
  Variables (zeroA : A) (fmodA addA : A -> A -> A) (next0 : A -> A) (eqbA ltbA : A -> A -> bool).
  Definition fenv : Type := string -> A.
  Definition fset (v : string) (a : A) (e : fenv) : fenv := fun w => if String.eqb w v then a else e w.
  Fixpoint fev (env : fenv) (e : fexpr) : A :=
    match e with
    | FVar n => env n | FZero => zeroA
    | FFmod a b => fmodA (fev env a) (fev env b)
    | FAdd a b => addA (fev env a) (fev env b)
    | FNextafter0 a => next0 (fev env a)
    end.
  Definition fcd (env : fenv) (c : fcond) : bool :=
    match c with FEq a b => eqbA (fev env a) (fev env b) | FLt a b => ltbA (fev env a) (fev env b) end.
  (* statements without return inside an if-block (all that occurs): run a block, giving the new environment *)
  Fixpoint fblock (fuel : nat) (env : fenv) (b : list fstmt) : fenv :=
    match fuel with
    | O => env
    | S fuel' =>
        match b with
        | [] => env
        | FAssign v e :: r => fblock fuel' (fset v (fev env e) env) r
        | FIf c body :: r => fblock fuel' (if fcd env c then fblock fuel' env body else env) r
        | _ :: r => fblock fuel' env r
        end
    end.
  Fixpoint frun (fuel : nat) (env : fenv) (b : list fstmt) : option A :=
    match fuel with
    | O => None
    | S fuel' =>
        match b with
        | [] => None
        | FReturn e :: _ => Some (fev env e)
        | FIfReturn c e :: r => if fcd env c then Some (fev env e) else frun fuel' env r
        | FAssign v e :: r => frun fuel' (fset v (fev env e) env) r
        | FIf c body :: r => frun fuel' (if fcd env c then fblock fuel' env body else env) r
        end
    end.
  Definition run_remainder (prog : list fstmt) (x1 x2 : A) : option A :=
    frun 20 (fun w => if String.eqb w "x1" then x1 else x2) prog.
End RunRemainder.

(* ---- the argument checks of the constructors (__init__), in source order ------------------------------------------------ *)
Inductive ccond : Set :=
| CNotCallable (names : list string)        (* not callable(a)  /  not (callable(a) and callable(b)) *)
| CCmp (op : string) (a b : string)         (* a op b, op in ">=", "<=", "<"; b a parameter name or "0" *)
| CShapeEntry (allowed : list Z)            (* for i in shape: if i not in allowed *)
| CShapeNotTuple3                           (* else-branch of: if isinstance(shape, tuple) and len(shape) == 3 *)
| CAxisName (keys : list (string * Z))      (* if isinstance(axis, str): axis = {keys}[axis.lower()], KeyError -> the error *)
| CAxisNotIn (allowed : list Z).            (* if axis not in allowed *)

Definition ctor_table : list (string * list (ccond * string)) := [
  ("IsoMapper2D", [(CNotCallable ["function2d"; "function1d"], "TypeError")]);
  ("IsoMapper3D", [(CNotCallable ["function3d"; "function1d"], "TypeError")]);
  ("Swizzle2D", [(CNotCallable ["function2d"], "TypeError")]);
  ("Swizzle3D", [(CNotCallable ["function3d"], "TypeError"); (CShapeEntry [0; 1; 2]%Z, "ValueError"); (CShapeNotTuple3, "TypeError")]);
  ("AxisymmetricMapper", [(CNotCallable ["function2d"], "TypeError")]);
  ("VectorAxisymmetricMapper", [(CNotCallable ["vectorfunction2d"], "TypeError")]);
  ("ClampOutput1D", [(CCmp ">=" "min" "max", "ValueError")]);
  ("ClampOutput2D", [(CCmp ">=" "min" "max", "ValueError")]);
  ("ClampOutput3D", [(CCmp ">=" "min" "max", "ValueError")]);
  ("ClampInput1D", [(CCmp ">=" "xmin" "xmax", "ValueError")]);
  ("ClampInput2D", [(CCmp ">=" "xmin" "xmax", "ValueError"); (CCmp ">=" "ymin" "ymax", "ValueError")]);
  ("ClampInput3D", [(CCmp ">=" "xmin" "xmax", "ValueError"); (CCmp ">=" "ymin" "ymax", "ValueError"); (CCmp ">=" "zmin" "zmax", "ValueError")]);
  ("Slice2D", [(CAxisName [("x", 0); ("y", 1)]%Z, "ValueError"); (CAxisNotIn [0; 1]%Z, "ValueError")]);
  ("Slice3D", [(CAxisName [("x", 0); ("y", 1); ("z", 2)]%Z, "ValueError"); (CAxisNotIn [0; 1; 2]%Z, "ValueError")]);
  ("PolygonMask2D", []);
  ("PeriodicTransform1D", [(CNotCallable ["function1d"], "TypeError"); (CCmp "<=" "period" "0", "ValueError")]);
  ("PeriodicTransform2D", [(CNotCallable ["function2d"], "TypeError"); (CCmp "<" "period_x" "0", "ValueError"); (CCmp "<" "period_y" "0", "ValueError")]);
  ("PeriodicTransform3D", [(CNotCallable ["function3d"], "TypeError"); (CCmp "<" "period_x" "0", "ValueError"); (CCmp "<" "period_y" "0", "ValueError");
                           (CCmp "<" "period_z" "0", "ValueError")]);
  ("VectorPeriodicTransform1D", [(CNotCallable ["function1d"], "TypeError"); (CCmp "<=" "period" "0", "ValueError")]);
  ("VectorPeriodicTransform2D", [(CNotCallable ["function2d"], "TypeError"); (CCmp "<" "period_x" "0", "ValueError"); (CCmp "<" "period_y" "0", "ValueError")]);
  ("VectorPeriodicTransform3D", [(CNotCallable ["function3d"], "TypeError"); (CCmp "<" "period_x" "0", "ValueError"); (CCmp "<" "period_y" "0", "ValueError");
                                 (CCmp "<" "period_z" "0", "ValueError")]);
  ("CylindricalTransform", [(CNotCallable ["function3d"], "TypeError")]);
  ("VectorCylindricalTransform", [(CNotCallable ["function3d"], "TypeError")])
].

(* meaning: the first check that fires decides the exception.  Numeric parameters are extended reals (None = the infinite
   default: -inf for a lower bound, +inf for an upper bound); the wrapped objects are callable *)
Section CtorMeaning.
  Variable num : string -> option Q.
  Variable shape_is_tuple : bool.
  Variable shape : list Z.
  Variable axis : axis_sel.

  Definition err_of (s : string) : err := if String.eqb s "TypeError" then ErrType else ErrValue.
  Definition lower (s : string) : string :=
    if String.eqb s "X" then "x" else if String.eqb s "Y" then "y" else if String.eqb s "Z" then "z" else s.
  Fixpoint key_lookup (s : string) (keys : list (string * Z)) : option Z :=
    match keys with [] => None | (k, v) :: r => if String.eqb s k then Some v else key_lookup s r end.
  Definition fires (c : ccond) : bool :=
    match c with
    | CNotCallable _ => false
    | CCmp op a b =>
        if String.eqb op ">=" then match clamp_validate (num a) (num b) with Some _ => true | None => false end
        else match num a with
             | Some p => if String.eqb op "<=" then Qle_bool p 0 else negb (Qle_bool 0 p)
             | None => false
             end
    | CShapeEntry allowed => negb (forallb (fun i => existsb (Z.eqb i) allowed) shape)
    | CShapeNotTuple3 => negb (shape_is_tuple && (Z.of_nat (List.length shape) =? 3)%Z)
    | CAxisName keys => match axis with AxName s => match key_lookup (lower s) keys with Some _ => false | None => true end | AxNum _ => false end
    | CAxisNotIn allowed =>
        match axis with
        | AxNum z => negb (existsb (Z.eqb z) allowed)
        | AxName _ => false        (* a name that passed the previous check has become one of the allowed numbers *)
        end
    end.
  Fixpoint ctor_eval (checks : list (ccond * string)) : option err :=
    match checks with
    | [] => None
    | (c, e) :: r => if fires c then Some (err_of e) else ctor_eval r
    end.
End CtorMeaning.
Fixpoint lookup_c (name : string) (t : list (string * list (ccond * string))) : list (ccond * string) :=
  match t with [] => [] | (n, b) :: r => if String.eqb n name then b else lookup_c name r end.

(* the range checks of a range sampler, in source order; a range argument is (len, min, max, samples) *)
Definition range_arg : Type := (Z * Q * Q * Z)%type.
Definition check_fires (ranges : list range_arg) (c : Z * string) : bool :=
  let '(len, a, b, n) := nth (Z.to_nat (fst c)) ranges (3%Z, 0%Q, 0%Q, 1%Z) in
  if String.eqb (snd c) "len" then negb (len =? 3)%Z
  else if String.eqb (snd c) "order" then Qltb b a
  else if String.eqb (snd c) "count" then (n <? 1)%Z
  else false.
Fixpoint checks_eval (ranges : list range_arg) (checks : list (Z * string)) : option err :=
  match checks with
  | [] => None
  | c :: r => if check_fires ranges c then Some ErrValue else checks_eval ranges r
  end.
