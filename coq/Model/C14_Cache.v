(* Generic model of the lazily filled cache shared by Caching1D/2D/3D
   (cherab/core/math/caching/caching{1,2,3}d.pyx : evaluate + _evaluate).  Definitions only.

   The three classes have the same control flow:
     evaluate(p):   locate the cell of p with find_index on every axis;
                    inside the permitted cells -> _evaluate(p, cell)
                    else if no_boundary_error -> function.evaluate(p)      (direct call)
                    else raise ValueError
     _evaluate(p, cell):
                    if not calculated_view[cell]:
                        for every node u of the 4^d neighbourhood, in loop order:
                            if isnan(data_view[u]): data_view[u] = normalise(function(node u))
                        coeffs_view[cell] = <coefficients computed from data_view on the neighbourhood>
                        calculated_view[cell] = True
                    return <polynomial coeffs_view[cell] at p>

   State of the model = the two lazily filled stores (data_view, coeffs_view/calculated_view) as
   association lists; "NaN = not yet sampled" is [None] of the lookup.  The dimension specific
   parts are parameters:
     K cell keys, N node keys, P points, C stored coefficient blocks,
     locate p      : which permitted cell p belongs to (None = outside the permitted cells),
     needed c      : the nodes of the neighbourhood of c in the order the code visits them,
     nodept u      : coordinates of node u,
     f             : the wrapped function,   norm : data normalisation,
     build c vals  : coefficient block of cell c from the (normalised) data at [needed c],
     evalc co p    : value of the stored block at p,
     nbe           : no_boundary_error.                                                        *)
Require Import Cherab.Common.Qx.

Inductive result : Type :=
  | Val (v : Q)        (* value from the cached polynomial *)
  | Direct (v : Q)     (* outside, no_boundary_error: wrapped function called at the point itself *)
  | Err.               (* outside: ValueError *)

Section Cache.
  Context {K N P C : Type}.
  Variables (keqb : K -> K -> bool) (neqb : N -> N -> bool).
  Variables (locate : P -> option K) (needed : K -> list N) (nodept : N -> P).
  Variables (f : P -> Q) (norm : Q -> Q).
  Variables (build : K -> list Q -> C) (evalc : C -> P -> Q) (nbe : bool).

  Record state := { data : list (N * Q); cells : list (K * C) }.
  Definition empty : state := {| data := []; cells := [] |}.

  Fixpoint lookupN (u : N) (l : list (N * Q)) : option Q :=
    match l with [] => None | (u', v) :: t => if neqb u u' then Some v else lookupN u t end.
  Fixpoint lookupK (c : K) (l : list (K * C)) : option C :=
    match l with [] => None | (c', v) :: t => if keqb c c' then Some v else lookupK c t end.

  (* one iteration of the sampling loop: the wrapped function is called only where the datum is
     missing; the second component collects the nodes at which it was called (newest first) *)
  Definition sample (acc : list (N * Q) * list N) (u : N) : list (N * Q) * list N :=
    match lookupN u (fst acc) with
    | Some _ => acc
    | None => ((u, norm (f (nodept u))) :: fst acc, u :: snd acc)
    end.

  (* reading data_view: a missing entry would be NaN in the code; after sampling it cannot occur *)
  Definition getd (d : list (N * Q)) (u : N) : Q := match lookupN u d with Some v => v | None => 0 end.

  (* evaluate: new state, result, nodes at which the wrapped function was called (in call order) *)
  Definition eval (st : state) (p : P) : state * result * list N :=
    match locate p with
    | Some c =>
        match lookupK c (cells st) with
        | Some co => (st, Val (evalc co p), [])
        | None =>
            let acc := fold_left sample (needed c) (data st, []) in
            let co := build c (map (getd (fst acc)) (needed c)) in
            ({| data := fst acc; cells := (c, co) :: cells st |}, Val (evalc co p), rev (snd acc))
        end
    | None => if nbe then (st, Direct (f p), []) else (st, Err, [])
    end.

  Definition step (st : state) (p : P) : state := fst (fst (eval st p)).
  (* state after a history of evaluation points *)
  Definition run (st : state) (hist : list P) : state := fold_left step hist st.

  (* what the cache returns according to the model after [hist] *)
  Definition eval_after (hist : list P) (p : P) : result := snd (fst (eval (run empty hist) p)).

  (* the history-free specification: sample everything afresh *)
  Definition truth (u : N) : Q := norm (f (nodept u)).
  Definition pure_eval (p : P) : result :=
    match locate p with
    | Some c => Val (evalc (build c (map truth (needed c))) p)
    | None => if nbe then Direct (f p) else Err
    end.

  (* full trace of a history: per point the result and the calls made (for the correspondence) *)
  Fixpoint trace (st : state) (hist : list P) : list (result * list N) * state :=
    match hist with
    | [] => ([], st)
    | p :: t => let '(st', r, calls) := eval st p in
                let '(rest, stf) := trace st' t in ((r, calls) :: rest, stf)
    end.
End Cache.

Arguments empty {K N C}.
