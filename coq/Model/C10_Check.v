(* Executable comparators used by the correspondence check of C10 (definitions only).
   One case = one call of <integrator>.integrate(spectrum, ..., material, start_point, end_point,
   world_to_primitive, ...) on the real implementation.  The model is evaluated here, inside Coq.
   Inputs of the model: [start], [stop] = the two points after raysect's Point3D.transform (raysect is not
   modelled; the harness obtains them from the same raysect call), [len] = the double the implementation
   obtained for |stop - start| (checked by len_ok). *)
Require Import Cherab.Common.Qx Cherab.Model.C10_RayTransfer Cherab.Model.C10_Pipeline Cherab.Model.C10_Emitter.
From Coq Require Import Qabs Qround.
Open Scope Q_scope.

(* ---- tolerances (echoed into the evidence by harness/c10.py) ---- *)
Definition amb_eps : Q := pow2 (-40).     (* a sample closer than this (relative) to a cell border is ambiguous *)
Definition rel_tol : Q := pow2 (-36).     (* superseded: check_call uses (n + 4) * 2^-51, see there *)
Definition len_tol : Q := pow2 (-30).     (* len*len against the exact |end-start|^2 *)

Definition len_ok (len : Q) (d : vec) : bool :=
  Qle_bool 0 len && Qle_bool (Qabs (len * len - vdot d d)) (len_tol * vdot d d).

Definition near_int (q : Q) : bool :=
  let f := q - inject_Z (Qfloor q) in Qle_bool f amb_eps || Qle_bool (1 - amb_eps) f.
(* a coordinate along which the ray does not move is a constant double x: the implementation's <int>(x / size) is
   exact when x / size is exactly an integer, and decided by rounding when it is within amb_eps of one without being one
   (x = fl(k * size) for a cell size that is not a dyadic rational) *)
Definition is_int (q : Q) : bool := Qeq_bool q (inject_Z (Qfloor q)).
Definition amb_coord (x size dcomp : Q) : bool :=
  if Qeq_bool dcomp 0 then near_int (x / size) && negb (is_int (x / size)) else near_int (x / size).

Definition amb_cart (steps d : vec) (p : vec) : bool :=
  let '(dx, dy, dz) := steps in let '(x, y, z) := p in let '(d1, d2, d3) := d in
  amb_coord x dx d1 || amb_coord y dy d2 || amb_coord z dz d3.

Definition near_sq (s b : Q) : bool := Qle_bool (Qabs (s - b * b)) (pow2 (-38) * s).
(* a ray parallel to the axis has constant x, y: its radius is decided exactly by the implementation when it is
   exactly on a ring border, by rounding when it is within the tolerance of one without being on it *)
Definition amb_r (g : cylgrid) (d1 d2 s : Q) : bool :=
  let fixed := Qeq_bool d1 0 && Qeq_bool d2 0 in
  let i := ir_of (Z.to_nat (cg_nr g) + 2) s (cg_rmin g) (cg_dr g) in
  let near b := near_sq s b && negb (fixed && Qeq_bool s (b * b)) in
  near (cg_rmin g + inject_Z i * cg_dr g) || near (cg_rmin g + inject_Z (i + 1) * cg_dr g)
  || near (cg_rmin g + inject_Z (i - 1) * cg_dr g).

Definition amb_angle (x y : Q) (theta : Z) : bool :=
  match udir theta with
  | None => true
  | Some u =>
    if (theta =? 0)%Z then false else      (* the border at 0 = 360 degrees is the test on |y| *)
    let delta := amb_eps * 4 * (Qabs x + Qabs y) in
    let '(a, b) := cross3 u x y in
    let s1 := sign_q3 (a - delta, b) in let s2 := sign_q3 (a + delta, b) in let s3 := sign_q3 (dot3 u x y) in
    (s1 <=? 0)%Z && (0 <=? s2)%Z && (0 <=? s3)%Z
  end.
(* a point that stays exactly on a coordinate axis gets an exact multiple of 90 degrees from atan2 *)
Definition amb_phi (g : cylgrid) (d1 d2 x y : Q) : bool :=
  if (cg_nphi g =? 1)%Z then false
  else if Qeq_bool d1 0 && Qeq_bool d2 0 && (Qeq_bool x 0 || Qeq_bool y 0) then false
  else if Qeq_bool y 0 && Qeq_bool d2 0 then Qle_bool (Qabs x) (amb_eps * cg_dr g)   (* on the x axis: only the sign of x matters *)
  else if Qeq_bool x 0 && Qeq_bool d1 0 then Qle_bool (Qabs y) (amb_eps * cg_dr g)
  else if Qle_bool (Qabs y) (amb_eps * 4 * (Qabs x + Qabs y)) then true
  else (* the sector found is exact: only its two borders can be close *)
    let gs := gsector (cg_dphi g) x y in
    if amb_angle x y ((gs * cg_dphi g) mod 360)%Z then true else amb_angle x y (((gs + 1) * cg_dphi g) mod 360)%Z.
Definition amb_cyl (g : cylgrid) (d : vec) (p : vec) : bool :=
  let '(x, y, z) := p in let '(d1, d2, d3) := d in
  amb_r g d1 d2 (x * x + y * y) || amb_phi g d1 d2 x y || amb_coord z (cg_dz g) d3.

Fixpoint forallb2 {A B} (p : A -> B -> bool) (l1 : list A) (l2 : list B) : bool :=
  match l1, l2 with
  | [], [] => true
  | a :: t1, b :: t2 => p a b && forallb2 p t1 t2
  | _, _ => false
  end.

Definition spec_of_list (l : list Q) : spectrum := fun j => if (j <? 0)%Z then 0 else nth (Z.to_nat j) l 0.

(* err: 0 = returned normally, 1 = IndexError.
   Result code: 0 = DISAGREE, 1 = agree (no ambiguous sample: the comparison is up to rounding only),
   2 = agree within dt * (number of ambiguous samples), 3 = ray leaves the grid with ambiguous samples
   (nothing compared). *)
Definition check_call (cellfn : vec -> cell) (ambfn : vec -> vec -> bool) (sh : shape) (vm : list Z)
           (stp : Q) (min_samples : Z) (start stop : vec) (len : Q)
           (init out : list Q) (err : Z) : Z :=
  let d := let '(a, b, c) := vsub stop start in (Qred a, Qred b, Qred c) in
  if negb (len_ok len d) then 0%Z else
  if too_short len stp then (if (err =? 0)%Z && forallb2 Qeq_bool init out then 1 else 0)%Z
  else
    let n := nsamples min_samples len stp in
    let dt := dt_of len n in
    let pts := sample_points_lam start d n in
    let cells := map cellfn pts in
    let namb := countp (ambfn d) pts in
    let outside := existsb (fun c => negb (in_grid sh c)) cells in
    if outside then (if (0 <? namb)%Z then 3 else if (err =? 1)%Z then 1 else 0)%Z
    else
      if negb (err =? 0)%Z then 0%Z else
      let model := integrate cellfn (vm_lookup sh vm) start stop len stp min_samples (spec_of_list init) in
      let tol := inject_Z namb * dt in
      (* rounding: dt = fl(len/n) (2^-53), k additions of dt and one += per flush, each <= 2^-53 of the partial sum:
         (n + 4) * 2^-51 * (len + |entry|) bounds it with a factor 2 to spare *)
      let rel := inject_Z (n + 4) * pow2 (-51) in
      if forallb2 (fun j o => let e := model j in Qle_bool (Qabs (o - e)) (tol + rel * (len + Qabs e)))
                  (zrange (length init)) out
      then (if (0 <? namb)%Z then 2 else 1)%Z else 0%Z.

Definition check_cart (sh : shape) (steps : vec) := check_call (cart_cell steps) (amb_cart steps) sh.
Definition check_cyl (sh : shape) (g : cylgrid) := check_call (cyl_cell g) (amb_cyl g) sh.

Definition b2z (b : bool) : Z := if b then 1%Z else 0%Z.

(* the mask setter: voxel_map and bins that the implementation built from a mask *)
Definition check_mask (mask : list bool) (vm : list Z) (bins : Z) : bool :=
  forallb2 Z.eqb (map_from_mask mask) vm && (bins_of (map_from_mask mask) =? bins)%Z.
(* the voxel_map setter: bins *)
Definition check_bins (vm : list Z) (bins : Z) : bool := (bins_of vm =? bins)%Z.

(* the code-level angular formula against the exact sector decision, for an angle phi (degrees) that
   atan2 returned for (x, y):  agreement is required unless the point is ambiguous *)
Definition check_phi (g : cylgrid) (x y phi : Q) : bool :=
  amb_phi g 1 1 x y ||
  (iphi_sector (cg_nphi g) (cg_dphi g) x y =?
   (if (cg_nphi g =? 1)%Z then 0 else iphi_of_phi (inject_Z (cg_nphi g * cg_dphi g)) (inject_Z (cg_dphi g)) phi))%Z.

(* the model's exact chord of a Cartesian cell (slab method, the quantity of theorem
   C10_cartesian_cell_error_at_most_one_step) against the fraction of the segment that the harness found in that cell
   by cutting the segment at every grid plane (exact, Fractions) *)
Definition check_chord (steps start stop : vec) (len : Q) (c : cell) (fr : Q) : bool :=
  let d := vsub stop start in
  Qeq_bool (chord_cart steps start (vscale (/ len) d) len c) (fr * len).

(* ---- pipelines.py: a history of observations driven through the real pipeline object (initialise / pixel_processor /
   add_sample / update / finalise) against the model's history, every observation's matrix, relative 2^-40 ---- *)
Definition mk_sample (s : list Q * Q) : sample := (spec_of_list (fst s), snd s).
Definition close40 (e o : Q) : bool := Qle_bool (Qabs (o - e)) (pow2 (-40) * Qabs e).
Definition row_ok (m : spectrum) (out : list Q) : bool := forallb2 (fun j o => close40 (m j) o) (zrange (length out)) out.
(* the state before the history is arbitrary (here: a pipeline that has seen 7 samples) *)
Definition check_p0 (h : list (pkind * list (list (list Q * Q)))) (outs : list (list Q)) : bool :=
  forallb2 row_ok
    (p0_history {| p0_samples := 7; p0_matrix := (fun _ => 3); p0_kind := Power |}
                (map (fun kt => (fst kt, map (map mk_sample) (snd kt))) h)) outs.
Definition check_pn (h : list (pkind * Z * list (pixel * list (list Q * Q)))) (outs : list (list (pixel * list Q))) : bool :=
  forallb2 (fun m rows => forallb (fun pr : pixel * list Q => row_ok (m (fst pr)) (snd pr)) rows)
    (pn_history {| pn_samples := 7; pn_matrix := (fun _ _ => 3); pn_kind := Power |}
                (map (fun kt => (fst kt, map (fun pt : pixel * list (list Q * Q) => (fst pt, map mk_sample (snd pt))) (snd kt))) h)) outs.

(* ---- emission_function(point, ...) of both emitters: spectrum.samples[voxel_map[cell(point)]] += 1 unless it is -1.
   Result code as for check_call (0 disagree, 1 agree, 2 point within amb_eps of a cell border: either neighbour accepted,
   3 outside the grid and ambiguous).  err: 0 returned, 1 IndexError ---- *)
Definition check_emission (cellfn : vec -> cell) (ambfn : vec -> vec -> bool) (sh : shape) (vm : list Z)
           (p : vec) (init out : list Q) (err : Z) : Z :=
  let c := cellfn p in
  let amb := ambfn (1, 1, 1) p in
  if negb (in_grid sh c) then (if amb then 3 else if (err =? 1)%Z then 1 else 0)%Z
  else if negb (err =? 0)%Z then (if amb then 3 else 0)%Z
  else
    let s := vm_lookup sh vm c in
    let model := if (s >? -1)%Z then sp_add (spec_of_list init) s 1 else spec_of_list init in
    if forallb2 (fun j o => Qeq_bool (model j) o) (zrange (length init)) out then 1%Z
    else if amb then
      (* exactly one bin was incremented by one, or none *)
      let diffs := map (fun io => fst io - snd io) (combine out init) in
      if forallb (fun d => Qeq_bool d 0 || Qeq_bool d 1) diffs && Qle_bool (Qsum diffs) 1 then 2%Z else 0%Z
    else 0%Z.
Definition check_emission_cart (sh : shape) (steps : vec) := check_emission (cart_cell steps) (amb_cart steps) sh.
Definition check_emission_cyl (sh : shape) (g : cylgrid) := check_emission (cyl_cell g) (amb_cyl g) sh.

(* ---- emitters: the mask / voxel_map / bins state machine and the argument validation, compared exactly ----
   one observed step = (voxel_map read back, bins, mask read back, error kind 0 none | 1 ValueError) *)
Definition errz (e : errkind) : Z := match e with ErrNone => 0%Z | ErrValue => 1%Z end.
Definition step_ok (r : emstate * errkind) (o : list Z * Z * list bool * Z) : bool :=
  let '(vm, bins, mask, err) := o in
  forallb2 Z.eqb (em_vm (fst r)) vm && (em_bins (fst r) =? bins)%Z && forallb2 Bool.eqb (em_mask (fst r)) mask
  && (errz (snd r) =? err)%Z.
Definition check_em_history (sh : shape) (voxel_map : option (shape * list Z)) (mask : option (shape * list bool))
           (o0 : list Z * Z * list bool * Z) (ops : list emop) (outs : list (list Z * Z * list bool * Z)) : bool :=
  let r0 := em_init sh voxel_map mask in
  step_ok r0 o0 && forallb2 step_ok (em_history sh (fst r0) ops) outs.
Definition check_validate_cart (sh : shape) (steps : vec) (err : Z) : bool := (errz (validate_grid sh steps) =? err)%Z.
Definition check_validate_cyl (sh : shape) (steps : vec) (rmin : Q) (err : Z) : bool := (errz (validate_cyl sh steps rmin) =? err)%Z.
Definition check_validate_integrator (stp : Q) (ms : Z) (err_step err_ms : Z) : bool :=
  (errz (validate_step stp) =? err_step)%Z && (errz (validate_min_samples ms) =? err_ms)%Z.

(* ---- emission_function of a cylindrical emitter with ANY sector size / period, through the code's own angular formula
   fed with the angle atan2 returned for the point (oracle value) ---- *)
Definition amb_code (g : cylq) (phi : Q) (p : vec) : bool :=
  let '(x, y, z) := p in
  let s := x * x + y * y in
  let i := ir_of (Z.to_nat (q_nr g) + 2) s (q_rmin g) (q_dr g) in
  near_sq s (q_rmin g + inject_Z i * q_dr g) || near_sq s (q_rmin g + inject_Z (i + 1) * q_dr g)
  || near_sq s (q_rmin g + inject_Z (i - 1) * q_dr g)
  || near_int (z / q_dz g)
  || (if (q_nphi g =? 1)%Z then false
      else near_int (Qmod (phi + 360) (inject_Z (q_nphi g) * q_dphi g) / q_dphi g)
           || Qle_bool (Qabs (Qabs phi - 180)) amb_eps).
Definition check_emission_phi (sh : shape) (g : cylq) (vm : list Z) (p : vec) (phi : Q) (init out : list Q) (err : Z) : Z :=
  check_emission (cyl_cell_code g phi) (fun _ => amb_code g phi) sh vm p init out err.
