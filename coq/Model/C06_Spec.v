(* Property C06 -- the abstract store the repository is compared with (definitions only).

   The abstract store is a map  key -> option value.  An update call is summarised by
   * [writes_call c]  : every leaf (key, value) of the call's dictionaries, in iteration order;
   * [commit_call c]  : the leaves that are stored when the call returns or raises (all of them when
     the call returns normally, a prefix-like part of them when it raises ValueError), each tagged
     with the repository root it was addressed to.  It is computed from the validity flags alone,
     without looking at any file. *)
From Coq Require Import ZArith List Bool String Ascii.
Require Import Cherab.Model.C06_Repo.
Import ListNotations.
Open Scope Z_scope.

Definition key_eq_dec (k k' : key) : {k = k'} + {k <> k'}.
Proof. repeat decide equality. Defined.

Definition kv := (key * val)%type.
Definition amap := key -> option val.
Definition aempty : amap := fun _ => None.
(* last write wins, other keys untouched *)
Definition aset (x : kv) (m : amap) : amap := fun k => if key_eq_dec k (fst x) then Some (snd x) else m k.
Definition awrites (ws : list kv) (m : amap) : amap := fold_left (fun m x => aset x m) ws m.

Definition item_kv (it : item) : kv := (it_key it, it_val it).
Definition group_writes (g : group) : list kv := map item_kv (g_items g).
Definition groups_writes (gs : list group) : list kv := flat_map group_writes gs.

(* discipline A: leaves up to the first one that fails *)
Fixpoint commit_items_A (items : list item) : list kv * outcome :=
  match items with
  | [] => ([], Done)
  | it :: rest => if negb (it_ok it) then ([], ErrValue)
                  else let (l, o) := commit_items_A rest in (item_kv it :: l, o)
  end.
Fixpoint commit_A (gs : list group) : list kv * outcome :=
  match gs with
  | [] => ([], Done)
  | g :: rest =>
      if negb (g_ok g) then ([], Err (g_err g))
      else match commit_items_A (g_items g) with
           | (l, Done) => let (l', o) := commit_A rest in ((l ++ l')%list, o)
           | (l, Err e) => (l, Err e)
           end
  end.
(* discipline B: whole files up to the first file with a failing check or leaf *)
Fixpoint commit_B (gs : list group) : list kv * outcome :=
  match gs with
  | [] => ([], Done)
  | g :: rest =>
      if negb (g_ok g) then ([], Err (g_err g))
      else if forallb it_ok (g_items g)
      then let (l', o) := commit_B rest in ((group_writes g ++ l')%list, o)
      else ([], ErrValue)
  end.
(* discipline C: one leaf per file *)
Fixpoint commit_C (gs : list group) : list kv * outcome :=
  match gs with
  | [] => ([], Done)
  | g :: rest =>
      if negb (g_ok g) then ([], Err (g_err g))
      else match g_items g with
           | [it] => if negb (it_ok it) then ([], ErrValue)
                     else if negb (it_ser it) then ([], ErrType)
                     else let (l', o) := commit_C rest in (item_kv it :: l', o)
           | _ => ([], ErrValue)
           end
  end.
Definition commit (m : mode) := match m with MA => commit_A | MB => commit_B | MC => commit_C end.

Definition tag (r : path) (l : list kv) : list (path * kv) := map (fun x => (r, x)) l.

Fixpoint commit_steps (ss : list (mode * path * list group)) : list (path * kv) * outcome :=
  match ss with
  | [] => ([], Done)
  | (m, r, gs) :: rest =>
      match commit m gs with
      | (l, Done) => let (l', o) := commit_steps rest in ((tag r l ++ l')%list, o)
      | (l, Err e) => (tag r l, Err e)
      end
  end.
Definition commit_call (c : call) : list (path * kv) := fst (commit_steps (steps c)).
Definition outcome_call (c : call) : outcome := snd (commit_steps (steps c)).
Definition writes_call (c : call) : list (path * kv) :=
  flat_map (fun s : mode * path * list group => tag (snd (fst s)) (groups_writes (snd s))) (steps c).

(* the part of a tagged list addressed to one root *)
Definition at_root (root : path) (l : list (path * kv)) : list kv :=
  map snd (filter (fun x => path_eqb (fst x) root) l).

Definition commit_history (cs : list call) : list (path * kv) := flat_map commit_call cs.
Definition writes_history (cs : list call) : list (path * kv) := flat_map writes_call cs.

(* the abstract store of repository [root] after a history *)
Definition spec (root : path) (cs : list call) : amap := awrites (at_root root (commit_history cs)) aempty.

(* what one repository looks like from outside *)
Definition view (root : path) (d : fs) : amap := fun k => get root k d.

(* two roots that cannot address a common file *)
Definition separated (r r' : path) : Prop := forall x y : path, (r ++ x)%list <> (r' ++ y)%list.
Fixpoint separatedb (r r' : path) : bool :=
  match r, r' with
  | x :: t, y :: t' => negb (String.eqb x y) || separatedb t t'
  | _, _ => false
  end.

Definition call_root (c : call) : path :=
  eff_root match c with
  | UAdf11 _ r _ | AAdf11 _ r _ _ _ | UTcx r _ | ATcx r _ _ _ _ | UPec r _ | APec _ r _ _ _ _
  | UPecTcx r _ | APecTcx r _ _ _ _ _ _ | UWvl r _ | AWvl r _ _ _ _ | UBcx r _ | ABcx r _ _ _ _ _ _
  | UBstop r _ | ABstop r _ _ _ _ | UBpop r _ | ABpop r _ _ _ _ _ | UBem r _ | ABem r _ _ _ _ _
  | IAdf11 _ r _ | IAdf11ccd r _ _ _ | IAdf12 r _ | IAdf15 r _ _ _ _ | IAdf21 r _ | IAdf22bmp r _
  | IAdf22bme r _ => r end.

(* transition levels free of '>' (so that "a -> b" splits uniquely) *)
Fixpoint nochar (c : Ascii.ascii) (s : string) : bool :=
  match s with EmptyString => true | String x t => negb (Ascii.eqb x c) && nochar c t end.
Definition level_ok (s : string) : bool := nochar ">"%char s.
(* only the UPPER level must be free of '>': the first '>' of "a -> b" is then the separator's, whatever b is *)
Definition ntrans_ok (t : ntrans) : bool := level_ok (fst t).
Definition key_ok (k : key) : bool :=
  match k with
  | KPec _ _ _ t | KPecTcx _ _ _ _ t | KWvl _ _ t | KBcx _ _ _ t _ | KBem _ _ _ t => ntrans_ok t
  | _ => true
  end.
Definition call_ok (c : call) : bool := forallb (fun x : path * kv => key_ok (fst (snd x))) (writes_call c).

Fixpoint is_prefix (r p : path) : bool :=
  match r, p with
  | [], _ => true
  | x :: t, y :: t' => String.eqb x y && is_prefix t t'
  | _, _ => false
  end.

(* a call whose every check passes: the group-level checks and every leaf of every file visit *)
Definition group_valid (m : mode) (g : group) : bool :=
  g_ok g && forallb (fun it => it_ok it && match m with MC => it_ser it | _ => true end) (g_items g).
Definition call_valid (c : call) : bool :=
  forallb (fun s : mode * path * list group => forallb (group_valid (fst (fst s))) (snd s)) (steps c).

(* os.path.join of the component list *)
Fixpoint flatten (p : path) : string :=
  match p with
  | [] => EmptyString
  | [x] => x
  | x :: t => (x ++ String "/"%char (flatten t))%string
  end.


(* a path component without a slash; a key whose symbols are such components *)
Definition slash : ascii := "/"%char.
Definition comp_ok (s : string) : bool := nochar slash s.
Definition key_comp_ok (k : key) : bool :=
  match k with
  | KAdf11 _ s _ | KPec _ s _ _ | KWvl s _ _ => comp_ok s
  | KTcx d _ r _ | KPecTcx d _ r _ _ | KBcx d r _ _ _ => comp_ok d && comp_ok r
  | KBstop b t _ | KBpop b _ t _ | KBem b t _ _ => comp_ok b && comp_ok t
  end.
