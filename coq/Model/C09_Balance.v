(* Executable model of cherab/tools/plasmas/ionisation_balance.py (definitions only).

   One *point* is one (n_e, t_e, n_D) at which the rate callables have been evaluated:
     ion z   = coef_ion[z](n_e, t_e)      z = 0 .. Z-1      (S_z)
     rec z   = coef_recom[z](n_e, t_e)    z = 1 .. Z        (alpha_z)
     cx z    = coef_tcx[z](n_e, t_e)      z = 1 .. Z        (C_z), [None] when coef_tcx is None
   Z = element.atomic_number >= 1; charge states are 0 .. Z.  Indices are [nat] (Z <= 18 in the
   property, the theorems hold for every Z >= 1), values are exact rationals. *)
Require Import Cherab.Common.Qx.
Open Scope Q_scope.

Definition rate := nat -> Q.

(* sum_{j < n} f j *)
Fixpoint sumn (n : nat) (f : nat -> Q) : Q :=
  match n with O => 0 | S k => sumn k f + f k end.

Definition qnat (k : nat) : Q := inject_Z (Z.of_nat k).

(* ---------------------------------------------------------------------------------------------
   _fractional_abundance_point, lines 206-238: the balance matrix exactly as the code fills it.
   [dcx z] is the term  tcx_donor_density / n_e * coef_tcx[z](n_e, t_e)  that is added only
   when coef_tcx is not None (lines 217-219, 226-228). *)
Definition dcx (cx : option rate) (nd ne : Q) (z : nat) : Q :=
  match cx with None => 0 | Some c => nd / ne * c z end.

Definition entry (Z : nat) (ion rec : rate) (cx : option rate) (nd ne : Q) (i j : nat) : Q :=
  if (i =? 0)%nat then
    (* lines 212-213, 218: matbal[0,0] -= S_0 ; matbal[0,1] += alpha_1 (+ d C_1) *)
    (if (j =? 0)%nat then - ion O
     else if (j =? 1)%nat then rec 1%nat + dcx cx nd ne 1%nat else 0)
  else if (i =? Z)%nat then
    (* lines 214-215, 219: matbal[-1,-1] -= alpha_Z (+ d C_Z) ; matbal[-1,-2] += S_(Z-1) *)
    (if (j =? Z)%nat then - rec Z - dcx cx nd ne Z
     else if (j =? Z - 1)%nat then ion (Z - 1)%nat else 0)
  else
    (* lines 222-228, rows 1 .. Z-1 *)
    (if (j =? i - 1)%nat then ion (i - 1)%nat
     else if (j =? i)%nat then - (ion i + rec i) - dcx cx nd ne i
     else if (j =? i + 1)%nat then rec (i + 1)%nat + dcx cx nd ne (i + 1)%nat else 0).

(* lines 231-238: matbal * n_e, a row of ones appended; rhs = (0, ..., 0, n_e) *)
Definition balance_matrix (Z : nat) (ion rec : rate) (cx : option rate) (nd ne : Q) : list (list Q) :=
  map (fun i => map (fun j => entry Z ion rec cx nd ne i j * ne) (seq 0 (S Z))) (seq 0 (S Z))
  ++ [map (fun _ => 1) (seq 0 (S Z))].
Definition balance_rhs (Z : nat) (ne : Q) : list Q := map (fun _ => 0) (seq 0 (S Z)) ++ [ne].

Fixpoint dot (a b : list Q) : Q :=
  match a, b with x :: a', y :: b' => x * y + dot a' b' | _, _ => 0 end.
Definition matvec (m : list (list Q)) (v : list Q) : list Q := map (fun r => dot r v) m.

(* the same products written over functions: (A x)_i / n_e for a balance row i, and the objective
   that lsq_linear (line 240) minimises over the box 0 <= x_z <= n_e *)
Definition rowdot (Z : nat) (ion rec : rate) (cx : option rate) (nd ne : Q) (i : nat) (x : nat -> Q) : Q :=
  sumn (S Z) (fun j => entry Z ion rec cx nd ne i j * x j).
Definition lsq_cost (Z : nat) (ion rec : rate) (cx : option rate) (nd ne : Q) (x : nat -> Q) : Q :=
  sumn (S Z) (fun i => (ne * rowdot Z ion rec cx nd ne i x) * (ne * rowdot Z ion rec cx nd ne i x))
  + (sumn (S Z) x - ne) * (sumn (S Z) x - ne).
Definition in_box (Z : nat) (ne : Q) (x : nat -> Q) : Prop :=
  forall z, (z <= Z)%nat -> 0 <= x z /\ x z <= ne.

(* ---------------------------------------------------------------------------------------------
   The solution in closed form.  Effective recombination R_z = alpha_z + (n_D/n_e) C_z. *)
Definition eff_rec (rec : rate) (cx : option rate) (nd ne : Q) : rate :=
  fun z => rec z + dcx cx nd ne z.

(* hypotheses of the property: positive ionisation and recombination tables, non-negative CX table,
   n_e > 0, donor density >= 0 *)
Definition rates_ok (Z : nat) (ion rec : rate) (cx : option rate) (nd ne : Q) : Prop :=
  (1 <= Z)%nat
  /\ (forall z, (z < Z)%nat -> 0 < ion z)
  /\ (forall z, (1 <= z <= Z)%nat -> 0 < rec z)
  /\ match cx with None => True | Some c => forall z, (1 <= z <= Z)%nat -> 0 <= c z end
  /\ 0 < ne /\ 0 <= nd.

Fixpoint ratio (ion R : rate) (z : nat) : Q :=
  match z with O => 1 | S k => ratio ion R k * ion k / R (S k) end.

Definition total (Z : nat) (ion R : rate) : Q := sumn (S Z) (ratio ion R).

(* fractional abundance of charge state z (line 243: abundance / n_e) *)
Definition cf (Z : nat) (ion R : rate) (z : nat) : Q := ratio ion R z / total Z ion R.

Definition fractional_point (Z : nat) (ion rec : rate) (cx : option rate) (nd ne : Q) : nat -> Q :=
  cf Z ion (eff_rec rec cx nd ne).

(* ---------------------------------------------------------------------------------------------
   _from_element_density_point, line 287: abundance = fractional_abundance * element_density *)
Definition from_density_point (Z : nat) (ion rec : rate) (cx : option rate) (nd ne n_el : Q) : nat -> Q :=
  fun z => fractional_point Z ion rec cx nd ne z * n_el.

(* ---------------------------------------------------------------------------------------------
   _match_element_density_point, lines 340-358 *)
Fixpoint charge_sum_from (k : nat) (l : list Q) : Q :=        (* sum index * value, lines 341-343 *)
  match l with [] => 0 | v :: t => qnat k * v + charge_sum_from (S k) t end.
Definition species_charge (sp : list (list Q)) : Q := Qsum (map (charge_sum_from 0) sp).
Definition element_ne (ne : Q) (sp : list (list Q)) : Q :=      (* lines 340-347 *)
  let e := ne - species_charge sp in if Qle_bool 0 e then e else 0.
Definition z_mean (Z : nat) (f : nat -> Q) : Q := sumn (S Z) (fun z => qnat z * f z).   (* lines 350-352 *)
Definition match_neutrality_point (Z : nat) (ion rec : rate) (cx : option rate) (nd ne : Q)
           (sp : list (list Q)) : nat -> Q :=
  let f := fractional_point Z ion rec cx nd ne in
  let n_i := element_ne ne sp / z_mean Z f in                  (* line 355 *)
  fun z => f z * n_i.                                          (* line 356 *)

(* ---------------------------------------------------------------------------------------------
   Input representations (_parameters_to_numpy, lines 58-92): every accepted representation is
   turned into the array of its point values, in C order; the calculation then runs point by
   point (np.ndindex loops, lines 395-398, 465-469, 542-549).  Rate callables are functions of
   (n_e, t_e). *)
Inductive repr :=
| RScalar (v : Q)
| RArray (l : list Q)
| RFun1 (g : Q -> Q) (fv : list Q)
| RFun2 (g : Q -> Q -> Q) (fx fy : list Q).

Definition points (r : repr) : list Q :=
  match r with
  | RScalar v => [v]
  | RArray l => l
  | RFun1 g fv => map g fv
  | RFun2 g fx fy => flat_map (fun x => map (g x) fy) fx
  end.

Definition ratefun := nat -> Q -> Q -> Q.     (* charge -> n_e -> t_e -> value *)

Fixpoint map3 {A B C D} (f : A -> B -> C -> D) (a : list A) (b : list B) (c : list C) : list D :=
  match a, b, c with x :: a', y :: b', z :: c' => f x y z :: map3 f a' b' c' | _, _, _ => [] end.

Definition at_point (k : ratefun) (ne te : Q) : rate := fun z => k z ne te.

(* fractional_abundance (lines 421-435); tcx_donor_n = None is the zero array (lines 114-124) *)
Definition donor_points (nd : option repr) (ne : repr) : list Q :=
  match nd with None => map (fun _ => 0) (points ne) | Some r => points r end.

Definition fractional_profile (Z : nat) (ion rec : ratefun) (cx : option ratefun)
           (ne te : repr) (nd : option repr) : list (list Q) :=
  map3 (fun n t d => map (fractional_point Z (at_point ion n t) (at_point rec n t)
                            (option_map (fun c => at_point c n t) cx) d n) (seq 0 (S Z)))
       (points ne) (points te) (donor_points nd ne).

Fixpoint map2 {A B C} (f : A -> B -> C) (a : list A) (b : list B) : list C :=
  match a, b with x :: a', y :: b' => f x y :: map2 f a' b' | _, _ => [] end.

(* from_elementdensity (lines 493-508) *)
Definition density_profile (Z : nat) (ion rec : ratefun) (cx : option ratefun)
           (n_el ne te : repr) (nd : option repr) : list (list Q) :=
  map2 (fun fr d => map (fun f => f * d) fr)
       (fractional_profile Z ion rec cx ne te nd) (points n_el).
