(* Model of the component structure of the beam-emission (motional Stark effect) multiplet that
   BeamEmissionLine hands its radiance to:
     cherab/core/model/lineshape/beam/mse.pyx : BeamEmissionMultiplet.add_line (lines 59-130)
     cherab/core/model/beam/beam_emission.pyx : SIGMA_TO_PI, SIGMA1_TO_SIGMA0, PI2_TO_PI3, PI4_TO_PI3 (defaults,
                                                re-read from the source on every run)
   (definitions only).  A component is (k, intensity): a Gaussian line of that intensity centred at
   central_wavelength + k * stark_split, k = 0 (sigma0), +-1 (sigma1), +-2, +-3, +-4 (pi2, pi3, pi4).  The positions
   (Doppler shift, Stark splitting, thermal width) are not modelled; the intensities are. *)
Require Import Cherab.Common.Qx.
Open Scope Q_scope.

(* sigma_to_pi(ne, beam_energy), sigma1_to_sigma0(ne), pi2_to_pi3(ne), pi4_to_pi3(ne) evaluated at the point *)
Record mse_ratios := mkRatios { r_s2p : Q; r_s1s0 : Q; r_p2p3 : Q; r_p4p3 : Q }.

Definition mse_components (radiance : Q) (r : mse_ratios) : list (Z * Q) :=
  let d := 1 / (1 + r_s2p r) in
  let intensity_sig := r_s2p r * d * radiance in
  let intensity_pi := (1 # 2) * d * radiance in
  let intensity_s0 := 1 / (r_s1s0 r + 1) in
  let intensity_s1 := (1 # 2) * r_s1s0 r * intensity_s0 in
  let intensity_pi3 := 1 / (1 + r_p2p3 r + r_p4p3 r) in
  let intensity_pi2 := r_p2p3 r * intensity_pi3 in
  let intensity_pi4 := r_p4p3 r * intensity_pi3 in
  [ (0%Z, intensity_sig * intensity_s0); (1%Z, intensity_sig * intensity_s1); ((-1)%Z, intensity_sig * intensity_s1);
    (2%Z, intensity_pi * intensity_pi2); ((-2)%Z, intensity_pi * intensity_pi2);
    (3%Z, intensity_pi * intensity_pi3); ((-3)%Z, intensity_pi * intensity_pi3);
    (4%Z, intensity_pi * intensity_pi4); ((-4)%Z, intensity_pi * intensity_pi4) ].

(* add_line returns the spectrum untouched when the electron temperature or density is not positive *)
Definition mse_add_line (te ne radiance : Q) (r : mse_ratios) : list (Z * Q) :=
  if Qle_bool te 0 then [] else if Qle_bool ne 0 then [] else mse_components radiance r.

(* what a detector integrating over |lambda - central| < (j + 1/2) split collects *)
Definition within (j : Z) (comps : list (Z * Q)) : Q :=
  Qsum (map snd (filter (fun c => (Z.abs (fst c) <=? j)%Z) comps)).
Definition cumulative (comps : list (Z * Q)) : list Q := map (fun j => within j comps) [0; 1; 2; 3; 4]%Z.

(* ---- argument validation of the two `line` setters and of BeamEmissionLine._populate_cache ------------------
   beam_emission.pyx 73-88: an isotope is replaced by its element; anything but Balmer-alpha (hydrogen family, charge 0,
   transition (3, 2)) is a ValueError; `not None` arguments give a TypeError for None.
   charge_exchange.pyx 108-113: any Line is accepted, None is a TypeError.
   beam_emission.pyx 190-196: at first use the beam's element must be the very element / isotope of the line. *)
Inductive setter_outcome := Accepted | RaisesValueError | RaisesTypeError.
Definition bes_line_setter (is_none family_is_hydrogen : bool) (charge up lo : Z) : setter_outcome :=
  if is_none then RaisesTypeError
  else if negb family_is_hydrogen || negb (charge =? 0)%Z || negb ((up =? 3)%Z && (lo =? 2)%Z) then RaisesValueError
  else Accepted.
Definition cx_line_setter (is_none : bool) : setter_outcome := if is_none then RaisesTypeError else Accepted.
Definition bes_cache_check (beam_element line_element line_charge : Z) : setter_outcome :=
  if negb (beam_element =? line_element)%Z then RaisesTypeError
  else if negb (line_charge =? 0)%Z then RaisesTypeError else Accepted.
Definition setter_code (o : setter_outcome) : Z := match o with Accepted => 0 | RaisesValueError => 3 | RaisesTypeError => 9 end.
