(* C02 -- model of the argument-validation policy and of the polarisation setter state machine of the line-shape
   classes (zeeman.pyx:64-85, 204-212; stark.pyx:56-62, 222-231; multiplet.pyx:77-80; atomic/zeeman.pyx:109-120, 136-147).
   Definitions only. *)
Require Import Cherab.Common.Qx.
Require Import Cherab.Model.C02_LineShape.
From Coq Require Import String Ascii.
Open Scope Q_scope.

(* str.lower() on ASCII *)
Definition lower_ascii (c : ascii) : ascii :=
  let n := nat_of_ascii c in if ((65 <=? n) && (n <=? 90))%nat then ascii_of_nat (n + 32) else c.
Fixpoint lower (s : string) : string :=
  match s with EmptyString => EmptyString | String c t => String (lower_ascii c) (lower t) end.

(* ZeemanLineShapeModel.polarisation setter / getter *)
Definition pol_of_string (v : string) : option pol :=
  let l := lower v in
  if String.eqb l "pi" then Some PolPi else if String.eqb l "sigma" then Some PolSigma
  else if String.eqb l "no" then Some PolNo else None.
Definition pol_get (p : pol) : string := match p with PolPi => "pi" | PolSigma => "sigma" | PolNo => "no" end.
(* (state after the call, ValueError raised) *)
Definition pol_set (st : pol) (v : string) : pol * bool :=
  match pol_of_string v with Some p => (p, false) | None => (st, true) end.
(* a history of setter calls: the state, and per call (error, what the getter returns afterwards) *)
Fixpoint pol_run (st : pol) (vs : list string) : pol * list (bool * string) :=
  match vs with
  | [] => (st, [])
  | v :: t => let '(s1, e) := pol_set st v in let '(s2, r) := pol_run s1 t in (s2, (e, pol_get s1) :: r)
  end.

(* constructors: true = accepted, false = ValueError *)
Definition param_zeeman_valid (alpha beta : Q) : bool := negb (Qle_bool alpha 0) && negb (Qltb beta 0).
Definition stark_coeff_valid (cij aij bij : Q) : bool :=
  negb (Qle_bool cij 0) && negb (Qle_bool aij 0) && negb (Qle_bool bij 0).
Definition stark_function_valid (wavelength fwhm : Q) : bool := negb (Qle_bool wavelength 0) && negb (Qle_bool fwhm 0).
(* MultipletLineShape: the ratios must sum to exactly one *)
Definition multiplet_valid (ratios : list Q) : bool := Qeq_bool (Qsum ratios) 1.
(* ZeemanStructure.__call__(b, polarisation string) *)
Definition zs_call_valid (b : Q) (v : string) : bool :=
  let l := lower v in
  (String.eqb l "pi" || String.eqb l "sigma_plus" || String.eqb l "sigma_minus") && negb (Qltb b 0).
