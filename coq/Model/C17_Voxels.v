(* Model of cherab/tools/inversions/voxels.pyx : AxisymmetricVoxel (constructor's vertex
   handling, cross_sectional_area, cross_section_centroid, volume, emissivity_from_function)
   and VoxelCollection.total_volume.  Definitions only; proofs are in Proofs/C17_*.v.

   Numbers are exact rationals.  The loops of the code (for i in range(n-1): acc += ...; then the
   closing term) are the functions [open_sum] / [cyc_sum] below with the edge term of that loop.
   raysect's triangulate2d is not modelled: the list of triangles is an input (index triples into
   the stored vertex list), and [clip_check] recognises an ear-clipping decomposition, which is
   what triangulate2d returns.  raysect's uniform() stream and libm's sqrt are inputs too. *)
Require Import Cherab.Common.Qx.
From Coq Require Import Qabs.
Open Scope Q_scope.

Definition pt : Type := (Q * Q)%type.
Definition px (p : pt) : Q := fst p.
Definition py (p : pt) : Q := snd p.

(* ---- loops over consecutive vertices ----------------------------------------------------- *)
(* for i in range(n - 1): acc += g(v[i], v[i+1]) *)
Fixpoint open_sum (g : pt -> pt -> Q) (l : list pt) : Q :=
  match l with
  | a :: ((b :: _) as t) => g a b + open_sum g t
  | _ => 0
  end.

(* ... followed by acc += g(v[n-1], v[0]) *)
Definition cyc_sum (g : pt -> pt -> Q) (l : list pt) : Q :=
  match l with
  | [] => 0
  | a :: _ => open_sum g l + g (last l a) a
  end.

(* edge terms *)
Definition cross (a b : pt) : Q := px a * py b - px b * py a.                 (* x[i]*y[i+1] - x[i+1]*y[i] *)
Definition gx (a b : pt) : Q := (px a + px b) * cross a b.                    (* lines 353, 356 *)
Definition gy (a b : pt) : Q := (py a + py b) * cross a b.                    (* lines 354, 358 *)
Definition gw (a b : pt) : Q := (py a + py b) * (px b - px a).                (* raysect winding2d *)

Definition Qlt_b (a b : Q) : bool := negb (Qle_bool b a).

(* raysect.core.math.cython.utility.winding2d : True = clockwise *)
Definition winding2d (l : list pt) : bool := Qlt_b 0 (cyc_sum gw l).

(* ---- constructor (lines 107-122) ---------------------------------------------------------- *)
Inductive err := ErrType | ErrValue.

(* "Check the polygon is clockwise, if not => reverse it." *)
Definition normalise (l : list pt) : list pt := if winding2d l then l else rev l.

Definition stored_vertices (l : list pt) : err + list pt :=
  if (Z.of_nat (length l) <? 3)%Z then inl ErrType
  else if existsb (fun p => Qlt_b (px p) 0) l then inl ErrValue
  else inr (normalise l).

(* ---- cross_sectional_area (lines 314-332), on the stored vertex list ------------------------ *)
Definition shoelace2 (l : list pt) : Q := cyc_sum cross l.
Definition area (l : list pt) : Q := Qabs (shoelace2 l) / 2.

(* ---- cross_section_centroid (lines 335-364); None = ZeroDivisionError --------------------- *)
Definition centroid (l : list pt) : option pt :=
  let a := shoelace2 l / 2 in
  if Qeq_bool a 0 then None
  else Some (cyc_sum gx l / (6 * a), cyc_sum gy l / (6 * a)).

(* ---- volume (lines 367-374) without the factor 2*PI ------------------------------------------ *)
Definition volume_over_2pi (l : list pt) : Q :=
  match centroid l with
  | Some c => px c * area l
  | None => 0
  end.
Definition volume (pi : Q) (l : list pt) : Q := 2 * pi * volume_over_2pi l.

(* what a voxel built from the user's vertex list reports *)
Definition voxel_area (l : list pt) : Q := area (normalise l).
Definition voxel_centroid (l : list pt) : option pt := centroid (normalise l).
Definition voxel_volume_over_2pi (l : list pt) : Q := volume_over_2pi (normalise l).

(* ---- VoxelCollection.total_volume (lines 501-507): total = 0; for voxel: total += volume ---- *)
Definition total_volume (pi : Q) (voxels : list (list pt)) : Q :=
  fold_left (fun acc v => acc + volume pi (normalise v)) voxels 0.

(* ---- emissivity_from_function (lines 379-460) -------------------------------------------------- *)
Definition tri : Type := (nat * nat * nat)%type.
Definition vtx (l : list pt) (i : nat) : pt := nth i l (0, 0).

(* line 426: 0.5 * abs(x1*y2 + x2*y3 + x3*y1 - x2*y1 - x3*y2 - x1*y3) *)
Definition tri2 (a b c : pt) : Q :=
  px a * py b + px b * py c + px c * py a - px b * py a - px c * py b - px a * py c.
Definition tri_area (a b c : pt) : Q := (1 # 2) * Qabs (tri2 a b c).
Definition tri_area_of (l : list pt) (t : tri) : Q :=
  let '(i, j, k) := t in tri_area (vtx l i) (vtx l j) (vtx l k).

(* lines 428-431: cumulative_areas[j] = cumulative_areas[j-1] + triangle_area *)
Fixpoint cumulative_from (acc : Q) (areas : list Q) : list Q :=
  match areas with
  | [] => []
  | a :: t => (acc + a) :: cumulative_from (acc + a) t
  end.
Definition cumulative (areas : list Q) : list Q := cumulative_from 0 areas.

(* raysect find_index, as documented: -1 below x[0], last index at or above x[last], otherwise
   the i with x[i] <= v < x[i+1].  [find_index_lin] is that contract (number of leading entries
   <= v, minus one); [find_index] is the bisection loop of the source, shown equal on
   non-decreasing arrays in Proofs/C17_Select.v. *)
Fixpoint count_le (x : list Q) (v : Q) : Z :=
  match x with
  | [] => 0
  | a :: t => if Qle_bool a v then 1 + count_le t v else 0
  end%Z.
Definition find_index_lin (x : list Q) (v : Q) : Z := (count_le x v - 1)%Z.

Definition xat (x : list Q) (i : Z) : Q := nth (Z.to_nat i) x 0.
Fixpoint bisect (fuel : nat) (x : list Q) (v : Q) (bottom top : Z) : Z :=
  match fuel with
  | O => bottom
  | S f =>
    if (top - bottom =? 1)%Z then bottom
    else let m := ((top + bottom) / 2)%Z in
         if Qle_bool (xat x m) v then bisect f x v m top else bisect f x v bottom m
  end.
Definition find_index (x : list Q) (v : Q) : Z :=
  match x with
  | [] => (-1)%Z
  | x0 :: _ =>
    if Qlt_b v x0 then (-1)%Z
    else let top := (Z.of_nat (length x) - 1)%Z in
         if Qle_bool (xat x top) v then top
         else bisect (length x) x v 0 top
  end.

(* lines 438-444 *)
Definition select (cum : list Q) (v : Q) : Z :=
  if (1 <? Z.of_nat (length cum))%Z then (find_index cum v + 1)%Z else 0%Z.

(* raysect point_triangle: temp = sqrt(u1); alpha = 1-temp; beta = u2*temp; gamma = 1-alpha-beta *)
Definition bary (temp u2 : Q) : Q * Q * Q :=
  let alpha := 1 - temp in let beta := u2 * temp in (alpha, beta, 1 - alpha - beta).
Definition point_triangle (temp u2 : Q) (a b c : pt) : pt :=
  let '(al, be, ga) := bary temp u2 in
  (al * px a + be * px b + ga * px c, al * py a + be * py b + ga * py c).

(* one pass of the sampling loop: u0 picks the triangle (only drawn when there are >= 2
   triangles), u1 and u2 place the point *)
Record draw := { u_sel : Q; u_one : Q; u_two : Q }.

Definition tri_at (tris : list tri) (i : Z) : tri := nth (Z.to_nat i) tris (O, O, O).

Definition sample_index (l : list pt) (tris : list tri) (d : draw) : Z :=
  let cum := cumulative (map (tri_area_of l) tris) in
  select cum (area l * u_sel d).

Definition sample_point (sqrt : Q -> Q) (l : list pt) (tris : list tri) (d : draw) : pt :=
  let '(i, j, k) := tri_at tris (sample_index l tris d) in
  point_triangle (sqrt (u_one d)) (u_two d) (vtx l i) (vtx l j) (vtx l k).

(* emissivity = (sum over the draws of f(sample point)) / grid_samples *)
Definition emissivity (sqrt : Q -> Q) (f : pt -> Q) (l : list pt) (tris : list tri) (draws : list draw) : Q :=
  Qsum (map (fun d => f (sample_point sqrt l tris d)) draws) / inject_Z (Z.of_nat (length draws)).

(* ---- ear clipping: the shape of raysect.triangulate2d's output ---------------------------------
   [act] is the list of still active vertex indices; each triangle but the last is (prev, ear, next)
   for some position of [ear] in [act] (cyclically), after which the ear is removed; the last
   triangle is the three remaining indices.  Which ear is chosen is up to raysect. *)
Fixpoint split_at (b : nat) (act : list nat) : option (list nat * list nat) :=
  match act with
  | [] => None
  | a :: t => if Nat.eqb a b then Some ([], t)
              else match split_at b t with Some (l1, l2) => Some (a :: l1, l2) | None => None end
  end.

Definition prev_of (l1 l2 : list nat) (b : nat) : nat := last l1 (last l2 b).
Definition next_of (l1 l2 : list nat) (b : nat) : nat := hd (hd b l1) l2.

Fixpoint clip_check (act : list nat) (tris : list tri) : bool :=
  match tris with
  | [] => false
  | (a, b, c) :: rest =>
    match rest with
    | [] => match act with
            | [a'; b'; c'] => Nat.eqb a a' && Nat.eqb b b' && Nat.eqb c c'
            | _ => false
            end
    | _ => match split_at b act with
           | Some (l1, l2) =>
             negb (Nat.eqb (length l1 + length l2) 0) &&
             Nat.eqb a (prev_of l1 l2 b) && Nat.eqb c (next_of l1 l2 b) && clip_check (l1 ++ l2) rest
           | None => false
           end
    end
  end.

(* expected value of the estimator when the triangle j is selected with probability area_j / total
   and the mean of f over triangle j is m_j *)
Definition expected_estimate (areas means : list Q) : Q :=
  Qsum (map (fun am => fst am * snd am) (combine areas means)) / Qsum areas.

(* linear emissivity, triangle centroid, signed doubled triangle area by index triple *)
Definition linf (c0 c1 c2 : Q) (p : pt) : Q := c0 + c1 * px p + c2 * py p.
Definition tri2_of (l : list pt) (t : tri) : Q :=
  let '(i, j, k) := t in tri2 (vtx l i) (vtx l j) (vtx l k).
Definition tri_centroid_of (l : list pt) (t : tri) : pt :=
  let '(i, j, k) := t in
  ((px (vtx l i) + px (vtx l j) + px (vtx l k)) / 3, (py (vtx l i) + py (vtx l j) + py (vtx l k)) / 3).

(* expectation of the grid_samples-draw estimator: each pass of the loop draws its own u, so by linearity
   of expectation it is the average of the per-draw expectations [expected_estimate] *)
Definition expected_emissivity (areas means : list Q) (n : nat) : Q :=
  Qsum (repeat (expected_estimate areas means) n) / inject_Z (Z.of_nat n).

(* a deterministic variant: sample i takes the triangle found at the stratum mid-point
   v_i = total * (i + 1/2) / n of the cumulative area instead of total * uniform() *)
Definition stratified_estimate (areas means : list Q) (n : nat) : Q :=
  let total := Qsum areas in
  Qsum (map (fun i => nth (Z.to_nat (select (cumulative areas)
                                            (total * (inject_Z (Z.of_nat i) + (1 # 2)) / inject_Z (Z.of_nat n))))
                          means 0)
            (seq 0 n)) / inject_Z (Z.of_nat n).

(* ---- _has_rectangular_cross_section (lines 150-177).  The code compares the two diagonal lengths
   (square roots); equal lengths <-> equal squared lengths, which is what the exact model compares. ---- *)
Definition dist2 (a b : pt) : Q := (px a - px b) * (px a - px b) + (py a - py b) * (py a - py b).
Definition has_rectangular_cross_section (l : list pt) : bool :=
  match l with
  | [v1; v2; v3; v4] =>
    if negb (Qeq_bool (dist2 v1 v3) (dist2 v2 v4)) then false
    else if negb (Qeq_bool (px v2 - px v1) 0) && negb (Qeq_bool (py v2 - py v1) 0) then false
    else true
  | _ => false
  end.

(* cross-section of the primitive _build_csg_from_rectangle creates: the bounding box *)
Definition Qmin_l (d : Q) (l : list Q) : Q := fold_right (fun x m => if Qle_bool x m then x else m) d l.
Definition Qmax_l (d : Q) (l : list Q) : Q := fold_right (fun x m => if Qle_bool m x then x else m) d l.
Definition bbox_area (l : list pt) : Q :=
  match l with
  | [] => 0
  | p :: _ => (Qmax_l (px p) (map px l) - Qmin_l (px p) (map px l)) * (Qmax_l (py p) (map py l) - Qmin_l (py p) (map py l))
  end.

(* ---- a uniform variate on the N-point grid {0, 1/N, ..., (N-1)/N} (raysect's uniform() is such a
   variate with N = 2^53): [hits areas N j] = number of grid values u for which the lookup of
   line 442 selects triangle j with v = total * u ---- *)
Definition grid_v (total : Q) (N m : nat) : Q := total * inject_Z (Z.of_nat m) / inject_Z (Z.of_nat N).
Definition hits (areas : list Q) (N j : nat) : nat :=
  length (filter (fun m => (select (cumulative areas) (grid_v (Qsum areas) N m) =? Z.of_nat j)%Z) (seq 0 N)).

(* expectation over the grid variate of the mean of the selected triangle: sum_j P_N(j) * mean_j with
   P_N(j) = hits j / N, and the area-weighted mean it approximates *)
Definition grid_expectation (areas means : list Q) (N : nat) : Q :=
  Qsum (map (fun j => inject_Z (Z.of_nat (hits areas N j)) / inject_Z (Z.of_nat N) * nth j means 0) (seq 0 (length areas))).
Definition area_weighted_mean (areas means : list Q) : Q :=
  Qsum (map (fun j => nth j areas 0 / Qsum areas * nth j means 0) (seq 0 (length areas))).

(* ---- constructor argument validation with rows of any length and the primitive_type switch
   (lines 107-118 and 126-135).  Checks happen in this order: number of rows; then row by row: row length
   (TypeError), r < 0 (ValueError); after the triangulation: primitive_type in {'csg' = 0, 'mesh' = 1}. ---- *)
Fixpoint validate_rows (rows : list (list Q)) : err + list pt :=
  match rows with
  | [] => inr []
  | [x; y] :: t =>
    if Qlt_b x 0 then inl ErrValue
    else match validate_rows t with inl e => inl e | inr l => inr ((x, y) :: l) end
  | _ :: _ => inl ErrType
  end.
Definition construct (rows : list (list Q)) (ptype : Z) : err + list pt :=
  if (Z.of_nat (length rows) <? 3)%Z then inl ErrType
  else match validate_rows rows with
       | inl e => inl e
       | inr l => if (ptype =? 0)%Z || (ptype =? 1)%Z then inr (normalise l) else inl ErrValue
       end.

(* ---- emissivity_from_function as called with an integer grid_samples and the flat stream of uniform()
   values: per pass of the loop u_sel is drawn only when there are >= 2 triangles, then point_triangle draws
   two more.  grid_samples = 0 -> ZeroDivisionError (None); grid_samples < 0 -> no pass, 0 / n. ---- *)
Fixpoint take_draws (ntri n : nat) (stream : list Q) : list draw * list Q :=
  match n with
  | O => ([], stream)
  | S k =>
    if (1 <? ntri)%nat then
      match stream with
      | us :: u1 :: u2 :: rest =>
        let (ds, r) := take_draws ntri k rest in ({| u_sel := us; u_one := u1; u_two := u2 |} :: ds, r)
      | _ => ([], [])
      end
    else
      match stream with
      | u1 :: u2 :: rest =>
        let (ds, r) := take_draws ntri k rest in ({| u_sel := 0; u_one := u1; u_two := u2 |} :: ds, r)
      | _ => ([], [])
      end
  end.

Definition emissivity_call (sqrt : Q -> Q) (f : pt -> Q) (l : list pt) (tris : list tri) (n : Z) (stream : list Q)
  : option Q * list Q :=
  if (n =? 0)%Z then (None, stream)
  else let (ds, rest) := take_draws (length tris) (Z.to_nat n) stream in
       (Some (Qsum (map (fun d => f (sample_point sqrt l tris d)) ds) / inject_Z n), rest).

(* VoxelCollection.emissivities_from_function (lines 531-557): the voxels in order, one stream *)
Fixpoint emissivities (sqrt : Q -> Q) (f : pt -> Q) (voxels : list (list pt * list tri)) (n : nat) (stream : list Q)
  : list Q :=
  match voxels with
  | [] => []
  | (l, tris) :: t =>
    let (ds, rest) := take_draws (length tris) n stream in
    emissivity sqrt f l tris ds :: emissivities sqrt f t n rest
  end.

(* ---- VoxelCollection.__getitem__ / set_active argument policy (lines 481-489, 636-656) ---- *)
Inductive cerr := CType | CIndex | CValue.
Inductive item := ItInt (i : Z) | ItAll | ItOther.
Definition getitem (count : Z) (it : item) : cerr + Z :=
  match it with
  | ItInt i => if (0 <=? i)%Z && (i <? count)%Z then inr i else inl CIndex
  | _ => inl CType
  end.
Definition set_active (count : Z) (it : item) : option cerr :=
  match it with
  | ItInt i => if (0 <=? i)%Z && (i <? count)%Z then None else Some CIndex
  | ItAll => None
  | ItOther => Some CValue
  end.

(* ---- point_triangle on the grid: the sub-triangle of (a, b, c) at corner a made of the points whose barycentric
   coordinates satisfy alpha >= 1 - t and beta <= s * (1 - alpha); two successive uniform() values (m1/N, m2/N)
   land in it exactly when temp = sqrt(m1/N) <= t and m2/N <= s ---- *)
Definition corner_region (t s : Q) (a b c : pt) : pt * pt * pt :=
  (a,
   (px a + s * t * (px b - px a) + (1 - s) * t * (px c - px a), py a + s * t * (py b - py a) + (1 - s) * t * (py c - py a)),
   (px a + t * (px c - px a), py a + t * (py c - py a))).
Definition in_corner_region (t s temp u2 : Q) : bool := Qle_bool temp t && Qle_bool u2 s.
Definition grid_u (N m : nat) : Q := inject_Z (Z.of_nat m) / inject_Z (Z.of_nat N).
Definition corner_hits (sqrt : Q -> Q) (N : nat) (t s : Q) : nat :=
  length (filter (fun p => in_corner_region t s (sqrt (grid_u N (fst p))) (grid_u N (snd p)))
                 (list_prod (seq 0 N) (seq 0 N))).
