(* Executable comparators for the correspondence check of C14 (definitions only).
   The wrapped functions of the generated cases are polynomials with dyadic coefficients, so the
   model evaluates them exactly.  One case = one caching object and one history of points. *)
Require Import Cherab.Common.Qx.
Require Import Cherab.Model.C14_Cache Cherab.Model.C14_Caching.
From Coq Require Import Qabs.
Open Scope Q_scope.

(* ---- polynomials: coefficient of x^a (y^b (z^c)) at position a (b (c)) ---- *)
Definition poly1 (cs : list Q) (x : Q) : Q := fold_right (fun c acc => c + x * acc) 0 cs.
Definition poly2 (cs : list (list Q)) (x y : Q) : Q := poly1 (map (fun r => poly1 r y) cs) x.
Definition poly3 (cs : list (list (list Q))) (x y z : Q) : Q := poly1 (map (fun r => poly2 r y z) cs) x.
Definition f1 (cs : list Q) : Q -> Q := fun x => Qred (poly1 cs x).
Definition f2 (cs : list (list Q)) : Q * Q -> Q := fun p => Qred (poly2 cs (fst p) (snd p)).
Definition f3 (cs : list (list (list Q))) : Q * Q * Q -> Q :=
  fun p => let '(x, y, z) := p in Qred (poly3 cs x y z).
(* upper bounds of |f| on the box |x| <= X, ... : the scale of the value tolerance *)
Definition b1 (cs : list Q) (X : Q) : Q := poly1 (map Qabs cs) X.
Definition b2 (cs : list (list Q)) (X Y : Q) : Q := poly2 (map (map Qabs) cs) X Y.
Definition b3 (cs : list (list (list Q))) (X Y Z : Q) : Q := poly3 (map (map (map Qabs)) cs) X Y Z.

Definition nthQ (l : list Q) : Z -> Q := fun k => nth (Z.to_nat k) l 0.
Definition topof (l : list Q) : Z := (Z.of_nat (length l) - 1)%Z.
Definition Qmax (a b : Q) : Q := if Qle_bool a b then b else a.
Definition ext (l : list Q) (p : Q) : Q := Qmax (Qmax (Qabs (nthQ l 0)) (Qabs (nthQ l (topof l)))) (Qabs p).
Definition fbscale (fb : option (Q * Q)) : Q := match fb with Some (lo, hi) => Qabs lo + Qabs hi | None => 0 end.

(* tolerance on values: 2^-34 of the scale (bound of |f| on the grid box and at the point, plus the
   magnitude of the function bounds; no absolute term: the comparison is covariant under scaling of the values).  Measured distance on the unchanged tree: <= 2^-44 of it. *)
Definition val_tol : Q := pow2 (-34).

Fixpoint forallb2 {A B} (p : A -> B -> bool) (l1 : list A) (l2 : list B) : bool :=
  match l1, l2 with
  | [], [] => true
  | a :: t1, b :: t2 => p a b && forallb2 p t1 t2
  | _, _ => false
  end.

Definition kind_of (r : result) : Z := match r with Val _ => 0 | Direct _ => 1 | Err => 2 end.
Definition value_of (r : result) : Q := match r with Val v => v | Direct v => v | Err => 0 end.

(* per-axis code of a coordinate at which the wrapped function was called: the index of the node it
   is equal to, else -1 (the harness uses -1 for "the evaluation point's own coordinate" and -99 for
   anything else, which never matches) *)
Fixpoint code_from (k : Z) (l : list Q) (p : Q) : Z :=
  match l with [] => (-1)%Z | a :: t => if Qeq_bool a p then k else code_from (k + 1)%Z t p end.
Definition axis_code (l : list Q) (p : Q) : Z := code_from 0%Z l p.

(* the calls the model expects: nodes sampled (cache), the point itself (direct), none (error) *)
Definition expected_calls {N} (dkey : N) (m : result * list N) : list N :=
  match fst m with Val _ => snd m | Direct _ => [dkey] | Err => [] end.

(* implementation's record of one evaluation: kind (0 returned a value, 2 ValueError, anything else
   never matches), value, codes of the arguments with which the wrapped function was called, in
   call order *)
Definition step_ok {N} (neqb : N -> N -> bool) (scale : Q) (dkey : N) (m : result * list N) (i : Z * Q * list N) : bool :=
  let '(ik, iv, icalls) := i in
  ((if (kind_of (fst m) =? 2)%Z then 2 else 0) =? ik)%Z
  && Qle_bool (Qabs (value_of (fst m) - iv)) (val_tol * scale)
  && forallb2 neqb (expected_calls dkey m) icalls.

Definition memb {A} (eqb : A -> A -> bool) (a : A) (l : list A) : bool := existsb (eqb a) l.
Definition same_keys {A} (eqb : A -> A -> bool) (l1 l2 : list A) : bool :=
  (Z.of_nat (length l1) =? Z.of_nat (length l2))%Z && forallb (fun a => memb eqb a l2) l1.

(* intermediate values: every entry of the implementation's data_view (normalised samples) against the model's
   data store, within 2^-44 of (bound of |f| on the grid box + |data_min|) / |data_delta| *)
Definition data_tol (fb : option (Q * Q)) (bscale : Q) : Q :=
  pow2 (-44) * ((bscale + Qabs (data_min fb)) * Qabs (1 / data_delta fb)).
Definition data_close {N} (neqb : N -> N -> bool) (tol : Q) (model impl : list (N * Q)) : bool :=
  forallb (fun kv => match lookupN neqb (fst kv) model with
                     | Some vm => Qle_bool (Qabs (snd kv - vm)) tol
                     | None => false
                     end) impl.

(* 1-D case: node array of the implementation (exact doubles), function bounds, no_boundary_error,
   polynomial, history, per-step record, final sets of calculated cells and of sampled nodes *)
Definition check1 (xl : list Q) (fb : option (Q * Q)) (nbe : bool) (cs : list Q) (pts : list Q)
           (impl : list (Z * Q * list Z)) (cells_f : list Z) (nodes_f : list (Z * Q)) : bool :=
  let x := nthQ xl in let top := topof xl in
  let '(tr, st) := trace1 fb nbe x top (f1 cs) empty pts in
  forallb2 (fun pm i => step_ok Z.eqb (b1 cs (ext xl (fst pm)) + fbscale fb) (axis_code xl (fst pm)) (snd pm) i) (combine pts tr) impl
  && (Z.of_nat (length pts) =? Z.of_nat (length tr))%Z
  && same_keys Z.eqb (map fst (cells st)) cells_f
  && same_keys Z.eqb (map fst (data st)) (map fst nodes_f)
  && data_close Z.eqb (data_tol fb (b1 cs (ext xl 0))) (data st) nodes_f.

Definition check2 (xl yl : list Q) (fb : option (Q * Q)) (nbe : bool) (cs : list (list Q)) (pts : list (Q * Q))
           (impl : list (Z * Q * list (Z * Z))) (cells_f : list (Z * Z)) (nodes_f : list (Z * Z * Q)) : bool :=
  let '(tr, st) := trace2 fb nbe (nthQ xl) (nthQ yl) (topof xl) (topof yl) (f2 cs) empty pts in
  forallb2 (fun pm i => step_ok eqb2 (b2 cs (ext xl (fst (fst pm))) (ext yl (snd (fst pm))) + fbscale fb)
                                     (axis_code xl (fst (fst pm)), axis_code yl (snd (fst pm))) (snd pm) i)
           (combine pts tr) impl
  && (Z.of_nat (length pts) =? Z.of_nat (length tr))%Z
  && same_keys eqb2 (map fst (cells st)) cells_f
  && same_keys eqb2 (map fst (data st)) (map fst nodes_f)
  && data_close eqb2 (data_tol fb (b2 cs (ext xl 0) (ext yl 0))) (data st) nodes_f.

Definition check3 (xl yl zl : list Q) (fb : option (Q * Q)) (nbe : bool) (cs : list (list (list Q)))
           (pts : list (Q * Q * Q)) (impl : list (Z * Q * list (Z * Z * Z))) (cells_f : list (Z * Z * Z))
           (nodes_f : list (Z * Z * Z * Q)) : bool :=
  let '(tr, st) := trace3 fb nbe (nthQ xl) (nthQ yl) (nthQ zl) (topof xl) (topof yl) (topof zl) (f3 cs) empty pts in
  forallb2 (fun pm i => let '(px, py, pz) := fst pm in
                        step_ok eqb3 (b3 cs (ext xl px) (ext yl py) (ext zl pz) + fbscale fb)
                                     (axis_code xl px, axis_code yl py, axis_code zl pz) (snd pm) i)
           (combine pts tr) impl
  && (Z.of_nat (length pts) =? Z.of_nat (length tr))%Z
  && same_keys eqb3 (map fst (cells st)) cells_f
  && same_keys eqb3 (map fst (data st)) (map fst nodes_f)
  && data_close eqb3 (data_tol fb (b3 cs (ext xl 0) (ext yl 0) (ext zl 0))) (data st) nodes_f.

(* __init__: accepted arguments, number of nodes, node positions (2^-46 of the magnitude of the
   arguments: the code computes them in double precision) *)
Definition check_axis (lo hi delta : Q) (accepted : bool) (xl : list Q) : bool :=
  if axis_ok lo hi delta then
    accepted && (topof xl =? axis_top lo hi delta)%Z
    && forallb (fun k => Qle_bool (Qabs (axis lo hi delta (Z.of_nat k) - nthQ xl (Z.of_nat k)))
                                  (pow2 (-46) * (Qabs lo + Qabs hi + Qabs delta + 1)))
               (seq 0 (length xl))
  else negb accepted.

(* utility.find_index with a non-zero padding is not reachable from the caching classes; it is observed
   through Interpolate1DLinear(x, f = [0, 1, 2, ..], extrapolate=True, 'nearest', extrapolation_range = padding):
   ValueError for the indices -2 / top+1, f[0] = 0 for -1, f[top] = top for top, and
   i + (v - x_i) / (x_(i+1) - x_i) inside.  One case = one node array, one padding, a list of
   (v, kind (0 value, 2 ValueError), value). *)
Definition find_ok (xl : list Q) (pad : Q) (obs : Q * Z * Q) : bool :=
  let '(v, kind, val) := obs in
  let x := nthQ xl in let top := topof xl in
  let i := find_index_pad x top v pad in
  if (i =? -2)%Z || (i =? top + 1)%Z then (kind =? 2)%Z
  else (kind =? 0)%Z &&
       (if (i =? -1)%Z then Qeq_bool val 0
        else if (i =? top)%Z then Qeq_bool val (inject_Z top)
        else Qle_bool (Qabs (val - (inject_Z i + (v - x i) / (x (i + 1)%Z - x i)))) (pow2 (-40) * (inject_Z top + 1))).
Definition check_find (xl : list Q) (pad : Q) (obs : list (Q * Z * Q)) : bool := forallb (find_ok xl pad) obs.
