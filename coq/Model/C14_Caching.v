(* Model of cherab/core/math/caching/caching{1,2,3}d.pyx and of
   cherab/core/math/interpolators/utility.pyx (find_index, derivatives_array, factorial).
   Definitions only; the proofs are in Proofs/C14_*.v.

   Exact arithmetic over Q.  [Qred] (reduction of a fraction to lowest terms, equal to the
   identity up to ==) is applied to intermediate results so that the model can be run by
   vm_compute on long histories.  The wrapped function is an arbitrary total function into Q: the
   code's NaN sentinel ("not yet sampled") is the [None] of the generic cache, a wrapped function
   that itself returns NaN is outside the model. *)
Require Import Cherab.Common.Qx.
Require Import Cherab.Model.C14_Cache.
From Coq Require Import Qround.
Open Scope Q_scope.

Definition Qltb (a b : Q) : bool := negb (Qle_bool b a).

(* ------------------------------------------------------------------------------------------ *)
(* utility.pyx : find_index(x, v, padding=0.)                                                    *)
(* ------------------------------------------------------------------------------------------ *)
Section Find.
  Variable x : Z -> Q.       (* the memory view *)
  Variable top : Z.          (* x.shape[0] - 1 *)

  (* the while loop: bisection_index = (top_index + bottom_index) / 2 is recomputed at the end of
     every iteration, which is the same as computing it at the start of the next one *)
  Fixpoint bisect (fuel : nat) (v : Q) (bottom tp : Z) : Z :=
    match fuel with
    | O => bottom
    | S k =>
        if (tp - bottom =? 1)%Z then bottom
        else let b := ((tp + bottom) / 2)%Z in
             if Qle_bool (x b) v then bisect k v b tp else bisect k v bottom b
    end.

  Definition find_index_pad (v padding : Q) : Z :=
    if Qeq_bool v (x 0%Z) then 0%Z
    else if Qeq_bool v (x top) then (top - 1)%Z
    else if Qltb v (x 0%Z - padding) then (-2)%Z
    else if Qltb (x top + padding) v then (top + 1)%Z
    else if Qltb v (x 0%Z) then (-1)%Z
    else if Qltb (x top) v then top
    else bisect (Z.to_nat top) v 0%Z top.

  Definition find_index (v : Q) : Z := find_index_pad v 0.

  (* evaluate(): "if 1 <= i_x <= self.top_index_x - 2" *)
  Definition permitted (i : Z) : bool := (1 <=? i)%Z && (i <=? top - 2)%Z.
  Definition locate1 (v : Q) : option Z :=
    let i := find_index v in if permitted i then Some i else None.
End Find.

(* ------------------------------------------------------------------------------------------ *)
(* __init__ : the node array of one axis                                                          *)
(*   concatenate(([lo - delta], linspace(lo - EPSILON, hi + EPSILON, max(int((hi-lo)/delta)+1, 2)),
                  [hi + delta]))                                                                  *)
(* ------------------------------------------------------------------------------------------ *)
(* EPSILON = 1.e-7 : the exact value of that double *)
Definition EPSILON : Q := 944473296573929 # 9444732965739290427392.

(* else ValueError in __init__ *)
Definition axis_ok (lo hi delta : Q) : bool := Qltb lo hi && Qltb EPSILON delta.

(* int() truncates towards zero; the quotient is positive for accepted arguments *)
Definition npts (lo hi delta : Q) : Z := Z.max (Qfloor ((hi - lo) / delta) + 1) 2.
Definition axis_top (lo hi delta : Q) : Z := (npts lo hi delta + 1)%Z.
Definition axis (lo hi delta : Q) : Z -> Q := fun k =>
  let n := npts lo hi delta in
  if (k <=? 0)%Z then lo - delta
  else if (n <? k)%Z then hi + delta
  else (lo - EPSILON) + inject_Z (k - 1) * (((hi + EPSILON) - (lo - EPSILON)) / inject_Z (n - 1)).

(* function_boundaries -> data_min, data_delta ("if self.data_delta == 0: self.data_delta = 1") *)
Definition data_min (fb : option (Q * Q)) : Q := match fb with Some (lo, _) => lo | None => 0 end.
Definition data_delta (fb : option (Q * Q)) : Q :=
  match fb with
  | Some (lo, hi) => if Qeq_bool (hi - lo) 0 then 1 else hi - lo
  | None => 1
  end.
(* "(value - self.data_min) * self.data_delta_inv" with data_delta_inv = 1 / data_delta *)
Definition normd (fb : option (Q * Q)) (v : Q) : Q := (v - data_min fb) * (1 / data_delta fb).

(* coordinates normalised to [0, 1]: x_np = (x_np - x_min) * x_delta_inv *)
Definition x_delta_inv (x : Z -> Q) (top : Z) : Q := 1 / (x top - x 0%Z).
Definition nrm (x : Z -> Q) (top : Z) (p : Q) : Q := Qred ((p - x 0%Z) * x_delta_inv x top).

(* ------------------------------------------------------------------------------------------ *)
(* The cubic of one cell, local form: nodes xm < x0 < x1 < x2, data dm d0 d1 d2,                  *)
(* value d0/d1 at x0/x1, slope = central difference quotient at x0 and x1.                        *)
(* ------------------------------------------------------------------------------------------ *)
Definition HL (xm x0 x1 x2 dm d0 d1 d2 t : Q) : Q :=
  let h := Qred (x1 - x0) in
  let s0 := Qred ((d1 - dm) / (x1 - xm)) in
  let s1 := Qred ((d2 - d0) / (x2 - x0)) in
  let D := Qred ((d1 - d0) / h) in
  let u := Qred (t - x0) in
  let c2 := Qred ((3 * D - 2 * s0 - s1) / h) in
  let c3 := Qred ((s0 + s1 - 2 * D) / (h * h)) in
  Qred (d0 + u * (s0 + u * (c2 + u * c3))).

Definition nodes4 (x : Z -> Q) (i : Z) : Q * Q * Q * Q := (x (i - 1)%Z, x i, x (i + 1)%Z, x (i + 2)%Z).
Definition HLl (nd : Q * Q * Q * Q) (l : list Q) (t : Q) : Q :=
  let '(xm, x0, x1, x2) := nd in
  match l with [dm; d0; d1; d2] => HL xm x0 x1 x2 dm d0 d1 d2 t | _ => 0 end.

Fixpoint chunks4 (l : list Q) : list (list Q) :=
  match l with a :: b :: c :: d :: t => [a; b; c; d] :: chunks4 t | _ => [] end.
(* collapse the innermost axis of a block of data: one cubic per line of four values *)
Definition reduce (nd : Q * Q * Q * Q) (t : Q) (l : list Q) : list Q := map (fun r => HLl nd r t) (chunks4 l).

Definition span (i : Z) : list Z := [(i - 1)%Z; i; (i + 1)%Z; (i + 2)%Z].   (* range(i-1, i+3) *)

(* ------------------------------------------------------------------------------------------ *)
(* Caching1D : line by line                                                                        *)
(* ------------------------------------------------------------------------------------------ *)
Section One.
  Variables (x : Z -> Q) (top : Z) (fb : option (Q * Q)).
  Let xdi := x_delta_inv x top.
  Let xmin := x 0%Z.
  Definition xv (u : Z) : Q := Qred ((x u - xmin) * xdi).

  (* solve(cm_view, cv_view) for the rows
       [1 t0 t0^2 t0^3 | d0] [0 1 2t0 3t0^2 | s0] [1 t1 t1^2 t1^3 | d1] [0 1 2t1 3t1^2 | s1]
     in closed form (Proofs/C14_Hermite.v: it satisfies the four equations and is the only
     solution when t0 <> t1) *)
  Definition solve4 (t0 t1 d0 s0 d1 s1 : Q) : Q * Q * Q * Q :=
    let h := t1 - t0 in
    let D := Qred ((d1 - d0) / h) in
    let c2 := Qred ((3 * D - 2 * s0 - s1) / h) in
    let c3 := Qred ((s0 + s1 - 2 * D) / (h * h)) in
    (Qred (d0 - s0 * t0 + c2 * t0 * t0 - c3 * t0 * t0 * t0), Qred (s0 - 2 * c2 * t0 + 3 * c3 * t0 * t0),
     Qred (c2 - 3 * c3 * t0), c3).

  (* utility.pyx derivatives_array *)
  Definition derivatives_array (v : Q) (deriv : Z) : Q * Q * Q * Q :=
    match deriv with
    | 0%Z => (1, v, v * v, v * v * v)
    | 1%Z => (0, 1, 2 * v, 3 * v * v)
    | 2%Z => (0, 0, 2, 6 * v)
    | 3%Z => (0, 0, 0, 6)
    | _ => (0, 0, 0, 0)
    end.
  (* _evaluate_polynomial_derivative *)
  Definition poly_deriv (a : Q * Q * Q * Q) (px : Q) (der : Z) : Q :=
    let '(a0, a1, a2, a3) := a in
    let '(v0, v1, v2, v3) := derivatives_array px der in
    v0 * a0 + v1 * a1 + v2 * a2 + v3 * a3.
  Definition factorial (n : Z) : Q := match n with 2%Z => 2 | 3%Z => 6 | _ => 1 end.  (* n <= 3 here *)
  Definition xdi_pow (n : Z) : Q :=
    match n with 1%Z => xdi | 2%Z => xdi * xdi | 3%Z => xdi * xdi * xdi | _ => 1 end.

  (* the block stored in coeffs_view[i_x - 1, :] after the denormalisation loop; tm t0 t1 t2 are the
     normalised coordinates x_view[i-1 .. i+2], vals the normalised data data_view[i-1 .. i+2] *)
  Definition coeffs1 (tm t0 t1 t2 : Q) (vals : list Q) : Q * Q * Q * Q :=
    match vals with
    | [dm; d0; d1; d2] =>
        let s0 := Qred ((d1 - dm) / (t1 - tm)) in      (* l = 1: derivative row at u = i *)
        let s1 := Qred ((d2 - d0) / (t2 - t0)) in      (* l = 3: derivative row at u = i+1 *)
        let a := solve4 t0 t1 d0 s0 d1 s1 in
        let t00 := Qred (- xdi * xmin) in
        let c k := data_delta fb * (xdi_pow k / factorial k * poly_deriv a t00 k) in
        (Qred (c 0%Z + data_min fb), Qred (c 1%Z), Qred (c 2%Z), Qred (c 3%Z))
    | _ => (0, 0, 0, 0)
    end.
  Definition build1 (i : Z) (vals : list Q) : Q * Q * Q * Q :=
    coeffs1 (xv (i - 1)) (xv i) (xv (i + 1)) (xv (i + 2)) vals.
  Definition evalc1 (c : Q * Q * Q * Q) (px : Q) : Q :=
    let '(c0, c1, c2, c3) := c in c0 + c1 * px + c2 * px * px + c3 * px * px * px.

  Definition needed1 (i : Z) : list Z := span i.
End One.

(* ------------------------------------------------------------------------------------------ *)
(* Caching2D / Caching3D : the stored block is the tensor product of the 1-D cubic              *)
(* (the code solves a 16x16 / 64x64 system for it; Proofs/C14_Tensor.v relates the two,          *)
(*  the correspondence compares the values)                                                      *)
(* ------------------------------------------------------------------------------------------ *)
Definition needed2 (c : Z * Z) : list (Z * Z) :=
  flat_map (fun u => map (fun v => (u, v)) (span (snd c))) (span (fst c)).
Definition needed3 (c : Z * Z * Z) : list (Z * Z * Z) :=
  let '(i, j, k) := c in
  flat_map (fun u => flat_map (fun v => map (fun w => (u, v, w)) (span k)) (span j)) (span i).

Section Two.
  Variables (x y : Z -> Q) (topx topy : Z) (fb : option (Q * Q)).
  Definition build2 (c : Z * Z) (vals : list Q) : (Z * Z) * list Q := (c, vals).
  Definition evalc2 (b : (Z * Z) * list Q) (p : Q * Q) : Q :=
    let '((i, j), vals) := b in
    let xn := nodes4 (fun u => nrm x topx (x u)) i in
    let yn := nodes4 (fun v => nrm y topy (y v)) j in
    data_delta fb * HLl xn (reduce yn (nrm y topy (snd p)) vals) (nrm x topx (fst p)) + data_min fb.
  Definition locate2 (p : Q * Q) : option (Z * Z) :=
    match locate1 x topx (fst p), locate1 y topy (snd p) with
    | Some i, Some j => Some (i, j)
    | _, _ => None
    end.
End Two.

Section Three.
  Variables (x y z : Z -> Q) (topx topy topz : Z) (fb : option (Q * Q)).
  Definition build3 (c : Z * Z * Z) (vals : list Q) : (Z * Z * Z) * list Q := (c, vals).
  Definition evalc3 (b : (Z * Z * Z) * list Q) (p : Q * Q * Q) : Q :=
    let '((i, j, k), vals) := b in
    let '(px, py, pz) := p in
    let xn := nodes4 (fun u => nrm x topx (x u)) i in
    let yn := nodes4 (fun v => nrm y topy (y v)) j in
    let zn := nodes4 (fun w => nrm z topz (z w)) k in
    data_delta fb * HLl xn (reduce yn (nrm y topy py) (reduce zn (nrm z topz pz) vals)) (nrm x topx px)
    + data_min fb.
  Definition locate3 (p : Q * Q * Q) : option (Z * Z * Z) :=
    let '(px, py, pz) := p in
    match locate1 x topx px, locate1 y topy py, locate1 z topz pz with
    | Some i, Some j, Some k => Some (i, j, k)
    | _, _, _ => None
    end.
End Three.

(* ------------------------------------------------------------------------------------------ *)
(* The three caching functions as instances of the generic cache                                  *)
(* ------------------------------------------------------------------------------------------ *)
Definition eqb2 (a b : Z * Z) : bool := (fst a =? fst b)%Z && (snd a =? snd b)%Z.
Definition eqb3 (a b : Z * Z * Z) : bool :=
  (fst (fst a) =? fst (fst b))%Z && (snd (fst a) =? snd (fst b))%Z && (snd a =? snd b)%Z.

Section Instances.
  Variable fb : option (Q * Q).
  Variable nbe : bool.

  Section I1.
    Variables (x : Z -> Q) (top : Z) (f : Q -> Q).
    Definition eval1 := eval Z.eqb Z.eqb (locate1 x top) needed1 x f (normd fb) (build1 x top fb) evalc1 nbe.
    Definition trace1 := trace Z.eqb Z.eqb (locate1 x top) needed1 x f (normd fb) (build1 x top fb) evalc1 nbe.
    Definition eval_after1 := eval_after Z.eqb Z.eqb (locate1 x top) needed1 x f (normd fb) (build1 x top fb) evalc1 nbe.
    Definition pure1 := pure_eval (locate1 x top) needed1 x f (normd fb) (build1 x top fb) evalc1 nbe.
  End I1.

  Section I2.
    Variables (x y : Z -> Q) (topx topy : Z) (f : Q * Q -> Q).
    Definition nodept2 (u : Z * Z) : Q * Q := (x (fst u), y (snd u)).
    Definition trace2 := trace eqb2 eqb2 (locate2 x y topx topy) needed2 nodept2 f (normd fb) build2 (evalc2 x y topx topy fb) nbe.
    Definition eval_after2 := eval_after eqb2 eqb2 (locate2 x y topx topy) needed2 nodept2 f (normd fb) build2 (evalc2 x y topx topy fb) nbe.
    Definition pure2 := pure_eval (locate2 x y topx topy) needed2 nodept2 f (normd fb) build2 (evalc2 x y topx topy fb) nbe.
  End I2.

  Section I3.
    Variables (x y z : Z -> Q) (topx topy topz : Z) (f : Q * Q * Q -> Q).
    Definition nodept3 (u : Z * Z * Z) : Q * Q * Q := let '(a, b, c) := u in (x a, y b, z c).
    Definition trace3 := trace eqb3 eqb3 (locate3 x y z topx topy topz) needed3 nodept3 f (normd fb) build3 (evalc3 x y z topx topy topz fb) nbe.
    Definition eval_after3 := eval_after eqb3 eqb3 (locate3 x y z topx topy topz) needed3 nodept3 f (normd fb) build3 (evalc3 x y z topx topy topz fb) nbe.
    Definition pure3 := pure_eval (locate3 x y z topx topy topz) needed3 nodept3 f (normd fb) build3 (evalc3 x y z topx topy topz fb) nbe.
  End I3.
End Instances.

(* ------------------------------------------------------------------------------------------ *)
(* History-free, normalisation-free specification: the cubic (tensor product of cubics) through  *)
(* the wrapped function's values at the raw nodes of the cell                                     *)
(* ------------------------------------------------------------------------------------------ *)
Definition spec1 (x : Z -> Q) (f : Q -> Q) (i : Z) (p : Q) : Q :=
  HL (x (i - 1)%Z) (x i) (x (i + 1)%Z) (x (i + 2)%Z)
     (f (x (i - 1)%Z)) (f (x i)) (f (x (i + 1)%Z)) (f (x (i + 2)%Z)) p.
Definition spec2 (x y : Z -> Q) (f : Q * Q -> Q) (c : Z * Z) (p : Q * Q) : Q :=
  spec1 x (fun a => spec1 y (fun b => f (a, b)) (snd c) (snd p)) (fst c) (fst p).
Definition spec3 (x y z : Z -> Q) (f : Q * Q * Q -> Q) (c : Z * Z * Z) (p : Q * Q * Q) : Q :=
  let '(i, j, k) := c in let '(px, py, pz) := p in
  spec1 x (fun a => spec1 y (fun b => spec1 z (fun c => f (a, b, c)) k pz) j py) i px.

(* results equal up to == on the values *)
Definition result_equiv (r1 r2 : result) : Prop :=
  match r1, r2 with
  | Val a, Val b => a == b
  | Direct a, Direct b => a == b
  | Err, Err => True
  | _, _ => False
  end.

(* strictly increasing node function on 0..top: what __init__ produces (Proofs/C14_Grid.v) *)
Definition increasing (x : Z -> Q) (top : Z) : Prop := forall k, (0 <= k < top)%Z -> x k < x (k + 1)%Z.
