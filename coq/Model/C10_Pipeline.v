(* Model of cherab/tools/raytransfer/pipelines.py (definitions only; proofs in Proofs/C10_Pipeline.v).

   RayTransferPipeline0D / 1D / 2D are small state machines driven by a raysect observer:
     initialise(...)                      once per observe()
     pixel_processor(...)                 a fresh accumulator  _matrix = zeros(bins)
         add_sample(spectrum, sensitivity)   _matrix += spectrum.samples [* sensitivity  if kind == 'power']
         pack_results()                      (_matrix, 0)
     update(..., packed_result[, pixel_samples])
     finalise()
   A row of the matrix is a function Z -> Q (bin index -> value), like [spectrum]. *)
Require Import Cherab.Common.Qx.
Require Import Cherab.Model.C10_RayTransfer.
Open Scope Q_scope.

Inductive pkind := Power | Radiance.

Definition fzero : spectrum := fun _ => 0.
Definition fadd (a b : spectrum) : spectrum := fun j => a j + b j.

(* one sample = (spectrum.samples, sensitivity) *)
Definition sample := (spectrum * Q)%type.

(* PowerRayTransferPixelProcessor / RadianceRayTransferPixelProcessor .add_sample *)
Definition proc_add (k : pkind) (m : spectrum) (sm : sample) : spectrum :=
  match k with
  | Power => fun j => m j + fst sm j * snd sm
  | Radiance => fun j => m j + fst sm j
  end.
(* pixel_processor(...) followed by add_sample for every sample of the task, then pack_results()[0] *)
Definition proc_run (k : pkind) (samples : list sample) : spectrum := fold_left (proc_add k) samples fzero.

(* ---------------------------------------------------------------------------------------------- *)
(* RayTransferPipeline0D: _samples, _matrix (the kind can be changed between observations)          *)
(* ---------------------------------------------------------------------------------------------- *)
Record p0 := { p0_samples : Z; p0_matrix : spectrum; p0_kind : pkind }.

(* initialise: self._samples = 0; self._bins = spectral_bins; self._matrix = np.zeros(spectral_bins) *)
Definition p0_initialise (st : p0) : p0 := {| p0_samples := 0; p0_matrix := fzero; p0_kind := p0_kind st |}.
(* update: self._samples += pixel_samples; self._matrix += packed_result[0] *)
Definition p0_update (st : p0) (packed : spectrum) (pixel_samples : Z) : p0 :=
  {| p0_samples := (p0_samples st + pixel_samples)%Z; p0_matrix := fadd (p0_matrix st) packed; p0_kind := p0_kind st |}.
(* finalise: self._matrix /= self._samples *)
Definition p0_finalise (st : p0) : p0 :=
  {| p0_samples := p0_samples st; p0_matrix := (fun j => p0_matrix st j / inject_Z (p0_samples st)); p0_kind := p0_kind st |}.
(* the kind setter *)
Definition p0_set_kind (st : p0) (k : pkind) : p0 := {| p0_samples := p0_samples st; p0_matrix := p0_matrix st; p0_kind := k |}.

(* one observe(): the observer splits the pixel samples into tasks; each task has its own pixel processor *)
Definition p0_task (st : p0) (task : list sample) : p0 :=
  p0_update st (proc_run (p0_kind st) task) (Z.of_nat (length task)).
Definition p0_observe (st : p0) (tasks : list (list sample)) : p0 :=
  p0_finalise (fold_left p0_task tasks (p0_initialise st)).

(* a history: before each observation the kind may be set; the matrix after each observation is recorded *)
Fixpoint p0_history (st : p0) (h : list (pkind * list (list sample))) : list spectrum :=
  match h with
  | [] => []
  | (k, tasks) :: t => let st' := p0_observe (p0_set_kind st k) tasks in p0_matrix st' :: p0_history st' t
  end.

(* ---------------------------------------------------------------------------------------------- *)
(* RayTransferPipeline1D / 2D: _samples = pixel_samples, _matrix[pixel] = packed / _samples         *)
(* a pixel is a pair of integers (1D: (pixel, 0); 2D: (x, y))                                       *)
(* ---------------------------------------------------------------------------------------------- *)
Definition pixel := (Z * Z)%type.
Definition pixel_eqb (a b : pixel) : bool := ((fst a =? fst b) && (snd a =? snd b))%Z.

Record pn := { pn_samples : Z; pn_matrix : pixel -> spectrum; pn_kind : pkind }.

(* initialise: self._samples = pixel_samples; self._matrix = np.zeros((pixels..., spectral_bins)) *)
Definition pn_initialise (st : pn) (pixel_samples : Z) : pn :=
  {| pn_samples := pixel_samples; pn_matrix := (fun _ => fzero); pn_kind := pn_kind st |}.
(* update: self._matrix[pixel] = packed_result[0] / self._samples *)
Definition pn_update (st : pn) (p : pixel) (packed : spectrum) : pn :=
  {| pn_samples := pn_samples st;
     pn_matrix := (fun q => if pixel_eqb q p then (fun j => packed j / inject_Z (pn_samples st)) else pn_matrix st q);
     pn_kind := pn_kind st |}.
Definition pn_set_kind (st : pn) (k : pkind) : pn := {| pn_samples := pn_samples st; pn_matrix := pn_matrix st; pn_kind := k |}.

Definition pn_task (st : pn) (pt : pixel * list sample) : pn :=
  pn_update st (fst pt) (proc_run (pn_kind st) (snd pt)).
(* finalise: pass *)
Definition pn_observe (st : pn) (pixel_samples : Z) (tasks : list (pixel * list sample)) : pn :=
  fold_left pn_task tasks (pn_initialise st pixel_samples).

Fixpoint pn_history (st : pn) (h : list (pkind * Z * list (pixel * list sample))) : list (pixel -> spectrum) :=
  match h with
  | [] => []
  | (k, ps, tasks) :: t => let st' := pn_observe (pn_set_kind st k) ps tasks in pn_matrix st' :: pn_history st' t
  end.

(* the documented content of a row: the mean over the samples of spectrum [* sensitivity] *)
Definition contrib (k : pkind) (sm : sample) (j : Z) : Q :=
  match k with Power => fst sm j * snd sm | Radiance => fst sm j end.
Definition sample_sum (k : pkind) (l : list sample) (j : Z) : Q := Qsum (map (fun sm => contrib k sm j) l).
