(* Model of the point-wise emission of
     cherab/core/model/beam/charge_exchange.pyx : BeamCXLine.emission, _composite_cx_rate,
                                                  _beam_population, _populate_cache
     cherab/core/model/beam/beam_emission.pyx   : BeamEmissionLine.emission, _beam_emission_rate
     cherab/core/plasma/node.pyx                : Plasma.z_effective, Plasma.ion_density
     cherab/core/beam/node.pyx                  : Beam.density (the 0 <= z <= length clamp)
   (definitions only; proofs are in Proofs/C05_*.v).

   Everything is evaluated "at a point": a species is represented by the values its distribution
   returns at the plasma point (density, effective temperature, bulk velocity).  Rate objects are
   Gallina functions of their arguments, so every theorem holds for every rate table.  libm's sqrt
   is a Section variable (oracle); the loops of the code are [fold_left]s over the same lists with
   the same accumulators, updated in the same order. *)
Require Import Cherab.Common.Qx.
Open Scope Q_scope.

(* [nz q] is q itself written as a reduced fraction (nz q == q, lemma nz_correct in
   Proofs/C05_Loops.v).  It is applied where the code stores a number in a double; it changes no
   value and keeps the exact rationals small when Coq runs the model on the correspondence cases. *)
Definition nz (q : Q) : Q := Qred q.

(* ---- raysect Vector3D ------------------------------------------------------------------- *)
Definition vec := (Q * Q * Q)%type.
Definition vx (v : vec) : Q := fst (fst v).
Definition vy (v : vec) : Q := snd (fst v).
Definition vz (v : vec) : Q := snd v.
Definition mkvec (a b c : Q) : vec := (nz a, nz b, nz c).
Definition vsub (a b : vec) : vec := mkvec (vx a - vx b) (vy a - vy b) (vz a - vz b).
Definition vmul (a : vec) (k : Q) : vec := mkvec (k * vx a) (k * vy a) (k * vz a).
Definition norm2 (a : vec) : Q := nz (vx a * vx a + vy a * vy a + vz a * vz a).

(* ---- plasma species sampled at the plasma point ------------------------------------------- *)
Record species := mkSpecies {
  elem : Z;        (* identifies the Element object (composition is keyed by (element, charge)) *)
  charge : Z;      (* species.charge *)
  dens : Q;        (* species.distribution.density(x, y, z) *)
  temp : Q;        (* species.distribution.effective_temperature(x, y, z) *)
  vel : vec        (* species.distribution.bulk_velocity(x, y, z) *)
}.
Definition zq (s : species) : Q := inject_Z (charge s).

(* BeamPopulationRate / BeamEmissionPEC .evaluate(energy, density, temperature) *)
Definition rate3 := Q -> Q -> Q -> Q.
(* BeamCXPEC.evaluate(energy, temperature, density, z_effective, b_field) *)
Definition rate5 := Q -> Q -> Q -> Q -> Q -> Q.
Definition args5 := (Q * Q * Q * Q * Q)%type.
(* rate functions respect equality of rationals (1/2 and 2/4 are the same argument) *)
Definition proper3 (f : rate3) : Prop :=
  forall e e' n n' t t', e == e' -> n == n' -> t == t' -> f e n t == f e' n' t'.
Definition proper5 (f : rate5) : Prop :=
  forall e e' t t' n n' z z' b b', e == e' -> t == t' -> n == n' -> z == z' -> b == b' ->
  f e t n z b == f e' t' n' z' b'.
Definition apply5 (f : rate5) (a : args5) : Q :=
  match a with (e, t, n, z, b) => f e t n z b end.

(* physical constants of cherab/core/utility/constants.pyx (read from the source on every run) *)
Record consts := mkConsts { c_e : Q; c_amu : Q; c_k4pi : Q }.

(* what emission() does with the spectrum *)
Inductive outcome :=
| Unchanged                 (* `return spectrum` before the line shape is called: nothing is added *)
| AddLine (radiance : Q)    (* self._lineshape.add_line(radiance, ...) *)
| ErrNoReceiver             (* RuntimeError of _populate_cache: receiver ion not in the plasma *)
| ErrNoIons                 (* ValueError of Plasma.z_effective *)
| ErrNoGround.              (* no rate with donor_metastable == 1 (outside the property's quantifier; this
                               branch is not exercised by the correspondence) *)

Definition emitted (o : outcome) : option Q :=
  match o with Unchanged => Some 0 | AddLine r => Some r | _ => None end.

(* ---- Plasma.z_effective / Plasma.ion_density (plasma/node.pyx 396-462) ---------------------- *)
(* one iteration of the loop: (sum_nz, sum_nz2) *)
Definition zeff_step (acc : Q * Q) (s : species) : Q * Q :=
  if (0 <? charge s)%Z
  then (nz (fst acc + dens s * zq s), nz (snd acc + dens s * zq s * zq s))
  else acc.
Definition zeff_sums (sps : list species) : Q * Q := fold_left zeff_step sps (0, 0).
Definition z_effective (sps : list species) : option Q :=
  let a := zeff_sums sps in
  if Qeq_bool (snd a) 0 then None else Some (nz (snd a / fst a)).

(* sums over every species of the composition, whatever its charge *)
Definition ion_density (sps : list species) : Q := fold_left (fun a s => nz (a + dens s)) sps 0.

(* ---- Beam.density (beam/node.pyx): zero outside 0 <= z <= length ----------------------------- *)
Definition beam_density (length z att : Q) : Q :=
  if negb (Qle_bool 0 z) || negb (Qle_bool z length) then 0 else att.

Section WithSqrt.
  Variable sqrt : Q -> Q.      (* libm sqrt *)
  Variable K : consts.

  Definition vlen (a : vec) : Q := sqrt (norm2 a).
  (* Vector3D.normalise: t = 1 / sqrt(x^2 + y^2 + z^2); (x t, y t, z t) *)
  Definition normalise (a : vec) : vec := vmul a (1 / vlen a).

  (* RECIP_ELEMENTARY_CHARGE = 1 / ELEMENTARY_CHARGE, RECIP_ATOMIC_MASS = 1 / ATOMIC_MASS *)
  Definition evamu_to_ms (x : Q) : Q := sqrt (2 * x * c_e K * (1 / c_amu K)).
  Definition ms_to_evamu (x : Q) : Q := nz ((1 # 2) * (x * x) * (1 / c_e K) * c_amu K).

  (* beam_direction.normalise().mul(evamu_to_ms(beam.energy)) *)
  Definition beam_velocity (dir : vec) (energy : Q) : vec := vmul (normalise dir) (evamu_to_ms energy).
  (* ms_to_evamu(|beam_velocity - target_velocity|) *)
  Definition interaction_energy (bv tv : vec) : Q := ms_to_evamu (vlen (vsub bv tv)).

  (* z-weighted density sum: density_sum += species.charge**2 * density *)
  Definition density_sum (sps : list species) : Q :=
    fold_left (fun a s => nz (a + zq s * zq s * dens s)) sps 0.

  (* the arguments a BeamPopulationRate / BeamEmissionPEC of species s is evaluated at *)
  Definition args3 (bv : vec) (dsum : Q) (s : species) : Q * Q * Q :=
    (interaction_energy bv (vel s), nz (dsum / zq s), temp s).
  Definition apply3 (f : rate3) (a : Q * Q * Q) : Q :=
    match a with (e, n, t) => f e n t end.

  (* ---- BeamCXLine._beam_population (charge_exchange.pyx 232-282) --------------------------- *)
  (* one iteration of the second loop: (pop_coeff, total_ne) *)
  Definition pop_step (bv : vec) (dsum : Q) (acc : Q * Q) (sc : species * rate3) : Q * Q :=
    let s := fst sc in
    let target_ne := dens s * zq s in
    (nz (fst acc + target_ne * apply3 (snd sc) (args3 bv dsum s)), nz (snd acc + target_ne)).
  Definition beam_population (bv : vec) (pd : list (species * rate3)) : Q :=
    let dsum := density_sum (map fst pd) in
    let a := fold_left (pop_step bv dsum) pd (0, 0) in
    nz (fst a / snd a).

  (* ---- BeamCXLine._composite_cx_rate (charge_exchange.pyx 169-230) -------------------------- *)
  (* the five arguments every BeamCXPEC is evaluated at *)
  Definition cx_args (sps : list species) (bfield : vec) (ie tr : Q) : option args5 :=
    match z_effective sps with
    | None => None
    | Some zf => Some (ie, tr, ion_density sps, zf, vlen bfield)
    end.
  (* one iteration of the loop over the excited states: (rate, total_population) *)
  Definition comp_step (bv : vec) (a5 : args5) (acc : Q * Q) (ex : rate5 * list (species * rate3)) : Q * Q :=
    let population := beam_population bv (snd ex) in
    let effective_rate := apply5 (fst ex) a5 in
    (nz (fst acc + population * effective_rate), nz (snd acc + population)).
  Definition composite_cx_rate (sps : list species) (bfield : vec) (ie : Q) (bv : vec) (tr : Q)
             (ground : rate5) (excited : list (rate5 * list (species * rate3))) : option Q :=
    match cx_args sps bfield ie tr with
    | None => None
    | Some a5 =>
        let a := fold_left (comp_step bv a5) excited (apply5 ground a5, 1) in
        Some (nz (fst a / snd a))
    end.

  (* ---- BeamCXLine._populate_cache (charge_exchange.pyx 284-356) ------------------------------ *)
  (* plasma.composition.get(line.element, line.charge + 1) *)
  Definition find_species (sps : list species) (el ch : Z) : option species :=
    find (fun s => (elem s =? el)%Z && (charge s =? ch)%Z) sps.
  (* rates: (donor_metastable, rate, population coefficients of that metastable for each species
     of the composition, in composition order).  A rate with donor_metastable = 1 becomes the ground
     rate (a later one overwrites an earlier one); the others are kept in order, each bundled with
     [(species, coeff)] built by the loop over the composition. *)
  Definition cxrate := (Z * rate5 * list rate3)%type.
  Definition cache_step (sps : list species)
             (acc : option rate5 * list (rate5 * list (species * rate3))) (r : cxrate)
    : option rate5 * list (rate5 * list (species * rate3)) :=
    match r with (m, f, coeffs) =>
      if (m =? 1)%Z then (Some f, snd acc)
      else (fst acc, snd acc ++ [(f, combine sps coeffs)])
    end.
  Definition populate_cache (sps : list species) (rates : list cxrate) :=
    fold_left (cache_step sps) rates (None, []).

  (* ---- BeamCXLine.emission (charge_exchange.pyx 116-167) ------------------------------------- *)
  (* [csps], [line_*], [rates] are what the cache was populated from (the Species objects, the line and the
     provider's rates at the time of _populate_cache); [sps] is the plasma's composition now: ion_density
     and z_effective are read from the live plasma on every call. *)
  Definition cx_emission_gen (csps sps : list species) (bfield : vec)
             (line_elem line_charge : Z) (rates : list cxrate)
             (beam_len beam_z att : Q) (dir : vec) (energy : Q) : outcome :=
    match find_species csps line_elem (line_charge + 1) with
    | None => ErrNoReceiver
    | Some rs =>
      let cache := populate_cache csps rates in
      let donor_density := beam_density beam_len beam_z att in
      if Qeq_bool donor_density 0 then Unchanged else
      let receiver_density := dens rs in
      if Qeq_bool receiver_density 0 then Unchanged else
      let receiver_temperature := temp rs in
      if Qeq_bool receiver_temperature 0 then Unchanged else
      let donor_velocity := beam_velocity dir energy in
      let ie := interaction_energy donor_velocity (vel rs) in
      match fst cache with
      | None => ErrNoGround
      | Some ground =>
        match composite_cx_rate sps bfield ie donor_velocity receiver_temperature ground (snd cache) with
        | None => ErrNoIons
        | Some q => AddLine (c_k4pi K * donor_density * receiver_density * q)
        end
      end
    end.
  (* a model whose cache is fresh: cached composition = current composition *)
  Definition cx_emission (sps : list species) (bfield : vec)
             (line_elem line_charge : Z) (rates : list cxrate)
             (beam_len beam_z att : Q) (dir : vec) (energy : Q) : outcome :=
    cx_emission_gen sps sps bfield line_elem line_charge rates beam_len beam_z att dir energy.

  (* ---- BeamEmissionLine._beam_emission_rate / emission (beam_emission.pyx 99-170) --------------- *)
  Definition bes_step (bv : vec) (dsum : Q) (rate : Q) (sc : species * rate3) : Q :=
    let s := fst sc in
    let target_ne := dens s * zq s in
    nz (rate + target_ne * apply3 (snd sc) (args3 bv dsum s)).
  Definition beam_emission_rate (bv : vec) (rl : list (species * rate3)) : Q :=
    let dsum := density_sum (map fst rl) in
    fold_left (bes_step bv dsum) rl 0.
  (* _populate_cache: one BeamEmissionPEC per species of the composition, in composition order *)
  Definition bes_emission (sps : list species) (pecs : list rate3)
             (beam_len beam_z att : Q) (dir : vec) (energy : Q) : outcome :=
    let beam_dens := beam_density beam_len beam_z att in
    if Qeq_bool beam_dens 0 then Unchanged else
    let bv := beam_velocity dir energy in
    AddLine (c_k4pi K * beam_dens * beam_emission_rate bv (combine sps pecs)).

End WithSqrt.

(* =============================================================================================
   Specification: the property text, written with closed sums (no loops, no guards).
   ============================================================================================= *)

(* q = (q1 + sum k_i q_i) / (1 + sum k_i) for kq = [(k_i, q_i)] *)
Definition weighted_mean (q1 : Q) (kq : list (Q * Q)) : Q :=
  (q1 + Qsum (map (fun p => fst p * snd p) kq)) / (1 + Qsum (map fst kq)).

(* smallest / largest of a non-empty list given as head and tail *)
Definition lmin (x : Q) (l : list Q) : Q := fold_right (fun a m => if Qle_bool a m then a else m) x l.
Definition lmax (x : Q) (l : list Q) : Q := fold_right (fun a m => if Qle_bool m a then a else m) x l.

Definition ionised (sps : list species) : list species := filter (fun s => (0 <? charge s)%Z) sps.

(* Z_eff = sum n Z^2 / sum n Z over the ionised species *)
Definition spec_zeff (sps : list species) : Q :=
  Qsum (map (fun s => dens s * zq s * zq s) (ionised sps)) / Qsum (map (fun s => dens s * zq s) (ionised sps)).
Definition spec_ion_density (sps : list species) : Q := Qsum (map dens sps).

(* sum_j Z_j^2 n_j *)
Definition spec_density_sum (sps : list species) : Q := Qsum (map (fun s => zq s * zq s * dens s) sps).

Section Spec.
  Variable sqrt : Q -> Q.
  Variable K : consts.

  (* the value of the coefficient f of species s: f(E_int,s , sum_j Z_j^2 n_j / Z_s , T_s) *)
  Definition coeff_value (bv : vec) (sps : list species) (sf : species * rate3) : Q :=
    snd sf (interaction_energy sqrt K bv (vel (fst sf))) (spec_density_sum sps / zq (fst sf)) (temp (fst sf)).

  (* relative population of an excited beam state: charge-density weighted mean of the coefficients *)
  Definition spec_population (bv : vec) (pd : list (species * rate3)) : Q :=
    Qsum (map (fun sf => dens (fst sf) * zq (fst sf) * coeff_value bv (map fst pd) sf) pd)
    / Qsum (map (fun sf => dens (fst sf) * zq (fst sf)) pd).

  Definition spec_args5 (sps : list species) (bfield : vec) (bv : vec) (rs : species) : args5 :=
    (interaction_energy sqrt K bv (vel rs), temp rs, spec_ion_density sps, spec_zeff sps, vlen sqrt bfield).

  (* (1/4pi) n_beam n_receiver q *)
  Definition spec_cx_radiance (sps : list species) (bfield : vec) (rs : species) (n_beam : Q) (bv : vec)
             (ground : rate5) (excited : list (rate5 * list rate3)) : Q :=
    let a5 := spec_args5 sps bfield bv rs in
    c_k4pi K * n_beam * dens rs *
    weighted_mean (apply5 ground a5)
                  (map (fun ex => (spec_population bv (combine sps (snd ex)), apply5 (fst ex) a5)) excited).

  (* (1/4pi) n_beam sum_i Z_i n_i q_i(E_int,i , sum_j Z_j^2 n_j / Z_i , T_i) *)
  Definition spec_bes_radiance (n_beam : Q) (bv : vec) (rl : list (species * rate3)) : Q :=
    c_k4pi K * n_beam *
    Qsum (map (fun sf => zq (fst sf) * dens (fst sf) * coeff_value bv (map fst rl) sf) rl).
End Spec.

(* ground rate and excited rates of a rate list in which exactly the listed entries occur *)
Definition excited_of (rates : list (Z * rate5 * list rate3)) : list (rate5 * list rate3) :=
  map (fun r => (snd (fst r), snd r)) (filter (fun r => negb (fst (fst r) =? 1)%Z) rates).
Definition ground_of (rates : list (Z * rate5 * list rate3)) : option rate5 :=
  fold_left (fun g r => if (fst (fst r) =? 1)%Z then Some (snd (fst r)) else g) rates None.
