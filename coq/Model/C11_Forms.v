(* Which presentations of the same mathematical input the five entry points accept, and how they reject the
   others (definitions only).  The table mirrors what the source does with its arguments BEFORE any
   arithmetic, in source order:

   sart.pyx (both functions):
     geometry_matrix.shape                       -> a nested list has no .shape            (AttributeError)
     solution = initial_guess  (cdef np.ndarray)  -> list / NumPy scalar other than float64  (TypeError)
     solution_mv = solution    (double[:])        -> other dtype, read-only, 0-d            (ValueError)
     obs_vector_mv = measurement_vector (double[:])   -> list (TypeError), other dtype / read-only (ValueError)
     geometry_matrix_mv = geometry_matrix (double[:,:]) -> other dtype / read-only           (ValueError)
     laplacian_matrix is only used through np.dot: every form is accepted.
     Typed memoryviews accept any strides (Fortran order, slices, negative strides).
     isinstance(initial_guess, (float, int)): Python float / int / bool and numpy.float64 (a float subclass).
   nnls.py / lstsq.py:
     w_matrix.shape                               -> nested list                          (AttributeError)
     alpha * tikhonov_matrix; tikhonov_matrix[:, :] -> nested list with a Python or NumPy scalar alpha (TypeError);
                                                     with a 0-d array alpha the product is an array
     everything else goes through NumPy assignment into a float64 array: accepted.
   svd.py:
     scipy.linalg.pinv(w_matrix) accepts every form; b_vector.reshape -> nested list     (AttributeError) *)
Require Import Cherab.Common.Qx.

Inductive form := F64 | I32 | I64 | U8 | FBool | F32 | FList | FFortran | FStrided | FReadonly.
Inductive gform := GNone | GPyFloat | GPyInt | GPyBool | GNpFloat64 | GNpFloat32 | GNpInt64 | G0d | GArr (f : form).
Inductive sform := SPyFloat | SPyInt | SNpFloat64 | SNpFloat32 | SNpInt64 | S0d.
Inductive outcome := Accept | ErrValueE | ErrTypeE | ErrAttributeE | ErrOtherE.

Definition outcome_eqb (a b : outcome) : bool :=
  match a, b with
  | Accept, Accept | ErrValueE, ErrValueE | ErrTypeE, ErrTypeE | ErrAttributeE, ErrAttributeE
  | ErrOtherE, ErrOtherE => true
  | _, _ => false
  end.

(* assignment to a typed memoryview double[:] / double[:, :] *)
Definition memoryview_double (f : form) : outcome :=
  match f with
  | F64 | FFortran | FStrided => Accept
  | FList => ErrTypeE
  | _ => ErrValueE
  end.

Definition guess_outcome (g : gform) : outcome :=
  match g with
  | GNone | GPyFloat | GPyInt | GPyBool | GNpFloat64 => Accept
  | GNpFloat32 | GNpInt64 => ErrTypeE
  | G0d => ErrValueE
  | GArr FList => ErrTypeE
  | GArr f => memoryview_double f
  end.

Definition first_error (l : list outcome) : outcome :=
  fold_right (fun o rest => match o with Accept => rest | _ => o end) Accept l.

(* invert_sart and invert_constrained_sart (the Laplacian's form never matters) *)
Definition sart_outcome (fW fb : form) (g : gform) : outcome :=
  first_error [ match fW with FList => ErrAttributeE | _ => Accept end;
                guess_outcome g; memoryview_double fb; memoryview_double fW ].

(* alpha * nested_list: only a 0-d array turns the list into an array; Python and NumPy scalars do not *)
Definition python_scalar (a : sform) : bool := match a with S0d => false | _ => true end.

(* invert_regularised_nnls and invert_regularised_lstsq *)
Definition lsq_outcome (fW : form) (fL : option form) (a : sform) : outcome :=
  first_error [ match fW with FList => ErrAttributeE | _ => Accept end;
                match fL with Some FList => if python_scalar a then ErrTypeE else Accept | _ => Accept end ].

Definition svd_outcome (fW fb : form) : outcome :=
  match fb with FList => ErrAttributeE | _ => Accept end.

Definition oz (b : bool) : Z := if b then 0%Z else 1%Z.
Definition check_sart_forms (fW fb : form) (g : gform) (observed : outcome) : Z :=
  oz (outcome_eqb (sart_outcome fW fb g) observed).
Definition check_lsq_forms (fW : form) (fL : option form) (a : sform) (observed : outcome) : Z :=
  oz (outcome_eqb (lsq_outcome fW fL a) observed).
Definition check_svd_forms (fW fb : form) (observed : outcome) : Z :=
  oz (outcome_eqb (svd_outcome fW fb) observed).

(* ---- documented defaults and parameter order of the entry points (sart.pyx lines 26-27 / 161-163, nnls.py line 24,
   lstsq.py line 23, svd.py line 24).  The harness regenerates the same record from the current source on every run
   and the kernel checks the two equal (coq/Gen/C11/defaults_tie.v).  A call that leaves an argument out is evaluated in
   the model with [arg_or default None]. ---- *)
From Coq Require Import String.
Open Scope string_scope.
Record defaults := {
  sart_params : list string;  csart_params : list string;  nnls_params : list string;
  lstsq_params : list string; svd_params : list string;
  default_max_iterations : Z; default_relaxation : Q; default_conv_tol : Q; default_beta_laplace : Q;
  default_alpha : Q;
  guess_default_is_none : bool; tikhonov_default_is_none : bool;
  seed_is_exp_minus_one : bool          (* "np.zeros(n_sources) + np.exp(-1)" for a missing initial guess *)
}.
Definition model_defaults : defaults := {|
  sart_params := ["geometry_matrix"; "measurement_vector"; "initial_guess"; "max_iterations"; "relaxation"; "conv_tol"];
  csart_params := ["geometry_matrix"; "laplacian_matrix"; "measurement_vector"; "initial_guess"; "max_iterations";
                   "relaxation"; "beta_laplace"; "conv_tol"];
  nnls_params := ["w_matrix"; "b_vector"; "alpha"; "tikhonov_matrix"];
  lstsq_params := ["w_matrix"; "b_vector"; "alpha"; "tikhonov_matrix"];
  svd_params := ["w_matrix"; "b_vector"];
  default_max_iterations := 250;
  default_relaxation := 1;
  default_conv_tol := Qmake 7378697629483821 73786976294838206464;        (* the double 1.0E-4 *)
  default_beta_laplace := Qmake 5764607523034235 576460752303423488;      (* the double 0.01 *)
  default_alpha := Qmake 5764607523034235 576460752303423488;
  guess_default_is_none := true; tikhonov_default_is_none := true; seed_is_exp_minus_one := true |}.

Definition list_string_eqb (a b : list string) : bool :=
  (fix go (a b : list string) : bool :=
     match a, b with [] , [] => true | x :: a', y :: b' => String.eqb x y && go a' b' | _, _ => false end) a b.
Definition defaults_eqb (a b : defaults) : bool :=
  list_string_eqb (sart_params a) (sart_params b) && list_string_eqb (csart_params a) (csart_params b)
  && list_string_eqb (nnls_params a) (nnls_params b) && list_string_eqb (lstsq_params a) (lstsq_params b)
  && list_string_eqb (svd_params a) (svd_params b)
  && Z.eqb (default_max_iterations a) (default_max_iterations b)
  && Qeq_bool (default_relaxation a) (default_relaxation b) && Qeq_bool (default_conv_tol a) (default_conv_tol b)
  && Qeq_bool (default_beta_laplace a) (default_beta_laplace b) && Qeq_bool (default_alpha a) (default_alpha b)
  && Bool.eqb (guess_default_is_none a) (guess_default_is_none b)
  && Bool.eqb (tikhonov_default_is_none a) (tikhonov_default_is_none b)
  && Bool.eqb (seed_is_exp_minus_one a) (seed_is_exp_minus_one b).

Definition arg_or {A : Type} (d : A) (o : option A) : A := match o with Some v => v | None => d end.
Definition dm := model_defaults.
