(* Which presentations of the same mathematical input the five entry points accept, and how they reject the
   others (definitions only).  The table mirrors what the source does with its arguments BEFORE any
   arithmetic, in source order:

   sart.pyx (both functions):
     geometry_matrix.shape                       -> a nested list has no .shape            (AttributeError)
     solution = initial_guess  (cdef np.ndarray)  -> list / NumPy scalar other than float64  (TypeError)
     solution_mv = solution    (double[:])        -> other dtype, read-only, 0-d            (ValueError)
     obs_vector_mv = measurement_vector (double[:])   -> list (TypeError), other dtype / read-only (ValueError)
     geometry_matrix_mv = geometry_matrix (double[:,:]) -> other dtype / read-only           (ValueError)
     laplacian_matrix is only used through np.dot: every form is accepted.
     Typed memoryviews accept any strides (Fortran order, slices, negative strides).
     isinstance(initial_guess, (float, int)): Python float / int / bool and numpy.float64 (a float subclass).
   nnls.py / lstsq.py:
     w_matrix.shape                               -> nested list                          (AttributeError)
     alpha * tikhonov_matrix; tikhonov_matrix[:, :] -> nested list with a Python or NumPy scalar alpha (TypeError);
                                                     with a 0-d array alpha the product is an array
     everything else goes through NumPy assignment into a float64 array: accepted.
   svd.py:
     scipy.linalg.pinv(w_matrix) accepts every form; b_vector.reshape -> nested list     (AttributeError) *)
Require Import Cherab.Common.Qx.

Inductive form := F64 | I32 | I64 | U8 | FBool | F32 | FList | FFortran | FStrided | FReadonly.
Inductive gform := GNone | GPyFloat | GPyInt | GPyBool | GNpFloat64 | GNpFloat32 | GNpInt64 | G0d | GArr (f : form).
Inductive sform := SPyFloat | SPyInt | SNpFloat64 | SNpFloat32 | SNpInt64 | S0d.
Inductive outcome := Accept | ErrValueE | ErrTypeE | ErrAttributeE | ErrOtherE.

Definition outcome_eqb (a b : outcome) : bool :=
  match a, b with
  | Accept, Accept | ErrValueE, ErrValueE | ErrTypeE, ErrTypeE | ErrAttributeE, ErrAttributeE
  | ErrOtherE, ErrOtherE => true
  | _, _ => false
  end.

(* assignment to a typed memoryview double[:] / double[:, :] *)
Definition memoryview_double (f : form) : outcome :=
  match f with
  | F64 | FFortran | FStrided => Accept
  | FList => ErrTypeE
  | _ => ErrValueE
  end.

Definition guess_outcome (g : gform) : outcome :=
  match g with
  | GNone | GPyFloat | GPyInt | GPyBool | GNpFloat64 => Accept
  | GNpFloat32 | GNpInt64 => ErrTypeE
  | G0d => ErrValueE
  | GArr FList => ErrTypeE
  | GArr f => memoryview_double f
  end.

Definition first_error (l : list outcome) : outcome :=
  fold_right (fun o rest => match o with Accept => rest | _ => o end) Accept l.

(* invert_sart and invert_constrained_sart (the Laplacian's form never matters) *)
Definition sart_outcome (fW fb : form) (g : gform) : outcome :=
  first_error [ match fW with FList => ErrAttributeE | _ => Accept end;
                guess_outcome g; memoryview_double fb; memoryview_double fW ].

(* alpha * nested_list: only a 0-d array turns the list into an array; Python and NumPy scalars do not *)
Definition python_scalar (a : sform) : bool := match a with S0d => false | _ => true end.

(* invert_regularised_nnls and invert_regularised_lstsq *)
Definition lsq_outcome (fW : form) (fL : option form) (a : sform) : outcome :=
  first_error [ match fW with FList => ErrAttributeE | _ => Accept end;
                match fL with Some FList => if python_scalar a then ErrTypeE else Accept | _ => Accept end ].

Definition svd_outcome (fW fb : form) : outcome :=
  match fb with FList => ErrAttributeE | _ => Accept end.

Definition oz (b : bool) : Z := if b then 0%Z else 1%Z.
Definition check_sart_forms (fW fb : form) (g : gform) (observed : outcome) : Z :=
  oz (outcome_eqb (sart_outcome fW fb g) observed).
Definition check_lsq_forms (fW : form) (fL : option form) (a : sform) (observed : outcome) : Z :=
  oz (outcome_eqb (lsq_outcome fW fL a) observed).
Definition check_svd_forms (fW fb : form) (observed : outcome) : Z :=
  oz (outcome_eqb (svd_outcome fW fb) observed).
