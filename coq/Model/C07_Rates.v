(* C07 -- the rate objects of cherab/openadas/rates/*.pyx: what evaluate() returns.  Definitions only.

   Every rate interpolates its table in log10 space and returns 10 ** (interpolated value).  The
   transcendental functions and raysect's interpolators are not modelled; they are Section
   variables (oracles):

     L                 the "log domain" (in the implementation: doubles holding log10 of something)
     lg : Q -> L       log10
     ex : L -> Q       10 ** .
     ladd              addition in the log domain
     interp1/2/3       raysect Interpolator1D/2D/3DArray('cubic', extrapolation type) over knots in L
     interpq           raysect Interpolator1DArray over knots in linear space (beam-CX q_ti, q_ni, q_z, q_b)

   Knots and values are handed to the interpolation oracles as functions of the index together with
   the number of knots.  Everything that is NOT an oracle is modelled here exactly: the <= 0 guards,
   the range test that makes raysect raise when the extrapolation type is 'none', the single-point
   branches (Constant1D / Constant2D / IsoMapper2D), the unit conversions, the order of the
   multiplications and of the "rate <= 0 -> 0" exits of BeamCXPEC. *)
Require Import Cherab.Common.Qx.
Open Scope Q_scope.

Inductive outcome := Val (q : Q) | Raise.

Definition firstq (xs : list Q) : Q := nth 0%nat xs 0.
Definition lastq (xs : list Q) : Q := nth (length xs - 1)%nat xs 0.
(* raysect: "Extrapolation not available. Interpolate within function range" *)
Definition inrange (xs : list Q) (x : Q) : bool := Qle_bool (firstq xs) x && Qle_bool x (lastq xs).
Definition nonpos (x : Q) : bool := Qle_bool x 0.
Definition single (xs : list Q) : bool := Nat.eqb (length xs) 1%nat.
Definition at2 (tbl : list (list Q)) (i j : nat) : Q := nth j (nth i tbl []) 0.
Definition at3 (tbl : list (list (list Q))) (i j k : nat) : Q := nth k (nth j (nth i tbl []) []) 0.

(* cherab/core/utility/conversion.py, PhotonToJ.to(x, wavelength) = x / wavelength * conversion_factor *)
Definition photon_to_j (cf wl v : Q) : Q := v / wl * cf.
Definition conv (is_photon : bool) (cf wl : Q) (v : Q) : Q := if is_photon then photon_to_j cf wl v else v.
(* Planck * speed_of_light * 1e9 with the exact SI values (h = 6.62607015e-34 J s, c = 299792458 m/s) *)
Definition hc_nm : Q := (662607015 # 1) * (299792458 # 1) * (1000000000 # 1) / ((10 # 1) ^ 42).

Section Oracles.
  Variable L : Type.
  Variable lg : Q -> L.
  Variable ex : L -> Q.
  Variable ladd : L -> L -> L.
  Variable interp1 : nat -> (nat -> L) -> (nat -> L) -> L -> L.
  Variable interp2 : nat -> nat -> (nat -> L) -> (nat -> L) -> (nat -> nat -> L) -> L -> L -> L.
  Variable interp3 : nat -> nat -> nat -> (nat -> L) -> (nat -> L) -> (nat -> L) -> (nat -> nat -> nat -> L)
                     -> L -> L -> L -> L.
  Variable interpq : nat -> (nat -> Q) -> (nat -> Q) -> Q -> Q.

  (* np.log10(axis) *)
  Definition kn (xs : list Q) : nat -> L := fun i => lg (nth i xs 0).

  (* ---- atomic.pyx, pec.pyx (2-D), radiated_power.pyx:
         __init__: rate = np.log10([PhotonToJ.to](data['rate'])); Interpolator2DArray(log10 ne, log10 te, rate, ...)
         evaluate: if density <= 0 or temperature <= 0: return 0
                   return 10 ** self._rate.evaluate(log10(density), log10(temperature)) ---- *)
  Definition eval2 (cv : Q -> Q) (ext : bool) (xs ys : list Q) (tbl : list (list Q)) (x y : Q) : outcome :=
    if nonpos x || nonpos y then Val 0
    else if negb ext && negb (inrange xs x && inrange ys y) then Raise
    else Val (ex (interp2 (length xs) (length ys) (kn xs) (kn ys) (fun i j => lg (cv (at2 tbl i j))) (lg x) (lg y))).

  (* ---- pec.pyx ThermalCXPEC (3-D) ---- *)
  Definition eval3 (cv : Q -> Q) (ext : bool) (xs ys zs : list Q) (tbl : list (list (list Q))) (x y z : Q) : outcome :=
    if nonpos x || nonpos y || nonpos z then Val 0
    else if negb ext && negb (inrange xs x && inrange ys y && inrange zs z) then Raise
    else Val (ex (interp3 (length xs) (length ys) (length zs) (kn xs) (kn ys) (kn zs)
                          (fun i j k => lg (cv (at3 tbl i j k))) (lg x) (lg y) (lg z))).

  (* ---- beam.pyx BeamStoppingRate / BeamPopulationRate / BeamEmissionPEC:
         sen = log10([PhotonToJ.to](data["sen"])); st = log10(data["st"] / data["sref"])
         _npl_eb = Constant2D | IsoMapper2D(Arg2D, Interpolator1DArray) | Interpolator2DArray   (by len(e), len(n))
         _tp = Interpolator1DArray(log10 t, st)
         evaluate: if energy <= 0 or density <= 0 or temperature <= 0: return 0
                   return 10 ** (_npl_eb(log10 e, log10 n) + _tp(log10 t))
       A single-point t axis is given the same treatment as single-point e and n axes (the value
       does not depend on that argument); the source hands it to Interpolator1DArray. ---- *)
  Definition beam_npl (cv : Q -> Q) (es ns : list Q) (sen : list (list Q)) (e n : Q) : L :=
    if single es && single ns then lg (cv (at2 sen 0 0))
    else if single es then interp1 (length ns) (kn ns) (fun j => lg (cv (at2 sen 0 j))) (lg n)
    else if single ns then interp1 (length es) (kn es) (fun i => lg (cv (at2 sen i 0))) (lg e)
    else interp2 (length es) (length ns) (kn es) (kn ns) (fun i j => lg (cv (at2 sen i j))) (lg e) (lg n).

  Definition beam_tp (ts st : list Q) (sref t : Q) : L :=
    if single ts then lg (nth 0%nat st 0 / sref)
    else interp1 (length ts) (kn ts) (fun k => lg (nth k st 0 / sref)) (lg t).

  Definition free_or_inrange (xs : list Q) (x : Q) : bool := single xs || inrange xs x.

  Definition evalbeam (cv : Q -> Q) (ext : bool) (es ns ts : list Q) (sen : list (list Q)) (st : list Q) (sref : Q)
             (e n t : Q) : outcome :=
    if nonpos e || nonpos n || nonpos t then Val 0
    else if negb ext && negb (free_or_inrange es e && free_or_inrange ns n && free_or_inrange ts t) then Raise
    else Val (ex (ladd (beam_npl cv es ns sen e n) (beam_tp ts st sref t))).

  (* ---- cx.pyx BeamCXPEC:
         qeb = log10(PhotonToJ.to(data["qeb"], wavelength)); qti = data["qti"] / qref; ... (linear space)
         each axis: Interpolator1DArray if len > 1 else Constant1D
         evaluate: if energy <= 0 or temperature <= 0 or density <= 0: return 0     (since /repo commit 67ef6ef)
                   rate = 10 ** _eb(log10 energy)
                   rate *= _ti(temperature);  if rate <= 0: return 0
                   rate *= _ni(density);      if rate <= 0: return 0
                   rate *= _zeff(z_effective);if rate <= 0: return 0
                   rate *= _b(b_field);       if rate <= 0: return 0
                   return rate
       Before 67ef6ef only energy was guarded: that version is kept below as evalcx_code. ---- *)
  Definition lin1 (ks vs : list Q) (qref x : Q) : Q :=
    if single ks then nth 0%nat vs 0 / qref
    else interpq (length ks) (fun i => nth i ks 0) (fun i => nth i vs 0 / qref) x.

  Definition cx_step (ext : bool) (ks vs : list Q) (qref x r : Q) (k : Q -> outcome) : outcome :=
    if negb ext && negb (free_or_inrange ks x) then Raise
    else let r' := r * lin1 ks vs qref x in if nonpos r' then Val 0 else k r'.

  Definition cx_eb (cv : Q -> Q) (ebs qeb : list Q) (e : Q) : Q :=
    ex (if single ebs then lg (cv (nth 0%nat qeb 0))
        else interp1 (length ebs) (kn ebs) (fun i => lg (cv (nth i qeb 0))) (lg e)).

  Definition evalcx (cv : Q -> Q) (ext : bool) (ebs tis nis zs bs qeb qti qni qz qb : list Q) (qref : Q)
             (e t n z b : Q) : outcome :=
    if nonpos e || nonpos t || nonpos n then Val 0
    else if negb ext && negb (free_or_inrange ebs e) then Raise
    else
      cx_step ext tis qti qref t (cx_eb cv ebs qeb e) (fun r2 =>
      cx_step ext nis qni qref n r2 (fun r3 =>
      cx_step ext zs qz qref z r3 (fun r4 =>
      cx_step ext bs qb qref b r4 (fun r5 => Val r5)))).

  (* the source as it was before 67ef6ef: only the energy guard *)
  Definition evalcx_code (cv : Q -> Q) (ext : bool) (ebs tis nis zs bs qeb qti qni qz qb : list Q) (qref : Q)
             (e t n z b : Q) : outcome :=
    if nonpos e then Val 0
    else if negb ext && negb (free_or_inrange ebs e) then Raise
    else
      cx_step ext tis qti qref t (cx_eb cv ebs qeb e) (fun r2 =>
      cx_step ext nis qni qref n r2 (fun r3 =>
      cx_step ext zs qz qref z r3 (fun r4 =>
      cx_step ext bs qb qref b r4 (fun r5 => Val r5)))).
End Oracles.

(* ---- null rates: Null*.evaluate returns 0.0 ---- *)
Definition evalnull : outcome := Val 0.

(* ---- well-formedness of a table (what the repository stores) ---- *)
Definition sorted (xs : list Q) : Prop := forall i j, (i < j < length xs)%nat -> nth i xs 0 < nth j xs 0.
Definition allpos (xs : list Q) : Prop := forall i, (i < length xs)%nat -> 0 < nth i xs 0.
Definition axis (xs : list Q) : Prop := (0 < length xs)%nat /\ sorted xs /\ allpos xs.

Fixpoint sortedb (xs : list Q) : bool :=
  match xs with
  | a :: ((b :: _) as t) => negb (Qle_bool b a) && sortedb t
  | _ => true
  end.
Definition allposb (xs : list Q) : bool := forallb (fun x => negb (Qle_bool x 0)) xs.
Definition axisb (xs : list Q) : bool := negb (Nat.eqb (length xs) 0) && sortedb xs && allposb xs.

(* ---- what the proofs assume about the oracles -------------------------------------------------- *)
Definition same (a b : outcome) : Prop :=
  match a, b with Val x, Val y => x == y | Raise, Raise => True | _, _ => False end.

Definition distinct {L : Type} (ex : L -> Q) (n : nat) (k : nat -> L) : Prop :=
  forall i j, (i < n)%nat -> (j < n)%nat -> i <> j -> ~ ex (k i) == ex (k j).
Definition distinctq (n : nat) (k : nat -> Q) : Prop :=
  forall i j, (i < n)%nat -> (j < n)%nat -> i <> j -> ~ k i == k j.
Definition increasingq (n : nat) (k : nat -> Q) : Prop :=
  forall i j, (i < j < n)%nat -> k i < k j.
(* the knots a 1-D log-space interpolator is built on: log10 of a valid axis with at least two points
   (Interpolator1DArray is only constructed when len(axis) > 1) *)
Definition log_axis {L : Type} (lg : Q -> L) (n : nat) (k : nat -> L) : Prop :=
  exists xs, axis xs /\ (2 <= length xs)%nat /\ n = length xs /\ forall i, k i = lg (nth i xs 0).

(* 10 ** log10 v = v for v > 0; 10 ** (a + b) = 10 ** a * 10 ** b; 10 ** a >= 0;
   every interpolator returns the stored value when evaluated exactly at a knot *)
Record oracle_laws (L : Type) (lg : Q -> L) (ex : L -> Q) (ladd : L -> L -> L)
       (interp1 : nat -> (nat -> L) -> (nat -> L) -> L -> L)
       (interp2 : nat -> nat -> (nat -> L) -> (nat -> L) -> (nat -> nat -> L) -> L -> L -> L)
       (interp3 : nat -> nat -> nat -> (nat -> L) -> (nat -> L) -> (nat -> L) -> (nat -> nat -> nat -> L)
                  -> L -> L -> L -> L)
       (interpq : nat -> (nat -> Q) -> (nat -> Q) -> Q -> Q) : Prop := {
  ol_ex_lg : forall v, 0 < v -> ex (lg v) == v;
  ol_ex_add : forall a b, ex (ladd a b) == ex a * ex b;
  ol_ex_nonneg : forall a, 0 <= ex a;
  ol_knot1 : forall n k v i, log_axis lg n k -> (i < n)%nat -> ex (interp1 n k v (k i)) == ex (v i);
  ol_knot2 : forall nx ny kx ky v i j, distinct ex nx kx -> distinct ex ny ky -> (i < nx)%nat -> (j < ny)%nat ->
             ex (interp2 nx ny kx ky v (kx i) (ky j)) == ex (v i j);
  ol_knot3 : forall nx ny nz kx ky kz v i j k, distinct ex nx kx -> distinct ex ny ky -> distinct ex nz kz ->
             (i < nx)%nat -> (j < ny)%nat -> (k < nz)%nat ->
             ex (interp3 nx ny nz kx ky kz v (kx i) (ky j) (kz k)) == ex (v i j k);
  ol_knotq : forall n k v i, (2 <= n)%nat -> increasingq n k -> (i < n)%nat -> interpq n k v (k i) == v i
}.

(* Null*.evaluate(...) of every rate family: 0.0 whatever the arguments (any number of them) *)
Definition evalnull_at (args : list Q) : outcome := Val 0.
