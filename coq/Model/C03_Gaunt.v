(* Executable model of InterpolatedFreeFreeGauntFactor.evaluate (cherab/core/atomic/gaunt.pyx, lines 108-139):
   the branch structure of the provider's Gaunt factor.  log and the 2-D interpolator are oracles.
   Used by the correspondence only (the property statement takes the provider's Gaunt factor as given). *)
Require Import Cherab.Common.Qx.
Open Scope Q_scope.

Inductive gbranch := GZero | GClassical | GBorn | GInterp.

(* EULER_GAMMA = 0.5772156649015329 as the exact rational of the double *)
Definition euler_gamma : Q := Qmake 5199096506725913 9007199254740992.

(* gamma2 = z * z * RYDBERG_CONSTANT_EV / temperature;  u = PH_TO_EV_FACTOR / (temperature * wavelength) *)
Definition gaunt_gamma2 (ryd z te : Q) : Q := z * z * ryd / te.
Definition gaunt_u (ph te wvl : Q) : Q := ph / (te * wvl).

(* if z == 0: return 0
   if u >= u_max or gamma2 >= gamma2_max: return 1                       (classical limit)
   if u < u_min or gamma2 < gamma2_min: return sqrt(3)/pi (log(4/u) - EULER_GAMMA)   (Born approximation)
   return interpolator(log10(u), log10(gamma2)) *)
Definition gaunt_branch (umin umax g2min g2max z u gamma2 : Q) : gbranch :=
  if Qeq_bool z 0 then GZero else
  if Qle_bool umax u || Qle_bool g2max gamma2 then GClassical else
  if negb (Qle_bool umin u) || negb (Qle_bool g2min gamma2) then GBorn else GInterp.

Definition gaunt_value (sqrt3 pi ln4u interp_val : Q) (b : gbranch) : Q :=
  match b with
  | GZero => 0
  | GClassical => 1
  | GBorn => sqrt3 / pi * (ln4u - euler_gamma)
  | GInterp => interp_val
  end.
