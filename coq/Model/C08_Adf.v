(* C08 -- executable models of cherab/openadas/parse/{utility,adf11,adf12,adf15,adf21,adf22}.py and of
   the ADF11 notation change in cherab/openadas/install.py, on the text of a file (list of characters).
   Every parser returns a [table]: a list of entries (keys, shape, value lists) -- the keys carry the
   discrete outcome (charge state, transition, rate class), the shape and the row-major order of the
   value lists carry the axis order.  Definitions only.

   The regular expressions of adf11.py / adf15.py are NOT copied here: the parsers are parameterised by
   them ([rx11], [rx15]) and the harness regenerates coq/Gen/C08/Regex.v from the current source on every
   run.  Three substitutions/splits are modelled directly on tokens and are pinned to their source text
   by the translator: re.split(r"\s{2,}"), re.sub(r"\n*\s+", "\t") + np.fromstring(sep="\t"),
   re.sub(r"Z1[\s*=]", ""). *)
Require Import Cherab.Common.Qx.
Require Import Cherab.Model.C08_Text.
From Coq Require Import Ascii String.
Open Scope Z_scope.

Inductive err := EValue | ERuntime | EIndex | EKey | EType | EAttr | EOther.
Inductive res (A : Type) := Ok (a : A) | Err (e : err).
Arguments Ok {A} a.
Arguments Err {A} e.
Definition bind {A B} (x : res A) (f : A -> res B) : res B := match x with Ok a => f a | Err e => Err e end.
Notation "x <- a ;; b" := (bind a (fun x => b)) (at level 61, a at next level, right associativity).
Definition of_opt {A} (e : err) (o : option A) : res A := match o with Some a => Ok a | None => Err e end.

Fixpoint mapM {A B} (f : A -> option B) (l : list A) : option (list B) :=
  match l with
  | [] => Some []
  | a :: t => match f a, mapM f t with Some b, Some bs => Some (b :: bs) | _, _ => None end
  end.

Inductive key := KZ (z : Z) | KS (s : str).
Record entry := { e_keys : list key; e_shape : list Z; e_vals : list (list Q) }.
Definition table := list entry.

Definition key_eqb (a b : key) : bool :=
  match a, b with KZ x, KZ y => Z.eqb x y | KS x, KS y => streqb x y | _, _ => false end.
Fixpoint keys_eqb (a b : list key) : bool :=
  match a, b with [], [] => true | x :: a', y :: b' => key_eqb x y && keys_eqb a' b' | _, _ => false end.

(* d[keys] = e for an insertion-ordered dictionary: overwrite in place, else append *)
Fixpoint tbl_set (e : entry) (t : table) : table :=
  match t with
  | [] => [e]
  | x :: t' => if keys_eqb (e_keys x) (e_keys e) then e :: t' else x :: tbl_set e t'
  end.

Definition per_cm3 : Q := 1000000 # 1.      (* PerCm3ToPerM3.conversion_factor = 1e6  *)
Definition cm3 : Q := 1 # 1000000.          (* Cm3ToM3.conversion_factor       = 1e-6 *)
Definition scale (f : Q) (l : list Q) : list Q := map (fun x => Qred (f * x)%Q) l.
Definition zlen {A} (l : list A) : Z := Z.of_nat (List.length l).

(* ------------------------------------------------------------------------------------------------
   utility.py: readvalues (lines 96-120).  The stream is the list of remaining lines; readline() at
   the end of the file returns "".  k is nb_read % values_per_line, carried instead of recomputed. *)
Definition readline (ls : list str) : str * list str :=
  match ls with [] => ([], []) | l :: t => (l, t) end.

Definition field (k : nat) (line : str) : str :=
  replace_char "D"%char "E"%char (slice (1 + k * 10) ((k + 1) * 10) line).

Fixpoint readvalues_loop (n k per_line : nat) (cur : str) (ls : list str) : list str * (str * list str) :=
  match n with
  | O => ([], (cur, ls))
  | Datatypes.S n' =>
      let '(cur', ls') := if Nat.eqb k 0 then readline ls else (cur, ls) in
      let f := field k cur' in
      let k' := if Nat.eqb (Datatypes.S k) per_line then O else Datatypes.S k in
      let '(fs, st) := readvalues_loop n' k' per_line cur' ls' in
      (f :: fs, st)
  end.
Definition readvalues (n per_line : nat) (ls : list str) : list str * list str :=
  let '(fs, (_, ls')) := readvalues_loop n 0 per_line [] ls in (fs, ls').

Definition read_floats (n per_line : nat) (ls : list str) : res (list Q * list str) :=
  let '(fs, ls') := readvalues n per_line ls in
  v <- of_opt EValue (mapM parse_float fs) ;; Ok (v, ls').
Definition read_ints (n per_line : nat) (ls : list str) : res (list Z * list str) :=
  let '(fs, ls') := readvalues n per_line ls in
  v <- of_opt EValue (mapM parse_int fs) ;; Ok (v, ls').

Definition int_at (a b : nat) (l : str) : res Z := of_opt EValue (parse_int (slice a b l)).
Definition float_at (a b : nat) (l : str) : res Q := of_opt EValue (parse_float (slice a b l)).
Definition nat_of (z : Z) : nat := Z.to_nat z.

(* Constants of the source that the models use.  They are NOT trusted copies: coq/Gen/C08/Layout.v, regenerated from the
   current source on every run, proves each of them equal to what harness/c08_layout.py reads off the syntax tree
   (column slices of the int()/float() calls in source order, readvalues arguments, truncation variables, the file types
   with a charge correction, the unit factors). *)
Definition adas2x_cols : list (nat * nat) :=
  [(3, 5); (13, 22); (1, 5); (6, 10); (17, 26); (1, 5); (12, 21); (28, 37)]%nat.
Definition adas2x_per_line : nat := 8.
Definition adf12_cols : list (nat * nat) := [(0, 5); (38, 40); (41, 43)]%nat.
Definition adf12_head_reads : list nat := [1; 5; 5]%nat.          (* QEFREF; the five references; the five counts *)
Definition adf12_per_line : nat := 6.
(* (slots read, index of the count that truncates them) for ENER QENER TIEV QTIEV DENSI QDENSI ZEFF QZEFF BMAG QBMAG,
   counts unpacked as nbeam, nti, ndi, nze, nb *)
Definition adf12_sections : list (nat * nat) :=
  [(24, 0); (24, 0); (12, 1); (12, 1); (24, 2); (24, 2); (12, 3); (12, 3); (12, 4); (12, 4)]%nat.
Definition int_c (c : nat * nat) (l : str) : res Z := int_at (fst c) (snd c) l.
Definition float_c (c : nat * nat) (l : str) : res Q := float_at (fst c) (snd c) l.
Definition c2x (i : nat) : nat * nat := nth i adas2x_cols (0, 0)%nat.
Definition c12 (i : nat) : nat * nat := nth i adf12_cols (0, 0)%nat.

(* sv[:, index] = readvalues(file, neb, 8) for index in range(ndt) *)
Fixpoint read_columns (ndt neb : nat) (ls : list str) : res (list (list Q) * list str) :=
  match ndt with
  | O => Ok ([], ls)
  | Datatypes.S d => c <- read_floats neb adas2x_per_line ls ;;
                     r <- read_columns d neb (snd c) ;;
                     Ok (fst c :: fst r, snd r)
  end.
(* sv as a row-major (neb, ndt) array: sv[i][j] = column j, element i *)
Definition columns_to_rows (neb : nat) (cols : list (list Q)) : list Q :=
  flat_map (fun i => map (fun col => nth i col 0%Q) cols) (seq 0 neb).

(* utility.py: parse_adas2x_rate (lines 23-93) *)
Definition parse_adas2x (norm : Q) (ls : list str) : res table :=
  let '(l1, ls) := readline ls in
  _zt <- int_c (c2x 0) l1 ;;
  svref <- float_c (c2x 1) l1 ;;
  let '(_, ls) := readline ls in
  let '(l3, ls) := readline ls in
  neb <- int_c (c2x 2) l3 ;;
  ndt <- int_c (c2x 3) l3 ;;
  tref <- float_c (c2x 4) l3 ;;
  let '(_, ls) := readline ls in
  eb <- read_floats (nat_of neb) adas2x_per_line ls ;;
  dt <- read_floats (nat_of ndt) adas2x_per_line (snd eb) ;;
  let '(_, ls) := readline (snd dt) in
  sv <- read_columns (nat_of ndt) (nat_of neb) ls ;;
  let '(_, ls) := readline (snd sv) in
  let '(l5, ls) := readline ls in
  ntt <- int_c (c2x 5) l5 ;;
  eref <- float_c (c2x 6) l5 ;;
  dref <- float_c (c2x 7) l5 ;;
  let '(_, ls) := readline ls in
  tt <- read_floats (nat_of ntt) adas2x_per_line ls ;;
  let '(_, ls) := readline (snd tt) in
  svt <- read_floats (nat_of ntt) adas2x_per_line ls ;;
  Ok [ {| e_keys := [];
          e_shape := [zlen (fst eb); zlen (fst dt); zlen (fst tt)];
          e_vals := [ fst eb; scale per_cm3 (fst dt); fst tt;
                      scale norm (columns_to_rows (nat_of neb) (fst sv)); scale norm (fst svt);
                      [eref; Qred (per_cm3 * dref)%Q; tref; Qred (norm * svref)%Q] ] |} ].

(* ------------------------------------------------------------------------------------------------
   adf12.py: _parse_block (lines 71-105) and parse_adf12 (lines 24-68) *)
Definition take {A} (n : Z) (l : list A) : list A := firstn (nat_of n) l.

(* the ten data sections: read `slots` values, keep the first counts[ci] *)
Fixpoint read_sections (secs : list (nat * nat)) (counts : list Z) (ls : list str) : res (list (list Q) * list str) :=
  match secs with
  | [] => Ok ([], ls)
  | (n, ci) :: t => v <- read_floats n adf12_per_line ls ;;
                    r <- read_sections t counts (snd v) ;;
                    Ok (take (nth ci counts 0) (fst v) :: fst r, snd r)
  end.

Definition adf12_block (ls : list str) : res (entry * list str) :=
  let '(h, ls) := readline ls in
  up <- int_c (c12 1) h ;;
  lo <- int_c (c12 2) h ;;
  q <- read_floats (nth 0 adf12_head_reads O) adf12_per_line ls ;;
  p <- read_floats (nth 1 adf12_head_reads O) adf12_per_line (snd q) ;;
  c <- read_ints (nth 2 adf12_head_reads O) adf12_per_line (snd p) ;;
  match fst q, fst p, fst c with
  | [qefref], [ebref; tiref; niref; zeref; bref], [_; _; _; _; _] =>
      d <- read_sections adf12_sections (fst c) (snd c) ;;
      match fst d with
      | [eb; qeb; ti; qti; ni; qni; z; qz; b; qb] =>
          Ok ({| e_keys := [KZ up; KZ lo];
                 e_shape := [zlen eb; zlen ti; zlen ni; zlen z; zlen b];
                 e_vals := [ eb; ti; scale per_cm3 ni; z; b;
                             scale cm3 qeb; scale cm3 qti; scale cm3 qni; scale cm3 qz; scale cm3 qb;
                             [ebref; tiref; Qred (per_cm3 * niref)%Q; zeref; bref; Qred (cm3 * qefref)%Q] ] |},
              snd d)
      | _ => Err EOther
      end
  | _, _, _ => Err EOther
  end.

Fixpoint adf12_blocks (n : nat) (ls : list str) (acc : table) : res table :=
  match n with
  | O => Ok acc
  | Datatypes.S n' => b <- adf12_block ls ;; adf12_blocks n' (snd b) (tbl_set (fst b) acc)
  end.

Definition parse_adf12 (ls : list str) : res table :=
  let '(l1, ls) := readline ls in
  cnt <- int_c (c12 0) l1 ;;                 (* adf12.py:40  int(file.readline()[0:5]) : the whole I5 field *)
  adf12_blocks (nat_of cnt) ls [].

(* ------------------------------------------------------------------------------------------------
   adf11.py: parse_adf11 (lines 27-125) *)
Record rx11 := { r11_resolved : re;      (* r"\s*[0-9]+"            line 59 *)
                 r11_first_sep : re;     (* r"^\s*C{0}-{2,}"        line 66 *)
                 r11_sep : re;           (* r"^\s*C*-{2,}"          line 83 *)
                 r11_end_c : re;         (* r"^\s*C{1}-{2,}"        line 102 *)
                 r11_end_dash : re;      (* r"^\s*C{0,1}-{2,}"      line 102 *)
                 r11_c_line : re;        (* r"^\s*C\n"              line 103 *)
                 r11_z1 : re }.          (* r"Z1\s*=*\s*[0-9]+\s*"  line 106 *)

(* np.fromstring(re.sub(r"\n*\s+", "\t", text.strip()), sep="\t"): the blank-separated tokens, read as
   floats up to the first token that is not a number *)
Fixpoint floats_prefix (toks : list str) : list Q :=
  match toks with [] => [] | t :: r => match parse_float t with Some v => v :: floats_prefix r | None => [] end end.
Definition fromstring (ls : list str) : list Q := floats_prefix (split_ws (List.concat ls)).

(* re.sub(r"Z1[\s*=]", "", s) *)
Fixpoint sub_z1 (s : str) : str :=
  match s with
  | a :: ((b :: (c :: t) as t1) as t0) =>
      if (aeqb a "Z"%char && aeqb b "1"%char && (is_ws c || aeqb c "*"%char || aeqb c "="%char))%bool
      then sub_z1 t else a :: sub_z1 t0
  | a :: t0 => a :: sub_z1 t0
  | [] => []
  end.

(* rates_table.reshape((n_t, n_d)) then swapaxes(0, 1), flattened row-major: out[i_d][i_t] = tok[i_t*n_d + i_d] *)
Definition swap_flat (n_t n_d : nat) (toks : list Q) : list Q :=
  flat_map (fun i_d => map (fun i_t => nth (i_t * n_d + i_d) toks 0%Q) (seq 0 n_t)) (seq 0 n_d).

Record st11 := { s_start : option (list str);     (* lines[blockrates_start : i] collected so far (reversed) *)
                 s_charge : Z;
                 s_rates : table }.

Definition store_block (n_t n_d : Z) (dens temps : option (list Q)) (s : st11) (blk : list str) : res table :=
  let toks := fromstring (rev blk) in
  if negb (Z.eqb (zlen toks) (n_t * n_d)) then Err EValue else      (* reshape raises ValueError *)
  match dens, temps with
  | Some d, Some t =>
      Ok (tbl_set {| e_keys := [KZ (s_charge s)]; e_shape := [n_d; n_t];     (* rates.shape after swapaxes *)
                     e_vals := [d; t; swap_flat (nat_of n_t) (nat_of n_d) toks] |} (s_rates s))
  | _, _ => Err EOther                                               (* densities never assigned: NameError *)
  end.

(* the loop of lines 81-123 over lines[startsearch:] *)
Fixpoint adf11_loop (rx : rx11) (n_t n_d : Z) (dens temps : option (list Q)) (ls : list str) (s : st11)
  : res table :=
  match ls with
  | [] => Ok (s_rates s)
  | l :: rest =>
      if re_matches false (r11_sep rx) l then
        r <- match s_start s with
             | None => Ok (s_rates s, false)
             | Some blk =>
                 t <- store_block n_t n_d dens temps s blk ;;
                 if re_matches false (r11_end_c rx) l then Ok (t, true)
                 else if re_matches false (r11_end_dash rx) l then
                        match rest with
                        | [] => Err EIndex
                        | nxt :: _ => Ok (t, re_matches false (r11_c_line rx) nxt)
                        end
                      else Ok (t, false)
             end ;;
        if snd r then Ok (fst r) else
        match re_search false (r11_z1 rx) l with
        | None => Err EAttr                                            (* None.group() *)
        | Some z1 =>
            c <- of_opt EValue (parse_int (sub_z1 z1)) ;;
            adf11_loop rx n_t n_d dens temps rest {| s_start := Some []; s_charge := c; s_rates := fst r |}
        end
      else
        adf11_loop rx n_t n_d dens temps rest
                   {| s_start := match s_start s with Some b => Some (l :: b) | None => None end;
                      s_charge := s_charge s; s_rates := s_rates s |}
  end.

(* lines 64-72: first separator at or after startsearch; returns (lines before it, lines from it on) *)
Fixpoint find_first_sep (rx : rx11) (acc : list str) (ls : list str) : option (list str * list str) :=
  match ls with
  | [] => None
  | l :: rest => if re_matches false (r11_first_sep rx) l then Some (rev acc, ls) else find_first_sep rx (l :: acc) rest
  end.

Definition nth_res {A} (n : nat) (l : list A) : res A := of_opt EIndex (nth_error l n).

Definition parse_adf11 (rx : rx11) (z : Z) (name : str) (ls : list str) : res table :=
  l0 <- nth_res 0 ls ;;
  let tmp := split_2ws (strip l0) in
  t0 <- nth_res 0 tmp ;; z_nuclear <- of_opt EValue (parse_int t0) ;;
  t1 <- nth_res 1 tmp ;; n_d <- of_opt EValue (parse_int t1) ;;
  t2 <- nth_res 2 tmp ;; n_t <- of_opt EValue (parse_int t2) ;;
  t3 <- nth_res 3 tmp ;; _zmin <- of_opt EValue (parse_int t3) ;;
  t4 <- nth_res 4 tmp ;; _zmax <- of_opt EValue (parse_int t4) ;;
  t5 <- nth_res 5 tmp ;;
  _t6 <- nth_res 6 tmp ;;
  let element_name := lower_str (strip_char "/"%char t5) in
  if negb (Z.eqb z z_nuclear && streqb name element_name) then Err EValue else
  l3 <- nth_res 3 ls ;;
  let startsearch := if re_matches false (r11_resolved rx) l3 then 2%nat else 4%nat in
  let body := skipn startsearch ls in
  match find_first_sep rx [] body with
  | Some (grid, rest) =>
      let toks := fromstring grid in
      let dens := firstn (nat_of n_d) toks in
      let temps := skipn (nat_of n_d) toks in
      adf11_loop rx n_t n_d (Some dens) (Some temps) rest {| s_start := None; s_charge := 0; s_rates := [] |}
  | None =>
      adf11_loop rx n_t n_d None None body {| s_start := None; s_charge := 0; s_rates := [] |}
  end.

(* install.py: _notation_adf11_adas2cherab (lines 395-421): which charge a block is stored under *)
Inductive adf11_type := Scd | Acd | Ccd | Plt | Prb | Prc | Pls.
Definition adf11_type_eqb (a b : adf11_type) : bool :=
  match a, b with
  | Scd, Scd | Acd, Acd | Ccd, Ccd | Plt, Plt | Prb, Prb | Prc, Prc | Pls, Pls => true
  | _, _ => false
  end.
(* install.py: `if filetype in ["scd", "plt", "pls"]` (tied to the source by Gen/C08/Layout.v) *)
Definition charge_corrected_types : list adf11_type := [Scd; Plt; Pls].
Definition charge_correction (t : adf11_type) : Z :=
  if existsb (adf11_type_eqb t) charge_corrected_types then -1 else 0.
Definition cherab_charge (t : adf11_type) (z1 : Z) : Z := z1 + charge_correction t.
(* the re-keyed table; the values stay log10 here -- 10**x and the cm^3 factors are applied by the
   comparator through an oracle for 10**x (Model/C08_Check.v) *)
Definition adf11_rekey (t : adf11_type) (tb : table) : table :=
  fold_left (fun acc e => match e_keys e with
                          | [KZ z1] => tbl_set {| e_keys := [KZ (cherab_charge t z1)]; e_shape := e_shape e; e_vals := e_vals e |} acc
                          | _ => acc end) tb [].

(* ------------------------------------------------------------------------------------------------
   adf15.py *)
Record rx15 := { r15_header : re;        (* line 66, the first-line shape check (no IGNORECASE) *)
                 r15_index_header : re;  (* pec_index_header_match (three copies, required identical) *)
                 r15_hyd : re;           (* pec_hydrogen_transition_match *)
                 r15_hlike : re;         (* pec_full_transition_match of _scrape_metadata_hydrogen_like *)
                 r15_cfg_header : re;    (* configuration_header_match *)
                 r15_cfg : re;           (* configuration_string_match *)
                 r15_full : re;          (* pec_full_transition_match of _scrape_metadata_full *)
                 r15_wl : re;            (* wavelength_match *)
                 r15_block : re }.       (* block_id_match *)

Fixpoint drop_until (r : re) (ls : list str) : option (list str) :=      (* while not match(lines[0]): lines.pop(0) *)
  match ls with [] => None | l :: t => if re_matches true r l then Some ls else drop_until r t end.
Fixpoint span_until (r : re) (acc : list str) (ls : list str) : option (list str * list str) :=
  match ls with [] => None | l :: t => if re_matches true r l then Some (rev acc, ls) else span_until r (l :: acc) t end.

Definition cls_of (t : str) : res str :=
  if streqb t (S_ "EXCIT") then Ok (S_ "excitation")
  else if streqb t (S_ "RECOM") then Ok (S_ "recombination")
  else if streqb t (S_ "CHEXC") then Ok (S_ "thermalcx")
  else Err EValue.

(* config[rate_type][..][(upper, lower)] = block_num ; config["wavelength"][..][(upper, lower)] = wavelength *)
Record cfg := { c_blocks : list (list key * Z); c_wl : table }.
Fixpoint assoc_set (k : list key) (v : Z) (l : list (list key * Z)) : list (list key * Z) :=
  match l with [] => [(k, v)] | (k', v') :: t => if keys_eqb k' k then (k, v) :: t else (k', v') :: assoc_set k v t end.
Definition cfg_add (c : cfg) (cls : str) (u l : key) (bn : Z) (wl : Q) : cfg :=
  {| c_blocks := assoc_set [KS cls; u; l] bn (c_blocks c);
     c_wl := tbl_set {| e_keys := [KS (S_ "wavelength"); u; l]; e_shape := []; e_vals := [[wl]] |} (c_wl c) |}.
Definition cfg_empty : cfg := {| c_blocks := []; c_wl := [] |}.

Definition grp_int (i : nat) (c : caps) : res Z := of_opt EValue (parse_int (get_cap i c)).
Definition grp_float (i : nat) (c : caps) : res Q := of_opt EValue (parse_float (get_cap i c)).

(* the loop bodies of _scrape_metadata_hydrogen / _hydrogen_like (same shape, different pattern) *)
Fixpoint scrape_n (r : re) (ls : list str) (c : cfg) : res cfg :=
  match ls with
  | [] => Ok c
  | l :: t =>
      match re_match true r l with
      | None => scrape_n r t c
      | Some g =>
          bn <- grp_int 1 g ;; w <- grp_float 2 g ;; up <- grp_int 3 g ;; lo <- grp_int 4 g ;;
          cls <- cls_of (get_cap 5 g) ;;
          scrape_n r t (cfg_add c cls (KZ up) (KZ lo) bn (Qred (w / (10 # 1))%Q))
      end
  end.
Definition scrape_hydrogen (rx : rx15) (ls : list str) : res cfg :=
  idx <- of_opt EIndex (drop_until (r15_index_header rx) ls) ;; scrape_n (r15_hyd rx) idx cfg_empty.
Definition scrape_hydrogen_like (rx : rx15) (ls : list str) : res cfg :=
  idx <- of_opt EIndex (drop_until (r15_index_header rx) ls) ;; scrape_n (r15_hlike rx) idx cfg_empty.

Definition l_lookup (n : Z) : option str :=
  match nth_error (S_ "SPDFGHIKLMNOQR") (Z.to_nat n) with
  | Some c => if Z.leb 0 n then Some [c] else None
  | None => None
  end.

Fixpoint scrape_configs (r : re) (ls : list str) (d : list (Z * str)) : res (list (Z * str)) :=
  match ls with
  | [] => Ok d
  | l :: t =>
      match re_match true r l with
      | None => scrape_configs r t d
      | Some g =>
          cid <- grp_int 1 g ;;
          lnum <- grp_int 4 g ;;
          lq <- of_opt EKey (l_lookup lnum) ;;
          let conf := lower_str (rstrip (get_cap 2 g)) in
          let name := conf ++ [sp] ++ get_cap 3 g ++ lq ++ get_cap 5 g in
          scrape_configs r t ((cid, name) :: filter (fun p => negb (Z.eqb (fst p) cid)) d)
      end
  end.
Fixpoint cfg_lookup (cid : Z) (d : list (Z * str)) : res str :=
  match d with [] => Err EKey | (k, v) :: t => if Z.eqb k cid then Ok v else cfg_lookup cid t end.

Fixpoint scrape_full_idx (r : re) (d : list (Z * str)) (ls : list str) (c : cfg) : res cfg :=
  match ls with
  | [] => Ok c
  | l :: t =>
      match re_match true r l with
      | None => scrape_full_idx r d t c
      | Some g =>
          bn <- grp_int 1 g ;; w <- grp_float 2 g ;;
          uid <- grp_int 3 g ;; up <- cfg_lookup uid d ;;
          lid <- grp_int 4 g ;; lo <- cfg_lookup lid d ;;
          cls <- cls_of (get_cap 5 g) ;;
          scrape_full_idx r d t (cfg_add c cls (KS up) (KS lo) bn (Qred (w / (10 # 1))%Q))
      end
  end.
Definition scrape_full (rx : rx15) (ls : list str) : res cfg :=
  from_cfg <- of_opt EIndex (drop_until (r15_cfg_header rx) ls) ;;
  sp2 <- of_opt EIndex (span_until (r15_index_header rx) [] from_cfg) ;;
  d <- scrape_configs (r15_cfg rx) (fst sp2) [] ;;
  scrape_full_idx (r15_full rx) d (snd sp2) cfg_empty.

(* _group_by_block (lines 338-355) *)
Fixpoint group_blocks (r : re) (buf : list str) (ls : list str) : list (list str) :=
  match ls with
  | [] => [rev buf]
  | l :: t => if re_matches true r l
              then match buf with [] => group_blocks r [l] t | _ => rev buf :: group_blocks r [l] t end
              else group_blocks r (l :: buf) t
  end.

(* the three `while n != num: next_line = block.pop(0); for value in next_line.split(): ...` loops *)
Fixpoint take_vals (ls : list str) (n cnt : nat) (acc : list Q) : res (list Q * list str) :=
  if Nat.eqb cnt n then Ok (acc, ls) else
  match ls with
  | [] => Err EIndex
  | l :: t => vs <- of_opt EValue (mapM parse_float (split_ws l)) ;;
              take_vals t n (cnt + List.length vs) (acc ++ vs)
  end.

(* _extract_rate (lines 263-335) *)
Fixpoint extract_rate (rx : rx15) (blocks : list (list str)) (bn : Z) : res (list Z * list (list Q)) :=
  match blocks with
  | [] => Err ERuntime                                        (* 'Block number {} was not found' *)
  | b :: more =>
      match b with
      | [] => Err EIndex
      | h :: body =>
          match re_match true (r15_block rx) h with
          | None => extract_rate rx more bn
          | Some g =>
              isel <- grp_int 4 g ;;
              if Z.eqb isel bn then
                nn <- grp_int 1 g ;; nt <- grp_int 2 g ;;
                d <- take_vals body (nat_of nn) 0 [] ;;
                t <- take_vals (snd d) (nat_of nt) 0 [] ;;
                r <- take_vals (snd t) (nat_of (nn * nt)) 0 [] ;;
                Ok ([nn; nt], [scale per_cm3 (fst d); fst t; scale cm3 (fst r)])
              else extract_rate rx more bn
          end
      end
  end.

Fixpoint rates_for (rx : rx15) (blocks : list (list str)) (cls : str) (l : list (list key * Z)) (acc : table) : res table :=
  match l with
  | [] => Ok acc
  | (k, bn) :: t =>
      match k with
      | KS c :: _ =>
          if streqb c cls then
            r <- extract_rate rx blocks bn ;;
            rates_for rx blocks cls t (tbl_set {| e_keys := k; e_shape := fst r; e_vals := snd r |} acc)
          else rates_for rx blocks cls t acc
      | _ => rates_for rx blocks cls t acc
      end
  end.

(* parse_adf15 (lines 45-99).  hyd: header_format == 'hydrogen' or element == hydrogen;
   hlike: header_format == 'hydrogen-like'; one_e: atomic_number - charge == 1; bnd: 'bnd#' in path *)
Definition parse_adf15 (rx : rx15) (hyd hlike one_e bnd : bool) (ls : list str) : res table :=
  let '(header, _) := readline ls in
  if negb (re_matches false (r15_header rx) header) then Err EValue else
  c <- (if hyd then scrape_hydrogen rx ls
        else if hlike then scrape_hydrogen_like rx ls
        else if one_e then
               c1 <- scrape_hydrogen_like rx ls ;;
               match c_blocks c1 with
               | [] => if bnd then scrape_hydrogen rx ls else Ok c1
               | _ => Ok c1
               end
        else scrape_full rx ls) ;;
  match c_blocks c with
  | [] => Err ERuntime                                        (* 'Unable to parse ADF15 metadata.' *)
  | _ =>
      let blocks := group_blocks (r15_wl rx) [] ls in
      t1 <- rates_for rx blocks (S_ "excitation") (c_blocks c) [] ;;
      t2 <- rates_for rx blocks (S_ "recombination") (c_blocks c) t1 ;;
      t3 <- rates_for rx blocks (S_ "thermalcx") (c_blocks c) t2 ;;
      Ok (t3 ++ c_wl c)
  end.

(* ------------------------------------------------------------------------------------------------
   Writer models (FORTRAN list output): records of `per_line` fields, each one blank + the 9-character
   text, as used by ADF12/21/22; and blank-separated token records as used by ADF11/ADF15. *)
Fixpoint chunks_aux {A} (fuel : nat) (n : nat) (l : list A) : list (list A) :=
  match fuel with
  | O => []
  | Datatypes.S f => match l with [] => [] | _ => firstn n l :: chunks_aux f n (skipn n l) end
  end.
Definition chunks {A} (n : nat) (l : list A) : list (list A) := chunks_aux (List.length l) n l.

Definition write_record (fields : list str) : str := flat_map (fun f => sp :: f) fields ++ [nl].
Definition write_values (per_line : nat) (fields : list str) : list str :=
  map write_record (chunks per_line fields).

(* ------------------------------------------------------------------------------------------------
   install.py: the install_files dispatcher and the wiring of the six install_adf11* functions, as tables
   (regenerated from the source into coq/Gen/C08/Layout.v; the predicates below are checked there by the kernel). *)
Definition adf_kinds : list str :=
  map S_ ["adf11scd"; "adf11acd"; "adf11ccd"; "adf11plt"; "adf11prb"; "adf11prc"; "adf12"; "adf15"; "adf21"; "adf22bmp"; "adf22bme"]%string.
(* install_files: one branch per key, compared in lower case, calling one install function *)
Definition dispatch (t : list (str * str)) (key : str) : list str :=
  map snd (filter (fun kf => streqb (lower_str key) (fst kf)) t).
Definition dispatch_ok (t : list (str * str)) : bool :=
  forallb (fun kf => streqb (snd kf) (S_ "install_" ++ fst kf)) t
  && forallb (fun k => Nat.eqb (List.length (filter (fun kf => streqb k (fst kf)) t)) 1) adf_kinds
  && Nat.eqb (List.length t) (List.length adf_kinds).
(* which repository table an ADF11 type belongs to *)
Definition adf11_updates : list (str * str) :=
  [(S_ "scd", S_ "update_ionisation_rates"); (S_ "acd", S_ "update_recombination_rates");
   (S_ "ccd", S_ "update_thermal_cx_rates"); (S_ "plt", S_ "update_line_power_rates");
   (S_ "prb", S_ "update_continuum_power_rates"); (S_ "prc", S_ "update_cx_power_rates")].
(* (function, file type handed to _notation_adf11_adas2cherab, repository.update_* called) *)
Definition wiring_ok (t : list (str * (str * str))) : bool :=
  forallb (fun w => let '(fn, (ft, upd)) := w in
                    streqb fn (S_ "install_adf11" ++ ft)
                    && existsb (fun p => streqb (fst p) ft && streqb (snd p) upd) adf11_updates) t
  && forallb (fun p => Nat.eqb (List.length (filter (fun w => streqb (fst (snd w)) (fst p)) t)) 1) adf11_updates
  && Nat.eqb (List.length t) 6.
Definition type_of_name (s : str) : option adf11_type :=
  if streqb s (S_ "scd") then Some Scd else if streqb s (S_ "acd") then Some Acd else if streqb s (S_ "ccd") then Some Ccd
  else if streqb s (S_ "plt") then Some Plt else if streqb s (S_ "prb") then Some Prb else if streqb s (S_ "prc") then Some Prc
  else if streqb s (S_ "pls") then Some Pls else None.

(* ------------------------------------------------------------------------------------------------
   install.py: _thermalcx_adf15_2dto3d_converter (lines 424-444): a thermal-CX block of an ADF15 file (2-D in ne, te) is
   stored as a 3-D table over two donor temperatures with the same values, donor hydrogen 0, receiver charge + 1 *)
Definition thermalcx_td : list Q := [1 # 100; 10000 # 1].
Definition thermalcx_3d (charge : Z) (e : entry) : option entry :=
  match e_keys e, e_shape e, e_vals e with
  | KS cls :: tr, [n; t], [ne; te; rate] =>
      if streqb cls (S_ "thermalcx") then
        Some {| e_keys := KS (S_ "hydrogen") :: KZ 0 :: KZ (charge + 1) :: tr;
                e_shape := [n; t; zlen thermalcx_td];
                e_vals := [ne; te; thermalcx_td; flat_map (fun r => map (fun _ => r) thermalcx_td) rate] |}
      else None
  | _, _, _ => None
  end.
Definition thermalcx_table (charge : Z) (t : table) : table :=
  flat_map (fun e => match thermalcx_3d charge e with Some x => [x] | None => [] end) t.

(* install.py: _locate_adas_file (lines 352-385) as a decision: where the file is taken from *)
Inductive located := InAdasPath | InCache | Download | NotLocated.
Definition locate (adas_path_given in_adas_path download in_cache : bool) : located :=
  if (adas_path_given && in_adas_path)%bool then InAdasPath
  else if download then (if in_cache then InCache else Download)
  else NotLocated.                         (* the install_* functions turn this into ValueError *)
