(* Model of cherab/tools/inversions/nnls.py (invert_regularised_nnls, lines 24-72),
   lstsq.py (invert_regularised_lstsq, lines 23-64) and svd.py (invert_svd, lines 24-42), and the
   certificate checkers for their outputs.  Definitions only; proofs are in Proofs/C11_Kkt.v.

   The third-party solvers (scipy.optimize.nnls, numpy.linalg.lstsq, scipy.linalg.pinv) are Section
   variables; what the wrappers themselves do is mirrored:
     tikhonov_matrix = identity(n) if None; tikhonov_matrix = alpha * tikhonov_matrix   (53-56 / 48-51)
     c_matrix = [W ; alpha L]  ((m+n) x n),  d_vector = [b ; 0]  (m+n)                    (59-65 / 54-60)
     nnls only: vmax = d_vector.max(); solver(c_matrix / vmax, d_vector / vmax); rnorm * vmax (68-72)
       (vmax = 0 gives a matrix of NaN/inf which scipy rejects with ValueError) *)
Require Import Cherab.Common.Qx.
Require Import Cherab.Model.C11_Sart.
From Coq Require Import Qabs.
Open Scope Q_scope.

Fixpoint forallb2 {A B} (p : A -> B -> bool) (l1 : list A) (l2 : list B) : bool :=
  match l1, l2 with
  | [], [] => true
  | a :: t1, b :: t2 => p a b && forallb2 p t1 t2
  | _, _ => false
  end.

Definition scale_row (k : Q) (r : vec) : vec := map (fun v => Qred (k * v)) r.
Definition zeros (n : nat) : vec := repeat 0 n.
Definition identity (n : nat) : mat :=
  map (fun i => map (fun j => if Nat.eqb i j then 1 else 0) (seq 0 n)) (seq 0 n).

Definition stackC (W : mat) (alpha : Q) (L : mat) : mat := W ++ map (scale_row alpha) L.
Definition stackd (b : vec) (n : nat) : vec := b ++ zeros n.

Fixpoint vadd (a b : vec) : vec :=
  match a, b with x :: a', y :: b' => Qred (x + y) :: vadd a' b' | _, _ => [] end.

(* residual C x - d, objective |C x - d|^2, and g = C^T (C x - d) (half the gradient of the objective) *)
Definition resid (C : mat) (d x : vec) : vec := vsub (mv C x) d.
Definition obj (C : mat) (d x : vec) : Q := let r := resid C d x in dot r r.
Fixpoint tmv (C : mat) (r : vec) (n : nat) : vec :=
  match C, r with
  | row :: C', ri :: r' => vadd (scale_row ri row) (tmv C' r' n)
  | _, _ => zeros n
  end.
Definition grad (C : mat) (d x : vec) : vec := tmv C (resid C d x) (length x).

(* the objective of the property statement: |W x - b|^2 + alpha^2 |L x|^2 *)
Definition tikhonov_objective (W : mat) (b : vec) (alpha : Q) (L : mat) (x : vec) : Q :=
  let r := vsub (mv W x) b in let s := mv L x in dot r r + alpha * alpha * dot s s.

(* eps-KKT certificate for  min |C x - d|^2  subject to x >= 0 :
   x >= 0,  g >= -e1 (dual feasibility),  |g_i x_i| <= e2 (complementary slackness) *)
Definition eps_kkt (C : mat) (d x : vec) (e1 e2 : Q) : bool :=
  let g := grad C d x in
  forallb (Qle_bool 0) x
  && forallb (fun gi => Qle_bool (- e1) gi) g
  && forallb2 (fun gi xi => Qle_bool (Qabs (gi * xi)) e2) g x.

(* eps-normal equations for the unconstrained problem: |g_i| <= e *)
Definition eps_normal_eq (C : mat) (d x : vec) (e : Q) : bool :=
  forallb (fun gi => Qle_bool (Qabs gi) e) (grad C d x).

Definition vmax (d : vec) : Q :=
  fold_right (fun v m => if Qle_bool m v then v else m) (hd 0 d) d.

Inductive lsresult := LsOk (x : vec) (r : Q) | LsErrValue.

Section Wrappers.
  (* scipy.optimize.nnls : (A, y) -> (x, |A x - y|) *)
  Variable nnls_solver : mat -> vec -> vec * Q.
  (* numpy.linalg.lstsq : (A, y) -> x  (the reported sum of squared residuals is checked on outputs) *)
  Variable lstsq_solver : mat -> vec -> vec.

  Definition tikhonov_or_identity (n : nat) (L : option mat) : mat :=
    match L with Some l => l | None => identity n end.

  Definition invert_regularised_nnls (n : nat) (W : mat) (b : vec) (alpha : Q) (L : option mat) : lsresult :=
    let C := stackC W alpha (tikhonov_or_identity n L) in
    let d := stackd b n in
    let v := vmax d in
    if Qeq_bool v 0 then LsErrValue
    else let (x, rn) := nnls_solver (map (scale_row (/ v)) C) (scale_row (/ v) d) in LsOk x (rn * v).

  Definition invert_regularised_lstsq (n : nat) (W : mat) (b : vec) (alpha : Q) (L : option mat) : vec :=
    lstsq_solver (stackC W alpha (tikhonov_or_identity n L)) (stackd b n).
End Wrappers.
