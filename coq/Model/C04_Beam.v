(* Model of the beam density / direction code (definitions only; proofs are in Proofs/C04_*.v).

   Sources mirrored (all under /repo/cherab/core):
     beam/node.pyx                      Beam.density, Beam.direction
     model/attenuator/singleray.pyx     SingleRayAttenuator.density, _calc_attenuation,
                                        _beam_attenuation, _beam_stopping
     utility/conversion.py              EvAmuToMS.to / .inv, EvToJ.to

   Reals are exact rationals.  sqrt and exp are oracles (Section variables): the theorems hold for
   every pair of functions with the hypotheses named in Proofs/, the correspondence instantiates
   them with finite tables (Model/C04_Check.v).  tan(divergence) and pi enter as plain numbers
   (fields b_tx, b_ty, k_pi): the code computes tan(DEGREES_TO_RADIANS * divergence) with libm.

   [Qred] (reduction of a fraction to lowest terms; the value is unchanged) appears where intermediate
   fractions would otherwise grow during evaluation; it has no counterpart in the code.

   A plasma species is a record of *functions* (density, temperature, bulk velocity of a point in
   plasma coordinates, stopping coefficient of (energy, density, temperature)): nothing in the model
   or in the theorems depends on the form of these functions. *)
Require Import Cherab.Common.Qx.
From Coq Require Import Qround.
Open Scope Q_scope.

Record vec := mkvec { vx : Q; vy : Q; vz : Q }.
Definition vsub (a b : vec) : vec := mkvec (vx a - vx b) (vy a - vy b) (vz a - vz b).
Definition vscale (k : Q) (a : vec) : vec := mkvec (k * vx a) (k * vy a) (k * vz a).
Definition vadd (a b : vec) : vec := mkvec (vx a + vx b) (vy a + vy b) (vz a + vz b).
Definition norm2 (a : vec) : Q := vx a * vx a + vy a * vy a + vz a * vz a.

Definition Qltb (a b : Q) : bool := negb (Qle_bool b a).

Record species := mkspecies {
  sp_charge : Q;                    (* species.charge (an int in the code) *)
  sp_dens : vec -> Q;               (* species.distribution.density(x, y, z) *)
  sp_temp : vec -> Q;               (* species.distribution.effective_temperature(x, y, z) *)
  sp_vel : vec -> vec;              (* species.distribution.bulk_velocity(x, y, z) *)
  sp_coef : Q -> Q -> Q -> Q        (* BeamStoppingRate.evaluate(energy, density, temperature) *)
}.

(* ---------------------------------------------------------------------------------------------
   SingleRayAttenuator._beam_stopping(x, y, z, beam_velocity)       singleray.pyx:262-306
   cf = EvAmuToMS.conversion_factor (2 e / amu)
   --------------------------------------------------------------------------------------------- *)
(* first loop: density_sum += species.charge**2 * species.distribution.density(x, y, z) *)
Definition density_sum (sp : list species) (r : vec) : Q :=
  fold_left (fun acc s => Qred (acc + sp_charge s * sp_charge s * sp_dens s r)) sp 0.

(* EvAmuToMS.inv(interaction_velocity.length) = length^2 / cf *)
Definition interaction_energy (cf : Q) (bv : vec) (s : species) (r : vec) : Q :=
  Qred (norm2 (vsub bv (sp_vel s r)) / cf).

(* the three arguments handed to coeff.evaluate *)
Definition stopping_args (cf : Q) (bv : vec) (dsum : Q) (s : species) (r : vec) : Q * Q * Q :=
  (interaction_energy cf bv s r, dsum / sp_charge s, sp_temp s r).

(* target_ne * coeff.evaluate(interaction_energy, target_equiv_ne, target_ti) *)
Definition stopping_term (cf : Q) (bv : vec) (dsum : Q) (s : species) (r : vec) : Q :=
  let '(e, n, t) := stopping_args cf bv dsum s r in
  (sp_dens s r * sp_charge s) * sp_coef s e n t.

(* second loop *)
Definition beam_stopping (cf : Q) (sp : list species) (bv : vec) (r : vec) : Q :=
  let dsum := density_sum sp r in
  fold_left (fun acc s => Qred (acc + stopping_term cf bv dsum s r)) sp 0.

(* ---------------------------------------------------------------------------------------------
   scipy cumulative_trapezoid(y, x, initial=0) over a list of nodes (x_i, y_i)
   --------------------------------------------------------------------------------------------- *)
Fixpoint cumtrapz_from (acc z0 s0 : Q) (l : list (Q * Q)) : list Q :=
  match l with
  | [] => []
  | (z1, s1) :: t =>
      let acc' := Qred (acc + (z1 - z0) * (s0 + s1) / 2) in
      acc' :: cumtrapz_from acc' z1 s1 t
  end.
Definition cumtrapz (l : list (Q * Q)) : list Q :=
  match l with [] => [] | (z0, s0) :: t => 0 :: cumtrapz_from 0 z0 s0 t end.

(* ---------------------------------------------------------------------------------------------
   raysect Interpolator1DArray(x, f, 'linear', 'nearest', extrapolation_range) on [x_0, x_last]
   (and constant continuation outside, which is what 'nearest' does inside its range)
   --------------------------------------------------------------------------------------------- *)
Fixpoint interp_from (z0 y0 : Q) (rest : list (Q * Q)) (z : Q) : Q :=
  match rest with
  | [] => y0
  | (z1, y1) :: t =>
      if Qle_bool z z1 then y0 + (y1 - y0) * ((z - z0) / (z1 - z0)) else interp_from z1 y1 t z
  end.
Definition lin_interp (nodes : list (Q * Q)) (z : Q) : Q :=
  match nodes with
  | [] => 0
  | (z0, y0) :: t => if Qle_bool z z0 then y0 else interp_from z0 y0 t z
  end.

(* ---------------------------------------------------------------------------------------------
   configuration of one beam + attenuator + plasma
   --------------------------------------------------------------------------------------------- *)
Record beam_cfg := mkcfg {
  b_energy : Q;        (* beam.energy, eV/amu *)
  b_power : Q;         (* beam.power, W *)
  b_mass : Q;          (* beam.element.atomic_weight, amu *)
  b_sigma : Q;         (* beam.sigma *)
  b_tx : Q;            (* tan(DEGREES_TO_RADIANS * beam.divergence_x) *)
  b_ty : Q;            (* tan(DEGREES_TO_RADIANS * beam.divergence_y) *)
  b_len : Q;           (* beam.length *)
  a_step : Q;          (* attenuator.step *)
  a_clamp : bool;      (* attenuator.clamp_to_zero *)
  a_clamp_sigma : Q;   (* attenuator.clamp_sigma (the code stores its square) *)
  m_axis : vec;        (* beam.to(plasma) applied to the vector (0,0,1): third column *)
  m_origin : vec;      (* beam.to(plasma) applied to the point (0,0,0): fourth column *)
  b_plasma : list species;   (* plasma.composition, in order *)
  k_cf : Q;            (* EvAmuToMS.conversion_factor *)
  k_ec : Q;            (* EvToJ.conversion_factor *)
  k_pi : Q             (* M_PI *)
}.

Definition Zseq (n : Z) : list Z := map Z.of_nat (seq 0 (Z.to_nat n)).

(* nbeam = max(1 + int(np.ceil(self._beam.length / self._step)), 4)     singleray.pyx:202 *)
Definition nbeam (c : beam_cfg) : Z := Z.max (1 + Qceiling (b_len c / a_step c)) 4.

(* beam_z = np.linspace(0.0, length, nbeam) *)
Definition node_z (c : beam_cfg) (n i : Z) : Q := Qred (b_len c * inject_Z i / inject_Z (n - 1)).
Definition beam_z_n (c : beam_cfg) (n : Z) : list Q := map (node_z c n) (Zseq n).
Definition beam_z (c : beam_cfg) : list Q := beam_z_n c (nbeam c).

(* new_point3d(0, 0, bzv).transform(beam_to_plasma) *)
Definition vred (a : vec) : vec := mkvec (Qred (vx a)) (Qred (vy a)) (Qred (vz a)).
Definition axis_point (c : beam_cfg) (z : Q) : vec := vred (vadd (m_origin c) (vscale z (m_axis c))).

Section Oracles.
  Variables sqrtf expf : Q -> Q.

  (* speed = EvAmuToMS.to(energy) = sqrt(energy * cf) *)
  Definition speed (c : beam_cfg) : Q := sqrtf (b_energy c * k_cf c).

  (* beam_velocity = direction.normalise() * speed *)
  Definition beam_velocity (c : beam_cfg) : vec :=
    vred (vscale (speed c) (vscale (1 / sqrtf (norm2 (m_axis c))) (m_axis c))).

  (* beam_particle_rate = power / EvToJ.to(energy * mass);  beam_density = rate / speed *)
  Definition particle_rate (c : beam_cfg) : Q := b_power c / (b_energy c * b_mass c * k_ec c).
  Definition source_density (c : beam_cfg) : Q := particle_rate c / speed c.

  (* stopping_coeff[i] = self._beam_stopping(x[i], y[i], z[i], beam_velocity) *)
  Definition stopping_at (c : beam_cfg) (z : Q) : Q :=
    beam_stopping (k_cf c) (b_plasma c) (beam_velocity c) (axis_point c z).
  Definition stopping_nodes_n (c : beam_cfg) (n : Z) : list (Q * Q) :=
    map (fun z => (z, stopping_at c z)) (beam_z_n c n).
  Definition stopping_nodes (c : beam_cfg) : list (Q * Q) := stopping_nodes_n c (nbeam c).

  (* beam_density * np.exp(-cumulative_trapezoid(stopping_coeff, axis, initial=0) / speed) *)
  Definition line_of (c : beam_cfg) (T : Q) : Q := source_density c * expf (- (T / speed c)).
  (* the nodes of the interpolator for any node count n (the code uses n = nbeam) *)
  Definition line_nodes_n (c : beam_cfg) (n : Z) : list (Q * Q) :=
    combine (beam_z_n c n) (map (line_of c) (cumtrapz (stopping_nodes_n c n))).
  Definition line_nodes (c : beam_cfg) : list (Q * Q) := line_nodes_n c (nbeam c).

  (* sigma_x = sqrt(sigma0_sqr + (z * tanxdiv)**2) *)
  Definition sigma_x (c : beam_cfg) (z : Q) : Q := sqrtf (b_sigma c * b_sigma c + (z * b_tx c) * (z * b_tx c)).
  Definition sigma_y (c : beam_cfg) (z : Q) : Q := sqrtf (b_sigma c * b_sigma c + (z * b_ty c) * (z * b_ty c)).
  Definition norm_radius_sqr_of (sx sy x y : Q) : Q := Qred ((x / sx) * (x / sx) + (y / sy) * (y / sy)).
  Definition norm_radius_sqr (c : beam_cfg) (x y z : Q) : Q :=
    norm_radius_sqr_of (sigma_x c z) (sigma_y c z) x y.
  Definition clamp_sigma_sqr (c : beam_cfg) : Q := a_clamp_sigma c * a_clamp_sigma c.
  Definition clamped (c : beam_cfg) (x y z : Q) : bool :=
    a_clamp c && Qltb (clamp_sigma_sqr c) (norm_radius_sqr c x y z).

  (* exp(-0.5 * norm_radius_sqr) / (2 * M_PI * sigma_x * sigma_y) *)
  Definition gaussian_of (c : beam_cfg) (sx sy r2 : Q) : Q :=
    expf (- (1 # 2) * r2) / (2 * k_pi c * sx * sy).
  Definition gaussian_sample (c : beam_cfg) (x y z : Q) : Q :=
    gaussian_of c (sigma_x c z) (sigma_y c z) (norm_radius_sqr c x y z).

  (* SingleRayAttenuator.density(x, y, z), given the cached interpolator nodes: sigma_x, sigma_y and
     the normalised radius are computed once, then the clamp test, then the product  (lines 154-171) *)
  Definition density_core (nodes : list (Q * Q)) (c : beam_cfg) (sx sy x y z : Q) : Q :=
    let r2 := norm_radius_sqr_of sx sy x y in
    if a_clamp c && Qltb (clamp_sigma_sqr c) r2 then 0
    else lin_interp nodes z * gaussian_of c sx sy r2.
  Definition attenuator_density_with (nodes : list (Q * Q)) (c : beam_cfg) (x y z : Q) : Q :=
    density_core nodes c (sigma_x c z) (sigma_y c z) x y z.

  (* Beam.density(x, y, z)          node.pyx:232-236 *)
  Definition beam_density_with (nodes : list (Q * Q)) (c : beam_cfg) (x y z : Q) : Q :=
    if Qltb z 0 || Qltb (b_len c) z then 0 else attenuator_density_with nodes c x y z.

  Definition beam_density (c : beam_cfg) (x y z : Q) : Q := beam_density_with (line_nodes c) c x y z.

  (* the beam density integrated over the cross-section is, by the normalisation of the Gaussian,
     the line density at z (Proofs/C04_Flux.v) *)
  Definition line_density (c : beam_cfg) (z : Q) : Q := lin_interp (line_nodes c) z.

  (* Beam.direction(x, y, z)        node.pyx:266-280 *)
  Definition direction_raw (c : beam_cfg) (x y z : Q) : vec :=
    let z_tanx_sqr := z * z * b_tx c * b_tx c in
    let z_tany_sqr := z * z * b_ty c * b_ty c in
    let sigma_sqr := b_sigma c * b_sigma c in
    let sigma_x_sqr := sigma_sqr + z_tanx_sqr in
    let sigma_y_sqr := sigma_sqr + z_tany_sqr in
    mkvec (x * z_tanx_sqr / sigma_x_sqr) (y * z_tany_sqr / sigma_y_sqr) z.
  Definition normalise (v : vec) : vec := vscale (1 / sqrtf (norm2 v)) v.
  Definition direction (c : beam_cfg) (x y z : Q) : vec :=
    if Qle_bool z 0 then mkvec 0 0 1 else normalise (direction_raw c x y z).
End Oracles.

(* squares of the beam widths (no oracle): sigma_x(z)^2 = sigma^2 + (z tan)^2 *)
Definition sigma_x_sqr (c : beam_cfg) (z : Q) : Q := b_sigma c * b_sigma c + z * z * b_tx c * b_tx c.
Definition sigma_y_sqr (c : beam_cfg) (z : Q) : Q := b_sigma c * b_sigma c + z * z * b_ty c * b_ty c.

(* ---------------------------------------------------------------------------------------------
   Predicates used in the statements of the theorems (definitions only)
   --------------------------------------------------------------------------------------------- *)
(* the unit bivariate Gaussian of the normalised coordinates u = x/sigma_x, v = y/sigma_y *)
Definition gauss2 (expf : Q -> Q) (c : beam_cfg) (u v : Q) : Q :=
  expf (- (1 # 2) * (u * u + v * v)) / (2 * k_pi c).

(* the same Gaussian cut off outside the clamp radius (clamp_to_zero): zero where u^2 + v^2 > clamp_sigma^2 *)
Definition gauss2_clamped (expf : Q -> Q) (c : beam_cfg) (u v : Q) : Q :=
  if Qltb (a_clamp_sigma c * a_clamp_sigma c) (u * u + v * v) then 0 else gauss2 expf c u v.

(* what is assumed of the sqrt oracle: positive and non-decreasing on positive arguments *)
Definition sqrt_like (f : Q -> Q) : Prop :=
  (forall x, 0 < x -> 0 < f x) /\ (forall x y, 0 < x -> x <= y -> f x <= f y).
(* what is assumed of the exp oracle: non-negative, non-decreasing, a function of the value, exp 0 = 1 *)
Definition exp_like (f : Q -> Q) : Prop :=
  (forall x, 0 <= f x) /\ (forall x y, x <= y -> f x <= f y) /\ (forall x y, x == y -> f x == f y) /\ f 0 == 1.

(* the setters of Beam / SingleRayAttenuator and the physical constants guarantee these *)
Definition cfg_valid (c : beam_cfg) : Prop :=
  0 < b_sigma c /\ 0 < b_len c /\ 0 < k_pi c /\ 0 <= b_power c /\ 0 < b_energy c /\ 0 < b_mass c /\
  0 < k_ec c /\ 0 < k_cf c.

(* charges, densities and stopping coefficients are non-negative *)
Definition plasma_nonneg (c : beam_cfg) : Prop :=
  forall s, In s (b_plasma c) ->
  0 <= sp_charge s /\ (forall r, 0 <= sp_dens s r) /\ (forall e n t, 0 <= sp_coef s e n t).

(* absence of stopping: every stopping coefficient is zero *)
Definition no_stopping (c : beam_cfg) : Prop :=
  forall s, In s (b_plasma c) -> forall e n t, sp_coef s e n t == 0.

(* an abstract integral over the cross-section plane: extensional, homogeneous, invariant under the
   change of variables (x, y) = (sx u, sy v), and normalising the unit Gaussian.  The last two are
   analytic facts about the Lebesgue integral that are NOT proved in Coq here. *)
Definition integral_like (expf : Q -> Q) (c : beam_cfg) (I2 : (Q -> Q -> Q) -> Q) : Prop :=
  (forall f g, (forall x y, f x y == g x y) -> I2 f == I2 g) /\
  (forall k f, I2 (fun x y => k * f x y) == k * I2 f) /\
  (forall g sx sy, 0 < sx -> 0 < sy -> I2 (fun x y => g (x / sx) (y / sy) / (sx * sy)) == I2 g) /\
  I2 (gauss2 expf c) == 1.

(* consecutive elements of a list are related by R *)
Fixpoint chain (R : Q -> Q -> Prop) (x : Q) (l : list Q) : Prop :=
  match l with [] => True | y :: t => R x y /\ chain R y t end.
Definition chained (R : Q -> Q -> Prop) (l : list Q) : Prop :=
  match l with [] => True | x :: t => chain R x t end.

(* int_zref^z (a + b t) dt *)
Definition lin_integral (a b zref z : Q) : Q := a * (z - zref) + b * (z * z - zref * zref) / 2.
