(* Exact replay in IEEE binary64 (round to nearest even; Model/C11_Round.v round53, read-only import) of the
   straight-line double arithmetic of MagneticField, PoloidalFieldVector, FluxSurfaceNormal,
   FluxCoordToCartesian (efit.pyx), Vector3D.normalise / set_length / transform and rotate_z (raysect):
   every operation of the code is one rounded operation here, in the code's order.  Inputs are the doubles the
   running system produced upstream (interpolated d psi, f profile value, the three speeds, the radius, libm's
   sqrt, cos, sin); outputs must be bitwise the doubles the implementation returned.  Definitions only.
   sqrt is the one inexact primitive: its value is taken from the running system and CHECKED to be the
   correctly rounded root (the square of the two half-way neighbours brackets the argument). *)
Require Import Cherab.Common.Qx.
Require Import Cherab.Model.C11_Round.
Require Import Cherab.Model.C12_Equilibrium Cherab.Model.C12_Check.
From Coq Require Import Qabs.
Open Scope Q_scope.

Definition fmul (a b : Q) : Q := round53 (a * b).
Definition fadd (a b : Q) : Q := round53 (a + b).
Definition fdiv (a b : Q) : Q := round53 (a / b).

(* x*x + y*y + z*z as C evaluates it *)
Definition fnorm2 (v : vec) : Q := fadd (fadd (fmul (vx v) (vx v)) (fmul (vy v) (vy v))) (fmul (vz v) (vz v)).
Definition fscale (v : vec) (k : Q) : vec := V (fmul (vx v) k) (fmul (vy v) k) (fmul (vz v) k).

(* s is the correctly rounded square root of the double t > 0: (s - h)^2 <= t <= (s + h)^2, h half an ulp of s *)
Definition sqrt_correctly_rounded (t s : Q) : bool :=
  let h := pow2 (quantum s - 1) in
  Qlt_b 0 s && Qle_bool ((s - h) * (s - h)) t && Qle_bool t ((s + h) * (s + h)) && Qeq_bool (round53 s) s.

(* MagneticField.evaluate *)
Definition b_exact (dr dz r f bvr bvm : Q) (inside : bool) : vec :=
  V (fdiv (- dz) r) (if inside then fdiv f r else fdiv (fmul bvm bvr) r) (fdiv dr r).

(* PoloidalFieldVector / FluxSurfaceNormal given the value s libm returned for sqrt(fnorm2 ...) *)
Definition pol_exact (b : vec) (s : Q) : vec :=
  if inplane_zero b then vzero else fscale (pol_raw b) (fdiv 1 s).
Definition nor_exact (b : vec) (s : Q) : vec :=
  if inplane_zero b then vzero else fscale (nor_raw b) (fdiv 1 s).

(* FluxCoordToCartesian.evaluate *)
Definition f2c_exact (b : vec) (s vt vp vn : Q) : vec :=
  if inplane_zero b then V (fadd 0 0) vt (fadd 0 0)
  else let pol := fscale (pol_raw b) (fdiv vp s) in
       let nor := fscale (nor_raw b) (fdiv vn s) in
       V (fadd (vx pol) (vx nor)) vt (fadd (vz pol) (vz nor)).

(* Vector3D.transform(rotate_z(phi)): rows (c, -s, 0), (s, c, 0), (0, 0, 1) *)
Definition rot_exact (c s : Q) (v : vec) : vec :=
  V (fadd (fadd (fmul c (vx v)) (fmul (- s) (vy v))) (fmul 0 (vz v)))
    (fadd (fadd (fmul s (vx v)) (fmul c (vy v))) (fmul 0 (vz v)))
    (fadd (fadd (fmul 0 (vx v)) (fmul 0 (vy v))) (fmul 1 (vz v))).

(* the sqrt entry of the case whose argument is the double t *)
Fixpoint sqrt_at (tbl : list (Q * Q)) (t : Q) : option Q :=
  match tbl with [] => None | (k, v) :: rest => if Qeq_bool k t then Some v else sqrt_at rest t end.

(* 0 = every stage bitwise equal; 93 = the harness's sqrt argument is not the rounded b_r^2 + 0 + b_z^2;
   94 = libm's sqrt value is not the correctly rounded root; otherwise the first stage that differs *)
Definition check_exact (c : case) : Z :=
  let inside := negb (Qeq_bool (o_inside c) 0) in
  let b := b_exact (c_dr c) (c_dz c) (c_r c) (c_f c) (c_bvr c) (c_bvm c) inside in
  if negb (veqb b (o_b c)) then 5%Z
  else if inplane_zero b then
    (if negb (veqb vzero (o_pol c)) then 7 else if negb (veqb vzero (o_nor c)) then 8
     else if inside && negb (veqb (f2c_exact b 1 (c_vt c) (c_vp c) (c_vn c)) (o_v2 c)) then 9 else 0)%Z
  else
    let t := fnorm2 (pol_raw b) in
    if negb (Qeq_bool t (fnorm2 (nor_raw b))) then 93%Z
    else match sqrt_at (c_sqrt c) t with
    | None => 93%Z
    | Some s =>
      if negb (sqrt_correctly_rounded t s) then 94%Z
      else if negb (veqb (pol_exact b s) (o_pol c)) then 7%Z
      else if negb (veqb (nor_exact b s) (o_nor c)) then 8%Z
      else let v2 := if inside then f2c_exact b s (c_vt c) (c_vp c) (c_vn c) else c_outv c in
           if negb (veqb v2 (o_v2 c)) then 9%Z
           else if negb (Z.eqb (c_skip c) 10) && negb (veqb (rot_exact (fst (c_cs c)) (snd (c_cs c)) v2) (o_v3 c)) then 10%Z
           else 0%Z
    end.
