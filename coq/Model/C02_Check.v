(* C02: finite oracle tables and the boolean comparator used by the correspondence (definitions only).
   The model of Model/C02_LineShape.v is run by vm_compute with erf, sqrt, pow, log, exp and the
   Stark bin integral instantiated by look-up tables written by the harness (the keys are the exact
   rational arguments the MODEL asks for; a missing key yields an absurd value and the case fails). *)
Require Import Cherab.Common.Qx.
Require Import Cherab.Model.C02_LineShape Cherab.Model.C02_Quadrature Cherab.Model.C02_Policy.
From Coq Require String.
From Coq Require Import Qabs.
Open Scope Q_scope.

(* binary search tree keyed by Q (the harness emits it balanced, keys strictly increasing in-order) *)
Inductive qtree := QLeaf | QNode (l : qtree) (k v v2 : Q) (r : qtree).
Fixpoint qlookup (t : qtree) (x : Q) : option (Q * Q) :=
  match t with
  | QLeaf => None
  | QNode l k v v2 r =>
    match Qcompare x k with Eq => Some (v, v2) | Lt => qlookup l x | Gt => qlookup r x end
  end.

Definition missing : Q := pow2 200.
Definition look1 (t : qtree) (x : Q) : Q := match qlookup t x with Some (v, _) => v | None => missing end.

Fixpoint assoc2 (l : list (Q * Q * Q)) (x y : Q) : Q :=
  match l with
  | [] => missing
  | (a, b, v) :: t => if Qeq_bool a x && Qeq_bool b y then v else assoc2 t x y
  end.

(* Stark bin integrals: per (lam, fwhm) a tree keyed by the lower limit a, holding (upper limit, value) *)
Fixpoint lookI (l : list (Q * Q * qtree)) (lam w a b : Q) : Q :=
  match l with
  | [] => missing
  | (lam', w', t) :: rest =>
    if Qeq_bool lam' lam && Qeq_bool w' w
    then match qlookup t a with Some (v, b') => if Qeq_bool b' b then v else missing | None => missing end
    else lookI rest lam w a b
  end.

Record otabs := { tE : qtree; tS : qtree; tP : list (Q * Q * Q); tLn : qtree; tEx : qtree; tI : list (Q * Q * qtree) }.

Fixpoint forallb3 (p : Z -> Q -> Q -> bool) (i : Z) (l1 l2 : list Q) : bool :=
  match l1, l2 with
  | [], [] => true
  | a :: t1, b :: t2 => p i a b && forallb3 p (i + 1)%Z t1 t2
  | _, _ => false
  end.

(* Tolerance.  The model evaluates the erf arguments exactly; the code rounds the bin edge (1.5 ulp of the
   wavelength scale W), the component centre (2-5 roundings) and the product with 1/(sqrt2 sigma) (3 roundings):
   |du| <= ~5 * 2^-53 * W / (sqrt2 sigma), |erf'| <= 1.13, two erf values per bin and the factor R/(2 delta):
   worst case |R| / delta * 2^-51 * W / sigma per component.  Allowed: twice that plus 2^-47 for the rounding of
   erf itself and of the final arithmetic:
       |R| / delta * (2^-47 + 2^-50 * W / width)
   (measured over the quick tier: at most 6% of it is used).  For the Stark part, whose bins the code integrates
   with a Gauss-Legendre rule stopped at 1e-5 relative change, additionally 2^-13 of the bin's own Stark
   contribution (measured against the closed form: <= 3.8e-5 while a bin is <= 1 FWHM wide). *)
Definition Qmax (a b : Q) : Q := if Qle_bool a b then b else a.
Definition wscale (g : grid) : Q := Qmax (Qabs (gmin g)) (Qabs (gmax g)).
Definition tol_uniform (g : grid) (R width : Q) : Q :=
  Qabs R / gdelta g * (pow2 (-47) + pow2 (-50) * (wscale g / width)).

Section Cmp.
  Variable E : Q -> Q.
  Variable sqrt2 : Q.
  Variable I : Q -> Q -> Q -> Q -> Q.

  (* Rsup = the radiance supplied to add_line: the component radiances are weights <= 1 times Rsup, and a
     weight that is 0 in exact arithmetic may be +-1e-16 in the code (sin^2 = 1 - cos^2 for B parallel to the
     line of sight), so every component is allowed the rounding of the full radiance *)
  Definition comp_tol (Rsup : Q) (g : grid) (c : comp) (i : Z) : Q :=
    match c with
    | GaussC R lam sig => if Qle_bool sig 0 then tol_uniform g Rsup (wscale g) else tol_uniform g Rsup sig
    | LorC R lam w => if Qle_bool w 0 then 0 else tol_uniform g Rsup w + pow2 (-13) * Qabs (lbin I R lam w g i)
    end.
  Definition comps_tol (Rsup : Q) (g : grid) (cs : list comp) (i : Z) : Q := Qsum (map (fun c => comp_tol Rsup g c i) cs).

  Fixpoint usage3 (i : Z) (tol : Z -> Q) (l1 l2 : list Q) : Q :=
    match l1, l2 with
    | [], [] => 0
    | m :: t1, o :: t2 =>
      let d := Qabs (Qred m - o) in
      let t := Qred (tol i) in
      let u := if Qeq_bool d 0 then 0 else if Qle_bool t 0 then 2 else Qred (d / t) in
      Qmax u (usage3 (i + 1)%Z tol t1 t2)
    | _, _ => 2
    end.

  (* one case: the model's spectrum after the component list against the implementation's;
     the result is max_i |model_i - impl_i| / tol_i  (the case agrees iff this is <= 1) *)
  Definition usage_comps (Rsup : Q) (cs : list comp) (g : grid) (smp0 out : list Q) : Q :=
    let model := add_comps E sqrt2 I g cs smp0 in
    usage3 0%Z (comps_tol Rsup g cs) model out.
End Cmp.

(* s is accepted as sqrt(x) when s >= 0 and |s*s - x| <= 2^-50 x *)
Definition sqrt_entry_ok (x s : Q) : bool := Qle_bool 0 s && Qle_bool (Qabs (s * s - x)) (pow2 (-50) * Qabs x).
Fixpoint tree_forall (p : Q -> Q -> bool) (t : qtree) : bool :=
  match t with QLeaf => true | QNode l k v _ r => p k v && tree_forall p l && tree_forall p r end.
Definition sqrt_table_ok (t : qtree) : bool := tree_forall sqrt_entry_ok t.
(* erf table: values within [-1, 1] *)
Definition erf_table_ok (t : qtree) : bool := tree_forall (fun _ v => Qle_bool (-1) v && Qle_bool v 1) t.

(* the tabulated functions are monotone: keys strictly increasing in order, values non-decreasing up to one ulp of 1 *)
Fixpoint tree_inorder (t : qtree) : list (Q * Q) :=
  match t with QLeaf => [] | QNode l k v _ r => tree_inorder l ++ (k, v) :: tree_inorder r end.
Fixpoint sorted_kv (l : list (Q * Q)) : bool :=
  match l with
  | (k1, v1) :: t => match t with
                     | (k2, v2) :: _ => Qltb k1 k2 && Qle_bool v1 (v2 + pow2 (-52) * Qmax 1 (Qabs v2)) && sorted_kv t
                     | [] => true
                     end
  | [] => true
  end.
Definition monotone_table (t : qtree) : bool := sorted_kv (tree_inorder t).
Definition tables_plausible (T : otabs) : bool :=
  sqrt_table_ok (tS T) && erf_table_ok (tE T) && monotone_table (tE T) && monotone_table (tS T)
  && monotone_table (tLn T) && monotone_table (tEx T).

Definition run_usage (T : otabs) (sqrt2 Rsup : Q) (cs : list comp) (g : grid) (smp0 out : list Q) : Q :=
  if tables_plausible T
  then usage_comps (look1 (tE T)) sqrt2 (lookI (tI T)) Rsup cs g smp0 out
  else 3.
Definition agrees (u : Q) : bool := Qle_bool u 1.
Definition maxusage (l : list Q) : Q := fold_right Qmax 0 l.

(* the component lists, with the oracles taken from the tables *)
Definition oS (T : otabs) : Q -> Q := look1 (tS T).
Definition oP (T : otabs) : Q -> Q -> Q := assoc2 (tP T).
Definition oLn (T : otabs) : Q -> Q := look1 (tLn T).
Definition oEx (T : otabs) : Q -> Q := look1 (tEx T).

(* support probe: with radiance = +inf the implementation leaves non-finite values exactly in
   [start, end); the harness passes the list of non-finite bin indices *)
Definition check_support (lam sig : Q) (g : grid) (nonfinite : list Z) : bool :=
  let act := g_active g lam sig in
  let st := g_start g lam sig in
  let en := g_end g lam sig in
  let expected := if act then map (fun k => (st + Z.of_nat k)%Z) (seq 0 (Z.to_nat (en - st))) else [] in
  (length expected =? length nonfinite)%nat && forallb (fun ab => (fst ab =? snd ab)%Z) (combine expected nonfinite).

(* ---- GaussianQuadrature: constructor + setter history, then polynomials it must integrate exactly ---- *)
Fixpoint bools_eqb (a b : list bool) : bool :=
  match a, b with [] , [] => true | x :: t, y :: u => Bool.eqb x y && bools_eqb t u | _, _ => false end.
Fixpoint poly_scale (cs : list Q) (Mk M : Q) : Q :=
  match cs with [] => 0 | c :: t => Qabs c * Mk + poly_scale t (Mk * M) M end.
(* one polynomial: coefficients (increasing powers), limits a b, the implementation's value; exactness is demanded
   for degree <= 2 min_order - 1 under 2^-40 of sum |c_k| M^k |b - a| (rounding of the node sums only) *)
Definition poly_ok (mn : Z) (p : list Q * Q * Q * Q) : bool :=
  let '(cs, a, b, v) := p in
  let M := Qmax 1 (Qmax (Qabs a) (Qabs b)) in
  (Z.of_nat (length cs) <=? 2 * mn)%Z &&
  Qle_bool (Qabs (Qred (poly_int cs 0 a b) - v)) (pow2 (-40) * poly_scale cs 1 M * Qabs (b - a)).
Definition check_quad (mx mn : Z) (rtol_positive : bool) (ops : list qop) (impl_ctor_ok : bool) (impl_errs : list bool)
           (impl_min impl_max : Z) (polys : list (list Q * Q * Q * Q)) : bool :=
  match q_init mx mn rtol_positive with
  | None => negb impl_ctor_ok
  | Some s0 =>
    let '(s, errs) := q_run s0 ops in
    impl_ctor_ok && bools_eqb errs impl_errs && (q_min s =? impl_min)%Z && (q_max s =? impl_max)%Z &&
    forallb (poly_ok (q_min s)) polys
  end.

(* ---- second-order entry points: doppler_shift, thermal_broadening (cpdef, public) and ZeemanStructure.__call__ ---- *)
Definition check_doppler (T : otabs) (K : consts) (w : Q) (dir vel : vec) (out : Q) : bool :=
  sqrt_table_ok (tS T) && close (pow2 (-48)) 0 (doppler_shift K (oS T) w dir vel) out.
Definition check_thermal (T : otabs) (K : consts) (w t m out : Q) : bool :=
  sqrt_table_ok (tS T) && close (pow2 (-48)) 0 (thermal_broadening K (oS T) w t m) out.
Fixpoint pairs_ok (model : list (Q * Q)) (ws rs : list Q) : bool :=
  match model, ws, rs with
  | [], [], [] => true
  | (w, r) :: t, w' :: tw, r' :: tr => Qeq_bool w w' && close (pow2 (-50)) 0 r r' && pairs_ok t tw tr
  | _, _, _ => false
  end.
Definition check_zs (raw : list (Q * Q)) (ws rs : list Q) : bool := pairs_ok (zs_evaluate raw) ws rs.

(* ---- validation policy and the polarisation setter: model outcome against the implementation's ---- *)
Definition check_bool (model impl : bool) : bool := Bool.eqb model impl.
Fixpoint pol_trace_eqb (tr : list (bool * String.string)) (errs : list bool) (gets : list String.string) : bool :=
  match tr, errs, gets with
  | [], [], [] => true
  | (e, s) :: t, e' :: te, s' :: ts => Bool.eqb e e' && String.eqb s s' && pol_trace_eqb t te ts
  | _, _, _ => false
  end.
(* constructor with polarisation `init` (ctor_ok = no ValueError), then setter calls vs: per call (ValueError?, getter) *)
Definition check_pol_history (init : String.string) (ctor_ok : bool) (vs : list String.string) (errs : list bool) (gets : list String.string) : bool :=
  match pol_of_string init with
  | None => negb ctor_ok
  | Some st => ctor_ok && pol_trace_eqb (snd (pol_run st vs)) errs gets
  end.
Fixpoint qlist_eqb (a b : list Q) : bool :=
  match a, b with [], [] => true | x :: t, y :: u => Qeq_bool x y && qlist_eqb t u | _, _ => false end.

(* ---- add_lorentzian_line with the bin integral COMPUTED by the model of the Gauss-Legendre loop (not tabulated):
   per bin |model - impl| <= (2^-40 + 2^-49 W / fwhm) |model| + 2^-70 |R| / delta ---- *)
Definition check_lorentz_gq (T : otabs) (normc : Q) (roots weights : list Q) (mn mx : nat) (rtol : Q)
           (R lam w : Q) (g : grid) (smp0 out : list Q) : bool :=
  let Igq := fun lam' w' a b => stark_bin_integral (oP T) normc roots weights mn mx rtol lam' w' a b in
  let model := add_lorentzian Igq R lam w g smp0 in
  let relt := pow2 (-40) + pow2 (-49) * (wscale g / w) in
  forallb3 (fun _ m o => Qle_bool (Qabs (Qred m - o)) (Qred (relt * Qabs (m - 0) + pow2 (-70) * Qabs R / gdelta g))) 0%Z model out.

(* ---- the oracle keys of the first two levels are COMPUTED HERE from the inputs (level 1) and from the table's own answers
   to level 1 (level 2) and must be present in the tables: the Python walk that filled the tables is checked, not trusted ---- *)
Definition has_key (t : qtree) (x : Q) : bool := match qlookup t x with Some _ => true | None => false end.
Fixpoint has_key2 (l : list (Q * Q * Q)) (x y : Q) : bool :=
  match l with [] => false | (a, b, _) :: t => (Qeq_bool a x && Qeq_bool b y) || has_key2 t x y end.
Inductive kclass := KGauss | KZeeman | KZeemanM | KParam (beta gamma : Q) | KStark (aij bij ne te : Q) | KMse (benergy btemp : Q) (bdir : vec).
Definition norm2 (a : vec) : Q := vx a * vx a + vy a * vy a + vz a * vz a.
Definition thermal_key (K : consts) (t m : Q) : Q := t * k_e K / (m * k_amu K).
Definition keys_ok (T : otabs) (K : consts) (kc : kclass) (w m ts ne te : Q) (dir b : vec) : bool :=
  let S := has_key (tS T) in
  match kc with
  | KGauss => Qle_bool ts 0 || (S (norm2 dir) && S (thermal_key K ts m))
  | KZeeman => Qle_bool ts 0 || (S (norm2 dir) && S (thermal_key K ts m) && S (norm2 b))
  | KZeemanM => Qle_bool ts 0 || (S (thermal_key K ts m) && S (norm2 b))
  | KParam beta gamma =>
    Qle_bool ts 0 ||
    (S (norm2 dir) && S (thermal_key K ts m) && S (norm2 b) && has_key2 (tP T) ts (2 * gamma)
     && S (1 + beta * beta * oP T ts (2 * gamma)))                                  (* level 2: uses the pow answer *)
  | KStark aij bij ne' te' =>
    (Qle_bool ts 0 || S (thermal_key K ts m))
    && (negb (Qltb 0 ne' && Qltb 0 te') || (has_key2 (tP T) ne' aij && has_key2 (tP T) te' bij))
  | KMse benergy btemp bdir =>
    Qle_bool te 0 || Qle_bool ne 0 ||
    (S (norm2 bdir) && S (2 * benergy * k_e K * (1 / k_amu K)) && S (norm2 dir) && S (thermal_key K btemp m)
     && (let bv := vscale (normalise (oS T) bdir) (evamu_to_ms K (oS T) benergy) in
         S (norm2 (cross bv b))))                                                   (* level 2: uses two sqrt answers *)
  end.
