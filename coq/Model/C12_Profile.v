(* Argument policy of the profile-taking entry points of EFITEquilibrium (map2d, map3d and the three
   profile arguments of map_vector2d / map_vector3d; efit.pyx:240-247, 310-330):
     if isinstance(profile, Function1D) or callable(profile): used as it is
     else: profile = np.array(profile, np.float64)                 (ragged nesting: ValueError)
           Interpolator1DArray(profile[0, :], profile[1, :], 'cubic', 'none', 0)
                 0-d / 1-d array, or fewer than two rows: IndexError from the two subscripts;
                 fewer than two knots, knots not strictly increasing: ValueError from the interpolator;
                 further rows are ignored.
   and of the outside values (map2d: default 0.0; map_vector: None or omitted -> Vector3D(0, 0, 0)).
   The accepted array is used AS GIVEN: first row = psi_n knots, second row = values.  Definitions only. *)
Require Import Cherab.Common.Qx.
Require Import Cherab.Model.C12_Equilibrium.
Open Scope Q_scope.

Inductive parg :=
| AFun                                  (* a Function1D object or any callable *)
| AScalar                               (* a bare number: 0-d array *)
| AVec (l : list Q)                     (* 1-d array *)
| AMat (rows : list (list Q))           (* rectangular 2-d array, row by row *)
| ARagged.                              (* nested sequences of unequal lengths *)

Inductive perr := ErrIndex | ErrValue.
Inductive pres := AcceptFun | AcceptArray (knots values : list Q) | Reject (e : perr).

Fixpoint increasing (l : list Q) : bool :=
  match l with
  | a :: ((b :: _) as t) => Qlt_b a b && increasing t
  | _ => true
  end.

Definition convert (a : parg) : pres :=
  match a with
  | AFun => AcceptFun
  | ARagged => Reject ErrValue
  | AScalar => Reject ErrIndex
  | AVec _ => Reject ErrIndex
  | AMat (xs :: ys :: _) =>
      if (length xs <? 2)%nat then Reject ErrValue
      else if increasing xs then AcceptArray xs ys else Reject ErrValue
  | AMat _ => Reject ErrIndex
  end.

(* outcome codes of the correspondence: 0 accepted, 1 IndexError, 2 ValueError *)
Definition outcome_code (r : pres) : Z :=
  match r with AcceptFun => 0 | AcceptArray _ _ => 0 | Reject ErrIndex => 1 | Reject ErrValue => 2 end%Z.
Definition check_policy (a : parg) (observed : list Z) : bool := forallb (Z.eqb (outcome_code (convert a))) observed.

(* value_outside_lcfs of map_vector2d / map_vector3d: `value_outside_lcfs or Vector3D(0, 0, 0)` *)
Definition outside_vector (o : option vec) : vec := match o with Some v => v | None => vzero end.
(* value_outside_lcfs of map2d / map3d: default 0.0 *)
Definition outside_scalar (o : option Q) : Q := match o with Some v => v | None => 0 end.
