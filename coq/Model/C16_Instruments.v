(* C16 -- executable model of cherab/tools/spectroscopy/{instrument,spectrometer,polychromator}.py.
   Definitions only.

   Conventions.
   * Python attributes that hold None / a value are [option]; an attribute that may not exist at
     all (CzernyTurnerSpectrometer never assigns _pipeline_classes) is a [cell].
   * Every IEEE double operation of the source that can round is written [rnd (...)]; [rnd] is a
     parameter of the model.  The history theorems hold for every [rnd]; the bin-width theorem is
     proved for exact arithmetic ([rnd] = identity) and, with a relative slack, for every [rnd]
     with relative error <= u; the correspondence instantiates [rnd] with [round53]
     (round-to-nearest-even to 53 significant bits, defined below), so that the comparison with
     the implementation is EXACT (no tolerance) for ranges, bin counts and pixel arrays.
   * [resolution] of the Czerny-Turner spectrometer (sqrt, cos, tan) is an oracle.
   * raysect's Spectrum.integrate is modelled by its specification: the integral of the linear
     interpolant of the samples at the bin centres with constant extrapolation ([pl_integral]). *)
Require Import Cherab.Common.Qx.
From Coq Require Import String Qround Qabs.
Open Scope Q_scope.

(* ------------------------------------------------------------------------------------------ *)
(* values                                                                                       *)
(* ------------------------------------------------------------------------------------------ *)
Inductive err := ErrValue | ErrType | ErrAttribute | ErrOther.
Inductive res (A : Type) := Ok (a : A) | Err (e : err).
Arguments Ok {A} a. Arguments Err {A} e.
Inductive cell (A : Type) := Missing | NoneV | Val (a : A).
Arguments Missing {A}. Arguments NoneV {A}. Arguments Val {A} a.
(* a double that may be +inf (Polychromator starts its minimum at np.inf) *)
Inductive xq := Fin (q : Q) | PInf.
Inductive pclass := SpectralRadiance0D | Radiance0D.
(* one pipeline kwargs dict: {'name': ...} or {'name': ..., 'filter': <filter object>}; filter
   objects are identified by an id *)
Record kwarg := { kw_name : string; kw_filter : option Z }.

(* what a public call returns / raises *)
Inductive out :=
| OUnit | OX (x : xq) | OZ (z : Z) | OArrs (a : list (list Q))
| OKw (k : list kwarg) | OCl (c : list pclass) | OErr (e : err)
| OPipes (p : list (pclass * kwarg)).      (* create_pipelines(): one pipeline per (class, kwargs) pair *)

(* ------------------------------------------------------------------------------------------ *)
(* round-to-nearest-even to 53 significant bits (normal range only)                             *)
(* ------------------------------------------------------------------------------------------ *)
Definition round_half_even (q : Q) : Z :=
  let f := Qfloor q in
  match Qcompare (q - inject_Z f) (1 # 2) with
  | Lt => f
  | Gt => (f + 1)%Z
  | Eq => if Z.even f then f else (f + 1)%Z
  end.

Definition round53_pos (a : Q) : Q :=
  let e0 := (Z.log2 (Qnum a) - Z.log2 (Zpos (Qden a)) - 52)%Z in
  let e := if Qle_bool (pow2 52) (a / pow2 e0) then e0 else (e0 - 1)%Z in
  Qred (inject_Z (round_half_even (a / pow2 e)) * pow2 e).

Definition round53 (q : Q) : Q :=
  match Qcompare q 0 with
  | Eq => 0
  | Gt => round53_pos q
  | Lt => - round53_pos (- q)
  end.

(* Python int(x): truncation towards zero *)
Definition trunc (q : Q) : Z := if Qle_bool 0 q then Qfloor q else Qceiling q.

(* ------------------------------------------------------------------------------------------ *)
(* SpectroscopicInstrument (instrument.py): lazily filled caches                                *)
(* ------------------------------------------------------------------------------------------ *)
Record base := {
  b_name : string;                      (* _name *)
  b_min : option xq;                    (* _min_wavelength *)
  b_max : option xq;                    (* _max_wavelength *)
  b_bins : option Z;                    (* _spectral_bins *)
  b_classes : cell (list pclass);       (* _pipeline_classes *)
  b_kwargs : option (list kwarg) }.     (* _pipeline_kwargs *)

(* what the subclass hooks _update_spectral_settings / _update_pipeline_* would compute from the
   current parameters.  A [None] field is the point where the hook raises. *)
Record derived := { d_min : option xq; d_max : option xq; d_bins : option Z }.
Record view := { v_d : derived; v_kw : list kwarg; v_cl : list pclass }.

(* instrument.py:104-107 *)
Definition clear_spectral (b : base) : base :=
  {| b_name := b_name b; b_min := None; b_max := None; b_bins := None;
     b_classes := b_classes b; b_kwargs := b_kwargs b |}.

(* instrument.py:44-47  name setter: _name = str(value); _pipeline_kwargs = None *)
Definition set_name (v : string) (b : base) : base :=
  {| b_name := v; b_min := b_min b; b_max := b_max b; b_bins := b_bins b;
     b_classes := b_classes b; b_kwargs := None |}.

Definition set_min (b : base) (x : xq) : base :=
  {| b_name := b_name b; b_min := Some x; b_max := b_max b; b_bins := b_bins b;
     b_classes := b_classes b; b_kwargs := b_kwargs b |}.
Definition set_max (b : base) (x : xq) : base :=
  {| b_name := b_name b; b_min := b_min b; b_max := Some x; b_bins := b_bins b;
     b_classes := b_classes b; b_kwargs := b_kwargs b |}.
Definition set_bins (b : base) (n : Z) : base :=
  {| b_name := b_name b; b_min := b_min b; b_max := b_max b; b_bins := Some n;
     b_classes := b_classes b; b_kwargs := b_kwargs b |}.
Definition set_classes (b : base) (c : cell (list pclass)) : base :=
  {| b_name := b_name b; b_min := b_min b; b_max := b_max b; b_bins := b_bins b;
     b_classes := c; b_kwargs := b_kwargs b |}.
Definition set_kwargs (b : base) (k : option (list kwarg)) : base :=
  {| b_name := b_name b; b_min := b_min b; b_max := b_max b; b_bins := b_bins b;
     b_classes := b_classes b; b_kwargs := k |}.

(* _update_spectral_settings of the subclasses: the three attributes are assigned in the order
   min, max, bins; an exception leaves the earlier assignments in place
   (spectrometer.py:137-141, polychromator.py:208-221) *)
Definition update_spectral (d : derived) (b : base) : base * option err :=
  match d_min d with
  | None => (b, Some ErrValue)
  | Some mn =>
    let b1 := set_min b mn in
    match d_max d with
    | None => (b1, Some ErrValue)
    | Some mx =>
      let b2 := set_max b1 mx in
      match d_bins d with
      | None => (b2, Some ErrValue)
      | Some n => (set_bins b2 n, None)
      end
    end
  end.

(* the five lazily evaluated public properties (instrument.py:49-102) *)
Inductive gop := GetMin | GetMax | GetBins | GetKwargs | GetClasses | CreatePipelines.

Definition out_x (o : option xq) : out := match o with Some x => OX x | None => OErr ErrOther end.
Definition out_z (o : option Z) : out := match o with Some x => OZ x | None => OErr ErrOther end.

Definition gstep (v : view) (g : gop) (b : base) : base * out :=
  match g with
  | GetMin =>
    match b_min b with
    | Some x => (b, OX x)
    | None => let (b', e) := update_spectral (v_d v) b in
              (b', match e with Some e => OErr e | None => out_x (b_min b') end)
    end
  | GetMax =>
    match b_max b with
    | Some x => (b, OX x)
    | None => let (b', e) := update_spectral (v_d v) b in
              (b', match e with Some e => OErr e | None => out_x (b_max b') end)
    end
  | GetBins =>
    match b_bins b with
    | Some n => (b, OZ n)
    | None => let (b', e) := update_spectral (v_d v) b in
              (b', match e with Some e => OErr e | None => out_z (b_bins b') end)
    end
  | GetKwargs =>
    match b_kwargs b with
    | Some k => (b, OKw k)
    | None => (set_kwargs b (Some (v_kw v)), OKw (v_kw v))
    end
  | GetClasses =>
    match b_classes b with
    | Missing => (b, OErr ErrAttribute)       (* AttributeError: no attribute _pipeline_classes *)
    | NoneV => (set_classes b (Val (v_cl v)), OCl (v_cl v))
    | Val c => (b, OCl c)
    end
  | CreatePipelines =>
    (* create_pipelines, instrument.py:65-79: fill both caches, then zip(classes, kwargs) *)
    match b_classes b with
    | Missing => (b, OErr ErrAttribute)
    | cc =>
      let cl := match cc with Val c => c | _ => v_cl v end in
      let kw := match b_kwargs b with Some k => k | None => v_kw v end in
      (set_kwargs (set_classes b (Val cl)) (Some kw), OPipes (combine cl kw))
    end
  end.

(* ------------------------------------------------------------------------------------------ *)
(* list helpers                                                                                 *)
(* ------------------------------------------------------------------------------------------ *)
Definition qmin (a b : Q) : Q := if Qle_bool a b then a else b.
Definition qmax (a b : Q) : Q := if Qle_bool a b then b else a.
Fixpoint qmin_list (l : list Q) : option Q :=
  match l with
  | [] => None
  | x :: t => match qmin_list t with None => Some x | Some m => Some (qmin x m) end
  end.
Fixpoint qmax_list (l : list Q) : option Q :=
  match l with
  | [] => None
  | x :: t => match qmax_list t with None => Some x | Some m => Some (qmax x m) end
  end.

(* strictly increasing (np.any(np.diff(a) <= 0) is False) *)
Fixpoint increasing (l : list Q) : bool :=
  match l with
  | a :: ((b :: _) as t) => negb (Qle_bool b a) && increasing t
  | _ => true
  end.

(* spectrometer.py:96-102: size >= 2 and strictly increasing *)
Definition valid_arr (l : list Q) : bool := (2 <=? Z.of_nat (List.length l))%Z && increasing l.

Section Rounded.
Variable rnd : Q -> Q.

(* np.diff *)
Fixpoint diffs (l : list Q) : list Q :=
  match l with
  | a :: ((b :: _) as t) => rnd (b - a) :: diffs t
  | _ => []
  end.

(* 0.5 * (a[1:] + a[:-1]) ; the multiplication by 0.5 is exact *)
Fixpoint centres (l : list Q) : list Q :=
  match l with
  | a :: ((b :: _) as t) => (1 # 2) * rnd (b + a) :: centres t
  | _ => []
  end.

Definition no_derived : derived := {| d_min := None; d_max := None; d_bins := None |}.

(* number of bins: int(np.ceil((max - min) / step)) *)
Definition nbins (mn mx step : Q) : Z := Qceiling (rnd (rnd (mx - mn) / step)).

(* ---------------------------------------------------------------------------------------- *)
(* Spectrometer (spectrometer.py:25-170)                                                      *)
(* ---------------------------------------------------------------------------------------- *)
(* Spectrometer._update_spectral_settings, spectrometer.py:137-141 *)
Definition sp_derive (mbpp : Z) (w2p : list (list Q)) : derived :=
  match qmin_list (map (fun a => hd 0 a) w2p), qmax_list (map (fun a => last a 0) w2p),
        qmin_list (flat_map diffs w2p) with
  | Some mn, Some mx, Some mw =>
    let step := rnd (mw / inject_Z mbpp) in
    {| d_min := Some (Fin mn); d_max := Some (Fin mx); d_bins := Some (nbins mn mx step) |}
  | _, _, _ => no_derived
  end.

Record sp_state := {
  sp_mbpp : Z;                  (* _min_bins_per_pixel *)
  sp_w2p : list (list Q);       (* _wavelength_to_pixel *)
  sp_wl : list (list Q);        (* _wavelengths *)
  sp_base : base }.

Definition sp_view (s : sp_state) : view :=
  {| v_d := sp_derive (sp_mbpp s) (sp_w2p s);
     v_kw := [ {| kw_name := b_name (sp_base s); kw_filter := None |} ];   (* :135 *)
     v_cl := [ SpectralRadiance0D ] |}.                                    (* :132 *)

Inductive sp_op :=
| SpSetW2p (v : list (list Q)) | SpSetMbpp (v : Q) | SpSetName (v : string)
| SpGet (g : gop) | SpGetW2p | SpGetWl.

(* wavelength_to_pixel setter, spectrometer.py:91-110 *)
Definition sp_set_w2p (v : list (list Q)) (s : sp_state) : res sp_state :=
  if forallb valid_arr v then
    Ok {| sp_mbpp := sp_mbpp s; sp_w2p := v; sp_wl := map centres v;
          sp_base := clear_spectral (sp_base s) |}
  else Err ErrValue.

(* min_bins_per_pixel setter, spectrometer.py:122-129 *)
Definition sp_set_mbpp (v : Q) (s : sp_state) : res sp_state :=
  let n := trunc v in
  if (n <=? 0)%Z then Err ErrValue
  else Ok {| sp_mbpp := n; sp_w2p := sp_w2p s; sp_wl := sp_wl s;
             sp_base := clear_spectral (sp_base s) |}.

Definition sp_with_base (s : sp_state) (b : base) : sp_state :=
  {| sp_mbpp := sp_mbpp s; sp_w2p := sp_w2p s; sp_wl := sp_wl s; sp_base := b |}.

Definition sp_step (o : sp_op) (s : sp_state) : sp_state * out :=
  match o with
  | SpSetW2p v => match sp_set_w2p v s with Ok s' => (s', OUnit) | Err e => (s, OErr e) end
  | SpSetMbpp v => match sp_set_mbpp v s with Ok s' => (s', OUnit) | Err e => (s, OErr e) end
  | SpSetName v => (sp_with_base s (set_name v (sp_base s)), OUnit)
  | SpGet g => let (b, r) := gstep (sp_view s) g (sp_base s) in (sp_with_base s b, r)
  | SpGetW2p => (s, OArrs (sp_w2p s))
  | SpGetWl => (s, OArrs (sp_wl s))
  end.

Record sp_params := { spp_mbpp : Q; spp_w2p : list (list Q); spp_name : string }.

(* a state before __init__ has assigned anything (the fields are overwritten before being read) *)
Definition base0 (c : cell (list pclass)) : base :=
  {| b_name := EmptyString; b_min := None; b_max := None; b_bins := None; b_classes := c; b_kwargs := None |}.

(* Spectrometer.__init__, spectrometer.py:80-84, then SpectroscopicInstrument.__init__,
   instrument.py:34-37 *)
Definition sp_construct (p : sp_params) : res sp_state :=
  let s0 := {| sp_mbpp := 0; sp_w2p := []; sp_wl := []; sp_base := base0 Missing |} in
  match sp_set_mbpp (spp_mbpp p) s0 with
  | Err e => Err e
  | Ok s1 =>
    match sp_set_w2p (spp_w2p p) s1 with
    | Err e => Err e
    | Ok s2 =>
      let b := set_classes (sp_base s2) NoneV in
      let b := set_name (spp_name p) b in
      Ok (sp_with_base s2 (clear_spectral b))
    end
  end.

(* ---------------------------------------------------------------------------------------- *)
(* CzernyTurnerSpectrometer (spectrometer.py:173-351)                                         *)
(* ---------------------------------------------------------------------------------------- *)
Record ct_key := { k_order : Z; k_grating : Q; k_focal : Q; k_spacing : Q; k_angle : Q }.
Variable resolution : ct_key -> Q -> Q.          (* spectrometer.py:332-351, oracle *)
Variable deg2rad : Q -> Q.                       (* np.deg2rad *)

(* :315-317  wl2pix[0] = min_wavelength; wl2pix[i] = wl2pix[i-1] + resolution(wl2pix[i-1]) *)
Fixpoint ct_edges (k : ct_key) (w : Q) (n : nat) : list Q :=
  match n with
  | O => [w]
  | S n' => w :: ct_edges k (rnd (w + resolution k w)) n'
  end.

Record ct_state := {
  ct_k : ct_key;
  ct_acc : option (list (Q * Z));   (* _accommodated_spectra *)
  ct_mbpp : Z;
  ct_w2p : list (list Q);
  ct_wl : list (list Q);
  ct_base : base }.

Definition ct_arrays (k : ct_key) (acc : list (Q * Z)) : list (list Q) :=
  map (fun mp => ct_edges k (fst mp) (Z.to_nat (snd mp))) acc.

(* _update_wavelength_to_pixel, spectrometer.py:303-325 *)
Definition ct_update_w2p (s : ct_state) : ct_state :=
  match ct_acc s with
  | None => s
  | Some acc =>
    let arrs := ct_arrays (ct_k s) acc in
    {| ct_k := ct_k s; ct_acc := ct_acc s; ct_mbpp := ct_mbpp s; ct_w2p := arrs;
       ct_wl := map centres arrs; ct_base := clear_spectral (ct_base s) |}
  end.

Definition ct_with_key (s : ct_state) (k : ct_key) : ct_state :=
  {| ct_k := k; ct_acc := ct_acc s; ct_mbpp := ct_mbpp s; ct_w2p := ct_w2p s; ct_wl := ct_wl s;
     ct_base := ct_base s |}.
Definition ct_with_base (s : ct_state) (b : base) : ct_state :=
  {| ct_k := ct_k s; ct_acc := ct_acc s; ct_mbpp := ct_mbpp s; ct_w2p := ct_w2p s; ct_wl := ct_wl s;
     ct_base := b |}.

Definition key_order (k : ct_key) v := {| k_order := v; k_grating := k_grating k; k_focal := k_focal k; k_spacing := k_spacing k; k_angle := k_angle k |}.
Definition key_grating (k : ct_key) v := {| k_order := k_order k; k_grating := v; k_focal := k_focal k; k_spacing := k_spacing k; k_angle := k_angle k |}.
Definition key_focal (k : ct_key) v := {| k_order := k_order k; k_grating := k_grating k; k_focal := v; k_spacing := k_spacing k; k_angle := k_angle k |}.
Definition key_spacing (k : ct_key) v := {| k_order := k_order k; k_grating := k_grating k; k_focal := k_focal k; k_spacing := v; k_angle := k_angle k |}.
Definition key_angle (k : ct_key) v := {| k_order := k_order k; k_grating := k_grating k; k_focal := k_focal k; k_spacing := k_spacing k; k_angle := v |}.

Inductive ct_op :=
| CtSetOrder (v : Q) | CtSetGrating (v : Q) | CtSetFocal (v : Q) | CtSetSpacing (v : Q)
| CtSetAngle (v : Q) | CtSetAcc (v : list (Q * Z)) | CtSetMbpp (v : Q) | CtSetName (v : string)
| CtGet (g : gop) | CtGetW2p | CtGetWl
| CtAssignW2p (v : list (list Q)).    (* the subclass re-declares wavelength_to_pixel without a setter, :327-330 *)

(* the five scalar setters, spectrometer.py:221-284: validate, assign, _update_wavelength_to_pixel *)
Definition ct_set_order (v : Q) (s : ct_state) : res ct_state :=
  let n := trunc v in
  if (n <=? 0)%Z then Err ErrValue else Ok (ct_update_w2p (ct_with_key s (key_order (ct_k s) n))).
Definition ct_set_pos (upd : ct_key -> Q -> ct_key) (v : Q) (s : ct_state) : res ct_state :=
  if Qle_bool v 0 then Err ErrValue else Ok (ct_update_w2p (ct_with_key s (upd (ct_k s) v))).
Definition ct_set_angle (v : Q) (s : ct_state) : res ct_state :=
  if Qle_bool v 0 then Err ErrValue
  else Ok (ct_update_w2p (ct_with_key s (key_angle (ct_k s) (deg2rad v)))).

(* accommodated_spectra setter, spectrometer.py:290-298 *)
Definition acc_valid (mp : Q * Z) : bool := negb (Qle_bool (fst mp) 0) && negb (snd mp <=? 0)%Z.
Definition ct_set_acc (v : list (Q * Z)) (s : ct_state) : res ct_state :=
  if forallb acc_valid v then
    Ok (ct_update_w2p {| ct_k := ct_k s; ct_acc := Some v; ct_mbpp := ct_mbpp s; ct_w2p := ct_w2p s;
                         ct_wl := ct_wl s; ct_base := ct_base s |})
  else Err ErrValue.

(* inherited min_bins_per_pixel setter *)
Definition ct_set_mbpp (v : Q) (s : ct_state) : res ct_state :=
  let n := trunc v in
  if (n <=? 0)%Z then Err ErrValue
  else Ok {| ct_k := ct_k s; ct_acc := ct_acc s; ct_mbpp := n; ct_w2p := ct_w2p s; ct_wl := ct_wl s;
             ct_base := clear_spectral (ct_base s) |}.

Definition ct_view (s : ct_state) : view :=
  {| v_d := sp_derive (ct_mbpp s) (ct_w2p s);
     v_kw := [ {| kw_name := b_name (ct_base s); kw_filter := None |} ];
     v_cl := [ SpectralRadiance0D ] |}.

Definition lift_res {S} (s : S) (r : res S) : S * out :=
  match r with Ok s' => (s', OUnit) | Err e => (s, OErr e) end.

Definition ct_step (o : ct_op) (s : ct_state) : ct_state * out :=
  match o with
  | CtSetOrder v => lift_res s (ct_set_order v s)
  | CtSetGrating v => lift_res s (ct_set_pos key_grating v s)
  | CtSetFocal v => lift_res s (ct_set_pos key_focal v s)
  | CtSetSpacing v => lift_res s (ct_set_pos key_spacing v s)
  | CtSetAngle v => lift_res s (ct_set_angle v s)
  | CtSetAcc v => lift_res s (ct_set_acc v s)
  | CtSetMbpp v => lift_res s (ct_set_mbpp v s)
  | CtSetName v => (ct_with_base s (set_name v (ct_base s)), OUnit)
  | CtGet g => let (b, r) := gstep (ct_view s) g (ct_base s) in (ct_with_base s b, r)
  | CtGetW2p => (s, OArrs (ct_w2p s))
  | CtGetWl => (s, OArrs (ct_wl s))
  | CtAssignW2p _ => (s, OErr ErrAttribute)          (* AttributeError: can't set attribute; nothing changes *)
  end.

Record ct_params := {
  ctp_order : Q; ctp_grating : Q; ctp_focal : Q; ctp_spacing : Q; ctp_angle : Q;   (* angle in degrees *)
  ctp_acc : list (Q * Z); ctp_mbpp : Q; ctp_name : string }.

Definition bind {A B} (r : res A) (f : A -> res B) : res B :=
  match r with Ok a => f a | Err e => Err e end.

(* CzernyTurnerSpectrometer.__init__, spectrometer.py:208-218: super().__init__ is NOT called, so
   _pipeline_classes is never assigned (stays Missing) *)
Definition ct_construct (p : ct_params) : res ct_state :=
  let k0 := {| k_order := 0; k_grating := 0; k_focal := 0; k_spacing := 0; k_angle := 0 |} in
  let s0 := {| ct_k := k0; ct_acc := None; ct_mbpp := 0; ct_w2p := []; ct_wl := []; ct_base := base0 Missing |} in
  bind (ct_set_order (ctp_order p) s0) (fun s =>
  bind (ct_set_pos key_grating (ctp_grating p) s) (fun s =>
  bind (ct_set_pos key_focal (ctp_focal p) s) (fun s =>
  bind (ct_set_pos key_spacing (ctp_spacing p) s) (fun s =>
  bind (ct_set_angle (ctp_angle p) s) (fun s =>
  bind (ct_set_acc (ctp_acc p) s) (fun s =>
  bind (ct_set_mbpp (ctp_mbpp p) s) (fun s =>
  Ok (ct_with_base s (set_name (ctp_name p) (ct_base s)))))))))).

(* ---------------------------------------------------------------------------------------- *)
(* PolychromatorFilter / TrapezoidalFilter / Polychromator (polychromator.py)                 *)
(* ---------------------------------------------------------------------------------------- *)
Record pfilter := { f_id : Z; f_name : string; f_min : Q; f_max : Q; f_window : Q; f_central : Q }.

(* PolychromatorFilter.__init__, polychromator.py:40-57: sort; min = first, max = last,
   window = max - min *)
Definition mk_filter (id : Z) (name : string) (wavelengths : list Q) : res pfilter :=
  match qmin_list wavelengths, qmax_list wavelengths with
  | Some mn, Some mx => Ok {| f_id := id; f_name := name; f_min := mn; f_max := mx; f_window := rnd (mx - mn);
                            f_central := (1 # 2) * rnd (mx + mn) |}      (* :55-57 *)
  | _, _ => Err ErrOther
  end.

(* TrapezoidalFilter.__init__, polychromator.py:109-134; flat_top = None or 0 means window;
   [eps15] is the double 1.e-15 *)
Definition mk_trapezoid (eps15 : Q) (id : Z) (name : string) (c w : Q) (ft : option Q) : res pfilter :=
  if Qle_bool c 0 then Err ErrValue else
  if Qle_bool w 0 then Err ErrValue else
  let ft := match ft with None => w | Some f => if Qeq_bool f 0 then w else f end in
  if Qle_bool ft 0 then Err ErrValue else
  if negb (Qle_bool ft w) then Err ErrValue else
  let ft' := if Qeq_bool ft w then rnd (ft - rnd (ft * eps15)) else ft in
  mk_filter id name [rnd (c - (1 # 2) * w); rnd (c - (1 # 2) * ft'); rnd (c + (1 # 2) * ft'); rnd (c + (1 # 2) * w)].

Definition xmin (a : xq) (b : Q) : xq :=
  match a with PInf => Fin b | Fin x => Fin (qmin x b) end.

(* Polychromator._update_spectral_settings, polychromator.py:208-221 *)
Definition pc_derive (mbpw : Z) (fs : list pfilter) : derived :=
  let step := fold_left (fun st f => xmin st (rnd (f_window f / inject_Z mbpw))) fs PInf in
  let mn := fold_left (fun m f => xmin m (f_min f)) fs PInf in
  let mx := fold_left (fun m f => qmax m (f_max f)) fs 0 in
  {| d_min := Some mn; d_max := Some (Fin mx);
     d_bins := match step, mn with
               | Fin st, Fin m => Some (nbins m mx st)
               | _, _ => None                       (* (0 - inf) / inf = nan: int() raises ValueError *)
               end |}.

Record pc_state := { pc_mbpw : Z; pc_filters : list pfilter; pc_base : base }.

Definition pc_view (s : pc_state) : view :=
  {| v_d := pc_derive (pc_mbpw s) (pc_filters s);
     v_kw := map (fun f => {| kw_name := (b_name (pc_base s) ++ ": " ++ f_name f)%string;
                              kw_filter := Some (f_id f) |}) (pc_filters s);          (* :206 *)
     v_cl := map (fun _ => Radiance0D) (pc_filters s) |}.                              (* :203 *)

Inductive pc_op :=
| PcSetMbpw (v : Q) | PcSetFilters (v : list (option pfilter)) | PcSetName (v : string) | PcGet (g : gop)
| PcGetFilters.

(* min_bins_per_window setter, polychromator.py:172-179 *)
Definition pc_set_mbpw (v : Q) (s : pc_state) : res pc_state :=
  let n := trunc v in
  if (n <=? 0)%Z then Err ErrValue
  else Ok {| pc_mbpw := n; pc_filters := pc_filters s; pc_base := clear_spectral (pc_base s) |}.

Fixpoint all_some {A} (l : list (option A)) : option (list A) :=
  match l with
  | [] => Some []
  | Some a :: t => match all_some t with Some r => Some (a :: r) | None => None end
  | None :: _ => None
  end.

(* filters setter, polychromator.py:187-195; an element that is not a PolychromatorFilter is None *)
Definition pc_set_filters (v : list (option pfilter)) (s : pc_state) : res pc_state :=
  match all_some v with
  | None => Err ErrType
  | Some fs =>
    Ok {| pc_mbpw := pc_mbpw s; pc_filters := fs;
          pc_base := set_kwargs (set_classes (clear_spectral (pc_base s)) NoneV) None |}
  end.

Definition pc_with_base (s : pc_state) (b : base) : pc_state :=
  {| pc_mbpw := pc_mbpw s; pc_filters := pc_filters s; pc_base := b |}.

Definition pc_step (o : pc_op) (s : pc_state) : pc_state * out :=
  match o with
  | PcSetMbpw v => lift_res s (pc_set_mbpw v s)
  | PcSetFilters v => lift_res s (pc_set_filters v s)
  | PcSetName v => (pc_with_base s (set_name v (pc_base s)), OUnit)
  | PcGet g => let (b, r) := gstep (pc_view s) g (pc_base s) in (pc_with_base s b, r)
  | PcGetFilters => (s, OArrs (map (fun f => [inject_Z (f_id f)]) (pc_filters s)))
  end.

Record pc_params := { pcp_filters : list (option pfilter); pcp_mbpw : Q; pcp_name : string }.

(* Polychromator.__init__, polychromator.py:162-165 *)
Definition pc_construct (p : pc_params) : res pc_state :=
  let b := clear_spectral (set_name (pcp_name p) (set_classes (base0 Missing) NoneV)) in
  let s0 := {| pc_mbpw := 0; pc_filters := []; pc_base := b |} in
  bind (pc_set_mbpw (pcp_mbpw p) s0) (fun s => pc_set_filters (pcp_filters p) s).

(* ---------------------------------------------------------------------------------------- *)
(* running a history                                                                          *)
(* ---------------------------------------------------------------------------------------- *)
Fixpoint run {S O} (step : O -> S -> S * out) (ops : list O) (s : S) : S * list out :=
  match ops with
  | [] => (s, [])
  | o :: t => let (s1, r) := step o s in let (s2, rs) := run step t s1 in (s2, r :: rs)
  end.

End Rounded.

(* ------------------------------------------------------------------------------------------ *)
(* calibrate (spectrometer.py:143-170) and the integral of a raysect Spectrum                   *)
(* ------------------------------------------------------------------------------------------ *)
Definition clamp (lo hi x : Q) : Q := if Qle_bool x lo then lo else if Qle_bool hi x then hi else x.

(* integral over [a,b] of the linear function through (x0,y0),(x1,y1), restricted to [x0,x1] *)
Definition seg_integral (x0 y0 x1 y1 a b : Q) : Q :=
  let u := clamp x0 x1 a in
  let v := clamp x0 x1 b in
  let m := (y1 - y0) / (x1 - x0) in
  (1 # 2) * ((y0 + m * (u - x0)) + (y0 + m * (v - x0))) * (v - u).

Fixpoint segs_integral (xs ys : list Q) (a b : Q) : Q :=
  match xs, ys with
  | x0 :: ((x1 :: _) as xt), y0 :: ((y1 :: _) as yt) =>
    seg_integral x0 y0 x1 y1 a b + segs_integral xt yt a b
  | _, _ => 0
  end.

(* length of [a,b] below x / above x *)
Definition len_below (x a b : Q) : Q := qmin b x - qmin a x.
Definition len_above (x a b : Q) : Q := qmax b x - qmax a x.

(* integral over [a,b] (a <= b) of the linear interpolant of (xs, ys) with constant extrapolation:
   the specification of raysect.core.math.cython.integrate, which Spectrum.integrate calls with
   xs = bin centres, ys = samples *)
Definition pl_integral (xs ys : list Q) (a b : Q) : Q :=
  hd 0 ys * len_below (hd 0 xs) a b + segs_integral xs ys a b + last ys 0 * len_above (last xs 0) a b.

Section Calibrate.
Variable integrate : Q -> Q -> Q.     (* spectrum.integrate *)

(* spectrometer.py:164-167  integrate(w[i], w[i+1]) / (w[i+1] - w[i]) *)
Fixpoint calibrate_arr (w : list Q) : list Q :=
  match w with
  | a :: ((b :: _) as t) => integrate a b / (b - a) :: calibrate_arr t
  | _ => []
  end.

(* widths of the pixels *)
Fixpoint widths (w : list Q) : list Q :=
  match w with
  | a :: ((b :: _) as t) => (b - a) :: widths t
  | _ => []
  end.

Fixpoint dot (l1 l2 : list Q) : Q :=
  match l1, l2 with a :: t1, b :: t2 => a * b + dot t1 t2 | _, _ => 0 end.

(* spectrometer.py:153-170 with the guard on the spectral range; [mn], [mx] are the instrument's
   min_wavelength / max_wavelength *)
Definition calibrate (mn mx smin smax : Q) (w2p : list (list Q)) : res (list (list Q)) :=
  if negb (Qle_bool smin mn) || negb (Qle_bool mx smax) then Err ErrValue
  else Ok (map calibrate_arr w2p).
End Calibrate.

(* the argument of calibrate: a raysect Spectrum (range, bin centres, samples) or anything else *)
Inductive cal_arg := ASpectrum (smin smax : Q) (xs ys : list Q) | ANotSpectrum.

(* calibrate as a public call on an instrument whose current range is (mn, mx): :151 isinstance guard (TypeError),
   :153 range guard (ValueError), :162-168 the loop.  [integral xs ys] is Spectrum.integrate *)
Definition calibrate_call (integral : list Q -> list Q -> Q -> Q -> Q) (mn mx : Q) (w2p : list (list Q)) (a : cal_arg)
  : res (list (list Q)) :=
  match a with
  | ANotSpectrum => Err ErrType
  | ASpectrum smin smax xs ys => calibrate (integral xs ys) mn mx smin smax w2p
  end.

(* the pixels (lower edge, upper edge) of one calibration array *)
Fixpoint pixels (l : list Q) : list (Q * Q) :=
  match l with
  | a :: ((b :: _) as t) => (a, b) :: pixels t
  | _ => []
  end.

Definition exact (x : Q) : Q := x.     (* rnd of exact arithmetic *)

(* ------------------------------------------------------------------------------------------ *)
(* CzernyTurnerSpectrometer.resolution (spectrometer.py:332-351) as a formula.  The trigonometric values of the
   diffraction angle (cosa = cos(angle), tana = tan(angle)) are data, sqrt is a function argument; everything
   else is arithmetic:  p = 0.5 m g w;  dxdp (sqrt(cos^2 - p^2) - p tan) / (m fl g)                              *)
(* ------------------------------------------------------------------------------------------ *)
Definition res_p (k : ct_key) (w : Q) : Q := (1 # 2) * inject_Z (k_order k) * k_grating k * w.
Definition res_den (k : ct_key) : Q := inject_Z (k_order k) * k_focal k * k_grating k.
Definition resolution_of (sqrt : Q -> Q) (cosa tana : Q) (k : ct_key) (w : Q) : Q :=
  let p := res_p k w in
  k_spacing k * (sqrt (cosa * cosa - p * p) - p * tana) / res_den k.
