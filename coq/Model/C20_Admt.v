(* Model of cherab/tools/inversions/admt_utils.py : calculate_admt (definitions only).

   The coefficient formulas are functions of the discrete estimates of the derivatives of psi
   in one cell (the "jet"), of D_perp, D_par and their discrete derivatives, and of the radius.
   A small formal differential algebra (expressions over jet variables with the derivations
   d/dx, d/dy) is used to state what "div (D grad f) in cylindrical geometry" means. *)
Require Import Cherab.Common.Qx.
Require Import Cherab.Model.C20_Stencil.
Open Scope Q_scope.

Record jet := { px : Q; py : Q; pxx : Q; pxy : Q; pyy : Q;
                dperp : Q; dpar : Q;
                dperp_x : Q; dperp_y : Q; dpar_x : Q; dpar_y : Q;
                rad : Q }.

Definition normalisation (j : jet) : Q := px j * px j + py j * py j.

Definition c_xx (j : jet) : Q := (dperp j * (px j * px j) + dpar j * (py j * py j)) / normalisation j.
Definition c_yy (j : jet) : Q := (dperp j * (py j * py j) + dpar j * (px j * px j)) / normalisation j.
Definition c_xy (j : jet) : Q := (dperp j - dpar j) * (px j * py j) / normalisation j.

Definition ddiff_term_cx (j : jet) : Q :=
  px j * px j * dperp_x j + py j * py j * dpar_x j + (px j * py j) * (dperp_y j - dpar_y j).
Definition dnorm_term_cx (j : jet) : Q :=
  -(2) / normalisation j *
  ((dperp j * (px j * px j) + dpar j * (py j * py j)) * (px j * pxx j + py j * pxy j)
   + (dperp j - dpar j) * (px j * py j) * (px j * pxy j + py j * pyy j)).
Definition ddiff_term_cy (j : jet) : Q :=
  py j * py j * dperp_y j + px j * px j * dpar_y j + (px j * py j) * (dperp_x j - dpar_x j).
Definition dnorm_term_cy (j : jet) : Q :=
  -(2) / normalisation j *
  ((dperp j * (py j * py j) + dpar j * (px j * px j)) * (px j * pxy j + py j * pyy j)
   + (dperp j - dpar j) * (px j * py j) * (px j * pxx j + py j * pxy j)).
Definition toroidal_term_cx (j : jet) : Q := c_xx j / rad j * normalisation j.
Definition toroidal_term_cy (j : jet) : Q := c_xy j / rad j * normalisation j.

Definition c_x (j : jet) : Q :=
  (2 * dperp j * pxx j * px j + 2 * dpar j * pxy j * py j
   + (dperp j - dpar j) * (pxy j * py j + pyy j * px j)
   + ddiff_term_cx j + dnorm_term_cx j + toroidal_term_cx j) / normalisation j.
Definition c_y (j : jet) : Q :=
  (2 * dperp j * pyy j * py j + 2 * dpar j * pxy j * px j
   + (dperp j - dpar j) * (pxy j * px j + pxx j * py j)
   + ddiff_term_cy j + dnorm_term_cy j + toroidal_term_cy j) / normalisation j.

(* the ADMT operator row of a cell: cx Dx + cy Dy + cxx Dxx + 2 cxy Dxy + cyy Dyy, times s,
   where s stands for sqrt(dx dy) *)
Definition admt_row (j : jet) (nx ny ix iy : Z) (dx dy s : Q) : stencil :=
  fun a b =>
    (c_x j * op_row ODx nx ny ix iy dx dy a b
     + c_y j * op_row ODy nx ny ix iy dx dy a b
     + c_xx j * op_row ODxx nx ny ix iy dx dy a b
     + 2 * c_xy j * op_row ODxy nx ny ix iy dx dy a b
     + c_yy j * op_row ODyy nx ny ix iy dx dy a b) * s.

(* the jet the code computes in cell (ix, iy) from psi on the grid and anisotropy *)
Definition jet_of (psi : Z -> Z -> Q) (aniso rad0 : Q) (nx ny ix iy : Z) (dx dy : Q) : jet :=
  let ap o f := apply (op_row o nx ny ix iy dx dy) f ix iy in
  let one := fun (_ _ : Z) => 1 in
  let per := fun (_ _ : Z) => 1 / aniso in
  {| px := ap ODx psi; py := ap ODy psi; pxx := ap ODxx psi; pxy := ap ODxy psi; pyy := ap ODyy psi;
     dperp := 1 / aniso; dpar := 1;
     dperp_x := ap ODx per; dperp_y := ap ODy per; dpar_x := ap ODx one; dpar_y := ap ODy one;
     rad := rad0 |}.

(* ---- formal differential algebra ---------------------------------------------------------- *)
Inductive var := Vpx | Vpy | Vdperp | Vdpar | Vrad.
Inductive dir := DX | DY.
Inductive expr :=
| EVar (v : var) | ED (d : dir) (v : var) (* an opaque first derivative of a variable *)
| EConst (c : Q) | EAdd (a b : expr) | ESub (a b : expr) | EMul (a b : expr) | EDiv (a b : expr).

(* first derivatives of the variables, given by the jet *)
Definition dvar (j : jet) (d : dir) (v : var) : Q :=
  match d, v with
  | DX, Vpx => pxx j | DY, Vpx => pxy j | DX, Vpy => pxy j | DY, Vpy => pyy j
  | DX, Vdperp => dperp_x j | DY, Vdperp => dperp_y j
  | DX, Vdpar => dpar_x j | DY, Vdpar => dpar_y j
  | DX, Vrad => 1 | DY, Vrad => 0     (* x is the radial coordinate R *)
  end.
Definition val (j : jet) (v : var) : Q :=
  match v with Vpx => px j | Vpy => py j | Vdperp => dperp j | Vdpar => dpar j | Vrad => rad j end.

Fixpoint eval (j : jet) (e : expr) : Q :=
  match e with
  | EVar v => val j v | ED d v => dvar j d v | EConst c => c
  | EAdd a b => eval j a + eval j b | ESub a b => eval j a - eval j b
  | EMul a b => eval j a * eval j b | EDiv a b => eval j a / eval j b
  end.

(* the derivation: sum, product and quotient rules (second derivatives of variables never arise
   for first-order expressions; a derivative of an ED node is not needed and is set to 0 by
   [deriv] only for totality -- [first_order] below excludes it in the theorems) *)
Fixpoint deriv (d : dir) (e : expr) : expr :=
  match e with
  | EVar v => ED d v
  | ED _ _ => EConst 0
  | EConst _ => EConst 0
  | EAdd a b => EAdd (deriv d a) (deriv d b)
  | ESub a b => ESub (deriv d a) (deriv d b)
  | EMul a b => EAdd (EMul (deriv d a) b) (EMul a (deriv d b))
  | EDiv a b => EDiv (ESub (EMul (deriv d a) b) (EMul a (deriv d b))) (EMul b b)
  end.
Fixpoint first_order (e : expr) : bool :=
  match e with
  | EVar _ | EConst _ => true | ED _ _ => false
  | EAdd a b | ESub a b | EMul a b | EDiv a b => first_order a && first_order b
  end.

(* the diffusion tensor D = D_perp n n^T + D_par t t^T, n = grad psi / |grad psi| *)
Definition eN : expr := EAdd (EMul (EVar Vpx) (EVar Vpx)) (EMul (EVar Vpy) (EVar Vpy)).
Definition eDxx : expr :=
  EDiv (EAdd (EMul (EVar Vdperp) (EMul (EVar Vpx) (EVar Vpx))) (EMul (EVar Vdpar) (EMul (EVar Vpy) (EVar Vpy)))) eN.
Definition eDyy : expr :=
  EDiv (EAdd (EMul (EVar Vdperp) (EMul (EVar Vpy) (EVar Vpy))) (EMul (EVar Vdpar) (EMul (EVar Vpx) (EVar Vpx)))) eN.
Definition eDxy : expr :=
  EDiv (EMul (ESub (EVar Vdperp) (EVar Vdpar)) (EMul (EVar Vpx) (EVar Vpy))) eN.

(* div (D grad f) in cylindrical geometry (x = R):
     (1/R) d/dx (R (Dxx f_x + Dxy f_y)) + d/dy (Dxy f_x + Dyy f_y)
   = Dxx f_xx + 2 Dxy f_xy + Dyy f_yy
     + (d/dx Dxx + d/dy Dxy + Dxx / R) f_x + (d/dx Dxy + d/dy Dyy + Dxy / R) f_y            *)
Definition div_cx : expr := EAdd (EAdd (deriv DX eDxx) (deriv DY eDxy)) (EDiv eDxx (EVar Vrad)).
Definition div_cy : expr := EAdd (EAdd (deriv DX eDxy) (deriv DY eDyy)) (EDiv eDxy (EVar Vrad)).
