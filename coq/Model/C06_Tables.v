(* Property C06 -- the tables of the model in the vocabulary of the source (definitions only).
   harness/c06_translate.py regenerates the same tables from the current source on every run
   (coq/Gen/C06/Source.v) and coq/Gen/C06/Tie.v checks by computation in the kernel that they coincide.

   [model_paths]: for every function of the repository modules that formats a file path, the template
   (computed from the path functions of Model/C06_Repo.v applied to the field markers "{0}", "{1}", ...) and the
   role of every field: "lsym" = <argument>.symbol.lower(), "num" = '{}'.format(<int>), "cls" = the PEC class.
   [model_routes]: who delegates to whom, whether repository_path is handed on, and with which constant
   (PEC class, ADF11 file type, position of the call).  In the model: add_* are the steps of the update_* named
   here on the singleton dictionary (Model/C06_Repo.v:steps); IAdf11 f is install_adf11<type> with
   groups_adf11 f; IAdf15 performs its three updates in this order.
   [model_consts]: the default root, encode_transition, valid_classes, the guards. *)
From Coq Require Import ZArith List Bool String.
Require Import Cherab.Model.C06_Repo Cherab.Model.C06_Spec.
Import ListNotations.
Open Scope string_scope.

Definition F0 := "{0}". Definition F1 := "{1}". Definition F2 := "{2}". Definition F3 := "{3}".
Definition adf11_t (f : adf11fam) := (flatten (path_adf11 f F0), ["lsym"]).
Definition tcx_t := (flatten (path_tcx_s F0 F1 F2), ["lsym"; "num"; "lsym"]).
Definition pec_t := (flatten (path_pec_d F0 F1 F2), ["cls"; "lsym"; "num"]).
Definition pectcx_t := (flatten (path_pectcx_s F0 F1 F2 F3), ["lsym"; "num"; "lsym"; "num"]).
Definition wvl_t := (flatten (path_wvl_s F0 F1), ["lsym"; "num"]).
Definition bcx_t := (flatten (path_bcx_s F0 F1 F2), ["lsym"; "lsym"; "num"]).
Definition bstop_t := (flatten (path_bstop_s F0 F1 F2), ["lsym"; "lsym"; "num"]).
Definition bpop_t := (flatten (path_bpop_s F0 F1 F2 F3), ["lsym"; "num"; "lsym"; "num"]).
Definition bem_t := (flatten (path_bem_s F0 F1 F2), ["lsym"; "lsym"; "num"]).
Definition E (name : string) (t : string * list string) : string * string * list string := (name, fst t, snd t).

(* in the order of the function names (the translator sorts the same way) *)
Definition model_paths : list (string * string * list string) := [
  E "_get_pec_rate" pec_t;
  E "add_beam_population_rate" bpop_t;
  E "add_beam_stopping_rate" bstop_t;
  E "get_beam_cx_rates" bcx_t;
  E "get_beam_emission_rate" bem_t;
  E "get_beam_population_rate" bpop_t;
  E "get_beam_stopping_rate" bstop_t;
  E "get_continuum_radiated_power_rate" (adf11_t FCont);
  E "get_cx_radiated_power_rate" (adf11_t FCxp);
  E "get_ionisation_rate" (adf11_t FIon);
  E "get_line_radiated_power_rate" (adf11_t FLine);
  E "get_pec_thermal_cx_rate" pectcx_t;
  E "get_recombination_rate" (adf11_t FRec);
  E "get_thermal_cx_rate" tcx_t;
  E "get_wavelength" wvl_t;
  E "update_beam_cx_rates" bcx_t;
  E "update_beam_emission_rates" bem_t;
  E "update_continuum_power_rates" (adf11_t FCont);
  E "update_cx_power_rates" (adf11_t FCxp);
  E "update_ionisation_rates" (adf11_t FIon);
  E "update_line_power_rates" (adf11_t FLine);
  E "update_pec_rates" pec_t;
  E "update_pec_thermal_cx_rates" pectcx_t;
  E "update_recombination_rates" (adf11_t FRec);
  E "update_thermal_cx_rates" tcx_t;
  E "update_wavelengths" wvl_t].

Definition model_routes : list (string * string * string) := [
  ("add_beam_cx_rate", "update_beam_cx_rates", "root");
  ("add_beam_emission_rate", "update_beam_emission_rates", "root");
  ("add_continuum_power_rate", "update_continuum_power_rates", "root");
  ("add_cx_power_rate", "update_cx_power_rates", "root");
  ("add_ionisation_rate", "update_ionisation_rates", "root");
  ("add_line_power_rate", "update_line_power_rates", "root");
  ("add_pec_excitation_rate", "update_pec_rates", "root:excitation");
  ("add_pec_recombination_rate", "update_pec_rates", "root:recombination");
  ("add_pec_thermal_cx_rate", "update_pec_thermal_cx_rates", "root");
  ("add_recombination_rate", "update_recombination_rates", "root");
  ("add_thermal_cx_rate", "update_thermal_cx_rates", "root");
  ("add_wavelength", "update_wavelengths", "root");
  ("get_pec_excitation_rate", "_get_pec_rate", "root:excitation");
  ("get_pec_recombination_rate", "_get_pec_rate", "root:recombination");
  ("install_adf11acd", "update_recombination_rates", "root:acd#1");
  ("install_adf11ccd", "update_thermal_cx_rates", "root:ccd#1");
  ("install_adf11plt", "update_line_power_rates", "root:plt#1");
  ("install_adf11prb", "update_continuum_power_rates", "root:prb#1");
  ("install_adf11prc", "update_cx_power_rates", "root:prc#1");
  ("install_adf11scd", "update_ionisation_rates", "root:scd#1");
  ("install_adf12", "update_beam_cx_rates", "root#1");
  ("install_adf15", "update_pec_rates", "root#2");
  ("install_adf15", "update_pec_thermal_cx_rates", "root#1");
  ("install_adf15", "update_wavelengths", "root#3");
  ("install_adf21", "update_beam_stopping_rates", "root#1");
  ("install_adf22bme", "update_beam_emission_rates", "root#1");
  ("install_adf22bmp", "update_beam_population_rates", "root#1");
  ("install_files[adf11acd]", "install_adf11acd", "root");
  ("install_files[adf11ccd]", "install_adf11ccd", "root");
  ("install_files[adf11plt]", "install_adf11plt", "root");
  ("install_files[adf11prb]", "install_adf11prb", "root");
  ("install_files[adf11prc]", "install_adf11prc", "root");
  ("install_files[adf11scd]", "install_adf11scd", "root");
  ("install_files[adf12]", "install_adf12", "root");
  ("install_files[adf15]", "install_adf15", "root");
  ("install_files[adf21]", "install_adf21", "root");
  ("install_files[adf22bme]", "install_adf22bme", "root");
  ("install_files[adf22bmp]", "install_adf22bmp", "root");
  ("populate", "install_files", "root");
  ("populate", "update_wavelengths", "root");
  ("update_beam_population_rates", "add_beam_population_rate", "root");
  ("update_beam_stopping_rates", "add_beam_stopping_rate", "root")].

(* ADF11 file types that have an install function, with the charge shift the model applies to them *)
Definition model_adf11_types : list (string * Z) :=
  [("scd", adf11_shift FIon); ("acd", adf11_shift FRec); ("ccd", 0%Z); ("plt", adf11_shift FLine);
   ("prb", adf11_shift FCont); ("prc", adf11_shift FCxp)].

Definition model_consts : list (string * string) := [
  ("DEFAULT_REPOSITORY_PATH", flatten default_root);
  ("add_beam_population_rate.metastable", "metastable Lt 0");            (* groups_bpop: g_ok := (0 <=? m) && ... *)
  ("adf15_thermalcx_target", "new_rates[hydrogen][0][element][charge + 1][transition]");   (* adf15_tcx *)
  ("encode_transition", join_trans (F0, F1) ++ "|str().lower() x2|upper,lower");           (* norm_trans: both levels *)
  ("update_beam_cx_rates.metastable", "not metastable GtE 0");           (* groups_bcx: it_ok := (0 <=? m) && ... *)
  ("valid_charge", "charge LtE atomic_number");                          (* valid_charge s q := q <=? znum s *)
  ("valid_classes", pec_dir PExc ++ "," ++ pec_dir PRec)].

(* ---- boolean equalities for the tie ---- *)
Fixpoint slist_eqb (a b : list string) : bool :=
  match a, b with
  | [], [] => true
  | x :: a', y :: b' => String.eqb x y && slist_eqb a' b'
  | _, _ => false
  end.
Fixpoint list_eqb {A} (eq : A -> A -> bool) (a b : list A) : bool :=
  match a, b with
  | [], [] => true
  | x :: a', y :: b' => eq x y && list_eqb eq a' b'
  | _, _ => false
  end.
Definition path_entry_eqb (a b : string * string * list string) : bool :=
  String.eqb (fst (fst a)) (fst (fst b)) && String.eqb (snd (fst a)) (snd (fst b)) && slist_eqb (snd a) (snd b).
Definition route_eqb (a b : string * string * string) : bool :=
  String.eqb (fst (fst a)) (fst (fst b)) && String.eqb (snd (fst a)) (snd (fst b)) && String.eqb (snd a) (snd b).
Definition const_eqb (a b : string * string) : bool := String.eqb (fst a) (fst b) && String.eqb (snd a) (snd b).
Definition shift_agrees (shifted : list string) (e : string * Z) : bool :=
  Z.eqb (snd e) (if existsb (String.eqb (fst e)) shifted then (-1)%Z else 0%Z).
