(* Executable comparators used by the correspondence check of C09 (definitions only).
   The closed form is evaluated by [cf_fast] (fractions reduced at every step); it is proved
   equal to the model's [cf] in Proofs/C09_Check.v. *)
Require Import Cherab.Common.Qx.
Require Import Cherab.Model.C09_Balance Cherab.Model.C09_Interp.
From Coq Require Import Qabs.
Open Scope Q_scope.

(* rate tables as the harness writes them: ion = [S_0 .. S_(Z-1)], rec = [alpha_1 .. alpha_Z],
   cx = [C_1 .. C_Z] *)
Definition rate0 (l : list Q) : rate := fun z => nth z l 0.
Definition rate1 (l : list Q) : rate := fun z => match z with O => 0 | S k => nth k l 0 end.

Fixpoint ratios_fast (ion R : rate) (n k : nat) (cur : Q) : list Q :=
  match n with
  | O => []
  | S m => cur :: ratios_fast ion R m (S k) (Qred (cur * ion k / R (S k)))
  end.

Definition cf_fast (Z : nat) (ion R : rate) : list Q :=
  let rs := ratios_fast ion R (S Z) 0 1 in
  let tot := Qred (Qsum rs) in
  map (fun r => Qred (r / tot)) rs.

Fixpoint forallb2 {A B} (p : A -> B -> bool) (l1 : list A) (l2 : list B) : bool :=
  match l1, l2 with
  | [], [] => true
  | a :: t1, b :: t2 => p a b && forallb2 p t1 t2
  | _, _ => false
  end.

(* Absolute tolerance on fractions.  scipy's lsq_linear loses accuracy when some charge state is
   populated below double-precision resolution of the total; the class is decided here, by the model:
   resolved   (every exact fraction >= 1e-12): measured worst deviation 1.6e-10 over 25 000 points -> 1e-7
   unresolved (some exact fraction <  1e-12): measured deviations up to 5e-3 with a heavy tail (the
              recorded finding c09:lsq-illconditioned): *ambiguous*, the solver's output is not compared
              (tolerance 1 on fractions); the matrix handed to the solver still is, exactly. *)
Definition res_threshold : Q := 1 # 1000000000000.
Definition tol_resolved : Q := 1 # 10000000.
Definition tol_unresolved : Q := 1.
Definition resolved (f : list Q) : bool := forallb (fun m => Qle_bool res_threshold m) f.
Definition base_tol (f : list Q) : Q := if resolved f then tol_resolved else tol_unresolved.
Definition tol_interp : Q := 1 # 100000000.      (* extra slack for values read through raysect interpolation *)
Definition rel_matrix : Q := pow2 (-46).         (* matrix entries: a handful of roundings *)

Record point := { pZ : nat; p_ion : list Q; p_rec : list Q; p_cx : option (list Q); p_ne : Q; p_nd : Q }.

Definition p_R (p : point) : rate := eff_rec (rate1 (p_rec p)) (option_map rate1 (p_cx p)) (p_nd p) (p_ne p).
Definition p_cf (p : point) : list Q := cf_fast (pZ p) (rate0 (p_ion p)) (p_R p).

Definition wf_point (p : point) : bool :=
  Nat.leb 1 (pZ p) && Nat.eqb (length (p_ion p)) (pZ p) && Nat.eqb (length (p_rec p)) (pZ p)
  && match p_cx p with None => true | Some c => Nat.eqb (length c) (pZ p) && forallb (Qle_bool 0) c end
  && forallb (fun v => negb (Qle_bool v 0)) (p_ion p) && forallb (fun v => negb (Qle_bool v 0)) (p_rec p)
  && negb (Qle_bool (p_ne p) 0) && Qle_bool 0 (p_nd p).

Inductive out :=
| OFrac (slack : Q) (f : list Q)                        (* fractions of charge states 0..Z *)
| ODens (slack : Q) (n_el : Q) (d : list Q)             (* from_elementdensity at one point *)
| ONeut (slack : Q) (ztol : Q) (sp : list (list Q)) (d : list Q)
    (* match_plasma_neutrality at one point; ztol = absolute noise allowed around zero (0 for the direct
       entry points, interpolation rounding of the neighbouring knots for interpolated ones) *)
| OLerp (slack : Q) (knots : list Q) (x : Q) (k : nat) (other : list Q) (sa sb : Q) (v : list Q)
    (* value at x of a linear interpolator over [knots]: the model locates x (Model/C09_Interp.locate: segment k,
       weight w) and blends this point's model values times sa (weight 1-w) with the model values [other] of knot
       k+1 times sb; sa = sb = 1 for fractions, the element densities of the two knots for from_elementdensity *)
| OLerp2 (slack : Q) (xs ys : list Q) (x y : Q) (i j : nat) (f10 f01 f11 : list Q) (v : list Q)
    (* value at (x, y) of a bilinear interpolator of fractions over the grid xs x ys: the model locates the cell (i, j)
       and the weights, and blends this point's model values (corner i, j) with the model values of the corners
       (i+1, j), (i, j+1), (i+1, j+1) *)
| OMatrix (rows : list (list Q)) (rhs : list Q).      (* the arguments handed to lsq_linear *)

Definition absle (a b tol : Q) : bool := Qle_bool (Qabs (a - b)) tol.

(* sums with the running value kept in lowest terms (same value as Qsum / charge_sum_from) *)
Definition sum_red (l : list Q) : Q := fold_left (fun acc x => Qred (acc + x)) l 0.
Fixpoint weigh_from (k : nat) (l : list Q) : list Q :=
  match l with [] => [] | v :: t => qnat k * v :: weigh_from (S k) t end.
Definition weighted_charge (d : list Q) : Q := sum_red (weigh_from 0 d).
Definition species_charge_red (sp : list (list Q)) : Q := sum_red (map weighted_charge sp).

Definition check_out (p : point) (f : list Q) (tol0 : Q) (o : out) : bool :=
  match o with
  | OFrac slack g =>
      let tol := tol0 + slack in
      forallb2 (fun m v => absle m v tol) f g
      && forallb (fun v => Qle_bool (- tol) v && Qle_bool v (1 + tol)) g
      && absle (sum_red g) 1 (tol * qnat (S (pZ p)))
  | ODens slack n_el d =>
      let tol := tol0 + slack in
      forallb2 (fun m v => absle (m * n_el) v (tol * n_el)) f d
      && absle (sum_red d) n_el (tol * qnat (S (pZ p)) * n_el)
  | ONeut slack ztol sp d =>
      let tol := tol0 + slack in
      let zm := weighted_charge f in
      let sc := species_charge_red sp in
      let e := Qred (let e := p_ne p - sc in if Qle_bool 0 e then e else 0) in     (* = element_ne (p_ne p) sp *)
      let n_i := Qred (e / zm) in
      let amp := Qred (1 + qnat (pZ p * S (pZ p)) / zm) in       (* error amplification through 1/z_mean *)
      let ntot := sum_red d in
      forallb (Qle_bool (- ztol)) d
      (* charge of the returned densities + the given species = n_e (when that is feasible) *)
      && (if Qle_bool sc (p_ne p)
          then absle (weighted_charge d + sc) (p_ne p) (pow2 (-40) * p_ne p)
          else forallb (fun v => absle v 0 ztol) d)
      (* the shape is the closed form *)
      && forallb2 (fun m v => absle (m * ntot) v (tol * ntot + ztol)) f d
      (* and the values are the model's match_neutrality_point *)
      && forallb2 (fun m v => absle (m * n_i) v (Qred (tol * amp * n_i + ztol))) f d
  | OLerp slack knots x k other sa sb v =>
      match locate knots x 0 with
      | Some (k', w) =>
          let tol := (let t1 := base_tol other in if Qle_bool tol0 t1 then t1 else tol0) + slack in
          let smax := if Qle_bool sa sb then sb else sa in
          Nat.eqb k' k
          && forallb2 (fun ab y => absle (blend (fun _ => fst ab * sa) (fun _ => snd ab * sb) w O) y (tol * smax))
                      (combine f other) v
          && Nat.eqb (length other) (length f) && Nat.eqb (length v) (length f)
      | None => false
      end
  | OLerp2 slack xs ys x y i j f10 f01 f11 v =>
      match locate xs x 0, locate ys y 0 with
      | Some (i', u), Some (j', w) =>
          let tmax := fold_right (fun t m => if Qle_bool m t then t else m) tol0 [base_tol f10; base_tol f01; base_tol f11] in
          let tol := tmax + slack in
          Nat.eqb i' i && Nat.eqb j' j
          && forallb (fun c => absle (blend (blend (fun _ => nth c f 0) (fun _ => nth c f10 0) u)
                                            (blend (fun _ => nth c f01 0) (fun _ => nth c f11 0) u) w O) (nth c v 0) tol)
                     (seq 0 (length f))
          && Nat.eqb (length f10) (length f) && Nat.eqb (length f01) (length f) && Nat.eqb (length f11) (length f)
          && Nat.eqb (length v) (length f)
      | _, _ => false
      end
  | OMatrix rows rhs =>
      let m := balance_matrix (pZ p) (rate0 (p_ion p)) (rate1 (p_rec p)) (option_map rate1 (p_cx p)) (p_nd p) (p_ne p) in
      forallb2 (fun rm ri => forallb2 (fun a b => close rel_matrix 0 a b) rm ri) m rows
      && forallb2 Qeq_bool (balance_rhs (pZ p) (p_ne p)) rhs
  end.

Definition check_point (p : point) (outs : list out) : bool :=
  wf_point p && (let f := p_cf p in let tol0 := base_tol f in forallb (check_out p f tol0) outs).

(* the model's fractions, for use as [other] in OLerp *)
Definition model_fractions (p : point) : list Q := p_cf p.
