(* Tie of the hand-written model to the constants and component patterns of the current source text
   (cherab/tools/equilibrium/efit.pyx), which harness/c12_translate.py extracts on every run into
   coq/Gen/C12/Source.v (fail-closed: every pattern must match exactly once).  [source_ok] compares
   the model's definitions with what the source says; coq/Gen/C12/Tie.v proves [source_ok ... = true]
   by computation.  Definitions only.

   A component pattern is a list of three (sign, index) pairs: index 0 = the literal 0, 1 / 2 / 3 = the
   x / y / z component of the argument vector; sign is -1, 0 or 1. *)
Require Import Cherab.Common.Qx.
Require Import Cherab.Model.C12_Equilibrium Cherab.Model.C12_Gradient.
Open Scope Q_scope.

Definition pick (b : vec) (c : Z * Z) : Q :=
  let s := inject_Z (fst c) in
  match snd c with 1%Z => s * vx b | 2%Z => s * vy b | 3%Z => s * vz b | _ => 0 end.
Definition ev_pattern (p : list (Z * Z)) (b : vec) : vec :=
  V (pick b (nth 0 p (0, 0)%Z)) (pick b (nth 1 p (0, 0)%Z)) (pick b (nth 2 p (0, 0)%Z)).
Definition veqb (a b : vec) : bool := Qeq_bool (vx a) (vx b) && Qeq_bool (vy a) (vy b) && Qeq_bool (vz a) (vz b).

Record source := {
  s_clamp_min : Q;                 (* ClampOutput2D(..., min=<this>) around the normalised-psi interpolator *)
  s_poly_bound : Q; s_poly_strict : bool;      (* polygon.evaluate(r, z) > <bound> *)
  s_psin_bound : Q; s_psin_le : bool;          (* psi_normalised.evaluate(r, z) <= <bound> *)
  s_toroidal : vec;                (* ConstantVector2D(Vector3D(...)) *)
  s_pol : list (Z * Z); s_nor : list (Z * Z);          (* PoloidalFieldVector / FluxSurfaceNormal: new_vector3d(...) of b *)
  s_f2c_pol : list (Z * Z); s_f2c_nor : list (Z * Z);  (* FluxCoordToCartesian: new_vector3d(...) of f *)
  s_br_sign : Z; s_br_of_dz : bool;            (* br = <sign> self._dpsi_<dz|dr>.evaluate(r, z) / r *)
  s_bz_sign : Z; s_bz_of_dr : bool;
  s_field_order : list Z;          (* new_vector3d(br, bt, bz): 1 = br, 2 = bt, 3 = bz *)
  s_edge_order : Z }.              (* np.gradient(..., edge_order=<this>) *)

Definition test_env (dr dz raw : Q) : env :=
  {| e_psi_axis := 0; e_psi_lcfs := 1; e_psi := fun _ _ => raw; e_poly := fun _ _ => 1;
     e_dpsidr := fun _ _ => dr; e_dpsidz := fun _ _ => dz; e_fprof := fun _ => 7; e_bvac_r := 1; e_bvac_m := 1;
     e_sqrt := fun a => a; e_cs := fun _ _ => (1, 0); e_slerp := fun u _ _ => u |}.

Definition tests : list vec := [V 1 0 0; V 0 1 0; V 0 0 1; V 2 3 5; V (-7) 11 (13 # 2)].

Fixpoint zlist_eqb (a b : list Z) : bool :=
  match a, b with [], [] => true | x :: a', y :: b' => Z.eqb x y && zlist_eqb a' b' | _, _ => false end.

Definition source_ok (s : source) : bool :=
  (* clamp: below the bound the model returns the bound of the source, above it the value *)
  Qeq_bool (psi_n (test_env 1 1 (s_clamp_min s - 3)) 2 0) (s_clamp_min s) &&
  Qeq_bool (psi_n (test_env 1 1 (s_clamp_min s + 3)) 2 0) (s_clamp_min s + 3) &&
  (* psi_n <= bound (inclusive) and polygon > bound (strict) *)
  s_psin_le s && s_poly_strict s && Qeq_bool (s_psin_bound s) 1 && Qeq_bool (s_poly_bound s) 0 &&
  inside_b (test_env 1 1 (s_psin_bound s)) 2 0 && negb (inside_b (test_env 1 1 (s_psin_bound s + (1 # 1000))) 2 0) &&
  veqb (s_toroidal s) (toroidal_vector 2 0) &&
  forallb (fun b => veqb (ev_pattern (s_pol s) b) (pol_raw b) && veqb (ev_pattern (s_nor s) b) (nor_raw b) &&
                    veqb (ev_pattern (s_f2c_pol s) b) (pol_raw b) && veqb (ev_pattern (s_f2c_nor s) b) (nor_raw b)) tests &&
  (* b_field = (sign_r * dpsi_dz / r, bt, sign_z * dpsi_dr / r) in this order *)
  s_br_of_dz s && s_bz_of_dr s && zlist_eqb (s_field_order s) [1; 2; 3]%Z &&
  veqb (b_field (test_env 3 5 (1 # 2)) 2 0) (V (inject_Z (s_br_sign s) * 5 / 2) (7 / 2) (inject_Z (s_bz_sign s) * 3 / 2)) &&
  (* np.gradient edge order of the model's stencil *)
  Z.eqb (s_edge_order s) 2 && Qeq_bool (grad_at [1; 4; 9; 16] 0) 2.
