(* The vector algebra of efit.pyx / mappers.pyx over the real numbers, with the real square root, cosine
   and sine: the same definitions, line by line, as normalise / set_length / pol_raw / nor_raw /
   flux_to_cart / rotate_z_apply of Model/C12_Equilibrium.v (there over Q with sqrt, cos, sin as given
   functions).  Used to state the orthonormality and component clauses of C12 in full.  Definitions only. *)
From Coq Require Import Reals.
Open Scope R_scope.

Record rvec := RV { rx : R; ry : R; rz : R }.
Definition rdot (a b : rvec) : R := rx a * rx b + ry a * ry b + rz a * rz b.
Definition rcross (a b : rvec) : rvec :=
  RV (ry a * rz b - rz a * ry b) (rz a * rx b - rx a * rz b) (rx a * ry b - ry a * rx b).
Definition rscale_r (a : rvec) (k : R) : rvec := RV (rx a * k) (ry a * k) (rz a * k).

(* Vector3D.normalise / set_length (the zero-length exception is excluded by the callers' guard) *)
Definition rnormalise (v : rvec) : rvec := rscale_r v (1 / sqrt (rdot v v)).
Definition rset_length (v : rvec) (len : R) : rvec := rscale_r v (len / sqrt (rdot v v)).

Definition rtor : rvec := RV 0 1 0.
Definition rpol_raw (b : rvec) : rvec := RV (rx b) 0 (rz b).
Definition rnor_raw (b : rvec) : rvec := RV (- rz b) 0 (rx b).
Definition rpoloidal (b : rvec) : rvec := rnormalise (rpol_raw b).
Definition rnormal (b : rvec) : rvec := rnormalise (rnor_raw b).

(* FluxCoordToCartesian.evaluate, branch with a non-vanishing in-plane field *)
Definition rflux_to_cart (b : rvec) (vt vp vn : R) : rvec :=
  let pol := rset_length (rpol_raw b) vp in
  let nor := rset_length (rnor_raw b) vn in
  RV (rx pol + rx nor) vt (rz pol + rz nor).

(* rotate_z(phi) applied by Vector3D.transform *)
Definition rrotate (phi : R) (v : rvec) : rvec :=
  RV (cos phi * rx v + (- sin phi) * ry v + 0 * rz v) (sin phi * rx v + cos phi * ry v + 0 * rz v)
     (0 * rx v + 0 * ry v + 1 * rz v).
