(* C18 -- the ConstantSpectrum branch of LaserSpectrum._update_cache AS IT WAS BEFORE fix 879f8f0
   (bin value = trapezoid of evaluate() at the bin edges) with every IEEE double
   operation written out ([rnd] after each arithmetic operation).  Definitions only.
   With [rnd] = identity this is the exact model of Model/C18_Spectrum.v; with [rnd] = [round53]
   (round to nearest even, 53 significant bits, normal range) it is what the compiled code computes.
   Used only for the record of the fixed finding (Proofs/C18_Float.v). *)
Require Import Cherab.Common.Qx.
From Coq Require Import Qround Qabs.
Open Scope Q_scope.

Definition round_half_even (q : Q) : Z :=
  let f := Qfloor q in
  match Qcompare (q - inject_Z f) (1 # 2) with
  | Lt => f
  | Gt => (f + 1)%Z
  | Eq => if Z.even f then f else (f + 1)%Z
  end.

Definition round53_pos (a : Q) : Q :=
  let e0 := (Z.log2 (Qnum a) - Z.log2 (Zpos (Qden a)) - 52)%Z in
  let e := if Qle_bool (pow2 52) (a / pow2 e0) then e0 else (e0 - 1)%Z in
  Qred (inject_Z (round_half_even (a / pow2 e)) * pow2 e).

Definition round53 (q : Q) : Q :=
  match Qcompare q 0 with
  | Eq => 0
  | Gt => round53_pos q
  | Lt => - round53_pos (- q)
  end.

Section Fl.
Variable rnd : Q -> Q.

(* ConstantSpectrum.evaluate *)
Definition fl_eval (mn mx x : Q) : Q :=
  if Qle_bool mn x && Qle_bool x mx then rnd (1 / rnd (mx - mn)) else 0.

Fixpoint fl_loop (mn mx delta : Q) (n : nat) (lo : Q) : list Q :=
  match n with
  | O => []
  | S n' =>
      let hi := rnd (lo + delta) in
      let psd := rnd ((1 # 2) * rnd (fl_eval mn mx lo + fl_eval mn mx hi)) in
      rnd (psd * delta) :: fl_loop mn mx delta n' hi           (* power_mv[index] *)
  end.

Definition fl_first_edge (mn mx : Q) (bins : Z) : Q :=
  let delta := rnd (rnd (mx - mn) / inject_Z bins) in
  let wl0 := rnd (mn + rnd ((1 # 2) * delta)) in              (* min + (0.5 + 0) * delta *)
  rnd (wl0 - rnd (delta * (1 # 2))).                           (* wavelengths_mv[0] - delta_wvl_half *)

(* the bin powers of ConstantSpectrum(mn, mx, bins) *)
Definition fl_const_power (mn mx : Q) (bins : Z) : list Q :=
  let delta := rnd (rnd (mx - mn) / inject_Z bins) in
  fl_loop mn mx delta (Z.to_nat bins) (fl_first_edge mn mx bins).

(* ---- the CURRENT code in doubles (used by the correspondence for exact comparison, no tolerance) ------- *)
(* generate_segmented_cylinder, n_segments > 1: segment_length = length / n_segments; offset i * segment_length *)
Definition fl_segment (L : Q) (n : Z) (i : Z) : Q * Q :=
  let h := rnd (L / inject_Z n) in (rnd (inject_Z i * h), h).

(* _update_cache: _delta_wavelength and wavelengths[index] = min + (0.5 + index) * delta  (0.5 + index is exact) *)
Definition fl_delta (mn mx : Q) (bins : Z) : Q := rnd (rnd (mx - mn) / inject_Z bins).
Definition fl_centre (mn delta : Q) (i : nat) : Q := rnd (mn + rnd (((1 # 2) + inject_Z (Z.of_nat i)) * delta)).

(* ConstantSpectrum._get_bin_power_spectral_density since 879f8f0 *)
Definition fl_qmax (a b : Q) : Q := if Qle_bool a b then b else a.
Definition fl_qmin (a b : Q) : Q := if Qle_bool a b then a else b.
Definition fl_overlap_psd (mn mx lo hi : Q) : Q :=
  let l := fl_qmax lo mn in
  let u := fl_qmin hi mx in
  if Qle_bool u l then 0 else rnd (rnd (u - l) / rnd (rnd (mx - mn) * rnd (hi - lo))).

Fixpoint fl_overlap_loop (mn mx delta : Q) (n : nat) (lo : Q) : list Q :=
  match n with
  | O => []
  | S n' => let hi := rnd (lo + delta) in fl_overlap_psd mn mx lo hi :: fl_overlap_loop mn mx delta n' hi
  end.

(* power_spectral_density of ConstantSpectrum(mn, mx, bins) *)
Definition fl_const_psd (mn mx : Q) (bins : Z) : list Q :=
  let delta := fl_delta mn mx bins in
  let lo0 := rnd (fl_centre mn delta 0 - rnd (delta * (1 # 2))) in
  fl_overlap_loop mn mx delta (Z.to_nat bins) lo0.

End Fl.
