(* Model of the argument-validation policy and of the setter state machine of Beam (beam/node.pyx) and
   SingleRayAttenuator (model/attenuator/singleray.pyx), plus the small code facts (comparison
   operators, constants, defaults) that the density model of Model/C04_Beam.v rests on, as DATA that a
   translator regenerates from the current source on every run (coq/Gen/C04/Source.v, tie lemma
   source_tie).  Definitions only. *)
Require Import Cherab.Common.Qx.
From Coq Require Import Qround.
Require Import Cherab.Model.C04_Beam.
Open Scope Q_scope.

Inductive field :=
| FEnergy | FPower | FTemperature | FDivX | FDivY | FLength | FSigma     (* Beam setters *)
| FStep | FClampSigma.                                                    (* SingleRayAttenuator setters *)

Definition all_fields : list field :=
  [FEnergy; FPower; FTemperature; FDivX; FDivY; FLength; FSigma; FStep; FClampSigma].

Inductive cmp := CLt | CLe | CGt | CGe.
Definition cmp_holds (o : cmp) (a b : Q) : bool :=
  match o with CLt => Qltb a b | CLe => Qle_bool a b | CGt => Qltb b a | CGe => Qle_bool b a end.

(* the setter raises ValueError when  value <op> 0  holds:  "<" for energy, power, temperature and the
   divergences (zero allowed),  "<=" for length, sigma, step and clamp_sigma (must be positive) *)
Definition reject_op (f : field) : cmp :=
  match f with
  | FEnergy | FPower | FTemperature | FDivX | FDivY => CLt
  | FLength | FSigma | FStep | FClampSigma => CLe
  end.
Definition accepts (f : field) (v : Q) : bool := negb (cmp_holds (reject_op f) v 0).

Record settings := mksettings {
  s_energy : Q; s_power : Q; s_temperature : Q; s_divx : Q; s_divy : Q; s_length : Q; s_sigma : Q;
  s_step : Q; s_clamp_sigma_sqr : Q }.            (* the attenuator stores clamp_sigma ** 2 *)

(* Beam.__init__ and the default arguments of SingleRayAttenuator.__init__ (decimal literals of the source) *)
Definition initial : settings := mksettings 0 0 0 0 0 1 (1 # 10) (1 # 100) (5 * 5).

Definition store (st : settings) (f : field) (v : Q) : settings :=
  match f with
  | FEnergy => mksettings v (s_power st) (s_temperature st) (s_divx st) (s_divy st) (s_length st) (s_sigma st) (s_step st) (s_clamp_sigma_sqr st)
  | FPower => mksettings (s_energy st) v (s_temperature st) (s_divx st) (s_divy st) (s_length st) (s_sigma st) (s_step st) (s_clamp_sigma_sqr st)
  | FTemperature => mksettings (s_energy st) (s_power st) v (s_divx st) (s_divy st) (s_length st) (s_sigma st) (s_step st) (s_clamp_sigma_sqr st)
  | FDivX => mksettings (s_energy st) (s_power st) (s_temperature st) v (s_divy st) (s_length st) (s_sigma st) (s_step st) (s_clamp_sigma_sqr st)
  | FDivY => mksettings (s_energy st) (s_power st) (s_temperature st) (s_divx st) v (s_length st) (s_sigma st) (s_step st) (s_clamp_sigma_sqr st)
  | FLength => mksettings (s_energy st) (s_power st) (s_temperature st) (s_divx st) (s_divy st) v (s_sigma st) (s_step st) (s_clamp_sigma_sqr st)
  | FSigma => mksettings (s_energy st) (s_power st) (s_temperature st) (s_divx st) (s_divy st) (s_length st) v (s_step st) (s_clamp_sigma_sqr st)
  | FStep => mksettings (s_energy st) (s_power st) (s_temperature st) (s_divx st) (s_divy st) (s_length st) (s_sigma st) v (s_clamp_sigma_sqr st)
  | FClampSigma => mksettings (s_energy st) (s_power st) (s_temperature st) (s_divx st) (s_divy st) (s_length st) (s_sigma st) (s_step st) (v * v)
  end.

(* what the getter of the field returns, as the stored quantity (clamp_sigma: its square) *)
Definition stored (st : settings) (f : field) : Q :=
  match f with
  | FEnergy => s_energy st | FPower => s_power st | FTemperature => s_temperature st | FDivX => s_divx st
  | FDivY => s_divy st | FLength => s_length st | FSigma => s_sigma st | FStep => s_step st
  | FClampSigma => s_clamp_sigma_sqr st
  end.

(* one setter call: the guard first, then the assignment; true = returned normally, false = ValueError *)
Definition set_field (st : settings) (f : field) (v : Q) : settings * bool :=
  if accepts f v then (store st f v, true) else (st, false).

Fixpoint run_sets (st : settings) (ops : list (field * Q)) : settings * list bool :=
  match ops with
  | [] => (st, [])
  | (f, v) :: t => let '(st1, ok) := set_field st f v in let '(st2, oks) := run_sets st1 t in (st2, ok :: oks)
  end.

Definition settings_valid (st : settings) : Prop :=
  0 <= s_energy st /\ 0 <= s_power st /\ 0 <= s_temperature st /\ 0 <= s_divx st /\ 0 <= s_divy st /\
  0 < s_length st /\ 0 < s_sigma st /\ 0 < s_step st /\ 0 < s_clamp_sigma_sqr st.

(* ---- code facts regenerated from the source ---- *)
Record code_facts := mkfacts {
  cf_policy : list (field * cmp);         (* setter guards:  raise ValueError if value <op> 0 *)
  cf_ctor_policy : list (field * cmp);    (* the same guards in SingleRayAttenuator.__init__ (step, clamp_sigma) *)
  cf_defaults : list (field * Q);         (* Beam.__init__ values and SingleRayAttenuator.__init__ defaults *)
  cf_nbeam : Z * Z;                       (* nbeam = max(<1> + int(np.ceil(length / step)), <4>) *)
  cf_density_zero : cmp * cmp;            (* Beam.density:  if z <op1> 0 or z <op2> self._length: return 0 *)
  cf_direction_axis : cmp;                (* Beam.direction:  if z <op> 0: return BEAM_AXIS *)
  cf_clamp : cmp;                         (* attenuator:  if norm_radius_sqr <op> self._clamp_sigma_sqr: return 0.0 *)
  cf_gauss : Q * Q;                       (* exp(<-0.5> * norm_radius_sqr) / (<2> * M_PI * sigma_x * sigma_y) *)
  cf_extrapolation : Q                    (* Interpolator1DArray(..., 'linear', 'nearest', extrapolation_range=<1e-9>) *)
}.

Definition model_facts : code_facts :=
  mkfacts (map (fun f => (f, reject_op f)) all_fields)
          [(FStep, CLe); (FClampSigma, CLe)]
          [(FEnergy, 0); (FPower, 0); (FTemperature, 0); (FDivX, 0); (FDivY, 0); (FLength, 1); (FSigma, 1 # 10);
           (FStep, 1 # 100); (FClampSigma, 5)]
          (1, 4)%Z (CLt, CGt) CLe CGt (- (1 # 2), 2) (1 # 1000000000).

(* ---- SingleRayAttenuator.density called directly (no z guard of Beam.density): the interpolator is
   defined on [-range, length + range] (nearest-value continuation outside the nodes) and raises
   ValueError elsewhere ---- *)
Definition attenuator_density_direct (sqrtf expf : Q -> Q) (nodes : list (Q * Q)) (c : beam_cfg) (x y z : Q) : option Q :=
  if Qltb z (- cf_extrapolation model_facts) || Qltb (b_len c + cf_extrapolation model_facts) z then None
  else Some (attenuator_density_with sqrtf expf nodes c x y z).
