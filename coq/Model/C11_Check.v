(* Executable comparators used by the correspondence check of C11 (definitions only).
   Result codes: 0 = agrees, 1 = DIFF, 2 = ambiguous (a stopping comparison |c_k - c_(k-1)| < tol lies
   within [amb] of the threshold and model and implementation decide it differently). *)
Require Import Cherab.Common.Qx.
Require Import Cherab.Model.C11_Sart Cherab.Model.C11_Kkt.
From Coq Require Import Qabs.
Open Scope Q_scope.

Definition maxabs (l : list Q) : Q := fold_right (fun x m => if Qle_bool m (Qabs x) then Qabs x else m) 0 l.
Definition within (a b bound : Q) : bool := Qle_bool (Qabs (a - b)) bound.

Definition rel_run : Q := pow2 (-30).     (* whole runs (rounding accumulates over the sweeps) *)
Definition rel_step : Q := pow2 (-40).    (* one sweep from the implementation's own previous iterate *)
Definition amb : Q := pow2 (-30).         (* margin of the stopping comparison, relative to 1 + |c_k| + |c_(k-1)|, below which a case is ambiguous *)

(* ---- whole run: the model runs from the initial guess; iterates compared at the end ---- *)
Definition min_margin (tol : Q) (cs : list Q) : Q :=
  (fix go (prev : Q) (l : list Q) (m : Q) : Q :=
     match l with
     | [] => m
     | c :: t => let d := Qabs (Qabs (c - prev) - tol) / (1 + Qabs c + Qabs prev) in go c t (if Qle_bool d m then d else m)
     end) (hd 0 cs) (tl cs) 1.

Definition cmp_run (tol : Q) (x0 : vec) (model : result) (err : bool) (ix : vec) (ics : list Q) : Z :=
  match model with
  | ErrZeroDivision => if err then 0%Z else 1%Z
  | Ok x cs =>
      if err then 1%Z
      else if Nat.eqb (length cs) (length ics) then
        let s := maxabs (x ++ x0) in
        if forallb2 (fun u v => within u v (rel_run * s)) x ix
           && forallb2 (fun u v => within u v (rel_run * (1 + Qabs u))) cs ics then 0%Z else 1%Z
      else if Qle_bool (min_margin tol cs) amb then 2%Z else 1%Z
  end.

Definition check_sart_run (e1 : Q) (n : nat) (W : mat) (b : vec) (g : guess) (maxit : Z) (relax tol : Q)
           (err : bool) (ix : vec) (ics : list Q) : Z :=
  cmp_run tol (initial_solution e1 n g) (invert_sart e1 n W b g maxit relax tol) err ix ics.

Definition check_csart_run (e1 : Q) (n : nat) (W L : mat) (b : vec) (g : guess) (maxit : Z) (relax beta tol : Q)
           (err : bool) (ix : vec) (ics : list Q) : Z :=
  cmp_run tol (initial_solution e1 n g) (invert_constrained_sart e1 n W L b g maxit relax beta tol) err ix ics.

(* ---- trace: every sweep of the model is run from the implementation's previous iterate ---- *)
Definition absm (W : mat) : mat := map (map Qabs) W.

(* magnitude of the terms that make up the new value of cell j (rounding-error scale) *)
Definition scale_cell (relax beta : Q) (W L : mat) (b x : vec) : vec :=
  let aW := absm W in
  let ax := map Qabs x in
  let lens := map Qabs (row_sums W) in
  let mags := map (fun p => Qred (Qabs (fst p) + snd p)) (combine b (mv aW ax)) in
  let pen := map (fun v => Qred (v * Qabs beta)) (mv (absm L) ax) in
  cells (fun j xj =>
           let dj := Qabs (col_sum W j) in
           Qred (xj + (if Qeq_bool dj 0 then 0 else (Qabs relax / dj) * obs_diff j aW lens mags) + entry pen j)) 0 ax.

Section Trace.
  Variable step : vec -> vec.
  Variable scale : vec -> vec.
  Variable cv : vec -> Q.
  Variable tol : Q.

  Definition step_ok (x x' : vec) : bool :=
    forallb2 (fun ms v => within (fst ms) v (rel_step * snd ms)) (combine (step x) (scale x)) x'
    && Nat.eqb (length x) (length x').

  Fixpoint trace (fuel : nat) (prev : option Q) (x : vec) (xs : list vec) (cs : list Q) : Z :=
    match xs, cs with
    | [], [] => 0%Z
    | x' :: xs', c :: cs' =>
        match fuel with
        | O => 1%Z                                   (* more sweeps than max_iterations *)
        | S f =>
            if negb (step_ok x x') then 1%Z
            else let mc := cv x' in
              if negb (within mc c (rel_step * (2 + Qabs mc))) then 1%Z
              else
                let stop := stop_now tol prev mc in
                let near := match prev with None => false
                                          | Some p => Qle_bool (Qabs (Qabs (mc - p) - tol)) (amb * (1 + Qabs mc + Qabs p)) end in
                match xs' with
                | [] => match cs' with
                        | [] => if stop || Nat.eqb f 0 then 0%Z else if near then 2%Z else 1%Z
                        | _ => 1%Z end
                | _ => if negb stop then trace f (Some mc) x' xs' cs' else if near then 2%Z else 1%Z
                end
        end
    | _, _ => 1%Z
    end.

  (* [xs] = x_1 .. x_n, [cs] = c_0 .. c_(n-1) as returned by the implementation *)
  Definition check_trace (maxit : Z) (x0 : vec) (xs : list vec) (cs : list Q) : Z :=
    match xs with
    | [] => if Nat.eqb (Z.to_nat maxit) 0 && Nat.eqb (length cs) 0 then 0%Z else 1%Z
    | _ => trace (Z.to_nat maxit) None x0 xs cs
    end.
End Trace.

Definition check_sart_trace (W : mat) (b : vec) (maxit : Z) (relax tol : Q) (x0 : vec)
           (xs : list vec) (cs : list Q) : Z :=
  check_trace (sart_step relax W b) (scale_cell relax 0 W [] b) (conv W b) tol maxit x0 xs cs.

Definition check_csart_trace (W L : mat) (b : vec) (maxit : Z) (relax beta tol : Q) (x0 : vec)
           (xs : list vec) (cs : list Q) : Z :=
  check_trace (csart_step relax beta W L b) (scale_cell relax beta W L b) (conv W b) tol maxit x0 xs cs.

(* ---- certificates for the least-squares solvers (Model/C11_Kkt.v) ---- *)
Definition rel_kkt : Q := pow2 (-30).

(* rounding-error scales: of the gradient C^T(Cx-d), and of the objective *)
Definition row_mag (x : vec) (rd : vec * Q) : Q := Qred (dot (map Qabs (fst rd)) (map Qabs x) + Qabs (snd rd)).
(* norm-wise (the solvers are backward stable in the norm-wise sense, not row by row):
   (largest absolute column sum of C) x (largest row magnitude |C||x| + |d|) *)
Definition grad_scale (C : mat) (d x : vec) : Q :=
  maxabs (tmv (absm C) (repeat 1 (length C)) (length x)) * maxabs (map (row_mag x) (combine C d)).
Definition obj_scale (C : mat) (d x : vec) : Q :=
  let m := map (row_mag x) (combine C d) in dot m m.

Definition b2z (b : bool) : Z := if b then 0%Z else 1%Z.
Definition Qeq_bool_list (a b : list Q) : bool := forallb2 Qeq_bool a b.

(* ---- the wrappers themselves, run in the model with the recording stub in place of the solver ---- *)
Definition rel_wrap : Q := pow2 (-50).
(* a float32 Tikhonov matrix: NumPy forms alpha * L in single precision (eps = 2^-24) *)
Definition rel_wrap_single : Q := pow2 (-21).
Definition rel_single : Q := pow2 (-17).
Definition vec_close (rel : Q) (a b : vec) : bool := forallb2 (fun u v => within u v (rel * Qabs u)) a b.
Definition mat_close (rel : Q) (A B : mat) : bool := forallb2 (vec_close rel) A B.

(* [Ci], [di]: the system the implementation handed to the solver; [xs], [rs]: what the stub returned;
   [xo], [ro]: what the wrapper returned *)
Definition check_nnls_wrapper (single : bool) (n : nat) (W : mat) (b : vec) (alpha : Q) (L : option mat)
           (Ci : mat) (di : vec) (xs : vec) (rs : Q) (xo : vec) (ro : Q) : Z :=
  let rel := if single then rel_wrap_single else rel_wrap in
  b2z (match invert_regularised_nnls (fun _ _ => (xs, rs)) n W b alpha L with
       | LsErrValue => false
       | LsOk x r =>
           let C := stackC W alpha (tikhonov_or_identity n L) in
           let d := stackd b n in
           let v := vmax d in
           mat_close rel (map (scale_row (/ v)) C) Ci && vec_close rel (scale_row (/ v) d) di
           && Qeq_bool_list x xo && within r ro (rel_wrap * Qabs r)
       end).

Definition check_lstsq_wrapper (single : bool) (n : nat) (W : mat) (b : vec) (alpha : Q) (L : option mat)
           (Ci : mat) (di : vec) (same_x same_res : bool) : Z :=
  let rel := if single then rel_wrap_single else rel_wrap in
  b2z (mat_close rel (stackC W alpha (tikhonov_or_identity n L)) Ci && vec_close rel (stackd b n) di
       && same_x && same_res).

(* output of invert_regularised_nnls: eps-KKT for the stacked system, and rnorm^2 = objective *)
Definition check_nnls (rel : Q) (n : nat) (W : mat) (b : vec) (alpha : Q) (L : option mat) (x : vec) (rnorm : Q) : bool :=
  Nat.eqb (length x) n &&
  let C := stackC W alpha (tikhonov_or_identity n L) in
  let d := stackd b n in
  (eps_kkt C d x (rel * grad_scale C d x) (rel * obj_scale C d x))
  && Qle_bool 0 rnorm && within (rnorm * rnorm) (obj C d x) (rel * obj_scale C d x).

(* output of invert_regularised_lstsq: eps-normal equations; the residual (sum of squares) when reported *)
Definition check_lstsq (rel : Q) (n : nat) (W : mat) (b : vec) (alpha : Q) (L : option mat) (x : vec) (res : list Q) : bool :=
  Nat.eqb (length x) n &&
  let C := stackC W alpha (tikhonov_or_identity n L) in
  let d := stackd b n in
  eps_normal_eq C d x (rel * grad_scale C d x)
  && match res with
     | [] => true
     | [r] => within r (obj C d x) (rel * obj_scale C d x)
     | _ => false
     end.

(* output of invert_svd: eps-normal equations of |Wx-b|^2 *)
(* looser: the code multiplies by the explicit pseudo-inverse, which loses eps x cond(W) *)
Definition rel_svd : Q := pow2 (-26).
(* a float32 geometry matrix is not promoted by invert_svd: scipy computes the pseudo-inverse in single
   precision (eps = 2^-24); the certificate is then asked for at single precision *)
Definition check_svd (rel : Q) (W : mat) (b : vec) (x : vec) : bool :=
  eps_normal_eq W b x (rel * grad_scale W b x).

Definition check_nnls_out (single : bool) (n : nat) (W : mat) (b : vec) (alpha : Q) (L : option mat) (x : vec) (rnorm : Q) : Z :=
  b2z (negb (Qeq_bool (vmax (stackd b n)) 0) && check_nnls (if single then rel_single else rel_kkt) n W b alpha L x rnorm).
(* the implementation raised ValueError: the model must say the same *)
Definition check_nnls_error (n : nat) (b : vec) : Z := b2z (Qeq_bool (vmax (stackd b n)) 0).
Definition check_lstsq_out (single : bool) (n : nat) (W : mat) (b : vec) (alpha : Q) (L : option mat) (x : vec) (res : list Q) : Z :=
  b2z (check_lstsq (if single then rel_single else rel_kkt) n W b alpha L x res).
Definition check_svd_out (single : bool) (W : mat) (b : vec) (x : vec) : Z :=
  b2z (check_svd (if single then rel_single else rel_svd) W b x).
