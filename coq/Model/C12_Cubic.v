(* The 1-D profile that an accepted 2xN array stands for: raysect's cubic Interpolator1DArray(row 0, row 1,
   'cubic', 'none', 0) as modelled in Model/C07_Cubic.v (read-only import), inside the range of the knots.
   Definitions only. *)
Require Import Cherab.Common.Qx.
Require Import Cherab.Model.C07_Cubic.
Require Import Cherab.Model.C12_Equilibrium Cherab.Model.C12_Profile.
From Coq Require Import Qabs.
Open Scope Q_scope.

Definition array_profile (xs ys : list Q) : Q -> Q := cubic1_list xs ys.

(* the function handed to IsoMapper2D / FluxCoordToCartesian for an argument of the API *)
Definition profile_of (a : parg) (f : Q -> Q) : option (Q -> Q) :=
  match convert a with
  | AcceptFun => Some f
  | AcceptArray xs ys => Some (array_profile xs ys)
  | Reject _ => None
  end.

(* correspondence: the value the running Interpolator1DArray returns at p against the model evaluated by Coq
   (reduced-fraction evaluator cubic1_r, proved equal to cubic1 in Proofs/C07_Cubic.v) *)
Definition check_cubic (xs ys : list Q) (p impl : Q) : bool :=
  let m := fold_right (fun x acc => Qmaxabs x acc) 0 ys in
  let model := cubic1_r (length xs) (fun i => nth i xs 0) (fun i => nth i ys 0) p in
  Qle_bool (Qabs (model - impl)) (pow2 (-40) * m).
