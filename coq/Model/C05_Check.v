(* Executable comparators used by the correspondence check of C05 (definitions only).
   The model of Model/C05_BeamModels.v is run by Coq on the inputs of a case and compared with what
   the real BeamCXLine / BeamEmissionLine / Plasma did on the same inputs. *)
Require Import Cherab.Common.Qx.
Require Import Cherab.Model.C05_BeamModels Cherab.Model.C05_History.
From Coq Require Import Qround.
Open Scope Q_scope.

(* ---- sqrt oracle used for the correspondence: floor(sqrt(x * 4^64)) / 2^64 ----------------------
   s^2 <= x < (s + 2^-64)^2 (Proofs/C05_Check.v), far below the 2^-40 comparison tolerance for
   every argument the cases produce (all arguments are > 2^-20 or exactly 0). *)
Definition sqrt_bits : Z := 64.
Definition sqrt_approx (x : Q) : Q :=
  if Qle_bool x 0 then 0
  else Qred (inject_Z (Z.sqrt (Qfloor (x * inject_Z (2 ^ (2 * sqrt_bits))))) / inject_Z (2 ^ sqrt_bits)).

(* ---- rate functions used by the stub atomic data: affine with non-negative dyadic coefficients
   (Qred only changes the representation of the value: Qred q == q) ---- *)
Definition aff3 (c : list Q) : rate3 :=
  fun e n t => Qred (nth 0 c 0 + nth 1 c 0 * e + nth 2 c 0 * n + nth 3 c 0 * t).
Definition aff5 (c : list Q) : rate5 :=
  fun e t n z b => Qred (nth 0 c 0 + nth 1 c 0 * e + nth 2 c 0 * t + nth 3 c 0 * n + nth 4 c 0 * z + nth 5 c 0 * b).

(* (donor_metastable, coefficients of the BeamCXPEC, coefficients of the BeamPopulationRate of every
   species of the composition) *)
Definition mkrate (r : Z * list Q * list (list Q)) : cxrate :=
  (fst (fst r), aff5 (snd (fst r)), map aff3 (snd r)).

Definition tol : Q := pow2 (-40).
(* absolute slack 2^-1000: a product that underflows in double (subnormal density or temperature used as a
   guard boundary) is compared with the model's tiny exact value; irrelevant for every normal magnitude *)
Definition abs_tol : Q := pow2 (-1000).
Definition closeq (a b : Q) : bool := close tol abs_tol a b.

Fixpoint all2 {A B} (p : A -> B -> bool) (l1 : list A) (l2 : list B) : bool :=
  match l1, l2 with
  | [], [] => true
  | a :: t1, b :: t2 => p a b && all2 p t1 t2
  | _, _ => false
  end.

(* what the implementation did: 0 spectrum returned untouched, 1 add_line(radiance) called,
   2 RuntimeError, 3 ValueError, 4 AttributeError *)
Definition code_of (o : outcome) : Z :=
  match o with Unchanged => 0 | AddLine _ => 1 | ErrNoReceiver => 2 | ErrNoIons => 3 | ErrNoGround => 4 end.
Definition radiance_of (o : outcome) : Q := match o with AddLine r => r | _ => 0 end.

Definition cmp_outcome (o : outcome) (code : Z) (radiance : Q) : bool :=
  (code_of o =? code)%Z && closeq (Qred (radiance_of o)) radiance.

Definition list_of_args5 (a : args5) : list Q := match a with (e, t, n, z, b) => [e; t; n; z; b] end.
Definition list_of_args3 (a : Q * Q * Q) : list Q := match a with (e, n, t) => [e; n; t] end.

(* CX case.  [cxlog]: the argument tuple every BeamCXPEC.evaluate received (the harness has already
   checked that all calls received bitwise the same tuple, and how many calls there were);
   [poplog]: for every ionised species, in composition order, the (energy, density, temperature) its
   BeamPopulationRate.evaluate received. *)
Definition check_cx (K : consts) (sps : list species) (bfield : vec) (lel lch : Z)
           (rates : list (Z * list Q * list (list Q)))
           (beam_len beam_z att : Q) (dir : vec) (energy : Q)
           (code : Z) (radiance : Q) (cxlog : list Q) (poplog : list (list Q)) : bool :=
  let o := cx_emission sqrt_approx K sps bfield lel lch (map mkrate rates) beam_len beam_z att dir energy in
  cmp_outcome o code radiance &&
  match o with
  | AddLine _ =>
      match find_species sps lel (lch + 1) with
      | None => false
      | Some rs =>
          let bv := beam_velocity sqrt_approx K dir energy in
          let ie := interaction_energy sqrt_approx K bv (vel rs) in
          match cx_args sqrt_approx sps bfield ie (temp rs) with
          | None => false
          | Some a5 => all2 closeq (map Qred (list_of_args5 a5)) cxlog
          end &&
          (match poplog with
           | [] => true        (* no excited state: no population coefficient is evaluated *)
           | _ => all2 (fun s l => all2 closeq (map Qred (list_of_args3 (args3 sqrt_approx K bv (density_sum sps) s))) l)
                       (ionised sps) poplog
           end)
      end
  | _ => true
  end.

(* BES case.  [radiance] is the wavelength integral of the spectrum the real model produced;
   [log]: for every ionised species the arguments its BeamEmissionPEC.evaluate received. *)
Definition check_bes (K : consts) (sps : list species) (pecs : list (list Q))
           (beam_len beam_z att : Q) (dir : vec) (energy : Q)
           (code : Z) (radiance : Q) (log : list (list Q)) : bool :=
  let o := bes_emission sqrt_approx K sps (map aff3 pecs) beam_len beam_z att dir energy in
  cmp_outcome o code radiance &&
  match o with
  | AddLine _ =>
      let bv := beam_velocity sqrt_approx K dir energy in
      all2 (fun s l => all2 closeq (map Qred (list_of_args3 (args3 sqrt_approx K bv (density_sum sps) s))) l)
           (ionised sps) log
  | _ => true
  end.

(* Plasma.z_effective / Plasma.ion_density called directly: code 1 = value returned, 3 = ValueError *)
Definition check_plasma (sps : list species) (code : Z) (zeff nion : Q) : bool :=
  match z_effective sps with
  | None => (code =? 3)%Z
  | Some z => (code =? 1)%Z && closeq (Qred z) zeff
  end && closeq (Qred (ion_density sps)) nion.

(* ---- Composition as a dictionary: the model of Model/C05_History.v is run on the composition mutations of a
   history and compared, after every step, with what the real container reports (keys in iteration order and the
   density each member returns at the origin): exact comparison. ---- *)
Inductive cop := CAdd (el ch : Z) (n : Q) | CSet (l : list (Z * Z * Q)) | CClear.
Definition kobj (e : Z * Z * Q) : sobj unit :=
  mkSobj unit (fst (fst e)) (snd (fst e)) (fun _ => (snd e, 0, (0, 0, 0))).
Definition apply_cop (l : list (sobj unit)) (o : cop) : list (sobj unit) :=
  match o with
  | CAdd el ch n => comp_add unit (kobj (el, ch, n)) l
  | CSet es => comp_set unit (map kobj es)
  | CClear => []
  end.
Definition view_of (l : list (sobj unit)) : list (Z * Z * Q) :=
  map (fun o => (o_el unit o, o_ch unit o, dens (sample unit tt o))) l.
Definition same_view (a b : list (Z * Z * Q)) : bool :=
  all2 (fun x y => (fst (fst x) =? fst (fst y))%Z && (snd (fst x) =? snd (fst y))%Z && Qeq_bool (snd x) (snd y)) a b.
(* steps: the mutations of one history step and the container's report after it *)
Fixpoint check_comp_history (l : list (sobj unit)) (steps : list (list cop * list (Z * Z * Q))) : bool :=
  match steps with
  | [] => true
  | (ops, view) :: t =>
      let l' := fold_left apply_cop ops l in
      same_view (view_of l') view && check_comp_history l' t
  end.

(* the probed notification table as a function *)
Definition table_of (probed : list (Z * (bool * bool))) (k : Z) : bool * bool :=
  match find (fun e => (fst e =? k)%Z) probed with Some e => snd e | None => (false, false) end.
