(* Executable comparators used by the correspondence check of C05 (definitions only).
   The model of Model/C05_BeamModels.v is run by Coq on the inputs of a case and compared with what
   the real BeamCXLine / BeamEmissionLine / Plasma did on the same inputs. *)
Require Import Cherab.Common.Qx.
Require Import Cherab.Model.C05_BeamModels Cherab.Model.C05_History Cherab.Model.C05_Mse.
From Coq Require Import Qround.
Open Scope Q_scope.

(* ---- sqrt oracle used for the correspondence: floor(sqrt(x * 4^64)) / 2^64 ----------------------
   s^2 <= x < (s + 2^-64)^2 (Proofs/C05_Check.v), far below the 2^-40 comparison tolerance for
   every argument the cases produce (all arguments are > 2^-20 or exactly 0). *)
Definition sqrt_bits : Z := 64.
Definition sqrt_approx (x : Q) : Q :=
  if Qle_bool x 0 then 0
  else Qred (inject_Z (Z.sqrt (Qfloor (x * inject_Z (2 ^ (2 * sqrt_bits))))) / inject_Z (2 ^ sqrt_bits)).

(* ---- rate functions used by the stub atomic data: affine with non-negative dyadic coefficients
   (Qred only changes the representation of the value: Qred q == q) ---- *)
(* c = [c0; c1; ...; threshold]: the table vanishes below a threshold of the interaction energy (threshold 0 or
   absent: never for the energies >= 0 that occur) *)
Definition aff3 (c : list Q) : rate3 :=
  fun e n t => if Qle_bool (nth 4 c 0) e
               then Qred (nth 0 c 0 + nth 1 c 0 * e + nth 2 c 0 * n + nth 3 c 0 * t) else 0.
Definition aff5 (c : list Q) : rate5 :=
  fun e t n z b => if Qle_bool (nth 6 c 0) e
                   then Qred (nth 0 c 0 + nth 1 c 0 * e + nth 2 c 0 * t + nth 3 c 0 * n + nth 4 c 0 * z + nth 5 c 0 * b) else 0.

(* (donor_metastable, coefficients of the BeamCXPEC, coefficients of the BeamPopulationRate of every
   species of the composition) *)
Definition mkrate (r : Z * list Q * list (list Q)) : cxrate :=
  (fst (fst r), aff5 (snd (fst r)), map aff3 (snd r)).

Definition tol : Q := pow2 (-40).
(* absolute slack 2^-1000: a product that underflows in double (subnormal density or temperature used as a
   guard boundary) is compared with the model's tiny exact value; irrelevant for every normal magnitude *)
Definition abs_tol : Q := pow2 (-1000).
Definition closeq (a b : Q) : bool := close tol abs_tol a b.

Fixpoint all2 {A B} (p : A -> B -> bool) (l1 : list A) (l2 : list B) : bool :=
  match l1, l2 with
  | [], [] => true
  | a :: t1, b :: t2 => p a b && all2 p t1 t2
  | _, _ => false
  end.

(* what the implementation did: 0 spectrum returned untouched, 1 add_line(radiance) called,
   2 RuntimeError, 3 ValueError, 4 AttributeError *)
Definition code_of (o : outcome) : Z :=
  match o with Unchanged => 0 | AddLine _ => 1 | ErrNoReceiver => 2 | ErrNoIons => 3 | ErrNoGround => 4 end.
Definition radiance_of (o : outcome) : Q := match o with AddLine r => r | _ => 0 end.

Definition cmp_outcome (o : outcome) (code : Z) (radiance : Q) : bool :=
  (code_of o =? code)%Z && closeq (Qred (radiance_of o)) radiance.

Definition list_of_args5 (a : args5) : list Q := match a with (e, t, n, z, b) => [e; t; n; z; b] end.
Definition list_of_args3 (a : Q * Q * Q) : list Q := match a with (e, n, t) => [e; n; t] end.

(* CX case.  [cxlog]: the argument tuple every BeamCXPEC.evaluate received (the harness has already
   checked that all calls received bitwise the same tuple, and how many calls there were);
   [poplog]: for every ionised species, in composition order, the (energy, density, temperature) its
   BeamPopulationRate.evaluate received. *)
Definition check_cx (K : consts) (sps : list species) (bfield : vec) (lel lch : Z)
           (rates : list (Z * list Q * list (list Q)))
           (beam_len beam_z att : Q) (dir : vec) (energy : Q)
           (code : Z) (radiance : Q) (cxlog : list Q) (poplog : list (list Q)) : bool :=
  let o := cx_emission sqrt_approx K sps bfield lel lch (map mkrate rates) beam_len beam_z att dir energy in
  cmp_outcome o code radiance &&
  match o with
  | AddLine _ =>
      match find_species sps lel (lch + 1) with
      | None => false
      | Some rs =>
          let bv := beam_velocity sqrt_approx K dir energy in
          let ie := interaction_energy sqrt_approx K bv (vel rs) in
          match cx_args sqrt_approx sps bfield ie (temp rs) with
          | None => false
          | Some a5 => all2 closeq (map Qred (list_of_args5 a5)) cxlog
          end &&
          (match poplog with
           | [] => true        (* no excited state: no population coefficient is evaluated *)
           | _ => all2 (fun s l => all2 closeq (map Qred (list_of_args3 (args3 sqrt_approx K bv (density_sum sps) s))) l)
                       (ionised sps) poplog
           end)
      end
  | _ => true
  end.

(* BES case.  [radiance] is the wavelength integral of the spectrum the real model produced;
   [log]: for every ionised species the arguments its BeamEmissionPEC.evaluate received. *)
Definition check_bes (K : consts) (sps : list species) (pecs : list (list Q))
           (beam_len beam_z att : Q) (dir : vec) (energy : Q)
           (code : Z) (radiance : Q) (log : list (list Q)) : bool :=
  let o := bes_emission sqrt_approx K sps (map aff3 pecs) beam_len beam_z att dir energy in
  cmp_outcome o code radiance &&
  match o with
  | AddLine _ =>
      let bv := beam_velocity sqrt_approx K dir energy in
      all2 (fun s l => all2 closeq (map Qred (list_of_args3 (args3 sqrt_approx K bv (density_sum sps) s))) l)
           (ionised sps) log
  | _ => true
  end.

(* Plasma.z_effective / Plasma.ion_density called directly: code 1 = value returned, 3 = ValueError *)
Definition check_plasma (sps : list species) (code : Z) (zeff nion : Q) : bool :=
  match z_effective sps with
  | None => (code =? 3)%Z
  | Some z => (code =? 1)%Z && closeq (Qred z) zeff
  end && closeq (Qred (ion_density sps)) nion.

(* ---- Composition as a dictionary: the model of Model/C05_History.v is run on the composition mutations of a
   history and compared, after every step, with what the real container reports (keys in iteration order and the
   density each member returns at the origin): exact comparison. ---- *)
Inductive cop := CAdd (el ch : Z) (n : Q) | CSet (l : list (Z * Z * Q)) | CClear.
Definition kobj (e : Z * Z * Q) : sobj unit :=
  mkSobj unit (fst (fst e)) (snd (fst e)) (fun _ => (snd e, 0, (0, 0, 0))).
Definition apply_cop (l : list (sobj unit)) (o : cop) : list (sobj unit) :=
  match o with
  | CAdd el ch n => comp_add unit (kobj (el, ch, n)) l
  | CSet es => comp_set unit (map kobj es)
  | CClear => []
  end.
Definition view_of (l : list (sobj unit)) : list (Z * Z * Q) :=
  map (fun o => (o_el unit o, o_ch unit o, dens (sample unit tt o))) l.
Definition same_view (a b : list (Z * Z * Q)) : bool :=
  all2 (fun x y => (fst (fst x) =? fst (fst y))%Z && (snd (fst x) =? snd (fst y))%Z && Qeq_bool (snd x) (snd y)) a b.
(* steps: the mutations of one history step and the container's report after it *)
Fixpoint check_comp_history (l : list (sobj unit)) (steps : list (list cop * list (Z * Z * Q))) : bool :=
  match steps with
  | [] => true
  | (ops, view) :: t =>
      let l' := fold_left apply_cop ops l in
      same_view (view_of l') view && check_comp_history l' t
  end.

(* the probed notification table as a function *)
Definition table_of (probed : list (Z * (bool * bool))) (k : Z) : bool * bool :=
  match find (fun e => (fst e =? k)%Z) probed with Some e => snd e | None => (false, false) end.

(* ---- Stark multiplet: [observed] are the wavelength integrals of the real spectrum over the five nested windows
   |lambda - central| < (j + 1/2) split, j = 0..3, and over everything; the model distributes the model's radiance ---- *)
Definition check_mse (K : consts) (sps : list species) (pecs : list (list Q))
           (beam_len beam_z att : Q) (dir : vec) (energy : Q) (ratios : list Q) (te ne : Q)
           (code : Z) (observed : list Q) : bool :=
  let o := bes_emission sqrt_approx K sps (map aff3 pecs) beam_len beam_z att dir energy in
  let r := mkRatios (nth 0 ratios 0) (nth 1 ratios 0) (nth 2 ratios 0) (nth 3 ratios 0) in
  (code_of o =? code)%Z &&
  match o with
  | AddLine rad => all2 closeq (map Qred (cumulative (mse_add_line te ne rad r))) observed
  | _ => all2 closeq [0; 0; 0; 0; 0] observed
  end.

(* line setters: (is_none, hydrogen family, charge, upper, lower, observed code) *)
Definition check_bes_line (e : bool * bool * Z * Z * Z * Z) : bool :=
  match e with (n, f, ch, up, lo, code) => (setter_code (bes_line_setter n f ch up lo) =? code)%Z end.
Definition check_bes_cache (e : Z * Z * Z * Z) : bool :=
  match e with (b, l, ch, code) => (setter_code (bes_cache_check b l ch) =? code)%Z end.

(* ---- the cached state machine of Model/C05_History.v run by Coq on a generated history ------------------------
   A point is (plasma-space point, beam-space point); the fields of the harness depend on the position through the
   fixed factors below (harness/c05_impl.py g_dens, g_temp, g_vel, g_b, g_att), or are constants. *)
Definition pt := ((Q * Q * Q) * (Q * Q * Q))%type.
Definition cx3 (p : Q * Q * Q) : Q := fst (fst p).
Definition cy3 (p : Q * Q * Q) : Q := snd (fst p).
Definition cz3 (p : Q * Q * Q) : Q := snd p.
Definition g_dens (p : Q * Q * Q) : Q := 1 + (1 # 4) * cx3 p + (1 # 8) * cy3 p + (1 # 2) * cz3 p.
Definition g_temp (p : Q * Q * Q) : Q := 1 + (1 # 2) * cx3 p + (1 # 4) * cz3 p.
Definition g_vel (p : Q * Q * Q) : Q := 1 + (1 # 8) * cx3 p + (1 # 4) * cy3 p.
Definition g_b (p : Q * Q * Q) : Q := 1 + (1 # 4) * cy3 p + (1 # 8) * cz3 p.
Definition g_att (p : Q * Q * Q) : Q := 1 + (1 # 2) * cx3 p + (1 # 4) * cy3 p + (1 # 8) * cz3 p.
Definition scale3 (v : vec) (k : Q) : vec := (Qred (vx v * k), Qred (vy v * k), Qred (vz v * k)).
Definition mkobj (el ch : Z) (n0 t0 : Q) (v0 : vec) (fn : bool) : sobj pt :=
  mkSobj pt el ch (fun p => if fn then (Qred (n0 * g_dens (fst p)), Qred (t0 * g_temp (fst p)), scale3 v0 (g_vel (fst p)))
                            else (n0, t0, v0)).
Definition bfield_fn (b0 : vec) (fn : bool) : pt -> vec := fun p => if fn then scale3 b0 (g_b (fst p)) else b0.
Definition att_fn (att0 : Q) : pt -> Q := fun p => Qred (att0 * g_att (snd p)).
Definition coeffs_of {A} (eqb : A -> A -> bool) (tab : list (A * list Q)) (k : A) : list Q :=
  match find (fun e => eqb (fst e) k) tab with Some e => snd e | None => [] end.
Definition eq3 (a b : Z * Z * Z) : bool :=
  (fst (fst a) =? fst (fst b))%Z && (snd (fst a) =? snd (fst b))%Z && (snd a =? snd b)%Z.
Definition eq2 (a b : Z * Z) : bool := (fst a =? fst b)%Z && (snd a =? snd b)%Z.
Definition mkprov (rates : list (Z * list Q)) (pop : list (Z * Z * Z * list Q)) (pec : list (Z * Z * list Q)) : provider :=
  mkProvider (map (fun r => (fst r, aff5 (snd r))) rates)
             (fun m el ch => aff3 (coeffs_of eq3 pop (m, el, ch)))
             (fun el ch => aff3 (coeffs_of eq2 pec (el, ch))).
(* every evaluation of the live objects, in order: outcome kind exactly, radiance at the tolerance *)
Definition check_machine (K : consts) (probed : list (Z * (bool * bool))) (c : config pt) (evs : list (event pt))
           (expected : list (Z * Q)) : bool :=
  all2 (fun o e => cmp_outcome o (fst e) (snd e))
       (run_live pt sqrt_approx K (table_of probed) evs (mkState pt c None None)) expected.
