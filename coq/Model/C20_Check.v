(* Executable comparators used by the correspondence check of C20 (definitions only). *)
Require Import Cherab.Common.Qx.
Require Import Cherab.Model.C20_Stencil Cherab.Model.C20_Admt.
From Coq Require Import Qabs.
Open Scope Q_scope.

Definition all_ops : list opname := [ODx; ODy; ODxx; ODyy; ODxy].

Fixpoint forallb2 {A B} (p : A -> B -> bool) (l1 : list A) (l2 : list B) : bool :=
  match l1, l2 with
  | [], [] => true
  | a :: t1, b :: t2 => p a b && forallb2 p t1 t2
  | _, _ => false
  end.

Definition maxabs (l : list Q) : Q := fold_right (fun x m => if Qle_bool m (Qabs x) then Qabs x else m) 0 l.

(* exact = true: coefficients must be equal as rationals; otherwise relative 2^-40 of the row maximum *)
Definition cmp_row (exact : bool) (model impl : list Q) : bool :=
  if exact then forallb2 Qeq_bool model impl
  else let m := maxabs model in forallb2 (fun a b => Qle_bool (Qabs (a - b)) (pow2 (-40) * m)) model impl.

(* one case = one cell: the five rows (nine coefficients each, in the order of [offs]) *)
Definition check_stencil (exact : bool) (nx ny ix iy : Z) (dx dy : Q) (rows : list (list Q)) : bool :=
  forallb2 (fun o r => cmp_row exact (coeffs (op_row o nx ny ix iy dx dy)) r) all_ops rows.

Definition psi_of (tbl : list (list Q)) : Z -> Z -> Q :=
  fun i j => nth (Z.to_nat j) (nth (Z.to_nat i) tbl []) 0.

(* s is the implementation's sqrt(dx*dy): accepted when s*s is within 2^-48 of dx*dy *)
Definition sqrt_ok (s dx dy : Q) : bool :=
  Qle_bool 0 s && Qle_bool (Qabs (s * s - dx * dy)) (pow2 (-48) * (dx * dy)).

Definition admt_tol : Q := pow2 (-28).
Definition check_admt (nx ny ix iy : Z) (dx dy s aniso r : Q) (tbl : list (list Q)) (row : list Q) : bool :=
  let j := jet_of (psi_of tbl) aniso r nx ny ix iy dx dy in
  let model := map Qred (coeffs (admt_row j nx ny ix iy dx dy s)) in
  let m := maxabs model in
  sqrt_ok s dx dy && negb (Qeq_bool (normalisation j) 0) &&
  forallb2 (fun a b => Qle_bool (Qabs (a - b)) (admt_tol * m)) model row.

(* ---- fast evaluator (reduced fractions, coefficients computed once); proved equal to the model
   in Proofs/C20_Check.v ---- *)
Definition jet_red (j : jet) : jet :=
  {| px := Qred (px j); py := Qred (py j); pxx := Qred (pxx j); pxy := Qred (pxy j); pyy := Qred (pyy j);
     dperp := Qred (dperp j); dpar := Qred (dpar j);
     dperp_x := Qred (dperp_x j); dperp_y := Qred (dperp_y j);
     dpar_x := Qred (dpar_x j); dpar_y := Qred (dpar_y j); rad := Qred (rad j) |}.

Definition admt_coeffs_fast (j : jet) (nx ny ix iy : Z) (dx dy s : Q) : list Q :=
  let j' := jet_red j in
  let cx := Qred (c_x j') in let cy := Qred (c_y j') in
  let cxx := Qred (c_xx j') in let cxy := Qred (c_xy j') in let cyy := Qred (c_yy j') in
  let rx := op_row ODx nx ny ix iy dx dy in let ry := op_row ODy nx ny ix iy dx dy in
  let rxx := op_row ODxx nx ny ix iy dx dy in let rxy := op_row ODxy nx ny ix iy dx dy in
  let ryy := op_row ODyy nx ny ix iy dx dy in
  map (fun ab => let a := fst ab in let b := snd ab in
         Qred ((cx * rx a b + cy * ry a b + cxx * rxx a b + 2 * cxy * rxy a b + cyy * ryy a b) * s)) offs.

Definition check_admt_fast (nx ny ix iy : Z) (dx dy s aniso r : Q) (tbl : list (list Q)) (row : list Q) : bool :=
  let j := jet_of (psi_of tbl) aniso r nx ny ix iy dx dy in
  let model := admt_coeffs_fast j nx ny ix iy dx dy s in
  let m := maxabs model in
  sqrt_ok s dx dy && negb (Qeq_bool (normalisation (jet_red j)) 0) &&
  forallb2 (fun a b => Qle_bool (Qabs (a - b)) (admt_tol * m)) model row.
