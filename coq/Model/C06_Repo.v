(* Property C06 -- executable model of the atomic-data repository of cherab/openadas/repository
   (definitions only; the proofs are in Proofs/C06_*.v).

   What is modelled
   ----------------
   * the file system as a finite map  path -> file  ([fs]); a path is the list of its components
     (os.path.join / open are not modelled further; components never contain a slash, which the
     harness checks for every symbol of the element registry);
   * a JSON file as a finite map  sub-key -> value  ([file]); the value (the arrays of one rate, one
     wavelength) is an opaque identifier [val]: the JSON text <-> float64 round trip is Python's and is
     exercised bit for bit by the harness, not modelled;
   * sub-keys: [SStr s] for  content[str(charge)] / content[encode_transition(t)],
     [SMeta s m] for the two-level  content[transition_key][metastable]  of beam/cx.py (the tree with
     unique keys per level is kept flat; on disk the metastable is str(m) and is converted back with
     int(), a round trip that is the identity on Python ints), [SNone] for the files that hold one
     rate (beam/stopping.py, beam/population.py);
   * every update_* function: validation order, the file that is read, what is set, when the file is
     written (three disciplines, see [exec_A], [exec_B], [exec_C]), and where it stops when it raises;
   * add_* as the code delegates; get_* as lookup-or-RuntimeError; the install_* front ends of
     install.py from the parsed data on (the ADF parsers are property C08's subject).
   TypeError for non-Element arguments is not modelled (every species is an Element). *)
From Coq Require Import ZArith List Bool String Ascii DecimalString DecimalZ Decimal.
Import ListNotations.
Open Scope string_scope.
Open Scope Z_scope.

(* ------------------------------------------------------------------------------------------ *)
(* strings: str(int), str.lower() on ASCII, '{} -> {}'.format                                   *)
(* ------------------------------------------------------------------------------------------ *)
Definition strZ (z : Z) : string := NilEmpty.string_of_int (Z.to_int z).

Definition lower_ascii (c : ascii) : ascii :=
  let n := N_of_ascii c in
  if (N.leb 65 n && N.leb n 90)%bool then ascii_of_N (n + 32) else c.

Fixpoint lower (s : string) : string :=
  match s with EmptyString => EmptyString | String c t => String (lower_ascii c) (lower t) end.

(* a transition level as the caller gives it: an int or a string (utility.py:encode_transition
   applies str() then .lower() to both) *)
Inductive level := LInt (z : Z) | LStr (s : string).
Definition str_level (l : level) : string := match l with LInt z => strZ z | LStr s => s end.
Definition norm_level (l : level) : string := lower (str_level l).

(* normalised transition: the pair of lower-cased strings; this is what the property compares *)
Definition ntrans := (string * string)%type.
Definition norm_trans (t : level * level) : ntrans := (norm_level (fst t), norm_level (snd t)).
Definition join_trans (t : ntrans) : string := fst t ++ " -> " ++ snd t.
(* utility.py:29-41 *)
Definition encode_transition (t : level * level) : string := join_trans (norm_trans t).

(* species: symbol as written in the registry and atomic number (an Isotope has its own symbol and
   the atomic number of its element) *)
(* [is_elem] = isinstance(x, Element): every update function raises TypeError for an argument that is not *)
Record species := { sym : string; znum : Z; is_elem : bool }.
Definition lsym (s : species) : string := lower (sym s).
(* utility.py:44-52 *)
Definition valid_charge (s : species) (q : Z) : bool := q <=? znum s.

(* ------------------------------------------------------------------------------------------ *)
(* keys of the abstract store (what the property calls a key)                                  *)
(* ------------------------------------------------------------------------------------------ *)
Definition val := positive.

Inductive adf11fam := FIon | FRec | FLine | FCont | FCxp.
Inductive pecfam := PExc | PRec.

Inductive key :=
| KAdf11 (f : adf11fam) (s : string) (q : Z)                       (* atomic.py, radiated_power.py *)
| KTcx (d : string) (dq : Z) (r : string) (rq : Z)                 (* atomic.py thermal CX *)
| KPec (c : pecfam) (s : string) (q : Z) (t : ntrans)              (* pec.py excitation / recombination *)
| KPecTcx (d : string) (dq : Z) (r : string) (rq : Z) (t : ntrans) (* pec.py thermal CX *)
| KWvl (s : string) (q : Z) (t : ntrans)                           (* wavelength.py *)
| KBcx (d : string) (r : string) (rq : Z) (t : ntrans) (m : Z)     (* beam/cx.py *)
| KBstop (b : string) (t : string) (q : Z)                         (* beam/stopping.py *)
| KBpop (b : string) (m : Z) (t : string) (q : Z)                  (* beam/population.py *)
| KBem (b : string) (t : string) (q : Z) (tr : ntrans).            (* beam/emission.py *)

Definition path := list string.

Inductive subkey := SNone | SStr (s : string) | SMeta (s : string) (m : Z).

Definition json (s : string) : string := s ++ ".json".

Definition adf11_dir (f : adf11fam) : path :=
  match f with
  | FIon => ["ionisation"]               (* atomic.py:79 *)
  | FRec => ["recombination"]            (* atomic.py:132 *)
  | FLine => ["radiated_power"; "line"]       (* radiated_power.py:84 *)
  | FCont => ["radiated_power"; "continuum"]  (* radiated_power.py:143 *)
  | FCxp => ["radiated_power"; "cx"]          (* radiated_power.py:204 *)
  end.
Definition pec_dir (c : pecfam) : string := match c with PExc => "excitation" | PRec => "recombination" end.

(* the file of a key, relative to the repository root, exactly as the update_* / get_* functions
   format it (all symbols arrive here lower-cased) *)
Definition path_adf11 f s : path := (adf11_dir f ++ [json s])%list.
(* the same with the numbers already rendered by '{}'.format (so that the templates can be compared with the source) *)
Definition path_tcx_s (d dq r : string) : path := ["thermal_cx"; d; dq; json r].                 (* atomic.py:196 *)
Definition path_pec_d (dir s q : string) : path := ["pec"; dir; s; json q].                      (* pec.py:171 *)
Definition path_pec_s c (s q : string) : path := path_pec_d (pec_dir c) s q.
Definition path_pectcx_s (d dq r rq : string) : path := ["pec"; "thermal_cx"; d; dq; r; json rq]. (* pec.py:258 *)
Definition path_wvl_s (s q : string) : path := ["wavelength"; s; json q].                        (* wavelength.py:83 *)
Definition path_bcx_s (d r rq : string) : path := ["beam"; "cx"; d; r; json rq].                 (* beam/cx.py:138 *)
Definition path_bstop_s (b t q : string) : path := ["beam"; "stopping"; b; t; json q].           (* beam/stopping.py:97 *)
Definition path_bpop_s (b m t q : string) : path := ["beam"; "population"; b; m; t; json q].     (* beam/population.py:103 *)
Definition path_bem_s (b t q : string) : path := ["beam"; "emission"; b; t; json q].             (* beam/emission.py:104 *)
Definition path_tcx d dq r := path_tcx_s d (strZ dq) r.
Definition path_pec c s q := path_pec_s c s (strZ q).
Definition path_pectcx d dq r rq := path_pectcx_s d (strZ dq) r (strZ rq).
Definition path_wvl s q := path_wvl_s s (strZ q).
Definition path_bcx d r rq := path_bcx_s d r (strZ rq).
Definition path_bstop b t q := path_bstop_s b t (strZ q).
Definition path_bpop b m t q := path_bpop_s b (strZ m) t (strZ q).
Definition path_bem b t q := path_bem_s b t (strZ q).

Definition loc (k : key) : path * subkey :=
  match k with
  | KAdf11 f s q => (path_adf11 f s, SStr (strZ q))
  | KTcx d dq r rq => (path_tcx d dq r, SStr (strZ rq))
  | KPec c s q t => (path_pec c s q, SStr (join_trans t))
  | KPecTcx d dq r rq t => (path_pectcx d dq r rq, SStr (join_trans t))
  | KWvl s q t => (path_wvl s q, SStr (join_trans t))
  | KBcx d r rq t m => (path_bcx d r rq, SMeta (join_trans t) m)
  | KBstop b t q => (path_bstop b t q, SNone)
  | KBpop b m t q => (path_bpop b m t q, SNone)
  | KBem b t q tr => (path_bem b t q, SStr (join_trans tr))
  end.
Definition kpath (k : key) : path := fst (loc k).
Definition ksub (k : key) : subkey := snd (loc k).

(* ------------------------------------------------------------------------------------------ *)
(* finite maps as association lists                                                             *)
(* ------------------------------------------------------------------------------------------ *)
Fixpoint path_eqb (a b : path) : bool :=
  match a, b with
  | [], [] => true
  | x :: a', y :: b' => String.eqb x y && path_eqb a' b'
  | _, _ => false
  end.

Definition subkey_eqb (a b : subkey) : bool :=
  match a, b with
  | SNone, SNone => true
  | SStr s, SStr s' => String.eqb s s'
  | SMeta s m, SMeta s' m' => String.eqb s s' && (m =? m')
  | _, _ => false
  end.

Definition file := list (subkey * val).
Definition fs := list (path * file).

Fixpoint flookup (s : subkey) (c : file) : option val :=
  match c with [] => None | (s', v) :: t => if subkey_eqb s s' then Some v else flookup s t end.
(* content[key] = v : replace in place or append *)
Fixpoint fset (s : subkey) (v : val) (c : file) : file :=
  match c with
  | [] => [(s, v)]
  | (s', v') :: t => if subkey_eqb s s' then (s, v) :: t else (s', v') :: fset s v t
  end.

Fixpoint read (p : path) (d : fs) : option file :=
  match d with [] => None | (p', c) :: t => if path_eqb p p' then Some c else read p t end.
(* open(path, 'w'); json.dump : create or replace the whole file *)
Fixpoint write (p : path) (c : file) (d : fs) : fs :=
  match d with
  | [] => [(p, c)]
  | (p', c') :: t => if path_eqb p p' then (p, c) :: t else (p', c') :: write p c t
  end.
(* try: json.load ... except FileNotFoundError: content = RecursiveDict() *)
Definition read_or_empty (p : path) (d : fs) : file := match read p d with Some c => c | None => [] end.

(* ------------------------------------------------------------------------------------------ *)
(* the repository root                                                                          *)
(* ------------------------------------------------------------------------------------------ *)
(* utility.py:26  DEFAULT_REPOSITORY_PATH = expanduser('~/.cherab/openadas/repository') *)
Definition default_root : path := ["~"; ".cherab"; "openadas"; "repository"].
(* repository_path = repository_path or DEFAULT_REPOSITORY_PATH *)
Definition eff_root (repo : option path) : path := match repo with Some r => r | None => default_root end.

(* get_* : open(path) / content[key], (FileNotFoundError, KeyError) -> RuntimeError, here [None] *)
Definition get_loc (root : path) (l : path * subkey) (d : fs) : option val :=
  match read (root ++ fst l)%list d with None => None | Some c => flookup (snd l) c end.
Definition get (root : path) (k : key) (d : fs) : option val := get_loc root (loc k) d.

(* ------------------------------------------------------------------------------------------ *)
(* one update call, after the nested dictionary has been walked in iteration order              *)
(* ------------------------------------------------------------------------------------------ *)
(* a leaf of the nested dictionary: the key it is stored under, whether its data passes the
   function's per-leaf validation, the value *)
(* [it_ser]: can json.dumps serialise what this leaf adds (beam/stopping.py, beam/population.py dump the caller's whole
   dictionary: an entry that is not JSON-serialisable raises TypeError, since 8169c8d before the file is opened) *)
Record item := { it_key : key; it_ok : bool; it_ser : bool; it_val : val }.
(* one visit of a file: its path (relative), the checks made before the file is opened, the leaves *)
Inductive errkind := EValue | EType.
(* [g_ok]: the checks made before the file is opened pass; [g_err]: the exception of the first one that fails *)
Record group := { g_path : path; g_ok : bool; g_err : errkind; g_items : list item }.

Inductive outcome := Done | Err (k : errkind).
Notation ErrValue := (Err EValue).
Notation ErrType := (Err EType).
(* the checks of one file visit in source order, each with the exception it raises *)
Fixpoint first_err (chks : list (bool * errkind)) : option errkind :=
  match chks with [] => None | (true, _) :: t => first_err t | (false, e) :: _ => Some e end.
Definition mk_group (p : path) (chks : list (bool * errkind)) (items : list item) : group :=
  {| g_path := p; g_ok := match first_err chks with None => true | Some _ => false end;
     g_err := match first_err chks with Some e => e | None => EValue end; g_items := items |}.

(* Discipline A (atomic.py:212-254 and radiated_power.py:209-251, _update_and_write_adf11):
   the file is read once; for each charge: validate, content[str(charge)] = ..., makedirs, dump.
   A leaf that fails validation raises after the earlier leaves have already been written. *)
Fixpoint exec_A_items (p : path) (items : list item) (content : file) (d : fs) : fs * outcome :=
  match items with
  | [] => (d, Done)
  | it :: rest =>
      if negb (it_ok it) then (d, ErrValue)
      else let content' := fset (ksub (it_key it)) (it_val it) content in
           exec_A_items p rest content' (write p content' d)
  end.
Fixpoint exec_A (root : path) (gs : list group) (d : fs) : fs * outcome :=
  match gs with
  | [] => (d, Done)
  | g :: rest =>
      if negb (g_ok g) then (d, Err (g_err g))
      else let p := (root ++ g_path g)%list in
           match exec_A_items p (g_items g) (read_or_empty p d) d with
           | (d', Done) => exec_A root rest d'
           | (d', Err e) => (d', Err e)
           end
  end.

(* Discipline B (pec.py:160-207 and 245-300, wavelength.py:70-105, beam/cx.py:120-205,
   beam/emission.py:95-170): checks, read, set every leaf in memory (a failing leaf raises and
   nothing of this file is written), makedirs, dump once. *)
Fixpoint set_items (items : list item) (content : file) : option file :=
  match items with
  | [] => Some content
  | it :: rest =>
      if negb (it_ok it) then None
      else set_items rest (fset (ksub (it_key it)) (it_val it) content)
  end.
Fixpoint exec_B (root : path) (gs : list group) (d : fs) : fs * outcome :=
  match gs with
  | [] => (d, Done)
  | g :: rest =>
      if negb (g_ok g) then (d, Err (g_err g))
      else let p := (root ++ g_path g)%list in
           match set_items (g_items g) (read_or_empty p d) with
           | None => (d, ErrValue)
           | Some content' => exec_B root rest (write p content' d)
           end
  end.

(* Discipline C (beam/stopping.py:30-110, beam/population.py:30-115): validate, then overwrite the
   whole file with the one rate.  update_* calls add_* per leaf. *)
Fixpoint exec_C (root : path) (gs : list group) (d : fs) : fs * outcome :=
  match gs with
  | [] => (d, Done)
  | g :: rest =>
      if negb (g_ok g) then (d, Err (g_err g))
      else match g_items g with
           | [it] => if negb (it_ok it) then (d, ErrValue)
                     else if negb (it_ser it) then (d, ErrType)       (* json.dumps(rate) fails: nothing is written *)
                     else exec_C root rest (write (root ++ g_path g)%list [(SNone, it_val it)] d)
           | _ => (d, ErrValue)      (* not produced by the walks below *)
           end
  end.

(* ------------------------------------------------------------------------------------------ *)
(* walking the nested dictionaries (Python dict iteration order = list order)                   *)
(* ------------------------------------------------------------------------------------------ *)
(* the data of one leaf: does it pass the shape checks of its function (decided by the generator
   of the data, compared with what the implementation does), and its value id *)
(* The data of one leaf as the update functions see it after np.array(..., np.float64): the shape of every
   array, in the order the function converts them.  Whether the leaf passes the function's shape
   checks is decided HERE, by the same comparisons as the source. *)
Definition shape := list Z.
Inductive dkind :=
| DTable2     (* ne, te, rate      : atomic.py:224-236, radiated_power.py:221-233, pec.py:183-196 *)
| DTable3     (* ne, te, td, rate  : pec.py:272-288 *)
| DPairs      (* eb,qeb, ti,qti, ni,qni, z,qz, b,qb : beam/cx.py:107-121 sanitise_and_validate, called at 171-175 *)
| DBeam       (* e, n, t, sen, st  : beam/stopping.py:62-83, beam/population.py:66-87, beam/emission.py:118-138 *)
| DScalar.    (* float(wavelength) : wavelength.py:95, no check *)
(* [t_ser]: the dictionary holds nothing json.dumps cannot serialise (only looked at where the caller's whole
   dictionary is dumped) *)
Record tbl := { t_kind : dkind; t_shapes : list shape; t_ser : bool; t_val : val }.

Definition is1d (s : shape) : bool := match s with [_] => true | _ => false end.     (* x.ndim != 1 *)
Fixpoint shape_eqb (a b : shape) : bool :=
  match a, b with
  | [], [] => true
  | x :: a', y :: b' => (x =? y) && shape_eqb a' b'
  | _, _ => false
  end.
Definition dim0 (s : shape) : Z := match s with x :: _ => x | [] => 0 end.           (* x.shape[0] *)
Fixpoint pairs_ok (l : list shape) : bool :=
  match l with
  | [] => true
  | x :: y :: rest => is1d x && is1d y && shape_eqb x y && pairs_ok rest
  | _ => false
  end.
Definition t_ok (t : tbl) : bool :=
  match t_kind t, t_shapes t with
  | DTable2, [ne; te; r] => is1d ne && is1d te && shape_eqb r [dim0 ne; dim0 te]
  | DTable3, [ne; te; td; r] => is1d ne && is1d te && is1d td && shape_eqb r [dim0 ne; dim0 te; dim0 td]
  | DPairs, [_; _; _; _; _; _; _; _; _; _] as l => pairs_ok l
  | DBeam, [e; n; t'; sen; st] => is1d e && is1d n && is1d t' && shape_eqb sen [dim0 e; dim0 n] && shape_eqb t' st
  | DScalar, [] => true
  | _, _ => false
  end.
(* a leaf that passes / fails whatever the family (used in examples) *)
Definition leaf_ok (v : val) : tbl := {| t_kind := DScalar; t_shapes := []; t_ser := true; t_val := v |}.
Definition leaf_bad (v : val) : tbl := {| t_kind := DScalar; t_shapes := [[]]; t_ser := true; t_val := v |}.

Definition dict (K V : Type) := list (K * V).

(* {species: {charge: rate}} ; valid_charge is checked per charge inside the loop *)
Definition groups_adf11 (f : adf11fam) (rates : dict species (dict Z tbl)) : list group :=
  map (fun sr : species * dict Z tbl => let (s, qs) := sr in
         mk_group (path_adf11 f (lsym s)) [(is_elem s, EType)]
            ( map (fun qt : Z * tbl => let (q, t) := qt in
                              {| it_key := KAdf11 f (lsym s) q;
                                 it_ok := valid_charge s q && t_ok t; it_ser := true; it_val := t_val t |}) qs)) rates.

(* {donor: {donor_charge: {receiver: {receiver_charge: rate}}}} (atomic.py:186-200) *)
Definition groups_tcx (rates : dict species (dict Z (dict species (dict Z tbl)))) : list group :=
  flat_map (fun dr : species * _ => let (d, dqs) := dr in
    flat_map (fun dqr : Z * _ => let (dq, rs) := dqr in
      map (fun rr : species * dict Z tbl => let (r, rqs) := rr in
         mk_group (path_tcx (lsym d) dq (lsym r)) [(is_elem r, EType)]
            ( map (fun qt : Z * tbl => let (rq, t) := qt in
                              {| it_key := KTcx (lsym d) dq (lsym r) rq;
                                 it_ok := valid_charge r rq && t_ok t; it_ser := true; it_val := t_val t |}) rqs)) rs) dqs) rates.

(* {class: {element: {charge: {transition: pec}}}} (pec.py:160-207) *)
Definition groups_pec (rates : dict pecfam (dict species (dict Z (dict (level * level) tbl)))) : list group :=
  flat_map (fun ce : pecfam * _ => let (c, els) := ce in
    flat_map (fun eq : species * _ => let (e, qs) := eq in
      map (fun qt : Z * dict (level * level) tbl => let (q, trs) := qt in
         mk_group (path_pec c (lsym e) q) [(is_elem e, EType); (valid_charge e q, EValue)]
            ( map (fun tt : (level * level) * tbl => let (tr, t) := tt in
                              {| it_key := KPec c (lsym e) q (norm_trans tr);
                                 it_ok := t_ok t; it_ser := true; it_val := t_val t |}) trs)) qs) els) rates.

(* {donor: {donor_charge: {receiver: {receiver_charge: {transition: pec}}}}} (pec.py:245-300) *)
Definition groups_pectcx
  (rates : dict species (dict Z (dict species (dict Z (dict (level * level) tbl))))) : list group :=
  flat_map (fun dr : species * _ => let (d, dqs) := dr in
    flat_map (fun dqr : Z * _ => let (dq, rs) := dqr in
      flat_map (fun rr : species * _ => let (r, rqs) := rr in
        map (fun qt : Z * dict (level * level) tbl => let (rq, trs) := qt in
           mk_group (path_pectcx (lsym d) dq (lsym r) rq)
              [(is_elem d, EType); (valid_charge d (dq + 1), EValue); (is_elem r, EType); (valid_charge r rq, EValue)]
              ( map (fun tt : (level * level) * tbl => let (tr, t) := tt in
                                {| it_key := KPecTcx (lsym d) dq (lsym r) rq (norm_trans tr);
                                   it_ok := t_ok t; it_ser := true; it_val := t_val t |}) trs)) rqs) rs) dqs) rates.

(* {species: {charge: {transition: wavelength}}} (wavelength.py:70-105); no per-leaf check *)
Definition groups_wvl (w : dict species (dict Z (dict (level * level) tbl))) : list group :=
  flat_map (fun eq : species * _ => let (e, qs) := eq in
    map (fun qt : Z * dict (level * level) tbl => let (q, trs) := qt in
       mk_group (path_wvl (lsym e) q) [(is_elem e, EType); (valid_charge e q, EValue)]
          ( map (fun tt : (level * level) * tbl => let (tr, t) := tt in
                            {| it_key := KWvl (lsym e) q (norm_trans tr);
                               it_ok := t_ok t; it_ser := true; it_val := t_val t |}) trs)) qs) w.

(* {donor: {receiver: {charge: {transition: {metastable: rate}}}}} (beam/cx.py:120-205);
   "if not metastable >= 0: raise ValueError" precedes the data checks of that leaf *)
Definition groups_bcx
  (rates : dict species (dict species (dict Z (dict (level * level) (dict Z tbl))))) : list group :=
  flat_map (fun dr : species * _ => let (d, rs) := dr in
    flat_map (fun rq : species * _ => let (r, qs) := rq in
      map (fun qt : Z * dict (level * level) (dict Z tbl) => let (q, trs) := qt in
         mk_group (path_bcx (lsym d) (lsym r) q) [(is_elem d, EType); (is_elem r, EType); (valid_charge r q, EValue)]
            ( flat_map (fun tm : (level * level) * dict Z tbl => let (tr, ms) := tm in
                          map (fun mt : Z * tbl => let (m, t) := mt in
                                 {| it_key := KBcx (lsym d) (lsym r) q (norm_trans tr) m;
                                    it_ok := (0 <=? m) && t_ok t; it_ser := true; it_val := t_val t |}) ms) trs)) qs) rs) rates.

(* {beam: {target: {charge: rate}}} (beam/stopping.py:113-130) *)
Definition groups_bstop (rates : dict species (dict species (dict Z tbl))) : list group :=
  flat_map (fun bt : species * _ => let (b, ts) := bt in
    flat_map (fun tq : species * _ => let (t, qs) := tq in
      map (fun qr : Z * tbl => let (q, r) := qr in
         mk_group (path_bstop (lsym b) (lsym t) q) [(is_elem b, EType); (is_elem t, EType); (valid_charge t q, EValue)]
            ( [{| it_key := KBstop (lsym b) (lsym t) q; it_ok := t_ok r; it_ser := t_ser r; it_val := t_val r |}])) qs) ts) rates.

(* {beam: {metastable: {target: {charge: rate}}}} (beam/population.py:118-140);
   "if beam_metastable < 0: raise ValueError" precedes the charge check *)
Definition groups_bpop (rates : dict species (dict Z (dict species (dict Z tbl)))) : list group :=
  flat_map (fun bm : species * _ => let (b, ms) := bm in
    flat_map (fun mt : Z * _ => let (m, ts) := mt in
      flat_map (fun tq : species * _ => let (t, qs) := tq in
        map (fun qr : Z * tbl => let (q, r) := qr in
           mk_group (path_bpop (lsym b) m (lsym t) q)
              [(is_elem b, EType); (0 <=? m, EValue); (is_elem t, EType); (valid_charge t q, EValue)]
              ( [{| it_key := KBpop (lsym b) m (lsym t) q; it_ok := t_ok r; it_ser := t_ser r; it_val := t_val r |}])) qs) ts) ms) rates.

(* {beam: {target: {charge: {transition: rate}}}} (beam/emission.py:95-170) *)
Definition groups_bem (rates : dict species (dict species (dict Z (dict (level * level) tbl)))) : list group :=
  flat_map (fun bt : species * _ => let (b, ts) := bt in
    flat_map (fun tq : species * _ => let (t, qs) := tq in
      map (fun qt : Z * dict (level * level) tbl => let (q, trs) := qt in
         mk_group (path_bem (lsym b) (lsym t) q) [(is_elem b, EType); (is_elem t, EType); (valid_charge t q, EValue)]
            ( map (fun tt : (level * level) * tbl => let (tr, r) := tt in
                              {| it_key := KBem (lsym b) (lsym t) q (norm_trans tr);
                                 it_ok := t_ok r; it_ser := t_ser r; it_val := t_val r |}) trs)) qs) ts) rates.

(* ------------------------------------------------------------------------------------------ *)
(* the public functions                                                                         *)
(* ------------------------------------------------------------------------------------------ *)
Inductive mode := MA | MB | MC.
Definition exec (m : mode) := match m with MA => exec_A | MB => exec_B | MC => exec_C end.

(* parsed ADF11 data {element: {adas_charge: rate}} with the charge shift of
   install.py:_notation_adf11_adas2cherab ("scd", "plt": -1; others 0) *)
Definition shift_charges (c : Z) (r : dict species (dict Z tbl)) : dict species (dict Z tbl) :=
  map (fun sr : species * dict Z tbl => (fst sr, map (fun qt : Z * tbl => (fst qt + c, snd qt)) (snd sr))) r.

Definition hydrogen : species := {| sym := "H"; znum := 1; is_elem := true |}.

(* install.py:_thermalcx_adf15_2dto3d_converter: new_rates[hydrogen][0][element][charge + 1][transition] *)
Definition adf15_tcx (r : dict species (dict Z (dict (level * level) tbl)))
  : dict species (dict Z (dict species (dict Z (dict (level * level) tbl)))) :=
  flat_map (fun eq : species * _ => let (e, qs) := eq in
    map (fun qt : Z * dict (level * level) tbl =>
           (hydrogen, [(0, [(e, [(fst qt + 1, snd qt)])])])) qs) r.

Inductive call :=
(* atomic.py / radiated_power.py *)
| UAdf11 (f : adf11fam) (repo : option path) (rates : dict species (dict Z tbl))
| AAdf11 (f : adf11fam) (repo : option path) (s : species) (q : Z) (t : tbl)
| UTcx (repo : option path) (rates : dict species (dict Z (dict species (dict Z tbl))))
| ATcx (repo : option path) (d : species) (dq : Z) (r : species) (rates : dict Z tbl)
(* pec.py *)
| UPec (repo : option path) (rates : dict pecfam (dict species (dict Z (dict (level * level) tbl))))
| APec (c : pecfam) (repo : option path) (s : species) (q : Z) (tr : level * level) (t : tbl)
| UPecTcx (repo : option path) (rates : dict species (dict Z (dict species (dict Z (dict (level * level) tbl)))))
| APecTcx (repo : option path) (d : species) (dq : Z) (r : species) (rq : Z) (tr : level * level) (t : tbl)
(* wavelength.py *)
| UWvl (repo : option path) (w : dict species (dict Z (dict (level * level) tbl)))
| AWvl (repo : option path) (s : species) (q : Z) (tr : level * level) (t : tbl)
(* beam/ *)
| UBcx (repo : option path) (rates : dict species (dict species (dict Z (dict (level * level) (dict Z tbl)))))
| ABcx (repo : option path) (d : species) (m : Z) (r : species) (rq : Z) (tr : level * level) (t : tbl)
| UBstop (repo : option path) (rates : dict species (dict species (dict Z tbl)))
| ABstop (repo : option path) (b t : species) (q : Z) (r : tbl)
| UBpop (repo : option path) (rates : dict species (dict Z (dict species (dict Z tbl))))
| ABpop (repo : option path) (b : species) (m : Z) (t : species) (q : Z) (r : tbl)
| UBem (repo : option path) (rates : dict species (dict species (dict Z (dict (level * level) tbl))))
| ABem (repo : option path) (b t : species) (q : Z) (tr : level * level) (r : tbl)
(* install.py, from the parsed data on *)
| IAdf11 (f : adf11fam) (repo : option path) (parsed : dict species (dict Z tbl))        (* scd acd plt prb prc *)
| IAdf11ccd (repo : option path) (d : species) (dq : Z) (parsed : dict species (dict Z tbl))
| IAdf12 (repo : option path) (parsed : dict species (dict species (dict Z (dict (level * level) (dict Z tbl)))))
| IAdf15 (repo : option path)
         (tcx exc rec : dict species (dict Z (dict (level * level) tbl)))
         (wvl : dict species (dict Z (dict (level * level) tbl)))
| IAdf21 (repo : option path) (parsed : dict species (dict species (dict Z tbl)))
| IAdf22bmp (repo : option path) (parsed : dict species (dict Z (dict species (dict Z tbl))))
| IAdf22bme (repo : option path) (parsed : dict species (dict species (dict Z (dict (level * level) tbl)))).

(* which ADF11 classes carry the ADAS charge convention z1 = charge + 1 (install.py:379) *)
Definition adf11_shift (f : adf11fam) : Z := match f with FIon | FLine => -1 | _ => 0 end.

(* the sequence of (discipline, root, groups) a call performs; a step is attempted only if the
   previous ones did not raise *)
Definition steps (c : call) : list (mode * path * list group) :=
  match c with
  | UAdf11 f repo rates => [(MA, eff_root repo, groups_adf11 f rates)]
  | AAdf11 f repo s q t => [(MA, eff_root repo, groups_adf11 f [(s, [(q, t)])])]
  | UTcx repo rates => [(MA, eff_root repo, groups_tcx rates)]
  | ATcx repo d dq r rates => [(MA, eff_root repo, groups_tcx [(d, [(dq, [(r, rates)])])])]
  | UPec repo rates => [(MB, eff_root repo, groups_pec rates)]
  | APec c repo s q tr t => [(MB, eff_root repo, groups_pec [(c, [(s, [(q, [(tr, t)])])])])]
  | UPecTcx repo rates => [(MB, eff_root repo, groups_pectcx rates)]
  | APecTcx repo d dq r rq tr t =>
      [(MB, eff_root repo, groups_pectcx [(d, [(dq, [(r, [(rq, [(tr, t)])])])])])]
  | UWvl repo w => [(MB, eff_root repo, groups_wvl w)]
  | AWvl repo s q tr t => [(MB, eff_root repo, groups_wvl [(s, [(q, [(tr, t)])])])]
  | UBcx repo rates => [(MB, eff_root repo, groups_bcx rates)]
  | ABcx repo d m r rq tr t =>
      [(MB, eff_root repo, groups_bcx [(d, [(r, [(rq, [(tr, [(m, t)])])])])])]
  | UBstop repo rates => [(MC, eff_root repo, groups_bstop rates)]
  | ABstop repo b t q r => [(MC, eff_root repo, groups_bstop [(b, [(t, [(q, r)])])])]
  | UBpop repo rates => [(MC, eff_root repo, groups_bpop rates)]
  | ABpop repo b m t q r => [(MC, eff_root repo, groups_bpop [(b, [(m, [(t, [(q, r)])])])])]
  | UBem repo rates => [(MB, eff_root repo, groups_bem rates)]
  | ABem repo b t q tr r => [(MB, eff_root repo, groups_bem [(b, [(t, [(q, [(tr, r)])])])])]
  | IAdf11 f repo parsed => [(MA, eff_root repo, groups_adf11 f (shift_charges (adf11_shift f) parsed))]
  | IAdf11ccd repo d dq parsed => [(MA, eff_root repo, groups_tcx [(d, [(dq, parsed)])])]
  | IAdf12 repo parsed => [(MB, eff_root repo, groups_bcx parsed)]
  | IAdf15 repo tcx exc rec wvl =>
      ((match tcx with [] => [] | _ => [(MB, eff_root repo, groups_pectcx (adf15_tcx tcx))] end)
      ++ [(MB, eff_root repo, groups_pec [(PExc, exc); (PRec, rec)]);
          (MB, eff_root repo, groups_wvl wvl)])%list
  | IAdf21 repo parsed => [(MC, eff_root repo, groups_bstop parsed)]
  | IAdf22bmp repo parsed => [(MC, eff_root repo, groups_bpop parsed)]
  | IAdf22bme repo parsed => [(MB, eff_root repo, groups_bem parsed)]
  end.

Fixpoint run_steps (ss : list (mode * path * list group)) (d : fs) : fs * outcome :=
  match ss with
  | [] => (d, Done)
  | (m, root, gs) :: rest =>
      match exec m root gs d with
      | (d', Done) => run_steps rest d'
      | (d', Err e) => (d', Err e)
      end
  end.

Definition run_call (c : call) (d : fs) : fs * outcome := run_steps (steps c) d.

(* a history: every call is executed, raising or not (the caller catches the exception) *)
Fixpoint run (cs : list call) (d : fs) : fs :=
  match cs with [] => d | c :: rest => run rest (fst (run_call c d)) end.

(* ------------------------------------------------------------------------------------------ *)
(* the public read functions, from raw arguments                                                *)
(* ------------------------------------------------------------------------------------------ *)
Inductive query :=
| QAdf11 (f : adf11fam) (s : species) (q : Z)
| QTcx (d : species) (dq : Z) (r : species) (rq : Z)
| QPec (c : pecfam) (s : species) (q : Z) (tr : level * level)
| QPecTcx (d : species) (dq : Z) (r : species) (rq : Z) (tr : level * level)
| QWvl (s : species) (q : Z) (tr : level * level)
| QBcx (d r : species) (rq : Z) (tr : level * level) (m : Z)
| QBstop (b t : species) (q : Z)
| QBpop (b : species) (m : Z) (t : species) (q : Z)
| QBem (b t : species) (q : Z) (tr : level * level).

Definition key_of_query (x : query) : key :=
  match x with
  | QAdf11 f s q => KAdf11 f (lsym s) q
  | QTcx d dq r rq => KTcx (lsym d) dq (lsym r) rq
  | QPec c s q tr => KPec c (lsym s) q (norm_trans tr)
  | QPecTcx d dq r rq tr => KPecTcx (lsym d) dq (lsym r) rq (norm_trans tr)
  | QWvl s q tr => KWvl (lsym s) q (norm_trans tr)
  | QBcx d r rq tr m => KBcx (lsym d) (lsym r) rq (norm_trans tr) m
  | QBstop b t q => KBstop (lsym b) (lsym t) q
  | QBpop b m t q => KBpop (lsym b) m (lsym t) q
  | QBem b t q tr => KBem (lsym b) (lsym t) q (norm_trans tr)
  end.

Definition get_query (repo : option path) (x : query) (d : fs) : option val :=
  get (eff_root repo) (key_of_query x) d.

(* every file of the store, as a component list *)
Definition files (d : fs) : list path := map fst d.
