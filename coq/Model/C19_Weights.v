(* C19 -- the atomic weights as IEEE-754 doubles: the right-hand sides of the table are decimal
   literals and small expressions such as (1.00784 + 1.00811) / 2.  CPython / the C compiler read every
   literal with correct rounding and round every operation to nearest-even; [weval] replays exactly
   that on exact rationals with the binary64 rounding model of Model/C11_Round.v (read-only reuse;
   gradual underflow modelled, overflow not - weights are below 300).  Definitions only. *)
Require Import Cherab.Common.Qx.
Require Import Cherab.Model.C11_Round Cherab.Model.C19_Registry.
Open Scope Q_scope.

Inductive wexpr :=
| WLit (q : Q)                 (* a decimal or integer literal, as the exact rational of its text *)
| WNeg (a : wexpr)
| WAdd (a b : wexpr) | WSub (a b : wexpr) | WMul (a b : wexpr) | WDiv (a b : wexpr).

Fixpoint weval (e : wexpr) : option Q :=
  match e with
  | WLit q => Some (round53 q)
  | WNeg a => option_map Qopp (weval a)
  | WAdd a b => match weval a, weval b with Some x, Some y => Some (round53 (x + y)) | _, _ => None end
  | WSub a b => match weval a, weval b with Some x, Some y => Some (round53 (x - y)) | _, _ => None end
  | WMul a b => match weval a, weval b with Some x, Some y => Some (round53 (x * y)) | _, _ => None end
  | WDiv a b => match weval a, weval b with
                | Some x, Some y => if Qeq_bool y 0 then None else Some (round53 (x / y))
                | _, _ => None end
  end.

(* the exact value of the text, without any rounding *)
Fixpoint wexact (e : wexpr) : option Q :=
  match e with
  | WLit q => Some q
  | WNeg a => option_map Qopp (wexact a)
  | WAdd a b => match wexact a, wexact b with Some x, Some y => Some (x + y) | _, _ => None end
  | WSub a b => match wexact a, wexact b with Some x, Some y => Some (x - y) | _, _ => None end
  | WMul a b => match wexact a, wexact b with Some x, Some y => Some (x * y) | _, _ => None end
  | WDiv a b => match wexact a, wexact b with
                | Some x, Some y => if Qeq_bool y 0 then None else Some (x / y)
                | _, _ => None end
  end.

Definition stmt_weight (s : stmt) : Q :=
  match s with DefElement _ _ _ _ w => w | DefIsotope _ _ _ _ _ w => w end.

(* every weight of the table is the double the rounding model computes from the source text, and lies
   within 2^-51 relative of the exact value of that text (at most 3 literals and 2 operations: (1+u)^5 - 1 < 2^-51) *)
Definition weight_ok (p : wexpr * Q) : bool :=
  match weval (fst p), wexact (fst p) with
  | Some w, Some x => (Qeq_bool w (snd p) && close (pow2 (-51)) 0 (snd p) x)%bool
  | _, _ => false
  end.
Fixpoint qlist_eqb (a b : list Q) : bool :=
  match a, b with [], [] => true | x :: s, y :: t => (Qeq_bool x y && qlist_eqb s t)%bool | _, _ => false end.
Definition weights_ok (src : list (wexpr * Q)) (table : list stmt) : bool :=
  (forallb weight_ok src && qlist_eqb (map snd src) (map stmt_weight table))%bool.
