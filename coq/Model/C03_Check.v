(* Executable comparators for the correspondence check of C03 (definitions only).
   The provider of a case is a closed-form stub whose value depends on every argument of the
   accessor call and of the evaluate() call; harness/c03_impl.py implements the same stub in Python
   for the real models, so a wrong species, charge, donor, density or argument order changes the value. *)
Require Import Cherab.Common.Qx Cherab.Model.C03_Passive Cherab.Model.C03_Brems Cherab.Model.C03_Gaunt Cherab.Model.C03_Quadrature Cherab.Model.C03_Cache.
From Coq Require Import Qabs.
Open Scope Q_scope.

(* ---- stub provider ---------------------------------------------------------------------- *)
Record stubcfg := mkCfg {
  g_salt : Z; g_sgn : Q; g_cn : Q; g_ct : Q; g_cd : Q;
  g_missing : Z      (* bit 0/1/2: line / continuum / cx radiated power rate is None *)
}.

Definition base (salt kind a b c d e : Z) : Q :=
  Qmake (1 + (salt + 7 * kind + 13 * a + 31 * b + 3 * c + 17 * d + 5 * e) mod 64) 64.

Definition stub2 (g : stubcfg) (kind e c t : Z) (ne te : Q) : Q :=
  g_sgn g * base (g_salt g) kind e c t 0 0 * (1 + g_cn g * ne + g_ct g * te).
Definition stub3 (g : stubcfg) (de dc re rc t : Z) (ne te td : Q) : Q :=
  g_sgn g * base (g_salt g) 3 de dc re rc t * (1 + g_cn g * ne + g_ct g * te + g_cd g * td * td).
Definition stub_opt (g : stubcfg) (bit kind : Z) (e c : Z) : option (Q -> Q -> Q) :=
  if Z.testbit (g_missing g) bit then None else Some (stub2 g kind e c 0).

Definition stub_provider (g : stubcfg) : provider :=
  mkProvider (stub2 g 1) (stub2 g 2) (stub3 g) (stub_opt g 0 4) (stub_opt g 1 5) (stub_opt g 2 6).

Definition abs_cfg (g : stubcfg) : stubcfg :=
  mkCfg (g_salt g) (Qabs (g_sgn g)) (g_cn g) (g_ct g) (g_cd g) (g_missing g).
Definition abs_comp (comp : composition) : composition := map (fun s => set_dens s (Qabs (s_dens s))) comp.

(* ---- comparing outcomes ------------------------------------------------------------------- *)
Definition line_tol : Q := pow2 (-44).
(* results below 2^-800 are treated as equal: they only arise from subnormal / tiny inputs, where the double
   product underflows while the exact rational does not *)
Definition tiny : Q := pow2 (-800).

Definition out_agree (tol : Q) (m i : outcome) : bool :=
  match m, i with
  | ErrValue, ErrValue => true
  | ErrRuntime, ErrRuntime => true
  | Skip, Skip => true
  | Emit a, Emit b => Qle_bool (Qabs (a - b)) tol
  | _, _ => false
  end.

Fixpoint forallb2 {A B} (p : A -> B -> bool) (l1 : list A) (l2 : list B) : bool :=
  match l1, l2 with
  | [], [] => true
  | a :: t1, b :: t2 => p a b && forallb2 p t1 t2
  | _, _ => false
  end.
Definition zlist_eqb : list Z -> list Z -> bool := forallb2 Z.eqb.
Definition zll_eqb : list (list Z) -> list (list Z) -> bool := forallb2 zlist_eqb.
Definition qlist_eqb : list Q -> list Q -> bool := forallb2 Qeq_bool.
Definition qll_eqb : list (list Q) -> list (list Q) -> bool := forallb2 qlist_eqb.
Definition is_emit (o : outcome) : bool := match o with Emit _ => true | _ => false end.
Definition zq (z : Z) : Q := inject_Z z.

(* ---- ExcitationLine (kind 1), RecombinationLine (kind 2), ThermalCXLine (kind 3) ------------- *)
(* expected accessor calls, rate evaluation arguments, line-shape target species and the ion species whose
   effective_temperature was sampled (thermal CX: the donors that are not skipped, in composition order) *)
Definition line_expect (kind : Z) (l : line) (ne te : Q) (comp : composition) (out : outcome)
  : list (list Z) * list (list Q) * list Z * list (list Z) :=
  let e := l_elem l in let c := l_charge l in let t := l_trans l in
  let tc := if Z.eqb kind 1 then c else (c + 1)%Z in
  match comp_get comp e tc with
  | None => ([], [], [], [])
  | Some rcv =>
    if Z.eqb kind 3 then
      let ds := donors rcv comp in
      let live := filter (fun d => pos (s_dens d)) ds in       (* if donor_density <= 0.0: continue *)
      (map (fun d => [3; s_elem d; s_charge d; e; tc; t]%Z) ds,
       if is_emit out then map (fun d => [zq (s_elem d); zq (s_charge d); ne; te; s_temp d]) live else [],
       [e; tc],
       if is_emit out then map (fun d => [s_elem d; s_charge d]) live else [])
    else ([[kind; e; c; t]], if is_emit out then [[ne; te]] else [], [e; tc], [])
  end.

Definition line_model (kind : Z) (P : provider) (l : line) (ne te : Q) (comp : composition) : outcome :=
  if Z.eqb kind 1 then excitation_radiance P l ne te comp
  else if Z.eqb kind 2 then recombination_radiance P l ne te comp
  else thermalcx_radiance P l ne te comp.

(* fresh = the model instance has to populate its cache at this evaluation (first use, composition re-set, or the
   previous populate failed).  On a later evaluation of the same instance no accessor is called again and the line
   shape built earlier is re-used (its target is observed when it is handed a line); the outcome, the evaluate()
   arguments and the sampled temperatures must be those of THIS point alone, whatever was evaluated before. *)
Definition check_line (kind : Z) (fresh : bool) (g : stubcfg) (l : line) (ne te : Q) (comp : composition)
           (i_out : outcome) (i_calls : list (list Z)) (i_evals : list (list Q)) (i_target : list Z)
           (i_tsamp : list (list Z)) : bool :=
  let m := line_model kind (stub_provider g) l ne te comp in
  let mag := emitted (line_model kind (stub_provider (abs_cfg g)) l ne te (abs_comp comp)) in
  let '(calls, evals, target, tsamp) := line_expect kind l ne te comp m in
  out_agree (line_tol * mag + tiny) m i_out && zll_eqb (if fresh then calls else []) i_calls && qll_eqb evals i_evals
  && zlist_eqb (if fresh || is_emit m then target else []) i_target && zll_eqb tsamp i_tsamp.

(* ---- TotalRadiatedPower ------------------------------------------------------------------- *)
Definition total_expect (g : stubcfg) (e c znum : Z) (ne te : Q) (comp : composition) (hyd : list Z) (out : outcome)
  : list (list Z) * list (list Q) :=
  if negb (Z.leb 0 c && Z.ltb c znum) then ([], []) else
  match comp_get comp e c with
  | None => ([[4; e; c]]%Z, [])
  | Some sp =>
    match comp_get comp e (c + 1) with
    | None => ([[4; e; c]; [5; e; c + 1]]%Z, [])
    | Some up =>
      ([[4; e; c]; [5; e; c + 1]; [6; e; c + 1]]%Z,
       if is_emit out then
         let has b := negb (Z.testbit (g_missing g) b) in
         (if has 0%Z && pos (s_dens sp) then [[4; ne; te]] else [])
         ++ (if has 1%Z && pos (s_dens up) then [[5; ne; te]] else [])
         ++ (if has 2%Z && pos (s_dens up) && pos (hyd_density hyd comp) then [[6; ne; te]] else [])
       else [])
    end
  end.

(* an early return and an emission of exactly zero leave the same spectrum and no evaluate() call: the
   implementation's observation is then Skip, accepted for a model outcome Emit 0 as well *)
Definition out_agree_total (tol : Q) (m i : outcome) : bool :=
  match m, i with
  | Emit a, Skip => Qeq_bool a 0
  | _, _ => out_agree tol m i
  end.

Definition check_total (fresh : bool) (g : stubcfg) (hyd : list Z) (e c znum : Z) (ne te : Q) (comp : composition)
           (minw maxw : Q) (nbins : nat)
           (i_out : outcome) (i_bins : list Q) (i_calls : list (list Z)) (i_evals : list (list Q)) : bool :=
  let m := total_power_radiance (stub_provider g) hyd e c znum ne te comp minw maxw in
  let mag := emitted (total_power_radiance (stub_provider (abs_cfg g)) hyd e c znum ne te (abs_comp comp) minw maxw) in
  let '(calls, evals) := total_expect g e c znum ne te comp hyd m in
  out_agree_total (line_tol * mag + tiny) m i_out && zll_eqb (if fresh then calls else []) i_calls && qll_eqb evals i_evals &&
  (* every bin holds the same double *)
  (if is_emit m then Nat.eqb (length i_bins) nbins && forallb (fun b => Qeq_bool b (emitted i_out)) i_bins
   else forallb (fun b => Qeq_bool b 0) i_bins).

(* ---- RadiationFunction ---------------------------------------------------------------------- *)
Definition check_radfn (phi minw maxw : Q) (nbins : nat) (i_bins : list Q) : bool :=
  let m := radiation_function_bin phi minw maxw in
  Nat.eqb (length i_bins) nbins && forallb (fun b => Qle_bool (Qabs (b - m)) (pow2 (-48) * Qabs m + tiny)) i_bins.

(* ---- oracle tables ---------------------------------------------------------------------------- *)
Fixpoint lookup (tab : list (Q * Q)) (x : Q) : option Q :=
  match tab with [] => None | (k, v) :: t => if Qeq_bool k x then Some v else lookup t x end.
(* a missing entry (a fault of the harness, never of the implementation) yields -1: sqrt and exp are never negative *)
Definition oracle (tab : list (Q * Q)) (x : Q) : Q := match lookup tab x with Some v => v | None => -(1) end.
Definition has_key (tab : list (Q * Q)) (x : Q) : bool := match lookup tab x with Some _ => true | None => false end.

(* a sqrt entry is accepted when its square is within 2^-50 (relative) of the argument *)
Definition sqrt_tab_ok (tab : list (Q * Q)) : bool :=
  forallb (fun kv => Qle_bool 0 (snd kv) && Qle_bool (Qabs (snd kv * snd kv - fst kv)) (pow2 (-50) * Qabs (fst kv))) tab.

(* the constants generated from constants.pyx must be the CODATA 2018 values (to double rounding),
   and RECIP_4_PI / M_PI the doubles used by the model *)
Definition relclose (tol a b : Q) : bool := Qle_bool (Qabs (a - b)) (tol * Qabs b).
Definition consts_wf (C : consts) : bool :=
  relclose (pow2 (-50)) (c_e C) (c_e codata) && relclose (pow2 (-50)) (c_c C) (c_c codata) &&
  relclose (pow2 (-50)) (c_h C) (c_h codata) && relclose (pow2 (-50)) (c_me C) (c_me codata) &&
  relclose (pow2 (-50)) (c_eps0 C) (c_eps0 codata) && Qeq_bool (c_pi C) mpi && Qeq_bool (c_r4pi C) k4pi.

(* ---- Gaunt factor stub: g0 + g1 * z + g2 * wvl (independent of te apart from an additive g3 * te) ---- *)
Definition gstub (g0 g1 g2 g3 : Q) (z te wvl : Q) : Q := g0 + g1 * z + g2 * wvl + g3 * te.

(* ---- BremsFunction.__call__ ------------------------------------------------------------------- *)
Definition brems_tol : Q := pow2 (-40).
Definition check_bremsfn (C : consts) (sq ex : list (Q * Q)) (g0 g1 g2 g3 : Q) (ne te : Q) (zs : list (Q * Q)) (wvl : Q)
           (i_val : Q) : bool :=
  let gf := gstub g0 g1 g2 g3 in
  let m := brems_function C (oracle sq) (oracle ex) gf ne te zs wvl in
  let mag := brems_function C (oracle sq) (oracle ex) (fun z t w => Qabs (gf z t w)) ne te zs wvl in
  sqrt_tab_ok sq && Qle_bool (Qabs (m - i_val)) (brems_tol * Qabs mag + tiny).
(* harness fault detector: every oracle argument the model asks for is in the tables *)
Definition bremsfn_keys_ok (C : consts) (sq ex : list (Q * Q)) (te wvl : Q) : bool :=
  has_key sq 3 && has_key sq (2 * c_me C / (c_pi C * c_e C)) && has_key sq te &&
  has_key ex (- exp_factor C / (te * wvl)).

(* ---- Bremsstrahlung.emission with the modelled integrator -----------------------------------------------------
   The integrator is the model of GaussianQuadrature.evaluate (Model/C03_Quadrature.v) run on the caches of roots and
   weights handed over by the harness (scipy.special.roots_legendre, the source of the code's own caches), the code's
   min_order and relative tolerance, and the cache truncated a few orders above the order at which the code converged.
   The integrand is the model's brems_function evaluated exactly at the exact node and then rounded down to a multiple
   of 2^-P (rnd; P is chosen by the harness about 80 bits below the magnitude of the samples; C03_rnd_bounds). *)
From Coq Require Import Qround.
Definition rnd (P : Z) (y : Q) : Q :=
  if Z.leb 0 P then Qmake (Qfloor (y * inject_Z (2 ^ P))) (Z.to_pos (2 ^ P))
  else inject_Z (Qfloor (y / inject_Z (2 ^ (- P))) * 2 ^ (- P)).
Definition gq_integ (P : Z) (roots weights : list Q) (mn mx : nat) (rtol : Q) (f : Q -> Q) (a b : Q) : Q :=
  gq_evaluate roots weights mn mx rtol (fun x => rnd P (f (Qred x))) a b.
(* kept for reference: a fixed 8-point rule (the comparator of the earlier rounds) *)
Definition gl_integ (P : Z) (nodes weights : list Q) (f : Q -> Q) (a b : Q) : Q :=
  let h := Qred ((b - a) / 2) in let m := Qred ((a + b) / 2) in
  Qred (h * fold_left (fun acc xw => Qred (acc + snd xw * rnd P (f (Qred (m + h * fst xw))))) (combine nodes weights) 0).

(* the caches handed over are Gauss-Legendre-like: weights non-negative, nodes inside [-1, 1], the weights of every
   order mn .. mx sum to 2 within 2^-48 *)
Fixpoint gq_caches_ok_from (roots weights : list Q) (order ibegin fuel : nat) : bool :=
  match fuel with
  | O => true
  | S m => Qle_bool (Qabs (Qsum (slice weights ibegin order) - 2)) (pow2 (-48)) &&
           Nat.eqb (length (slice roots ibegin order)) order &&
           gq_caches_ok_from roots weights (S order) (ibegin + order) m
  end.
(* the 2- and 3-point slices are the rules of C03_gq_low_order_exact up to double rounding: nodes -s, s (resp. -s, 0, s)
   with |s^2 - 1/3| (resp. |s^2 - 3/5|) <= 2^-50, weights 1, 1 exactly (resp. 5/9, 8/9, 5/9 within 2^-50; measured: scipy is 4.4e-16 off) *)
Definition near50 (x y : Q) : bool := Qle_bool (Qabs (x - y)) (pow2 (-50)).
Definition gq_low_orders_ok (roots weights : list Q) (mn mx : nat) : bool :=
  (if Nat.leb mn 2 && Nat.leb 2 mx then
     match slice roots (ib_at mn 0 (2 - mn)) 2, slice weights (ib_at mn 0 (2 - mn)) 2 with
     | [r1; r2], [w1; w2] => Qeq_bool r1 (- r2) && near50 (r2 * r2) (1 # 3) && Qeq_bool w1 1 && Qeq_bool w2 1
     | _, _ => false
     end else true) &&
  (if Nat.leb mn 3 && Nat.leb 3 mx then
     match slice roots (ib_at mn 0 (3 - mn)) 3, slice weights (ib_at mn 0 (3 - mn)) 3 with
     | [r1; r2; r3], [w1; w2; w3] =>
       Qeq_bool r1 (- r3) && Qeq_bool r2 0 && near50 (r3 * r3) (3 # 5) && near50 w1 (5 # 9) && near50 w2 (8 # 9) && near50 w3 (5 # 9)
     | _, _ => false
     end else true).
Definition gq_caches_ok (roots weights : list Q) (mn mx : nat) : bool :=
  forallb (fun w => Qle_bool 0 w) weights && forallb (fun r => Qle_bool (Qabs r) 1) roots &&
  gq_caches_ok_from roots weights mn 0 (S mx - mn) && gq_low_orders_ok roots weights mn mx.

Definition check_brems (tol : Q) (P : Z) (C : consts) (sq ex : list (Q * Q)) (g0 g1 g2 g3 : Q)
           (roots weights : list Q) (mn mx : nat) (rtol : Q)
           (ne te : Q) (comp : composition) (minw maxw : Q) (nbins : nat) (i_bins : list Q) (i_zs : list Q) : bool :=
  let gf := gstub g0 g1 g2 g3 in
  let delta := (maxw - minw) / inject_Z (Z.of_nat nbins) in
  let live := filter (fun s => Z.ltb 0 (s_charge s) && pos (s_dens s)) comp in
  let zs := map (fun s => zq (s_charge s)) live in
  sqrt_tab_ok sq && gq_caches_ok roots weights mn mx &&
  if Qle_bool ne 0 || Qle_bool te 0 then
    (* early return *)
    forallb (fun b => Qeq_bool b 0) i_bins && match i_zs with [] => true | _ => false end
  else match live with
  | [] =>
    (* no ion takes part: every bin is zero whatever order the loop stops at (C03_brems_vacuum_zero); the code then
       runs to max_order without ever asking for the Gaunt factor *)
    forallb (fun b => Qeq_bool b 0) i_bins && match i_zs with [] => true | _ => false end
  | _ =>
    match brems_emission C (oracle sq) (oracle ex) gf (gq_integ P roots weights mn mx rtol) ne te comp minw delta nbins with
    | Some bins =>
      (* the stub Gaunt factor is positive, so all terms of a bin have one sign: tolerance relative to the bin itself *)
      Qle_bool 0 g0 && Qle_bool 0 g1 && Qle_bool 0 g2 && Qle_bool 0 g3 &&
      forallb2 (fun mb ib => Qle_bool (Qabs (mb - ib)) (tol * Qabs mb + tiny)) bins i_bins &&
      (* the Gaunt factor was asked for exactly the charges of the species that take part *)
      forallb (fun z => existsb (Qeq_bool z) i_zs) zs && forallb (fun z => existsb (Qeq_bool z) zs) i_zs
    | None => false
    end
  end.

(* ---- InterpolatedFreeFreeGauntFactor.evaluate ---------------------------------------------------------------
   u_d and g2_d are the doubles the implementation computes (recomputed by the harness with the same operations);
   they must be the correctly rounded values of the model's exact u and gamma2 up to 2^-50, and the branch is decided
   on them exactly (so that inputs sitting exactly on a bound, or one ulp beside it, are decided without ambiguity).
   ln4u = log(4 / u_d) from libm, interp_val from a twin raysect interpolator: oracles.  code: 0 zero, 1 classical,
   2 Born, 3 interpolated - reported by the harness only to show the distribution; the value decides. *)
Definition check_gaunt (C : consts) (ryd sqrt3 : Q) (umin umax g2min g2max : Q) (z te wvl u_d g2_d ln4u interp_val : Q)
           (i_val : Q) : bool :=
  let u := gaunt_u (exp_factor C) te wvl in
  let g2 := gaunt_gamma2 ryd z te in
  let b := gaunt_branch umin umax g2min g2max z u_d g2_d in
  let m := gaunt_value sqrt3 (c_pi C) ln4u interp_val b in
  relclose (pow2 (-50)) u_d u && (Qeq_bool z 0 || relclose (pow2 (-50)) g2_d g2) &&
  Qle_bool (Qabs (sqrt3 * sqrt3 - 3)) (pow2 (-50)) &&
  match b with
  | GZero | GClassical | GInterp => Qeq_bool m i_val
  | GBorn => Qle_bool (Qabs (m - i_val)) (pow2 (-44) * (Qabs (ln4u) + 1))
  end.
(* u and gamma2 sit exactly on an interior knot of the table: the interpolated branch is taken and the value is the table
   entry of that knot (the interpolant passes through its knots; the knots are stored as log10 of the grid, so the
   agreement is up to the rounding of log10: 2^-30) *)
Definition check_gaunt_knot (C : consts) (ryd : Q) (umin umax g2min g2max : Q) (z te wvl u_d g2_d table_val : Q) (i_val : Q) : bool :=
  let u := gaunt_u (exp_factor C) te wvl in
  let g2 := gaunt_gamma2 ryd z te in
  relclose (pow2 (-50)) u_d u && relclose (pow2 (-50)) g2_d g2 &&
  match gaunt_branch umin umax g2min g2max z u_d g2_d with
  | GInterp => Qle_bool (Qabs (gaunt_value 0 1 0 table_val GInterp - i_val)) (pow2 (-30) * (Qabs table_val + 1))
  | _ => false
  end.
Definition gaunt_code (umin umax g2min g2max z u_d g2_d : Q) : Z :=
  match gaunt_branch umin umax g2min g2max z u_d g2_d with GZero => 0 | GClassical => 1 | GBorn => 2 | GInterp => 3 end%Z.

(* every constant of constants.pyx against its documented value (CODATA 2018 / exact expressions in the double M_PI), in the
   order of the file: (reference, log2 of the relative tolerance).  HC_EV_NM and BOHR_MAGNETON carry their CODATA 2014
   values in the file (8.4e-9 and 8.3e-10 away from 2018); neither is used by the passive emission models, so they are
   only held to 2^-26 / 2^-29 here and the discrepancy is reported in the evidence. *)
Definition consts_ref : list (Q * Z) := [
  ((140737488355328 # 884279719003555), (-50)%Z)  (* RECIP_2_PI *);
  ((70368744177664 # 884279719003555), (-50)%Z)  (* RECIP_4_PI *);
  ((176855943800711 # 10133099161583616), (-50)%Z)  (* DEGREES_TO_RADIANS *);
  ((10133099161583616 # 176855943800711), (-50)%Z)  (* RADIANS_TO_DEGREES *);
  ((8302695333 # 5000000000000000000000000000000000000), (-50)%Z)  (* ATOMIC_MASS *);
  ((801088317 # 5000000000000000000000000000), (-50)%Z)  (* ELEMENTARY_CHARGE *);
  ((299792458 # 1), (-50)%Z)  (* SPEED_OF_LIGHT *);
  ((132521403 # 200000000000000000000000000000000000000000), (-50)%Z)  (* PLANCK_CONSTANT *);
  ((6621486190496429 # 5340588780000), (-26)%Z)  (* HC_EV_NM *);
  ((14089701631 # 5000000000000000000000000), (-50)%Z)  (* ELECTRON_CLASSICAL_RADIUS *);
  ((18218767403 # 20000000000000000000000000000000000000000), (-50)%Z)  (* ELECTRON_REST_MASS *);
  ((6802846561497 # 500000000000), (-50)%Z)  (* RYDBERG_CONSTANT_EV *);
  ((5533867383 # 625000000000000000000), (-50)%Z)  (* VACUUM_PERMITTIVITY *);
  ((2894190903 # 50000000000000), (-29)%Z)  (* BOHR_MAGNETON *)].
Definition consts_all_wf (gen : list Q) : bool :=
  Nat.eqb (length gen) (length consts_ref) &&
  forallb (fun gr => relclose (pow2 (snd (snd gr))) (fst gr) (fst (snd gr))) (combine gen consts_ref).

(* literals the model copies from the sources, re-read on every run (coq/Gen/C03/Consts.v):
   the hydrogen isotopes of TotalRadiatedPower in the order of the loop (ids of hydrogen, deuterium, tritium), EULER_GAMMA
   of gaunt.pyx, and the documented defaults of the integrator a Bremsstrahlung model gets (min_order 1, max_order 50,
   relative tolerance 1e-5) *)
Definition hyd_documented : list Z := [0; 1; 2]%Z.
Definition gq_rtol_documented : Q := Qmake 5902958103587057 590295810358705651712.   (* the double 1e-5 *)
Definition source_tables_wf (hyd : list Z) (euler : Q) (mn mx : nat) (rtol : Q) : bool :=
  zlist_eqb hyd hyd_documented && Qeq_bool euler euler_gamma && Nat.eqb mn 1 && Nat.eqb mx 50 && Qeq_bool rtol gq_rtol_documented.

(* ---- sequences on one instance: the populate / re-populate decisions come from the cache state machine
   (Model/C03_Cache.v), fed with what was done to the objects between two evaluations and with the model's own
   verdict on whether the populate succeeds ---- *)
Definition line_populate_ok (kind : Z) (l : line) (comp : composition) : bool :=
  match comp_get comp (l_elem l) (if Z.eqb kind 1 then l_charge l else (l_charge l + 1)%Z) with Some _ => true | None => false end.
Definition total_populate_ok (e c znum : Z) (comp : composition) : bool :=
  Z.leb 0 c && Z.ltb c znum &&
  match comp_get comp e c, comp_get comp e (c + 1) with Some _, Some _ => true | _, _ => false end.
