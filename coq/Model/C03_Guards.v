(* The guard structure of the five emission() functions (and of BremsFunction.evaluate) as a table, in the order of the
   code.  An entry is (quantity, operator, action):
     quantity 1 electron density, 2 electron temperature, 3 density of the line's target / receiver species,
              4 density of a thermal-CX donor, 5 density of the radiating charge state (TotalRadiatedPower), 6 density of the
              next charge state, 7 summed density of the neutral hydrogen isotopes, 8 density of a charged species
              (bremsstrahlung), 9 temperature of a thermal-CX donor, 10 charge of a species;
     operator 0 the quantity is sampled from its distribution, 1 tested with "<= 0", 2 tested with "> 0";
     action   0 none, 1 return the unchanged spectrum, 2 continue (skip this species), 3/4/5 add the excitation /
              recombination / charge-exchange power term, 6 the species takes part.
   The table is re-read from the sources on every run (coq/Gen/C03/Consts.v, lemma guards_ok); the lemmas of
   Proofs/C03_Guards.v connect it with the executable model: every quantity has its OWN "<= 0" test. *)
Require Import Cherab.Common.Qx Cherab.Model.C03_Passive.
Open Scope Z_scope.

Definition guard := (Z * Z * Z)%type.
Definition line_guards : list guard := [(1,0,0); (1,1,1); (2,0,0); (2,1,1); (3,0,0); (3,1,1)].
Definition excitation_guards : list guard := line_guards.
Definition recombination_guards : list guard := line_guards.
Definition thermalcx_guards : list guard := line_guards ++ [(4,0,0); (4,1,2); (9,0,0)].
Definition total_guards : list guard :=
  [(1,0,0); (1,1,1); (2,0,0); (2,1,1); (5,0,0); (6,0,0); (7,0,0); (5,2,3); (6,2,4); (6,2,5); (7,2,5)].
Definition brems_guards : list guard := [(1,0,0); (1,1,1); (2,0,0); (2,1,1); (10,2,6); (8,0,0)].
Definition bremsfn_guards : list guard := [(8,2,6)].
Definition documented_guards : list (list guard) :=
  [excitation_guards; recombination_guards; thermalcx_guards; total_guards; brems_guards; bremsfn_guards].

Definition guard_eqb (a b : guard) : bool :=
  let '(q, o, c) := a in let '(q', o', c') := b in Z.eqb q q' && Z.eqb o o' && Z.eqb c c'.
Fixpoint guards_eqb (a b : list guard) : bool :=
  match a, b with [], [] => true | x :: t, y :: u => guard_eqb x y && guards_eqb t u | _, _ => false end.
Fixpoint tables_eqb (a b : list (list guard)) : bool :=
  match a, b with [] , [] => true | x :: t, y :: u => guards_eqb x y && tables_eqb t u | _, _ => false end.

(* the emission is skipped (unchanged spectrum) as soon as ONE quantity with a "<= 0 -> return" entry is non-positive *)
Definition skip_by (gs : list guard) (env : Z -> Q) : bool :=
  existsb (fun g => let '(q, o, c) := g in Z.eqb o 1 && Z.eqb c 1 && Qle_bool (env q) 0) gs.
Definition env3 (ne te n : Q) (q : Z) : Q := if Z.eqb q 1 then ne else if Z.eqb q 2 then te else n.
