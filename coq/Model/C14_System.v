(* The linear systems Caching2D / Caching3D hand to numpy.linalg.solve (definitions only).

   Local indices: 0,1,2,3 stand for the four nodes i-1, i, i+1, i+2 of one axis of the cell; the two
   knots of the cell are the local nodes 1 and 2 (knot = false / true).  nd = (tm, t0, t1, t2) are the
   normalised coordinates x_view[i-1 .. i+2].

   caching3d.pyx _constraints3d(u, v, w, x_der, y_der, z_der): for each axis the components
   [1, t, t^2, t^3] or, for a derivative, [0, 1, 2t, 3t^2]; the row is their tensor product in the
   order  for x: for y: for z: result[l] = xc*yc*zc.  caching2d.pyx writes the same rows out entry by
   entry (regenerated from the source into coq/Gen/C14/C14_Src.v on every run and tied to [row2]). *)
Require Import Cherab.Common.Qx.
Require Import Cherab.Model.C14_Caching.
Open Scope Q_scope.

Definition comps (der : bool) (t : Q) : list Q :=
  if der then [0; 1; 2 * t; 3 * (t * t)] else [1; t; t * t; t * t * t].
Definition row3 (dx dy dz : bool) (tx ty tz : Q) : list Q :=
  flat_map (fun xc => flat_map (fun yc => map (fun zc => xc * yc * zc) (comps dz tz)) (comps dy ty)) (comps dx tx).
Definition row2 (dx dy : bool) (tx ty : Q) : list Q :=
  flat_map (fun xc => map (fun yc => xc * yc) (comps dy ty)) (comps dx tx).
Fixpoint dotl (r c : list Q) : Q :=
  match r, c with a :: r', b :: c' => a * b + dotl r' c' | _, _ => 0 end.

(* the same as functions of the local index *)
Definition compv (der : bool) (t : Q) : Z -> Q := fun i =>
  match i with
  | 0%Z => if der then 0 else 1
  | 1%Z => if der then 1 else t
  | 2%Z => if der then 2 * t else t * t
  | 3%Z => if der then 3 * (t * t) else t * t * t
  | _ => 0
  end.
Definition dotv (w a : Z -> Q) : Q := w 0%Z * a 0%Z + w 1%Z * a 1%Z + w 2%Z * a 2%Z + w 3%Z * a 3%Z.

Definition knot_of (nd : Q * Q * Q * Q) (knot : bool) : Q := let '(tm, t0, t1, t2) := nd in if knot then t1 else t0.

(* right-hand sides cv_view[l]: the datum at the knot, or the central difference quotient there
   ("delta_x = self.x_view[u+1] - self.x_view[u-1]"), axis after axis *)
Definition fdv (der knot : bool) (nd : Q * Q * Q * Q) (g : Z -> Q) : Q :=
  let '(tm, t0, t1, t2) := nd in
  if der then (if knot then (g 3%Z - g 1%Z) / (t2 - t0) else (g 2%Z - g 0%Z) / (t1 - tm))
  else (if knot then g 2%Z else g 1%Z).
Definition cv2 (dx dy kx ky : bool) (xn yn : Q * Q * Q * Q) (D : Z -> Z -> Q) : Q :=
  fdv dx kx xn (fun u => fdv dy ky yn (fun v => D u v)).
Definition cv3 (dx dy dz kx ky kz : bool) (xn yn zn : Q * Q * Q * Q) (D : Z -> Z -> Z -> Q) : Q :=
  fdv dx kx xn (fun u => fdv dy ky yn (fun v => fdv dz kz zn (fun w => D u v w))).

(* monomial coefficients of the one-axis cubic through the data g 0..g 3 (closed form of the 4x4 solve) *)
Definition cfv (nd : Q * Q * Q * Q) (g : Z -> Q) : Z -> Q :=
  let '(tm, t0, t1, t2) := nd in
  let '(a0, a1, a2, a3) := solve4 t0 t1 (g 1%Z) ((g 2%Z - g 0%Z) / (t1 - tm)) (g 2%Z) ((g 3%Z - g 1%Z) / (t2 - t0)) in
  fun i => match i with 0%Z => a0 | 1%Z => a1 | 2%Z => a2 | 3%Z => a3 | _ => 0 end.

(* the coefficient arrays of the tensor-product cubic: C i j (k) multiplies x^i y^j (z^k) *)
Definition coef2 (xn yn : Q * Q * Q * Q) (D : Z -> Z -> Q) : Z -> Z -> Q :=
  fun i j => cfv xn (fun u => cfv yn (fun v => D u v) j) i.
Definition coef3 (xn yn zn : Q * Q * Q * Q) (D : Z -> Z -> Z -> Q) : Z -> Z -> Z -> Q :=
  fun i j k => cfv xn (fun u => cfv yn (fun v => cfv zn (fun w => D u v w) k) j) i.
Definition idx4 : list Z := [0%Z; 1%Z; 2%Z; 3%Z].
(* flattened as in coeffs_view[.., 4*i + j] / [.., 16*i + 4*j + k] *)
Definition flat2 (C : Z -> Z -> Q) : list Q := flat_map (fun i => map (fun j => C i j) idx4) idx4.
Definition flat3 (C : Z -> Z -> Z -> Q) : list Q :=
  flat_map (fun i => flat_map (fun j => map (fun k => C i j k) idx4) idx4) idx4.

(* the cell's data block as a function of local indices (needed2 / needed3 order: u outer, w inner) *)
Definition block2 (vals : list Q) : Z -> Z -> Q := fun u v => nth (Z.to_nat (4 * u + v)) vals 0.
Definition block3 (vals : list Q) : Z -> Z -> Z -> Q := fun u v w => nth (Z.to_nat (16 * u + 4 * v + w)) vals 0.

(* ---- the de-normalisation loops of Caching2D / Caching3D and the final evaluation in raw coordinates ---- *)
(* utility.pyx derivatives_array(v, deriv)[a] *)
Definition dera (v : Q) (der : Z) : Z -> Q := fun a =>
  match der, a with
  | 0%Z, 0%Z => 1 | 0%Z, 1%Z => v | 0%Z, 2%Z => v * v | 0%Z, 3%Z => v * v * v
  | 1%Z, 1%Z => 1 | 1%Z, 2%Z => 2 * v | 1%Z, 3%Z => 3 * v * v
  | 2%Z, 2%Z => 2 | 2%Z, 3%Z => 6 * v
  | 3%Z, 3%Z => 6
  | _, _ => 0
  end.
Definition factq (n : Z) : Q := match n with 2%Z => 2 | 3%Z => 6 | _ => 1 end.
Definition powq (q : Q) (n : Z) : Q := match n with 1%Z => q | 2%Z => q * q | 3%Z => q * q * q | _ => 1 end.

(* _evaluate_polynomial_derivative: x_values[0]*(y_values[0]*c[0] + y_values[1]*c[1] + ..) + x_values[1]*(..) + .. *)
Definition polyder2 (c : Z -> Z -> Q) (px py : Q) (dx dy : Z) : Q :=
  dotv (dera px dx) (fun a => dotv (dera py dy) (fun b => c a b)).
Definition polyder3 (c : Z -> Z -> Z -> Q) (px py pz : Q) (dx dy dz : Z) : Q :=
  dotv (dera px dx) (fun a => dotv (dera py dy) (fun b => dotv (dera pz dz) (fun e => c a b e))).

(* "for i: for j: coeffs_view[4*i+j] = data_delta * (x_delta_inv**i * y_delta_inv**j / (factorial(j)*factorial(i)) *
      _evaluate_polynomial_derivative(.., -x_delta_inv*x_min, -y_delta_inv*y_min, i, j));  coeffs_view[0] += data_min" *)
Definition denorm2 (ddelta dmin xdi ydi xmin ymin : Q) (c : Z -> Z -> Q) : Z -> Z -> Q := fun i j =>
  ddelta * (powq xdi i * powq ydi j / (factq j * factq i) * polyder2 c (- xdi * xmin) (- ydi * ymin) i j)
  + (if (i =? 0)%Z && (j =? 0)%Z then dmin else 0).
(* caching3d.pyx: data_delta * xdi**i * ydi**j * zdi**k / (factorial(i)*factorial(j)*factorial(k)) * derivative *)
Definition denorm3 (ddelta dmin xdi ydi zdi xmin ymin zmin : Q) (c : Z -> Z -> Z -> Q) : Z -> Z -> Z -> Q := fun i j k =>
  ddelta * powq xdi i * powq ydi j * powq zdi k / (factq i * factq j * factq k)
  * polyder3 c (- xdi * xmin) (- ydi * ymin) (- zdi * zmin) i j k
  + (if (i =? 0)%Z && (j =? 0)%Z && (k =? 0)%Z then dmin else 0).

(* the return expressions of _evaluate: px2 = px*px, px3 = px2*px, ... *)
Definition line4 (c : Z -> Q) (p : Q) : Q := let p2 := p * p in let p3 := p2 * p in c 0%Z + c 1%Z * p + c 2%Z * p2 + c 3%Z * p3.
Definition eval2 (c : Z -> Z -> Q) (px py : Q) : Q :=
  let px2 := px * px in let px3 := px2 * px in
  line4 (c 0%Z) py + px * line4 (c 1%Z) py + px2 * line4 (c 2%Z) py + px3 * line4 (c 3%Z) py.
Definition plane16 (c : Z -> Z -> Q) (py pz : Q) : Q :=
  let py2 := py * py in let py3 := py2 * py in
  line4 (c 0%Z) pz + py * line4 (c 1%Z) pz + py2 * line4 (c 2%Z) pz + py3 * line4 (c 3%Z) pz.
Definition eval3 (c : Z -> Z -> Z -> Q) (px py pz : Q) : Q :=
  let px2 := px * px in let px3 := px2 * px in
  plane16 (c 0%Z) py pz + px * plane16 (c 1%Z) py pz + px2 * plane16 (c 2%Z) py pz + px3 * plane16 (c 3%Z) py pz.
