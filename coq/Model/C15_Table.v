(* The group classes of the unchanged tree, written by hand: which group-level attributes each
   class has and of which shape.  This is the table the correspondence runs the model with.  It is
   tied to the source twice on every run: the table extracted from the source by
   harness/c15_translate.py must agree with it entry by entry (Gen/C15/Tie_canon.v), and the real
   classes are driven side by side with [run] instantiated with it (Gen/C15/cases_*.v). *)
Require Import Cherab.Common.Qx.
From Coq Require Import String.
Require Import Cherab.Model.C15_Groups.
Open Scope string_scope.
Open Scope list_scope.
Open Scope Z_scope.

(* a descriptor that is well formed by construction *)
Definition mk (name : string) (s : shape) : descr :=
  {| d_name := name; d_settarget := name; d_get := member_attr name; d_zip := member_attr name;
     d_bcast := member_attr name; d_shape := s |}.

Definition LTA : list kind := [KList; KTuple; KArr].
Definition LT : list kind := [KList; KTuple].

(* member type tags *)
Definition ty_SightLine : Z := 1.
Definition ty_FibreOptic : Z := 2.
Definition ty_Pixel : Z := 3.
Definition ty_TargettedPixel : Z := 4.
Definition ty_SpectroscopicSightLine : Z := 5.      (* subclass of SightLine *)
Definition ty_SpectroscopicFibreOptic : Z := 6.     (* subclass of FibreOptic *)
Definition ty_BolometerFoil : Z := 7.               (* subclass of TargettedPixel *)
Definition ty_NotObserver : Z := 9.                 (* a Node / a number / a string *)

(* base.py: Observer0DGroup *)
Definition base_table : list descr := [
  mk "observers" Members;
  mk "names" (SeqOnly LT);
  mk "render_engine" (TypedBroadcast LT tag_engine);
  mk "spectral_bins" (Broadcast LTA);
  mk "spectral_rays" (Broadcast LTA);
  mk "max_wavelength" (Broadcast LTA);
  mk "min_wavelength" (Broadcast LTA);
  mk "ray_extinction_prob" (Broadcast LTA);
  mk "ray_max_depth" (Broadcast LTA);
  mk "ray_extinction_min_depth" (Broadcast LTA);
  mk "ray_importance_sampling" (Broadcast LTA);
  mk "ray_important_path_weight" (Broadcast LTA);
  mk "quiet" (Broadcast LTA);
  mk "pixel_samples" (Broadcast LTA);
  mk "samples_per_task" (Broadcast LTA);
  mk "pipelines" LenOnly ].

(* spectroscopic.py: SpectroscopicObserver0DGroup *)
Definition spectroscopic_table : list descr :=
  base_table ++ [
  mk "sight_lines" Members;
  mk "origin" (Broadcast LT);
  mk "direction" (Broadcast LT);
  mk "display_progress" (Broadcast LTA);
  mk "accumulate" (Broadcast LTA) ].

Definition all_observers : list Z := [1; 2; 3; 4; 5; 6; 7].

Definition cls_Observer0DGroup : gcls :=
  {| c_name := "Observer0DGroup"; c_flavour := FObserver0D; c_accept := all_observers; c_table := base_table |}.

Definition cls_SightLineGroup : gcls :=
  {| c_name := "SightLineGroup"; c_flavour := FObserver0D; c_accept := [1; 5];
     c_table := base_table ++ [mk "sensitivity" (Broadcast LTA)] |}.

Definition cls_FibreOpticGroup : gcls :=
  {| c_name := "FibreOpticGroup"; c_flavour := FObserver0D; c_accept := [2; 6];
     c_table := base_table ++ [mk "acceptance_angle" (Broadcast LTA); mk "radius" (Broadcast LTA)] |}.

Definition cls_PixelGroup : gcls :=
  {| c_name := "PixelGroup"; c_flavour := FObserver0D; c_accept := [3];
     c_table := base_table ++ [mk "x_width" (Broadcast LTA); mk "y_width" (Broadcast LTA)] |}.

Definition cls_TargettedPixelGroup : gcls :=
  {| c_name := "TargettedPixelGroup"; c_flavour := FObserver0D; c_accept := [4; 7];
     c_table := base_table ++ [mk "x_width" (Broadcast LTA); mk "y_width" (Broadcast LTA);
                               mk "targets" NestedSeq; mk "targetted_path_prob" (Broadcast LT)] |}.

Definition cls_SpectroscopicObserver0DGroup : gcls :=
  {| c_name := "SpectroscopicObserver0DGroup"; c_flavour := FObserver0D; c_accept := all_observers;
     c_table := spectroscopic_table |}.

Definition cls_SpectroscopicFibreOpticGroup : gcls :=
  {| c_name := "SpectroscopicFibreOpticGroup"; c_flavour := FObserver0D; c_accept := [6];
     c_table := spectroscopic_table ++ [mk "acceptance_angle" (Broadcast LTA); mk "radius" (Broadcast LTA)] |}.

Definition cls_SpectroscopicSightLineGroup : gcls :=
  {| c_name := "SpectroscopicSightLineGroup"; c_flavour := FObserver0D; c_accept := [5];
     c_table := spectroscopic_table ++ [mk "sensitivity" (Broadcast LTA)] |}.

(* bolometry.py: BolometerCamera has no broadcast attributes, only the member list *)
Definition cls_BolometerCamera : gcls :=
  {| c_name := "BolometerCamera"; c_flavour := FBolometer; c_accept := [7];
     c_table := [mk "foil_detectors" Members] |}.

Definition canonical : list gcls := [
  cls_Observer0DGroup; cls_SightLineGroup; cls_FibreOpticGroup; cls_PixelGroup; cls_TargettedPixelGroup;
  cls_SpectroscopicObserver0DGroup; cls_SpectroscopicFibreOpticGroup; cls_SpectroscopicSightLineGroup;
  cls_BolometerCamera ].

(* ---- the member-related METHODS of the classes ------------------------------------------------- *)
(* Each constructor names one method body of the unchanged tree (frozen copy in
   harness/c15_translate.py: METHOD_TEMPLATES) and the part of the model that mirrors it:
     MInit0D             base.py:55-60        construction = a loop of add_observer      (exec of OAdd ..)
     MInitSpectroscopic  spectroscopic.py:46  passes observers= on to MInit0D
     MInitBolometer      bolometry.py:74-85   empty foil list (+ camera geometry, not modelled)
     MGetitem0D          base.py:62-80        getitem_0d
     MGetitemBolometer   bolometry.py:103-124 getitem_bolo
     MLen0D / MLenBolometer                   step OLen
     MIterBolometer      bolometry.py:92-101  iterate, FBolometer branch (MAbsent: iteration through
                                              __getitem__, FObserver0D branch)
     MAdd0D              base.py:103-108      step OAdd, add_err = EValue
     MAddAlias           spectroscopic.py:57  add_sight_line = add_observer
     MAddBolometer       bolometry.py:158-178 step OAdd, add_err = EType
     MObserve0D / MObserveBolometer           step OObserve (the camera also returns the foil readings)
   The table below says which body each class resolves to; Gen/C15/Tie_methods.v re-checks on every run
   that the source still has exactly these bodies. *)
Inductive mshape :=
| MInit0D | MInitSpectroscopic | MInitBolometer | MGetitem0D | MGetitemBolometer | MLen0D | MLenBolometer
| MIterBolometer | MAdd0D | MAddAlias | MAddBolometer | MObserve0D | MObserveBolometer | MAbsent | MCustom.

Definition methods_0d (init : mshape) (alias : mshape) : list (string * mshape) := [
  ("__init__", init); ("__getitem__", MGetitem0D); ("__len__", MLen0D); ("__iter__", MAbsent);
  ("add_observer", MAdd0D); ("add_sight_line", alias); ("add_foil_detector", MAbsent); ("observe", MObserve0D) ].

Definition methods_bolometer : list (string * mshape) := [
  ("__init__", MInitBolometer); ("__getitem__", MGetitemBolometer); ("__len__", MLenBolometer);
  ("__iter__", MIterBolometer); ("add_observer", MAbsent); ("add_sight_line", MAbsent);
  ("add_foil_detector", MAddBolometer); ("observe", MObserveBolometer) ].

Definition is_spectroscopic (c : gcls) : bool :=
  existsb (fun d => String.eqb (d_name d) "sight_lines") (c_table c).

(* the method bodies a class of the model stands for *)
Definition methods_of (c : gcls) : list (string * mshape) :=
  match c_flavour c with
  | FBolometer => methods_bolometer
  | FObserver0D => if is_spectroscopic c then methods_0d MInitSpectroscopic MAddAlias else methods_0d MInit0D MAbsent
  end.
