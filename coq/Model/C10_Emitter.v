(* Model of the argument validation and of the mask / voxel_map / bins state machine of RayTransferEmitter,
   CylindricalRayTransferEmitter, CartesianRayTransferEmitter and RayTransferIntegrator (emitters.pyx), definitions only.
   An array argument is (its shape, its elements in C order). *)
Require Import Cherab.Common.Qx Cherab.Model.C10_RayTransfer.
From Coq Require Import Qabs Qround.
Open Scope Q_scope.

Inductive errkind := ErrNone | ErrValue.

Definition shape_eqb (a b : shape) : bool :=
  let '(a1, a2, a3) := a in let '(b1, b2, b3) := b in ((a1 =? b1) && (a2 =? b2) && (a3 =? b3))%Z.
Definition ncells (sh : shape) : Z := let '(n1, n2, n3) := sh in (n1 * n2 * n3)%Z.

(* ---- RayTransferEmitter.__init__: grid_shape / grid_steps ---- *)
(*   for i in grid_shape: if i < 1: raise ValueError;   for step in grid_steps: if step <= 0: raise ValueError *)
Definition validate_grid (sh : shape) (steps : vec) : errkind :=
  let '(n1, n2, n3) := sh in let '(d1, d2, d3) := steps in
  if ((n1 <? 1) || (n2 <? 1) || (n3 <? 1))%Z then ErrValue
  else if Qle_bool d1 0 || Qle_bool d2 0 || Qle_bool d3 0 then ErrValue else ErrNone.

(* ---- CylindricalRayTransferEmitter.__init__ ----
     rmin setter: if value < 0: raise ValueError
     period = grid_shape[1] * grid_steps[1]; num_sectors = 360. / period
     if abs(round(num_sectors) - num_sectors) > 1.e-3: raise ValueError     (1.e-3 is the double c1em3) *)
Definition c1em3 : Q := 1152921504606847 # 1152921504606846976.
(* round half to even *)
Definition round_even (q : Q) : Z :=
  let f := Qfloor q in let r := q - inject_Z f in
  if Qltb r (1 # 2) then f else if Qltb (1 # 2) r then (f + 1)%Z else if Z.even f then f else (f + 1)%Z.
Definition validate_cyl (sh : shape) (steps : vec) (rmin : Q) : errkind :=
  match validate_grid sh steps with
  | ErrValue => ErrValue
  | ErrNone =>
    if Qltb rmin 0 then ErrValue else
    let '(_, nphi, _) := sh in let '(_, dphi, _) := steps in
    let ns := 360 / (inject_Z nphi * dphi) in
    if Qltb c1em3 (Qabs (inject_Z (round_even ns) - ns)) then ErrValue else ErrNone
  end.

(* ---- RayTransferIntegrator: step setter (value <= 0), min_samples setter (value < 2) ---- *)
Definition validate_step (stp : Q) : errkind := if Qle_bool stp 0 then ErrValue else ErrNone.
Definition validate_min_samples (m : Z) : errkind := if (m <? 2)%Z then ErrValue else ErrNone.

(* ---- the state: _voxel_map (what voxel_map_mv views) and _bins ---- *)
Record emstate := { em_vm : list Z; em_bins : Z }.

Definition em_of_map (vm : list Z) : emstate := {| em_vm := vm; em_bins := bins_of vm |}.

Inductive emop :=
| OpMask (m : option (shape * list bool))        (* obj.mask = None | array *)
| OpVoxelMap (v : shape * list Z).               (* obj.voxel_map = array *)

Fixpoint all_true (n : nat) : list bool := match n with O => [] | S k => true :: all_true k end.

(* mask setter: _map_from_mask (shape check, None -> all cells), then _bins = max + 1
   voxel_map setter: shape check, astype(int32), _bins = max + 1 *)
Definition em_step (sh : shape) (st : emstate) (op : emop) : emstate * errkind :=
  match op with
  | OpMask None => (em_of_map (map_from_mask (all_true (Z.to_nat (ncells sh)))), ErrNone)
  | OpMask (Some (s, m)) => if shape_eqb s sh then (em_of_map (map_from_mask m), ErrNone) else (st, ErrValue)
  | OpVoxelMap (s, v) => if shape_eqb s sh then (em_of_map v, ErrNone) else (st, ErrValue)
  end.

(* __init__: if voxel_map is None: self.mask = mask  else: self.voxel_map = voxel_map  (the mask is ignored then) *)
Definition em_init (sh : shape) (voxel_map : option (shape * list Z)) (mask : option (shape * list bool)) : emstate * errkind :=
  let st0 := {| em_vm := []; em_bins := 0 |} in
  match voxel_map with None => em_step sh st0 (OpMask mask) | Some v => em_step sh st0 (OpVoxelMap v) end.

(* the mask getter: self._voxel_map > -1 *)
Definition em_mask (st : emstate) : list bool := map (fun v => (-1 <? v)%Z) (em_vm st).

(* a history: the state, error kind and reported mask after every assignment *)
Fixpoint em_history (sh : shape) (st : emstate) (ops : list emop) : list (emstate * errkind) :=
  match ops with
  | [] => []
  | op :: t => let r := em_step sh st op in r :: em_history sh (fst r) t
  end.
