(* Order of operations in EFITEquilibrium.__init__ (efit.pyx:116): the psi grid is normalised FIRST and the
   normalised grid is interpolated, whereas Model/C12_Equilibrium.v normalises the interpolated psi.
   An interpolant on a fixed grid, evaluated at a fixed point, is modelled as a weighted sum of the node
   values: value = sum_i w_i g_i, with weights that depend on the point and the axes only (raysect's cubic
   scheme: Hermite basis functions times finite-difference derivative estimates, all linear in the data).
   Definitions only. *)
Require Import Cherab.Common.Qx.
Require Import Cherab.Model.C12_Equilibrium.
From Coq Require Import Qabs.
Open Scope Q_scope.

Fixpoint wsum (w g : list Q) : Q :=
  match w, g with
  | a :: w', x :: g' => a * x + wsum w' g'
  | _, _ => 0
  end.

(* (psi - psi_axis) / (psi_lcfs - psi_axis) applied to every node value *)
Definition norm_grid (axis lcfs : Q) (g : list Q) : list Q := map (fun p => (p - axis) / (lcfs - axis)) g.

(* psi_normalised as the code computes it: clamp at 0 of the interpolated NORMALISED grid *)
Definition psin_code (axis lcfs : Q) (w g : list Q) : Q := clamp (wsum w (norm_grid axis lcfs g)) 0 None.

(* fast evaluators for the correspondence (fractions reduced after every step); proved equal to wsum,
   Qsum and psin_code in Proofs/C12_Interp.v *)
Fixpoint wsum_red (w g : list Q) : Q :=
  match w, g with
  | a :: w', x :: g' => Qred (a * x + wsum_red w' g')
  | _, _ => 0
  end.
Fixpoint Qsum_red (l : list Q) : Q := match l with [] => 0 | x :: t => Qred (x + Qsum_red t) end.
Definition psin_code_red (axis lcfs : Q) (w g : list Q) : Q :=
  clamp (wsum_red w (map Qred (norm_grid axis lcfs g))) 0 None.

(* correspondence: weights obtained by interpolating unit-impulse grids with the running interpolator *)
Definition check_interp (axis lcfs : Q) (w g : list Q) (psi_impl psin_impl tol_psin : Q) : bool :=
  let m := fold_right (fun x acc => Qmaxabs x acc) 0 g in
  Nat.eqb (length w) (length g) &&
  Qle_bool (Qabs (Qsum_red w - 1)) (pow2 (-40)) &&
  Qle_bool (Qabs (wsum_red w g - psi_impl)) (pow2 (-38) * m) &&
  Qle_bool (Qabs (psin_code_red axis lcfs w g - psin_impl)) tol_psin.

(* any other grid interpolated with the same weights (the d psi grids of _calculate_differentials) *)
Definition check_wsum (w g : list Q) (impl : Q) : bool :=
  let m := fold_right (fun x acc => Qmaxabs x acc) 0 g in
  Nat.eqb (length w) (length g) && Qle_bool (Qabs (wsum_red w g - impl)) (pow2 (-38) * m).

(* one probe point: the weights once, the psi nodes, and the two d psi grids at the same nodes *)
Definition check_interp3 (axis lcfs : Q) (w gpsi gdr gdz : list Q) (psi_impl psin_impl tol_psin dr_impl dz_impl : Q) : bool :=
  check_interp axis lcfs w gpsi psi_impl psin_impl tol_psin && check_wsum w gdr dr_impl && check_wsum w gdz dz_impl.
