(* C02 -- executable model of cherab/core/model/lineshape/{gaussian,multiplet,zeeman,stark,doppler}.pyx,
   beam/mse.pyx and atomic/zeeman.pyx (ZeemanStructure.evaluate).   Definitions only.

   Exact arithmetic over Q ([Qred] only normalises the representation of a fraction: Qred q == q).  The libm / quadrature functions the code calls are Section variables:
     E      erf                                    (gaussian.pyx)
     sqrtQ  sqrt                                   (doppler.pyx, raysect Vector3D.normalise/get_length, zeeman.pyx, mse.pyx)
     powQ   pow,  lnQ  log,  expQ  exp            (zeeman.pyx: ts**(2 gamma); stark.pyx: ne**a, te**b, log, exp)
     I      the integrator applied to StarkFunction(lam, fwhm) over [a, b]   (stark.pyx add_lorentzian_line)
   and the double constants M_SQRT2, _SIGMA2FWHM and those of utility/constants.pyx are parameters. *)
Require Import Cherab.Common.Qx.
From Coq Require Import Qround Qabs.
Open Scope Q_scope.

(* raysect Spectrum: min_wavelength, max_wavelength, bins, delta_wavelength (a stored attribute) *)
Record grid := { gmin : Q; gmax : Q; gbins : Z; gdelta : Q }.

Definition Qltb (a b : Q) : bool := negb (Qle_bool b a).

Record vec := { vx : Q; vy : Q; vz : Q }.
Definition dot (a b : vec) : Q := vx a * vx b + vy a * vy b + vz a * vz b.
Definition cross (a b : vec) : vec :=
  {| vx := vy a * vz b - vz a * vy b; vy := vz a * vx b - vx a * vz b; vz := vx a * vy b - vy a * vx b |}.
Definition vscale (a : vec) (m : Q) : vec := {| vx := vx a * m; vy := vy a * m; vz := vz a * m |}.

(* utility/constants.pyx *)
Record consts := { k_amu : Q; k_e : Q; k_c : Q; k_muB : Q; k_hc : Q }.

(* spectrum.samples_mv[i] += ... for i = k, k+1, ...  (one contribution per list element) *)
Fixpoint add_at (k : nat) (c l : list Q) : list Q :=
  match l with
  | [] => []
  | x :: t =>
    match k with
    | S k' => x :: add_at k' c t
    | O => match c with [] => x :: t | y :: c' => (x + y) :: add_at O c' t end
    end
  end.

Section Gauss.
  Variable E : Q -> Q.       (* erf *)
  Variable sqrt2 : Q.        (* M_SQRT2 *)

  Definition cutoff_sigma : Q := 10.                          (* DEF GAUSSIAN_CUTOFF_SIGMA = 10.0 *)

  (* spectrum.min_wavelength + spectrum.delta_wavelength * i *)
  Definition edge (g : grid) (i : Z) : Q := gmin g + gdelta g * inject_Z i.
  Definition erfarg (g : grid) (lam temp : Q) (i : Z) : Q := (edge g i - lam) * temp.

  Definition g_cl (lam sig : Q) : Q := lam - cutoff_sigma * sig.     (* cutoff_lower_wavelength *)
  Definition g_cu (lam sig : Q) : Q := lam + cutoff_sigma * sig.     (* cutoff_upper_wavelength *)
  (* gaussian.pyx:72-73 *)
  Definition g_start (g : grid) (lam sig : Q) : Z :=
    Z.max 0 (Qfloor ((g_cl lam sig - gmin g) / gdelta g)).
  Definition g_end (g : grid) (lam sig : Q) : Z :=
    Z.min (gbins g) (Qceiling ((g_cu lam sig - gmin g) / gdelta g)).

  (* gaussian.pyx:79-87: the loop with the running lower_integral; returns the amounts added to
     bins i, i+1, ..., i+n-1 *)
  Fixpoint g_loop (g : grid) (R lam temp : Q) (i : Z) (n : nat) (lower_integral : Q) : list Q :=
    match n with
    | O => []
    | S n' =>
      let upper_integral := E (erfarg g lam temp (i + 1)) in
      (R * (1 # 2) * (upper_integral - lower_integral) / gdelta g)
        :: g_loop g R lam temp (i + 1) n' upper_integral
    end.

  Definition g_temp (sig : Q) : Q := 1 / (sqrt2 * sig).

  (* gaussian.pyx:36-89 add_gaussian_line; the spectrum is (grid, samples) and only samples change *)
  Definition add_gaussian (R lam sig : Q) (g : grid) (smp : list Q) : list Q :=
    if Qle_bool sig 0 then smp else
    if Qltb (gmax g) (g_cl lam sig) then smp else
    if Qltb (g_cu lam sig) (gmin g) then smp else
    let st := g_start g lam sig in
    let en := g_end g lam sig in
    let temp := g_temp sig in
    add_at (Z.to_nat st)
           (g_loop g R lam temp st (Z.to_nat (en - st)) (E (erfarg g lam temp st))) smp.

  (* the specification the loop is proved to refine: what bin i receives *)
  Definition g_active (g : grid) (lam sig : Q) : bool :=
    negb (Qle_bool sig 0) && negb (Qltb (gmax g) (g_cl lam sig)) && negb (Qltb (g_cu lam sig) (gmin g)).
  Definition g_inrange (g : grid) (lam sig : Q) (i : Z) : bool :=
    g_active g lam sig && (g_start g lam sig <=? i)%Z && (i <? g_end g lam sig)%Z.
  Definition gbin (R lam sig : Q) (g : grid) (i : Z) : Q :=
    if g_inrange g lam sig i
    then R * (1 # 2) * (E (erfarg g lam (g_temp sig) (i + 1)) - E (erfarg g lam (g_temp sig) i)) / gdelta g
    else 0.

  (* ------------------------------------------------------------------------------------------ *)
  (* stark.pyx:79-139 add_lorentzian_line; I lam fwhm a b = integrator.evaluate(a, b) with
     integrator.function = StarkFunction(lam, fwhm) *)
  Variable I : Q -> Q -> Q -> Q -> Q.
  Definition lorentz_cutoff : Q := 50.                        (* DEF LORENTZIAN_CUTOFF_GAMMA = 50.0 *)
  Definition l_cl (lam w : Q) : Q := lam - lorentz_cutoff * w.
  Definition l_cu (lam w : Q) : Q := lam + lorentz_cutoff * w.
  Definition l_start (g : grid) (lam w : Q) : Z := Z.max 0 (Qfloor ((l_cl lam w - gmin g) / gdelta g)).
  Definition l_end (g : grid) (lam w : Q) : Z := Z.min (gbins g) (Qceiling ((l_cu lam w - gmin g) / gdelta g)).

  Fixpoint l_loop (g : grid) (R lam w : Q) (i : Z) (n : nat) : list Q :=
    match n with
    | O => []
    | S n' => (R * I lam w (edge g i) (edge g (i + 1)) / gdelta g) :: l_loop g R lam w (i + 1) n'
    end.

  Definition add_lorentzian (R lam w : Q) (g : grid) (smp : list Q) : list Q :=
    if Qle_bool w 0 then smp else
    if Qltb (gmax g) (l_cl lam w) then smp else
    if Qltb (l_cu lam w) (gmin g) then smp else
    let st := l_start g lam w in
    let en := l_end g lam w in
    add_at (Z.to_nat st) (l_loop g R lam w st (Z.to_nat (en - st))) smp.

  Definition l_inrange (g : grid) (lam w : Q) (i : Z) : bool :=
    negb (Qle_bool w 0) && negb (Qltb (gmax g) (l_cl lam w)) && negb (Qltb (l_cu lam w) (gmin g))
    && (l_start g lam w <=? i)%Z && (i <? l_end g lam w)%Z.
  Definition lbin (R lam w : Q) (g : grid) (i : Z) : Q :=
    if l_inrange g lam w i then R * I lam w (edge g i) (edge g (i + 1)) / gdelta g else 0.

  (* ------------------------------------------------------------------------------------------ *)
  (* a line-shape model hands a sequence of components to add_gaussian_line / add_lorentzian_line *)
  Inductive comp := GaussC (R lam sig : Q) | LorC (R lam w : Q).
  Definition c_rad (c : comp) : Q := match c with GaussC R _ _ => R | LorC R _ _ => R end.
  Definition add_comp (g : grid) (smp : list Q) (c : comp) : list Q :=
    match c with
    | GaussC R lam sig => add_gaussian R lam sig g smp
    | LorC R lam w => add_lorentzian R lam w g smp
    end.
  Definition add_comps (g : grid) (cs : list comp) (smp : list Q) : list Q := fold_left (add_comp g) cs smp.
  Definition cbin (g : grid) (c : comp) (i : Z) : Q :=
    match c with GaussC R lam sig => gbin R lam sig g i | LorC R lam w => lbin R lam w g i end.
  Definition csbin (g : grid) (cs : list comp) (i : Z) : Q := Qsum (map (fun c => cbin g c i) cs).
  Definition total_rad (cs : list comp) : Q := Qsum (map c_rad cs).

  (* ------------------------------------------------------------------------------------------ *)
  Variable K : consts.
  Variable sqrtQ : Q -> Q.
  Variable powQ : Q -> Q -> Q.
  Variable lnQ : Q -> Q.
  Variable expQ : Q -> Q.
  Variable sigma2fwhm : Q.       (* stark.pyx:42 _SIGMA2FWHM = 2 sqrt(2 log 2) *)

  (* raysect _Vec3.get_length, Vector3D.normalise *)
  Definition vlength (a : vec) : Q := sqrtQ (vx a * vx a + vy a * vy a + vz a * vz a).
  Definition normalise (a : vec) : vec :=
    let t := 1 / sqrtQ (vx a * vx a + vy a * vy a + vz a * vz a) in vscale a t.

  (* doppler.pyx:28-44, 47-59 *)
  Definition doppler_shift (w : Q) (dir vel : vec) : Q :=
    let od := normalise dir in
    let pv := dot vel od in
    Qred (w * (1 + pv / k_c K)).
  Definition thermal_broadening (w t m : Q) : Q :=
    Qred (sqrtQ (t * k_e K / (m * k_amu K)) * w / k_c K).

  (* polarisation: DEF PI_POLARISATION = 0, SIGMA_POLARISATION = 1, NO_POLARISATION = 2 *)
  Inductive pol := PolPi | PolSigma | PolNo.
  Definition pol_eqb (a b : pol) : bool :=
    match a, b with PolPi, PolPi | PolSigma, PolSigma | PolNo, PolNo => true | _, _ => false end.

  (* ---- GaussianLine.add_line (gaussian.pyx:121-140) ---- *)
  Definition gaussian_line (w m : Q) (ts : Q) (vel : vec) (R : Q) (dir : vec) : list comp :=
    if Qle_bool ts 0 then [] else
    let shifted := doppler_shift w dir vel in
    let sigma := thermal_broadening w ts m in
    [GaussC R shifted sigma].

  (* ---- MultipletLineShape.add_line (multiplet.pyx:89-116); mult = [(wavelength_i, ratio_i)] ---- *)
  Definition multiplet_line (w m : Q) (mult : list (Q * Q)) (ts : Q) (vel : vec) (R : Q) (dir : vec) : list comp :=
    if Qle_bool ts 0 then [] else
    let sigma := thermal_broadening w ts m in
    map (fun wr => GaussC (R * snd wr) (doppler_shift (fst wr) dir vel) sigma) mult.

  (* the part shared by the Zeeman models once b_magn <> 0: cos^2 of the angle between B and the line of sight *)
  Definition cos_sqr (b dir : vec) (b_magn : Q) : Q :=
    let c := dot b (normalise dir) / b_magn in Qred (c * c).

  (* ---- ZeemanTriplet.add_line (zeeman.pyx:107-160) ---- *)
  Definition zeeman_triplet (p : pol) (w m : Q) (ts : Q) (vel b : vec) (R : Q) (dir : vec) : list comp :=
    if Qle_bool ts 0 then [] else
    let shifted := doppler_shift w dir vel in
    let sigma := thermal_broadening w ts m in
    let b_magn := vlength b in
    if Qeq_bool b_magn 0 then
      (if pol_eqb p PolNo then [GaussC R shifted sigma] else [GaussC ((1 # 2) * R) shifted sigma])
    else
    let cs := cos_sqr b dir b_magn in
    let sn := 1 - cs in
    (if negb (pol_eqb p PolSigma) then [GaussC ((1 # 2) * sn * R) shifted sigma] else [])
    ++
    (if negb (pol_eqb p PolPi) then
       let cr := ((1 # 4) * sn + (1 # 2) * cs) * R in
       let photon_energy := k_hc K / w in
       [GaussC cr (doppler_shift (k_hc K / (photon_energy - k_muB K * b_magn)) dir vel) sigma;
        GaussC cr (doppler_shift (k_hc K / (photon_energy + k_muB K * b_magn)) dir vel) sigma]
     else []).

  (* ---- ParametrisedZeemanTriplet.add_line (zeeman.pyx:215-267) ---- *)
  Definition param_zeeman_triplet (p : pol) (alpha beta gamma : Q) (w m : Q) (ts : Q) (vel b : vec) (R : Q) (dir : vec)
    : list comp :=
    if Qle_bool ts 0 then [] else
    let shifted := doppler_shift w dir vel in
    let sigma0 := thermal_broadening w ts m in
    let sigma := Qred (sigma0 * sqrtQ (1 + beta * beta * powQ ts (2 * gamma))) in
    let b_magn := vlength b in
    if Qeq_bool b_magn 0 then
      (if pol_eqb p PolNo then [GaussC R shifted sigma] else [GaussC ((1 # 2) * R) shifted sigma])
    else
    let cs := cos_sqr b dir b_magn in
    let sn := 1 - cs in
    (if negb (pol_eqb p PolSigma) then [GaussC ((1 # 2) * sn * R) shifted sigma] else [])
    ++
    (if negb (pol_eqb p PolPi) then
       let cr := ((1 # 4) * sn + (1 # 2) * cs) * R in
       [GaussC cr (doppler_shift (w + (1 # 2) * alpha * b_magn) dir vel) sigma;
        GaussC cr (doppler_shift (w - (1 # 2) * alpha * b_magn) dir vel) sigma]
     else []).

  (* ---- ZeemanStructure.evaluate (atomic/zeeman.pyx:92-134): raw = [(wavelength_i(b), ratio_i(b))] ---- *)
  Definition zs_evaluate (raw : list (Q * Q)) : list (Q * Q) :=
    let ratio_sum := fold_left (fun acc wr => acc + snd wr) raw 0 in
    if Qltb 0 ratio_sum then map (fun wr => (fst wr, snd wr / ratio_sum)) raw else raw.

  (* ---- ZeemanMultiplet.add_line (zeeman.pyx:308-368); raw_* are the structure's functions at b_magn ---- *)
  Definition zeeman_multiplet (p : pol) (raw_pi raw_sp raw_sm : list (Q * Q)) (w m : Q) (ts : Q) (vel b : vec)
             (R : Q) (dir : vec) : list comp :=
    if Qle_bool ts 0 then [] else
    let sigma := thermal_broadening w ts m in
    let b_magn := vlength b in
    if Qeq_bool b_magn 0 then
      let shifted := doppler_shift w dir vel in
      (if pol_eqb p PolNo then [GaussC R shifted sigma] else [GaussC ((1 # 2) * R) shifted sigma])
    else
    let cs := cos_sqr b dir b_magn in
    let sn := 1 - cs in
    let group (cr : Q) (raw : list (Q * Q)) :=
        map (fun wr => GaussC (cr * snd wr) (doppler_shift (fst wr) dir vel) sigma) (zs_evaluate raw) in
    (if negb (pol_eqb p PolSigma) then group ((1 # 2) * sn * R) raw_pi else [])
    ++
    (if negb (pol_eqb p PolPi) then
       let cr := ((1 # 4) * sn + (1 # 2) * cs) * R in group cr raw_sp ++ group cr raw_sm
     else []).

  (* ---- StarkBroadenedLine.add_line (stark.pyx:239-330) ---- *)
  Definition poly_gauss : list Q :=     (* _fwhm_poly_coeff_gauss *)
    [1; 0; 57575 # 100000; 37902 # 100000; -42519 # 100000; -31525 # 100000; 31718 # 100000].
  Definition poly_lorentz : list Q :=   (* _fwhm_poly_coeff_lorentz *)
    [1; 15882 # 100000; 104388 # 100000; -138281 # 100000; 46251 # 100000; 82325 # 100000; -58026 # 100000].
  Definition poly_weight : list Q :=    (* _weight_poly_coeff *)
    [514820 # 1000000000; 138821 # 100000; -960424 # 10000000; -383995 # 10000000; -740042 # 100000000; -547626 # 1000000000].
  (* c0 + sum_{i>=1} c_i x^i, as the code accumulates it *)
  Fixpoint poly_from (cs : list Q) (x : Q) (xi : Q) : Q :=
    match cs with [] => 0 | c :: t => c * xi + poly_from t x (Qred (xi * x)) end.
  Definition poly (cs : list Q) (x : Q) : Q := Qred (poly_from cs x 1).

  (* stark.pyx:262-276: total FWHM from the two part widths *)
  Definition stark_fwhm_full (fwhm_lorentz fwhm_gauss : Q) : Q :=
    if Qle_bool fwhm_gauss fwhm_lorentz
    then Qred (poly poly_gauss (Qred (fwhm_gauss / fwhm_lorentz)) * fwhm_lorentz)
    else Qred (poly poly_lorentz (Qred (fwhm_lorentz / fwhm_gauss)) * fwhm_gauss).

  Definition stark_l2t_low : Q := 1 # 100.          (* stark.pyx: if fwhm_lorentz_to_total < 0.01 *)
  Definition stark_l2t_high : Q := 999 # 1000.      (* stark.pyx: elif fwhm_lorentz_to_total > 0.999 *)
  (* stark.pyx:278-294: (lorentz_weight, gauss_weight, sigma, fwhm_full) *)
  Definition stark_weights (fwhm_lorentz fwhm_full : Q) : Q * Q * Q * Q :=
    let sigma := Qred (fwhm_full / sigma2fwhm) in
    let l2t := Qred (fwhm_lorentz / fwhm_full) in
    if Qltb l2t stark_l2t_low then (0, 1 - 0, sigma, 0)          (* fwhm_full = 0: add_lorentzian_line returns at once *)
    else if Qltb stark_l2t_high l2t then (1, 1 - 1, 0, fwhm_full) (* sigma = 0: add_gaussian_line returns at once *)
    else let lw := expQ (poly poly_weight (lnQ l2t)) in (lw, 1 - lw, sigma, fwhm_full).

  (* the widths and weights computed before any component is added; None = "return spectrum" (stark.pyx:250-260) *)
  Definition stark_widths (cij aij bij : Q) (w m ne te ts : Q) : option (Q * Q * Q * Q) :=
    let fwhm_lorentz := if Qltb 0 ne && Qltb 0 te then Qred (cij * powQ ne aij / powQ te bij) else 0 in
    let fwhm_gauss := if Qltb 0 ts then Qred (sigma2fwhm * thermal_broadening w ts m) else 0 in
    if Qeq_bool fwhm_lorentz 0 && Qeq_bool fwhm_gauss 0 then None
    else Some (stark_weights fwhm_lorentz (stark_fwhm_full fwhm_lorentz fwhm_gauss)).

  Definition stark_pair (gw lw cr lam sigma fwhm_full : Q) : list comp :=
    [GaussC (gw * cr) lam sigma; LorC (lw * cr) lam fwhm_full].

  Definition stark_line (p : pol) (cij aij bij : Q) (w m : Q) (ne te ts : Q) (vel b : vec) (R : Q) (dir : vec)
    : list comp :=
    match stark_widths cij aij bij w m ne te ts with
    | None => []
    | Some (lw, gw, sigma, fwhm_full) =>
      let shifted := doppler_shift w dir vel in
      let b_magn := vlength b in
      if Qeq_bool b_magn 0 then
        let R' := if negb (pol_eqb p PolNo) then R * (1 # 2) else R in
        stark_pair gw lw R' shifted sigma fwhm_full
      else
      let cs := cos_sqr b dir b_magn in
      let sn := 1 - cs in
      (if negb (pol_eqb p PolSigma) then stark_pair gw lw ((1 # 2) * sn * R) shifted sigma fwhm_full else [])
      ++
      (if negb (pol_eqb p PolPi) then
         let cr := ((1 # 4) * sn + (1 # 2) * cs) * R in
         let photon_energy := k_hc K / w in
         stark_pair gw lw cr (doppler_shift (k_hc K / (photon_energy - k_muB K * b_magn)) dir vel) sigma fwhm_full
         ++ stark_pair gw lw cr (doppler_shift (k_hc K / (photon_energy + k_muB K * b_magn)) dir vel) sigma fwhm_full
       else [])
    end.

  (* ---- BeamEmissionMultiplet.add_line (beam/mse.pyx:58-130) ---- *)
  Definition stark_splitting_factor : Q := 277 # 10000000000.     (* DEF STARK_SPLITTING_FACTOR = 2.77e-8 *)
  Definition evamu_to_ms (x : Q) : Q := sqrtQ (2 * x * k_e K * (1 / k_amu K)).
  (* s2p, s1s0, p2p3, p4p3: the four ratio functions evaluated at (ne, beam_energy) / ne *)
  Definition mse_multiplet (w beam_mass beam_temp beam_energy : Q) (s2p s1s0 p2p3 p4p3 : Q) (ne te : Q) (b : vec)
             (R : Q) (beam_dir obs_dir : vec) : list comp :=
    if Qle_bool te 0 then [] else
    if Qle_bool ne 0 then [] else
    let beam_velocity := vscale (normalise beam_dir) (evamu_to_ms beam_energy) in
    let e_field := vlength (cross beam_velocity b) in   (* Qred below: representation only, Qred q == q *)
    let stark_split := Qabs (stark_splitting_factor * e_field) in
    let central := doppler_shift w obs_dir beam_velocity in
    let sigma := thermal_broadening w beam_temp beam_mass in
    let d := 1 / (1 + s2p) in
    let intensity_sig := s2p * d * R in
    let intensity_pi := (1 # 2) * d * R in
    let intensity_s0 := 1 / (s1s0 + 1) in
    let intensity_s1 := (1 # 2) * s1s0 * intensity_s0 in
    let intensity_pi3 := 1 / (1 + p2p3 + p4p3) in
    let intensity_pi2 := p2p3 * intensity_pi3 in
    let intensity_pi4 := p4p3 * intensity_pi3 in
    [GaussC (intensity_sig * intensity_s0) central sigma;
     GaussC (intensity_sig * intensity_s1) (central + stark_split) sigma;
     GaussC (intensity_sig * intensity_s1) (central - stark_split) sigma;
     GaussC (intensity_pi * intensity_pi2) (central + 2 * stark_split) sigma;
     GaussC (intensity_pi * intensity_pi2) (central - 2 * stark_split) sigma;
     GaussC (intensity_pi * intensity_pi3) (central + 3 * stark_split) sigma;
     GaussC (intensity_pi * intensity_pi3) (central - 3 * stark_split) sigma;
     GaussC (intensity_pi * intensity_pi4) (central + 4 * stark_split) sigma;
     GaussC (intensity_pi * intensity_pi4) (central - 4 * stark_split) sigma].
End Gauss.
