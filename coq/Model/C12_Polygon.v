(* "Inside the LCFS polygon": even-odd crossing test of a closed polygon given by its vertices (the
   mathematical content of PolygonMask2D, mask.pyx, which triangulates the polygon and looks the point up
   in the triangle mesh).  Used by the correspondence to compare the polygon part of EFITLCFSMask with
   a model computed inside Coq instead of a value taken from the running system.  Definitions only. *)
Require Import Cherab.Common.Qx.
Require Import Cherab.Model.C12_Equilibrium.
Open Scope Q_scope.

Definition edges (poly : list (Q * Q)) : list ((Q * Q) * (Q * Q)) :=
  match poly with
  | [] => []
  | p0 :: t => combine poly (t ++ [p0])
  end.

(* does the horizontal ray from (x, y) towards +x cross the edge? *)
Definition crosses (x y : Q) (e : (Q * Q) * (Q * Q)) : bool :=
  let x1 := fst (fst e) in let y1 := snd (fst e) in
  let x2 := fst (snd e) in let y2 := snd (snd e) in
  if Bool.eqb (Qlt_b y y1) (Qlt_b y y2) then false
  else Qlt_b x (x1 + (y - y1) * (x2 - x1) / (y2 - y1)).

Definition pip (poly : list (Q * Q)) (x y : Q) : bool :=
  fold_right (fun e acc => xorb (crosses x y e) acc) false (edges poly).

(* the polygon mask as a function: 1 inside, 0 outside *)
Definition poly_mask (poly : list (Q * Q)) : Q -> Q -> Q := fun x y => if pip poly x y then 1 else 0.

Definition check_pip (poly : list (Q * Q)) (x y impl : Q) : bool := Qeq_bool (poly_mask poly x y) impl.
