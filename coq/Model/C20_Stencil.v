(* Model of cherab/tools/inversions/admt_utils.py : generate_derivative_operators
   for a rectangular n_x * n_y grid (definitions only; proofs are in Proofs/C20_Stencil.v).

   A matrix row of an operator for the cell (ix, iy) is a stencil: a coefficient for each
   relative offset (a, b) in {-1,0,1}^2, meaning the neighbour (ix+a, iy+b).  As in the code,
   iy increases downwards (y decreases with iy): "below" is (0,+1), "above" is (0,-1).
   The code fills the row by a sequence of assignments (later ones overwrite earlier ones);
   the model performs the same assignments in the same order. *)
Require Import Cherab.Common.Qx.
Open Scope Z_scope.

Definition stencil := Z -> Z -> Q.
Definition st0 : stencil := fun _ _ => 0%Q.
Definition upd (a b : Z) (v : Q) (s : stencil) : stencil :=
  fun a' b' => if (a' =? a) && (b' =? b) then v else s a' b'.
Definition when (c : bool) (f : stencil -> stencil) (s : stencil) : stencil := if c then f s else s.

(* the grid_index_2d_to_1d_map lookup succeeds iff the neighbour is inside the rectangle *)
Definition has (nx ny ix iy a b : Z) : bool :=
  (0 <=? ix + a) && (ix + a <? nx) && (0 <=? iy + b) && (iy + b <? ny).

Section Cell.
  Variables nx ny ix iy : Z.
  Let h := has nx ny ix iy.
  Definition at_left := negb (h (-1) 0).
  Definition at_right := negb (h 1 0).
  Definition at_bottom := negb (h 0 1).
  Definition at_top := negb (h 0 (-1)).
  Definition top_left := at_top && at_left.
  Definition top_right := at_top && at_right.
  Definition bottom_left := at_bottom && at_left.
  Definition bottom_right := at_bottom && at_right.

  Local Notation "s |> f" := (f s) (at level 50, left associativity, only parsing).
  Local Open Scope Q_scope.

  Definition raw_Dx : stencil :=
    st0
    |> when (h (-1) 0)%Z (upd (-1) 0 (-(1#2)))
    |> when (h 1 0)%Z (upd 1 0 (1#2))
    |> when at_left (fun s => s |> upd 0 0 (-1) |> upd 1 0 1)
    |> when at_right (fun s => s |> upd (-1) 0 (-1) |> upd 0 0 1).

  Definition raw_Dy : stencil :=
    st0
    |> when (h 0 1)%Z (upd 0 1 (-(1#2)))
    |> when (h 0 (-1))%Z (upd 0 (-1) (1#2))
    |> when at_top (fun s => s |> upd 0 1 (-1) |> upd 0 0 1)
    |> when at_bottom (fun s => s |> upd 0 (-1) 1 |> upd 0 0 (-1)).

  Definition raw_Dxx : stencil :=
    st0
    |> when (h (-1) 0)%Z (upd (-1) 0 1)
    |> when (h 1 0)%Z (upd 1 0 1)
    |> upd 0 0 (-2)
    |> when at_left (fun s => s |> upd 0 0 (-1) |> upd 1 0 1)
    |> when at_right (fun s => s |> upd (-1) 0 (-1) |> upd 0 0 1).

  Definition raw_Dyy : stencil :=
    st0
    |> when (h 0 1)%Z (upd 0 1 1)
    |> when (h 0 (-1))%Z (upd 0 (-1) 1)
    |> upd 0 0 (-2)
    |> when at_top (fun s => s |> upd 0 1 (-1) |> upd 0 0 1)
    |> when at_bottom (fun s => s |> upd 0 (-1) 1 |> upd 0 0 (-1)).

  Definition raw_Dxy : stencil :=
    st0
    |> when (h (-1) 1)%Z (upd (-1) 1 (1#4))          (* below left *)
    |> when (h 1 1)%Z (upd 1 1 (-(1#4)))             (* below right *)
    |> when (h 1 (-1))%Z (upd 1 (-1) (1#4))          (* above right *)
    |> when (h (-1) (-1))%Z (upd (-1) (-1) (-(1#4))) (* above left *)
    |> when (at_left && negb (top_left || bottom_left))
         (fun s => s |> upd 1 (-1) (1#2) |> upd 0 1 (1#2) |> upd 0 (-1) (-(1#2)) |> upd 1 1 (-(1#2)))
    |> when (at_right && negb (top_right || bottom_right))
         (fun s => s |> upd 0 (-1) (1#2) |> upd (-1) 1 (1#2) |> upd (-1) (-1) (-(1#2)) |> upd 0 1 (-(1#2)))
    |> when (at_top && negb (top_left || top_right))
         (fun s => s |> upd 1 0 (1#2) |> upd (-1) 1 (1#2) |> upd (-1) 0 (-(1#2)) |> upd 1 1 (-(1#2)))
    |> when (at_bottom && negb (bottom_left || bottom_right))
         (fun s => s |> upd 1 (-1) (1#2) |> upd (-1) 0 (1#2) |> upd (-1) (-1) (-(1#2)) |> upd 1 0 (-(1#2)))
    |> when top_left
         (fun s => s |> upd 0 1 1 |> upd 1 0 1 |> upd 0 0 (-1) |> upd 1 1 (-1))
    |> when top_right
         (fun s => s |> upd 0 0 1 |> upd (-1) 1 1 |> upd (-1) 0 (-1) |> upd 0 1 (-1))
    |> when bottom_left
         (fun s => s |> upd 1 (-1) 1 |> upd 0 0 1 |> upd 0 (-1) (-1) |> upd 1 0 (-1))
    |> when bottom_right
         (fun s => s |> upd 0 (-1) 1 |> upd (-1) 0 1 |> upd 0 0 (-1) |> upd (-1) (-1) (-1)).
End Cell.

Definition scale (k : Q) (s : stencil) : stencil := fun a b => (s a b / k)%Q.

Inductive opname := ODx | ODy | ODxx | ODyy | ODxy.

(* the operator rows as returned: divided by dx, dy, dx^2, dy^2, dx*dy *)
Definition op_row (o : opname) (nx ny ix iy : Z) (dx dy : Q) : stencil :=
  match o with
  | ODx => scale dx (raw_Dx nx ny ix iy)
  | ODy => scale dy (raw_Dy nx ny ix iy)
  | ODxx => scale (dx * dx)%Q (raw_Dxx nx ny ix iy)
  | ODyy => scale (dy * dy)%Q (raw_Dyy nx ny ix iy)
  | ODxy => scale (dx * dy)%Q (raw_Dxy nx ny ix iy)
  end.

Definition offs : list (Z * Z) :=
  [(-1,-1); (-1,0); (-1,1); (0,-1); (0,0); (0,1); (1,-1); (1,0); (1,1)].

(* (operator row) . (field), the field given on cell indices *)
Definition apply (s : stencil) (f : Z -> Z -> Q) (ix iy : Z) : Q :=
  Qsum (map (fun ab => (s (fst ab) (snd ab) * f (ix + fst ab)%Z (iy + snd ab)%Z)%Q) offs).

(* the nine coefficients in the fixed order of [offs]: what the correspondence compares *)
Definition coeffs (s : stencil) : list Q := map (fun ab => s (fst ab) (snd ab)) offs.

(* cell-centre coordinates: x grows with ix, y decreases with iy *)
Definition xc (x0 dx : Q) (ix : Z) : Q := (x0 + inject_Z ix * dx)%Q.
Definition yc (y0 dy : Q) (iy : Z) : Q := (y0 - inject_Z iy * dy)%Q.
