(* Executable comparators used by the correspondence check of C04 (definitions only).

   The harness (harness/c04.py) builds a real Beam + SingleRayAttenuator + Plasma whose species are
   Python stubs drawn from the small families below (uniform / linear / step profiles in plasma
   coordinates; constant / affine stopping coefficients), runs the implementation, and hands the
   recorded outputs to [check_case], which evaluates the MODEL (Model/C04_Beam.v) on the same
   configuration inside Coq and compares.

   Oracles: sqrt is looked up in a table of candidates and each candidate is verified
   (s >= 0 and |s*s - x| <= 2^-48 x); exp is looked up in a table of (argument, libm value) pairs by
   argument (|a - x| <= 2^-46 (1 + |x|)); a missing entry yields -1, which no implementation value
   matches. *)
Require Import Cherab.Common.Qx.
From Coq Require Import Qabs Qround.
Require Import Cherab.Model.C04_Beam Cherab.Model.C04_Policy Cherab.Model.C04_Float.
Open Scope Q_scope.

(* ---- stub families ---- *)
Inductive profile :=
| PUniform (c : Q)
| PLinear (c gx gy gz : Q)                 (* c + gx*x + gy*y + gz*z *)
| PStep (ax ay az thr lo hi : Q).          (* lo if ax*x + ay*y + az*z <= thr else hi *)

Definition prof (p : profile) (r : vec) : Q :=
  match p with
  | PUniform c => c
  | PLinear c gx gy gz => Qred (c + gx * vx r + gy * vy r + gz * vz r)
  | PStep ax ay az thr lo hi => if Qle_bool (ax * vx r + ay * vy r + az * vz r) thr then lo else hi
  end.

(* a step profile evaluated in floating point is decided only when the point is clear of the step *)
Definition prof_ambiguous (p : profile) (r : vec) : bool :=
  match p with
  | PStep ax ay az thr lo hi =>
      Qle_bool (Qabs (ax * vx r + ay * vy r + az * vz r - thr))
               (pow2 (-30) * (Qabs (ax * vx r) + Qabs (ay * vy r) + Qabs (az * vz r) + Qabs thr))
  | _ => false
  end.

Inductive rate :=
| RConst (c : Q)
| RAffine (c a b d : Q).                   (* c * (1 + a*energy + b*density + d*temperature) *)

Definition rate_eval (rt : rate) (e n t : Q) : Q :=
  match rt with
  | RConst c => c
  | RAffine c a b d => Qred (c * (1 + a * e + b * n + d * t))
  end.

Record stub := mkstub {
  st_charge : Q; st_dens : profile; st_temp : profile;
  st_vx : profile; st_vy : profile; st_vz : profile; st_rate : rate }.

Definition species_of (s : stub) : species :=
  mkspecies (st_charge s) (prof (st_dens s)) (prof (st_temp s))
            (fun r => mkvec (prof (st_vx s) r) (prof (st_vy s) r) (prof (st_vz s) r))
            (rate_eval (st_rate s)).

Definition stub_ambiguous (s : stub) (r : vec) : bool :=
  prof_ambiguous (st_dens s) r || prof_ambiguous (st_temp s) r ||
  prof_ambiguous (st_vx s) r || prof_ambiguous (st_vy s) r || prof_ambiguous (st_vz s) r.

(* ---- oracle tables (balanced search trees written by the harness) ---- *)
Inductive tree (A : Type) := Leaf | Node (l : tree A) (k : A) (r : tree A).
Arguments Leaf {A}.
Arguments Node {A} l k r.

Definition sqrt_ok (s x : Q) : bool :=
  Qle_bool 0 s && Qle_bool (Qabs (s * s - x)) (pow2 (-48) * x).
Fixpoint sqrt_find (t : tree Q) (x : Q) : Q :=
  match t with
  | Leaf => -1
  | Node l s r => if sqrt_ok s x then s else if Qle_bool x (s * s) then sqrt_find l x else sqrt_find r x
  end.
Definition sqrt_lookup (t : tree Q) (x : Q) : Q := sqrt_find t (Qred x).

Definition exp_key_ok (a x : Q) : bool := Qle_bool (Qabs (a - x)) (pow2 (-46) * (1 + Qabs x)).
Fixpoint exp_find (t : tree (Q * Q)) (x : Q) : Q :=
  match t with
  | Leaf => -1
  | Node l (a, v) r => if exp_key_ok a x then v else if Qle_bool x a then exp_find l x else exp_find r x
  end.
Definition exp_lookup (t : tree (Q * Q)) (x : Q) : Q := exp_find t (Qred x).

(* ---- helpers ---- *)
Fixpoint forallb2 {A B} (p : A -> B -> bool) (l1 : list A) (l2 : list B) : bool :=
  match l1, l2 with
  | [], [] => true
  | a :: t1, b :: t2 => p a b && forallb2 p t1 t2
  | _, _ => false
  end.

Definition tol_args : Q := pow2 (-40).
Definition tol_density : Q := pow2 (-36).
Definition tol_dir : Q := pow2 (-40).

Definition close3 (m i : Q * Q * Q) : bool :=
  let '(a, b, c) := m in let '(a', b', c') := i in
  close tol_args 0 a a' && close tol_args 0 b b' && close tol_args 0 c c'.

(* length/step so close to an integer that the float ceil is not determined by the exact quotient
   (an exactly integral quotient is computed exactly by the float division) *)
Definition nbeam_ambiguous (c : beam_cfg) : bool :=
  let q := b_len c / a_step c in
  let lo := inject_Z (Qfloor q) in
  negb (Qeq_bool q lo) &&
  (Qle_bool (q - lo) (pow2 (-40) * q) || Qle_bool (lo + 1 - q) (pow2 (-40) * q)).

(* in the ambiguous case the implementation's count must be one of the two neighbouring candidates;
   the rest of the comparison then uses the model's nodes for that count *)
Definition nbeam_candidate (c : beam_cfg) (n : Z) : bool :=
  let f := Qfloor (b_len c / a_step c) in
  ((n =? Z.max (1 + f) 4) || (n =? Z.max (2 + f) 4))%Z.

(* the larger of the two node values of the segment of the interpolator that contains z: raysect
   evaluates y0 + (y1 - y0) * t in double precision, so near the low end of a steep segment the
   result carries an absolute error of a few ulp of the LARGER node value *)
Fixpoint seg_max_from (z0 y0 : Q) (rest : list (Q * Q)) (z : Q) : Q :=
  match rest with
  | [] => y0
  | (z1, y1) :: t => if Qle_bool z z1 then (if Qle_bool y0 y1 then y1 else y0) else seg_max_from z1 y1 t z
  end.
Definition seg_max (nodes : list (Q * Q)) (z : Q) : Q :=
  match nodes with [] => 0 | (z0, y0) :: t => seg_max_from z0 y0 t z end.
Definition tol_interp : Q := pow2 (-46).

(* one density probe: 0 = agrees, 1 = differs, 2 = ambiguous (clamp radius within 2^-30) *)
Definition check_density (sqrtf expf : Q -> Q) (nodes : list (Q * Q)) (c : beam_cfg)
           (p : Q * Q * Q * Q) : Z :=
  let '(x, y, z, v) := p in
  if Qltb z 0 || Qltb (b_len c) z then (if Qeq_bool v 0 then 0 else 1)%Z
  else
    let sx := sigma_x sqrtf c z in
    let sy := sigma_y sqrtf c z in
    let r2 := norm_radius_sqr_of sx sy x y in
    let c2 := clamp_sigma_sqr c in
    if a_clamp c && Qle_bool (Qabs (r2 - c2)) (pow2 (-30) * c2) then 2%Z
    else
      (* = beam_density_with sqrtf expf nodes c x y z, by unfolding (z is inside [0, length] here) *)
      let m := density_core expf nodes c sx sy x y z in
      if a_clamp c && Qltb c2 r2 then (if Qeq_bool v 0 then 0 else 1)%Z
      (* m = 0 otherwise only when libm's exp underflowed to 0 in the table *)
      else if Qeq_bool m 0 then (if Qeq_bool v 0 then 0 else 1)%Z
      else
        let abs := tol_interp * seg_max nodes z * gaussian_of expf c sx sy r2 in
        if Qltb 0 m && Qle_bool 0 v && close tol_density abs m v then 0%Z else 1%Z.

(* one direction probe: the returned vector d must have unit length and be a positive multiple of
   the model's un-normalised direction; behind the source it must be exactly (0,0,1) *)
Definition check_direction (c : beam_cfg) (p : Q * Q * Q * (Q * Q * Q)) : bool :=
  let '(x, y, z, (dx, dy, dz)) := p in
  if Qle_bool z 0 then Qeq_bool dx 0 && Qeq_bool dy 0 && Qeq_bool dz 1
  else
    let raw := direction_raw c x y z in
    let lam := vx raw * dx + vy raw * dy + vz raw * dz in
    Qle_bool (Qabs (dx * dx + dy * dy + dz * dz - 1)) (pow2 (-45)) && Qltb 0 lam &&
    Qle_bool (Qabs (vx raw - lam * dx)) (tol_dir * lam) &&
    Qle_bool (Qabs (vy raw - lam * dy)) (tol_dir * lam) &&
    Qle_bool (Qabs (vz raw - lam * dz)) (tol_dir * lam).

(* SingleRayAttenuator.density called directly at an on-axis point: the recorded value is -2 when the call
   raised ValueError (outside the interpolator's domain), else the density *)
Definition check_direct (sqrtf expf : Q -> Q) (nodes : list (Q * Q)) (c : beam_cfg) (p : Q * Q * Q * Q) : bool :=
  let '(x, y, z, v) := p in
  match attenuator_density_direct sqrtf expf nodes c x y z with
  | None => Qeq_bool v (-2)
  | Some m =>
      if Qeq_bool m 0 then Qeq_bool v 0
      else Qltb 0 m && Qle_bool 0 v &&
           close tol_density (tol_interp * seg_max nodes z * gaussian_of expf c (sigma_x sqrtf c z) (sigma_y sqrtf c z) 0) m v
  end.

(* setter histories on a live Beam / SingleRayAttenuator: which calls raised ValueError (exactly) and what the
   getters return afterwards (values that were set are doubles and compare exactly up to the rounding of the
   decimal defaults and of clamp_sigma ** 2: 2^-52) *)
Definition check_sets (ops : list (field * Q)) (oks : list bool) (finals : list (field * Q)) : bool :=
  let '(st, moks) := run_sets initial ops in
  forallb2 Bool.eqb moks oks && forallb (fun fv => close (pow2 (-52)) 0 (stored st (fst fv)) (snd fv)) finals.

Definition count_eq (k : Z) (l : list Z) : Z := Z.of_nat (length (filter (Z.eqb k) l)).

(* result of one case:  code + 1000 * (number of ambiguous density probes), where code is
   0 agree | 100 whole case ambiguous (a step profile undecided in floating point at an axis node)
   9 constants | 1 number of axis nodes | 2 stopping-rate arguments | 3 stopping coefficient values
   5 an oracle table entry is missing (harness fault or a disagreement upstream)
   4 density | 6 direction | 7 source density (attenuator._source_density) | 8 SingleRayAttenuator.density called directly *)
Definition check_case (stubs : list stub) (c0 : beam_cfg) (amu : Q)
           (stab : tree Q) (etab : tree (Q * Q))
           (n_impl : Z) (src_impl : Q) (args_impl : list (Q * Q * Q)) (coef_impl : list Q)
           (adens : list (Q * Q * Q * Q)) (dens : list (Q * Q * Q * Q)) (dirs : list (Q * Q * Q * (Q * Q * Q))) : Z :=
  let c := mkcfg (b_energy c0) (b_power c0) (b_mass c0) (b_sigma c0) (b_tx c0) (b_ty c0) (b_len c0)
                 (a_step c0) (a_clamp c0) (a_clamp_sigma c0) (m_axis c0) (m_origin c0)
                 (map species_of stubs) (k_cf c0) (k_ec c0) (k_pi c0) in
  let sqrtf := sqrt_lookup stab in
  let expf := exp_lookup etab in
  if negb (close tol_args 0 (k_cf c) (2 * k_ec c / amu)) then 9%Z
  else if negb (if nbeam_ambiguous c then nbeam_candidate c n_impl else (nbeam c =? n_impl)%Z) then 1%Z
  else
    let zs := beam_z_n c n_impl in
    let pts := map (axis_point c) zs in
    if existsb (fun r => existsb (fun s => stub_ambiguous s r) stubs) pts then 100%Z
    else
      let bv := beam_velocity sqrtf c in
      let sp := b_plasma c in
      if Qltb (speed sqrtf c) 0 || Qltb (sqrtf (norm2 (m_axis c))) 0 then 5%Z
      else
      let margs := flat_map (fun r => let d := density_sum sp r in
                                      map (fun s => stopping_args (k_cf c) bv d s r) sp) pts in
      if negb (forallb2 close3 margs args_impl) then 2%Z
      else
        let mcoef := flat_map (fun r => let d := density_sum sp r in
                                        map (fun s => let '(e, n, t) := stopping_args (k_cf c) bv d s r in
                                                      sp_coef s e n t) sp) pts in
        if negb (forallb2 (close tol_args 0) mcoef coef_impl) then 3%Z
        else if negb (close tol_args 0 (source_density sqrtf c) src_impl) then 7%Z
        else
          let nodes := line_nodes_n sqrtf expf c n_impl in
          if existsb (fun zy => Qltb (snd zy) 0) nodes then 5%Z
          else
            let dres := map (check_density sqrtf expf nodes c) dens in
            if negb (forallb (check_direct sqrtf expf nodes c) adens) then 8%Z
            else if negb (count_eq 1 dres =? 0)%Z then 4%Z
            else if negb (forallb (check_direction c) dirs) then 6%Z
            else (1000 * count_eq 2 dres)%Z.

(* ---- bit-exact replay of the attenuation loop (Model/C04_Float.v with rn = round53) ----
   terms: per node, per species (density, charge, coefficient value) as the implementation saw them;
   etab: per node (double argument of np.exp, libm's value); ys: the interpolator evaluated at the first n-1 knots.
   result 0 = every double agrees bit for bit | 1 speed is not the correctly rounded root | 2 an argument of np.exp differs
   | 3 a node value differs | 4 shape *)
Definition rn53 : Q -> Q := fl_round53.

Fixpoint check_nodes_from (n0 speed : Q) (Ts : list Q) (etab : list (Q * Q)) (ys : list Q) : Z :=
  match Ts, etab, ys with
  | _, _, [] => 0%Z
  | T :: Ts', (a, v) :: etab', y :: ys' =>
      if negb (Qeq_bool (fl_exp_arg rn53 T speed) a) then 2%Z
      else if negb (Qeq_bool (fl_line rn53 n0 v) y) then 3%Z
      else check_nodes_from n0 speed Ts' etab' ys'
  | _, _, _ => 4%Z
  end.

Definition check_nodes_exact (L : Q) (n : Z) (P E m ec cf speed : Q) (terms : list (list (Q * Q * Q)))
           (etab : list (Q * Q)) (ys : list Q) : Z :=
  if negb (sqrt_rn_ok speed (rn53 (E * cf))) then 1%Z
  else if negb ((Z.of_nat (length terms) =? n)%Z && (Z.of_nat (length etab) =? n)%Z) then 4%Z
  else
    let zs := fl_nodes rn53 L n in
    let ss := map (fl_stopping rn53) terms in
    check_nodes_from (fl_source rn53 P E m ec speed) speed (fl_cumtrapz rn53 (combine zs ss)) etab ys.
