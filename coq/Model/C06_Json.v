(* Property C06 -- the JSON layer of the repository files at the token level (definitions only).

   json.dump(content, f, indent=2, sort_keys=True) writes, and json.load reads back, a nested object
   whose leaves are lists (of lists ...) of numbers or single numbers.  Here: the value tree [jv], the token
   sequence json.dump produces for it ([print]; white space and indentation are not tokens; the members of an object
   are printed in the order given - the caller lists them in sorted order, which the tie checks on the files) and
   the recursive-descent reader ([parse]).  A number is one opaque token identified by the bits of the
   float64 it denotes: that repr(float) / float(text) round-trips every float64 (including nan, inf, -0.0)
   is CPython's and is exercised bit for bit by the harness, not modelled. *)
From Coq Require Import ZArith List Bool String.
Import ListNotations.

Inductive jv :=
| JNum (n : positive)
| JArr (l : list jv)
| JObj (l : list (string * jv)).

Inductive tok := TLBrace | TRBrace | TLBrack | TRBrack | TComma | TColon | TStr (s : string) | TNum (n : positive).

(* x1 , x2 , ... *)
Definition join_comma (ls : list (list tok)) : list tok :=
  match ls with [] => [] | x :: t => x ++ flat_map (fun y => TComma :: y) t end.

Fixpoint print (v : jv) : list tok :=
  match v with
  | JNum n => [TNum n]
  | JArr l => TLBrack :: join_comma (map print l) ++ [TRBrack]
  | JObj l => TLBrace :: join_comma (map (fun kv : string * jv => TStr (fst kv) :: TColon :: print (snd kv)) l) ++ [TRBrace]
  end.

(* the reader, with fuel (every call consumes one unit; [parse] gives it more than any input can use) *)
Fixpoint pval (f : nat) (ts : list tok) : option (jv * list tok) :=
  match f with
  | O => None
  | S f' =>
      match ts with
      | TNum n :: r => Some (JNum n, r)
      | TLBrack :: TRBrack :: r => Some (JArr [], r)
      | TLBrack :: r =>
          match pval f' r with
          | Some (x, r1) => match pelems f' r1 with Some (xs, r2) => Some (JArr (x :: xs), r2) | None => None end
          | None => None
          end
      | TLBrace :: TRBrace :: r => Some (JObj [], r)
      | TLBrace :: TStr k :: TColon :: r =>
          match pval f' r with
          | Some (x, r1) => match pmems f' r1 with Some (ms, r2) => Some (JObj ((k, x) :: ms), r2) | None => None end
          | None => None
          end
      | _ => None
      end
  end
with pelems (f : nat) (ts : list tok) : option (list jv * list tok) :=
  match f with
  | O => None
  | S f' =>
      match ts with
      | TRBrack :: r => Some ([], r)
      | TComma :: r =>
          match pval f' r with
          | Some (x, r1) => match pelems f' r1 with Some (xs, r2) => Some (x :: xs, r2) | None => None end
          | None => None
          end
      | _ => None
      end
  end
with pmems (f : nat) (ts : list tok) : option (list (string * jv) * list tok) :=
  match f with
  | O => None
  | S f' =>
      match ts with
      | TRBrace :: r => Some ([], r)
      | TComma :: TStr k :: TColon :: r =>
          match pval f' r with
          | Some (x, r1) => match pmems f' r1 with Some (ms, r2) => Some ((k, x) :: ms, r2) | None => None end
          | None => None
          end
      | _ => None
      end
  end.

(* json.load: the whole text is one value (trailing tokens are an error, "Extra data") *)
Definition parse (ts : list tok) : option jv :=
  match pval (S (List.length ts)) ts with Some (v, []) => Some v | _ => None end.

(* ---- executable comparators for the tie ---- *)
Definition tok_eqb (a b : tok) : bool :=
  match a, b with
  | TLBrace, TLBrace | TRBrace, TRBrace | TLBrack, TLBrack | TRBrack, TRBrack | TComma, TComma | TColon, TColon => true
  | TStr s, TStr s' => String.eqb s s'
  | TNum n, TNum n' => Pos.eqb n n'
  | _, _ => false
  end.
Fixpoint toks_eqb (a b : list tok) : bool :=
  match a, b with
  | [], [] => true
  | x :: a', y :: b' => tok_eqb x y && toks_eqb a' b'
  | _, _ => false
  end.
Fixpoint jv_eqb (a b : jv) : bool :=
  match a, b with
  | JNum n, JNum n' => Pos.eqb n n'
  | JArr l, JArr l' =>
      (fix go (l l' : list jv) : bool :=
         match l, l' with [] , [] => true | x :: t, y :: t' => jv_eqb x y && go t t' | _, _ => false end) l l'
  | JObj l, JObj l' =>
      (fix go (l l' : list (string * jv)) : bool :=
         match l, l' with
         | [], [] => true
         | (k, x) :: t, (k', y) :: t' => String.eqb k k' && jv_eqb x y && go t t'
         | _, _ => false
         end) l l'
  | _, _ => false
  end.
(* keys of an object in strictly increasing order (what sort_keys=True produces for str keys) *)
Fixpoint str_ltb (a b : string) : bool :=
  match a, b with
  | EmptyString, EmptyString => false
  | EmptyString, String _ _ => true
  | String _ _, EmptyString => false
  | String x a', String y b' =>
      let nx := Ascii.N_of_ascii x in let ny := Ascii.N_of_ascii y in
      if N.ltb nx ny then true else if N.ltb ny nx then false else str_ltb a' b'
  end.

(* one file of the tie: the value json.load returned ([loaded], numbers replaced by ids), the value the writer was given
   ([written]), the tokens of the file text.  0 = all agree; 1 the model printer differs from the file; 2 the model
   reader differs from json.load; 3 what was loaded is not what was written *)
Definition check_file (written loaded : jv) (file_tokens : list tok) : Z :=
  if negb (toks_eqb (print written) file_tokens) then 1%Z
  else match parse file_tokens with
       | Some v => if jv_eqb v loaded then (if jv_eqb loaded written then 0%Z else 3%Z) else 2%Z
       | None => 2%Z
       end.
