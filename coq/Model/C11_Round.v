(* A model of IEEE-754 binary64 round-to-nearest-even on exact rationals (definitions only), used to replay
   EXACTLY the one floating-point operation that decides the stopping rule of sart.pyx (lines 153-155 / 298-300):
       np.abs(convergence[k] - convergence[k-1]) < conv_tol
   The two convergence values are doubles, their difference is rounded once, abs and < are exact.
   Overflow is not modelled (the difference of two finite doubles that the check feeds in is finite);
   gradual underflow is (quantum 2^-1074 below 2^-1022). *)
Require Import Cherab.Common.Qx.
From Coq Require Import Qabs Qround.
Open Scope Q_scope.

(* floor(log2 |q|) for q <> 0 *)
Definition ilog2 (q : Q) : Z :=
  let e0 := (Z.log2 (Z.abs (Qnum q)) - Z.log2 (Zpos (Qden q)))%Z in
  if Qle_bool (pow2 e0) (Qabs q) then e0 else (e0 - 1)%Z.

(* nearest integer, ties to even *)
Definition round_int_even (r : Q) : Z :=
  let f := Qfloor r in
  let rem := r - inject_Z f in
  if Qle_bool rem (1 # 2)
  then (if Qeq_bool rem (1 # 2) then (if Z.even f then f else f + 1)%Z else f)
  else (f + 1)%Z.

Definition quantum (q : Q) : Z := Z.max (ilog2 q - 52) (-1074).

Definition round53 (q : Q) : Q :=
  if Qeq_bool q 0 then 0
  else let e := quantum q in Qred (inject_Z (round_int_even (q / pow2 e)) * pow2 e).

(* ---- the stopping rule replayed on a convergence list with a given rounding of the subtraction ---- *)
Section Replay.
  Variable rnd : Q -> Q.

  (* rounded |c_k - c_(k-1)| for k = 1 .. n-1 *)
  Fixpoint abs_diffs (prev : Q) (cs : list Q) : list Q :=
    match cs with [] => [] | c :: t => rnd (Qabs (c - prev)) :: abs_diffs c t end.

  (* index (counted from 1) of the first difference below the tolerance *)
  Fixpoint first_below (tol : Q) (k : nat) (ds : list Q) : option nat :=
    match ds with
    | [] => None
    | d :: t => if Qle_bool tol d then first_below tol (S k) t else Some k
    end.

  (* the list [cs] is what the documented rule produces: it ends at the first k >= 1 whose difference is below
     the tolerance, and otherwise has max_iterations entries *)
  Definition stop_replay (maxit : Z) (tol : Q) (cs : list Q) : bool :=
    match cs with
    | [] => Nat.eqb (Z.to_nat maxit) 0
    | c0 :: t =>
        match first_below tol 1 (abs_diffs c0 t) with
        | Some k => Nat.eqb (length cs) (S k)
        | None => Nat.eqb (length cs) (Z.to_nat maxit)
        end
    end.
End Replay.

(* exact arithmetic: no rounding *)
Definition no_rounding (q : Q) : Q := q.

Definition forallb2q (p : Q -> Q -> bool) :=
  fix go (l1 l2 : list Q) : bool :=
    match l1, l2 with [], [] => true | a :: t1, b :: t2 => p a b && go t1 t2 | _, _ => false end.

(* [ds]: the differences as the machine computed them (abs(cs[k] - cs[k-1]) in double arithmetic): the rounding
   model must reproduce them exactly, and the replay with that rounding must accept the list.  0 = agrees. *)
Definition check_stop_exact (maxit : Z) (tol : Q) (cs ds : list Q) : Z :=
  match cs with
  | [] => if Nat.eqb (Z.to_nat maxit) 0 then 0%Z else 1%Z
  | c0 :: t =>
      if forallb2q Qeq_bool (abs_diffs round53 c0 t) ds && stop_replay round53 maxit tol cs then 0%Z else 1%Z
  end.
