(* C07 -- raysect's Interpolator2DArray / Interpolator3DArray with 'cubic' interpolation, inside the range
   of the knots.  Definitions only.

   Source mirrored (raysect 0.8.1): function2d/interpolate/interpolator2darray.pyx and
   function3d/interpolate/interpolator3darray.pyx:
     evaluate:  index = find_index(axis, p) per axis; to_cell_index (the last knot belongs to the last cell);
     _Interpolator2DCubic.evaluate: n = (p - x[i]) / (x[i+1] - x[i]) per axis; coefficients from the values and the
       derivative estimates at the 4 (8) corners of the cell by calc_coefficients_2d (_3d); evaluate_cubic_2d (_3d).
   The coefficient formulas and the polynomial are Model/C07_TensorGen.v, generated from the source text.
   The derivative ESTIMATES (_ArrayDerivative2D / 3D, with their re-normalisation flags) are not modelled:
   they are arbitrary functions of the knot index and the flags -- what is proved holds whatever they return. *)
Require Import Cherab.Common.Qx Cherab.Model.C07_Cubic Cherab.Model.C07_TensorGen.
Open Scope Q_scope.

(* to_cell_index (find_index ...) for an argument inside [k 0, k (n-1)] *)
Definition cell_of (n : nat) (k : nat -> Q) (x : Q) : nat :=
  if Qeq_bool x (k (n - 1)%nat) then (n - 2)%nat else find_index n k x.
Definition ncoord (k : nat -> Q) (i : nat) (x : Q) : Q := (x - k i) / (k (S i) - k i).
Definition upper (a : nat) : bool := Nat.eqb a 1.

Record der2 := mkder2 {
  e_dx : nat -> nat -> bool -> Q;                 (* evaluate_df_dx(ix, iy, rescale_norm_x) *)
  e_dy : nat -> nat -> bool -> Q;                 (* evaluate_df_dy(ix, iy, rescale_norm_y) *)
  e_dxy : nat -> nat -> bool -> bool -> Q         (* evaluate_d2f_dxdy(ix, iy, rescale_norm_x, rescale_norm_y) *)
}.

Definition cubic2 (D : der2) (nx ny : nat) (kx ky : nat -> Q) (v : nat -> nat -> Q) (x y : Q) : Q :=
  let ix := cell_of nx kx x in
  let iy := cell_of ny ky y in
  evalc2 (coef2 (fun a b => v (ix + a)%nat (iy + b)%nat)
                (fun a b => e_dx D (ix + a)%nat (iy + b)%nat (upper a))
                (fun a b => e_dy D (ix + a)%nat (iy + b)%nat (upper b))
                (fun a b => e_dxy D (ix + a)%nat (iy + b)%nat (upper a) (upper b)))
         (ncoord kx ix x) (ncoord ky iy y).

Record der3 := mkder3 {
  g_dx : nat -> nat -> nat -> bool -> Q;
  g_dy : nat -> nat -> nat -> bool -> Q;
  g_dz : nat -> nat -> nat -> bool -> Q;
  g_dxy : nat -> nat -> nat -> bool -> bool -> Q;
  g_dxz : nat -> nat -> nat -> bool -> bool -> Q;
  g_dyz : nat -> nat -> nat -> bool -> bool -> Q;
  g_dxyz : nat -> nat -> nat -> bool -> bool -> bool -> Q
}.

Definition cubic3 (D : der3) (nx ny nz : nat) (kx ky kz : nat -> Q) (v : nat -> nat -> nat -> Q) (x y z : Q) : Q :=
  let ix := cell_of nx kx x in
  let iy := cell_of ny ky y in
  let iz := cell_of nz kz z in
  evalc3 (coef3 (fun a b c => v (ix + a)%nat (iy + b)%nat (iz + c)%nat)
                (fun a b c => g_dx D (ix + a)%nat (iy + b)%nat (iz + c)%nat (upper a))
                (fun a b c => g_dy D (ix + a)%nat (iy + b)%nat (iz + c)%nat (upper b))
                (fun a b c => g_dz D (ix + a)%nat (iy + b)%nat (iz + c)%nat (upper c))
                (fun a b c => g_dxy D (ix + a)%nat (iy + b)%nat (iz + c)%nat (upper a) (upper b))
                (fun a b c => g_dxz D (ix + a)%nat (iy + b)%nat (iz + c)%nat (upper a) (upper c))
                (fun a b c => g_dyz D (ix + a)%nat (iy + b)%nat (iz + c)%nat (upper b) (upper c))
                (fun a b c => g_dxyz D (ix + a)%nat (iy + b)%nat (iz + c)%nat (upper a) (upper b) (upper c)))
         (ncoord kx ix x) (ncoord ky iy y) (ncoord kz iz z).
