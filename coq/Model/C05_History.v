(* Model of the state that BeamCXLine / BeamEmissionLine keep between calls, and of the public mutators
   that change what their formulas read (definitions only; proofs in Proofs/C05_History.v).

     cherab/core/plasma/node.pyx   Composition.add / set / clear (a dict keyed by (element, charge):
                                   a replaced entry keeps its position, a new one is appended)
     charge_exchange.pyx           _change (cache := None), _populate_cache on first use
     beam_emission.pyx             _change, _populate_cache

   A Species object is immutable: its key and a function of the point.  The models cache the Species
   objects, the line and the provider's rate objects; ion density, Z_eff, B, beam energy, beam density
   are read from the live plasma / beam at every call.  Whether a mutator reaches the models' _change is
   NOT assumed here: it is a table [tbl : kind -> (bool * bool)] (does the BeamCXLine cache get cleared,
   does the BeamEmissionLine cache get cleared) which the harness obtains on every run by probing the
   running implementation (coq/Gen/C05/Tie.v). *)
Require Import Cherab.Common.Qx.
Require Import Cherab.Model.C05_BeamModels.
Open Scope Q_scope.

Section History.
  Variable P : Type.                       (* points of plasma space *)
  Variable sqrt : Q -> Q.
  Variable K : consts.

  Record sobj := mkSobj { o_el : Z; o_ch : Z; o_at : P -> Q * Q * vec }.
  Definition sample (p : P) (o : sobj) : species :=
    match o_at o p with (n, t, v) => mkSpecies (o_el o) (o_ch o) n t v end.
  Definition same_key (a b : sobj) : bool := (o_el a =? o_el b)%Z && (o_ch a =? o_ch b)%Z.

  (* Composition.add: self._species[(element, charge)] = species *)
  Fixpoint comp_add (o : sobj) (l : list sobj) : list sobj :=
    match l with
    | [] => [o]
    | x :: t => if same_key x o then o :: t else x :: comp_add o t
    end.
  (* Composition.set: reset, then insert every item in order (a later duplicate replaces an earlier one) *)
  Definition comp_set (l : list sobj) : list sobj := fold_left (fun acc o => comp_add o acc) l [].

  (* the atomic data provider: CX rates with their metastable label, population coefficient and beam
     emission coefficient for every (metastable, element, charge) / (element, charge) *)
  Record provider := mkProvider {
    pv_rates : list (Z * rate5);
    pv_pop : Z -> Z -> Z -> rate3;
    pv_pec : Z -> Z -> rate3 }.

  Record config := mkConfig {
    cf_objs : list sobj;        (* plasma.composition, in iteration order *)
    cf_bfield : P -> vec;       (* plasma.b_field *)
    cf_lel : Z; cf_lch : Z;     (* BeamCXLine.line: element, charge *)
    cf_prov : provider;         (* beam.atomic_data *)
    cf_len : Q; cf_att : P -> Q; cf_energy : Q   (* beam.length, attenuator density (a point carries the beam-space
                                               position too), beam.energy *) }.

  Inductive mutation :=
  | MAdd (o : sobj)                   (* plasma.composition.add(o) *)
  | MSet (l : list sobj)              (* plasma.composition = l / composition.set(l) *)
  | MClear                            (* plasma.composition.clear() *)
  | MLine (el ch : Z)                 (* model.line = Line(el, ch, ...) *)
  | MProvider (pv : provider)         (* beam.atomic_data = pv *)
  | MBfield (b : P -> vec)            (* plasma.b_field = b *)
  | MBeam (len : Q) (att : P -> Q) (energy : Q).   (* beam.length / attenuator / beam.energy *)

  Definition apply_mut (m : mutation) (c : config) : config :=
    match m with
    | MAdd o => mkConfig (comp_add o (cf_objs c)) (cf_bfield c) (cf_lel c) (cf_lch c) (cf_prov c) (cf_len c) (cf_att c) (cf_energy c)
    | MSet l => mkConfig (comp_set l) (cf_bfield c) (cf_lel c) (cf_lch c) (cf_prov c) (cf_len c) (cf_att c) (cf_energy c)
    | MClear => mkConfig [] (cf_bfield c) (cf_lel c) (cf_lch c) (cf_prov c) (cf_len c) (cf_att c) (cf_energy c)
    | MLine el ch => mkConfig (cf_objs c) (cf_bfield c) el ch (cf_prov c) (cf_len c) (cf_att c) (cf_energy c)
    | MProvider pv => mkConfig (cf_objs c) (cf_bfield c) (cf_lel c) (cf_lch c) pv (cf_len c) (cf_att c) (cf_energy c)
    | MBfield b => mkConfig (cf_objs c) b (cf_lel c) (cf_lch c) (cf_prov c) (cf_len c) (cf_att c) (cf_energy c)
    | MBeam l a e => mkConfig (cf_objs c) (cf_bfield c) (cf_lel c) (cf_lch c) (cf_prov c) l a e
    end.

  (* the kind of a mutation, as the probe distinguishes them: adding a species whose key is new (0) and
     replacing an existing one (1) are different routes through Composition.add *)
  Definition kind_of (c : config) (m : mutation) : Z :=
    match m with
    | MAdd o => if existsb (fun x => same_key x o) (cf_objs c) then 1 else 0
    | MSet _ => 2 | MClear => 3 | MLine _ _ => 4 | MProvider _ => 5 | MBfield _ => 6 | MBeam _ _ _ => 7
    end%Z.
  (* the kinds after which the cached data differ from what _populate_cache would build now *)
  Definition cache_kinds : list Z := [0; 1; 2; 3; 4; 5]%Z.
  Definition table_ok (tbl : Z -> bool * bool) : bool :=
    forallb (fun k => fst (tbl k) && snd (tbl k)) cache_kinds.

  (* what _populate_cache reads *)
  Record snap := mkSnap { sn_objs : list sobj; sn_lel : Z; sn_lch : Z; sn_prov : provider }.
  Definition snapshot_of (c : config) : snap := mkSnap (cf_objs c) (cf_lel c) (cf_lch c) (cf_prov c).

  (* rates as _populate_cache assembles them: one population coefficient per cached species *)
  Definition rates_of (s : snap) : list cxrate :=
    map (fun mf => (fst mf, snd mf, map (fun o => pv_pop (sn_prov s) (fst mf) (o_el o) (o_ch o)) (sn_objs s)))
        (pv_rates (sn_prov s)).
  Definition pecs_of (s : snap) : list rate3 := map (fun o => pv_pec (sn_prov s) (o_el o) (o_ch o)) (sn_objs s).

  (* one call of emission() with cache [s] on the live configuration [c] *)
  Definition eval_cx (s : snap) (c : config) (p : P) (beam_z : Q) (dir : vec) : outcome :=
    cx_emission_gen sqrt K (map (sample p) (sn_objs s)) (map (sample p) (cf_objs c)) (cf_bfield c p)
                    (sn_lel s) (sn_lch s) (rates_of s) (cf_len c) beam_z (cf_att c p) dir (cf_energy c).
  Definition eval_bes (s : snap) (c : config) (p : P) (beam_z : Q) (dir : vec) : outcome :=
    bes_emission sqrt K (map (sample p) (sn_objs s)) (pecs_of s) (cf_len c) beam_z (cf_att c p) dir (cf_energy c).

  (* the formulas of the property on the current configuration (a freshly built model) *)
  Definition fresh_cx (c : config) := eval_cx (snapshot_of c) c.
  Definition fresh_bes (c : config) := eval_bes (snapshot_of c) c.

  Inductive event :=
  | Mutate (m : mutation)
  | ObserveCX (p : P) (beam_z : Q) (dir : vec)
  | ObserveBES (p : P) (beam_z : Q) (dir : vec).

  (* live objects: configuration, cache of the BeamCXLine, cache of the BeamEmissionLine *)
  Record state := mkState { st_cfg : config; st_cx : option snap; st_bes : option snap }.
  Definition get_cache (o : option snap) (c : config) : snap :=
    match o with Some s => s | None => snapshot_of c end.

  Fixpoint run_live (tbl : Z -> bool * bool) (evs : list event) (st : state) : list outcome :=
    match evs with
    | [] => []
    | Mutate m :: t =>
        let k := kind_of (st_cfg st) m in
        run_live tbl t (mkState (apply_mut m (st_cfg st))
                                (if fst (tbl k) then None else st_cx st)
                                (if snd (tbl k) then None else st_bes st))
    | ObserveCX p z d :: t =>
        let s := get_cache (st_cx st) (st_cfg st) in
        eval_cx s (st_cfg st) p z d :: run_live tbl t (mkState (st_cfg st) (Some s) (st_bes st))
    | ObserveBES p z d :: t =>
        let s := get_cache (st_bes st) (st_cfg st) in
        eval_bes s (st_cfg st) p z d :: run_live tbl t (mkState (st_cfg st) (st_cx st) (Some s))
    end.

  Fixpoint run_fresh (evs : list event) (c : config) : list outcome :=
    match evs with
    | [] => []
    | Mutate m :: t => run_fresh t (apply_mut m c)
    | ObserveCX p z d :: t => fresh_cx c p z d :: run_fresh t c
    | ObserveBES p z d :: t => fresh_bes c p z d :: run_fresh t c
    end.
End History.
