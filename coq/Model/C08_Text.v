(* C08 -- text layer of the ADF parser models: Python string operations, int()/float() on decimal
   text as exact rationals, and a small backtracking regular-expression matcher with the semantics
   of Python's `re` for the constructs the parsers use.  Definitions only. *)
Require Import Cherab.Common.Qx.
From Coq Require Import Ascii String.
Open Scope Z_scope.

Definition str := list ascii.
Definition S_ (s : string) : str := list_ascii_of_string s.

Definition nl : ascii := ascii_of_nat 10.
Definition tab : ascii := ascii_of_nat 9.
Definition sp : ascii := " "%char.

Definition aeqb (a b : ascii) : bool := Ascii.eqb a b.
Fixpoint streqb (a b : str) : bool :=
  match a, b with
  | [], [] => true
  | x :: a', y :: b' => aeqb x y && streqb a' b'
  | _, _ => false
  end.

(* str.isspace() for ASCII *)
Definition is_ws (c : ascii) : bool :=
  let n := nat_of_ascii c in
  (Nat.eqb n 32 || (Nat.leb 9 n && Nat.leb n 13) || (Nat.leb 28 n && Nat.leb n 31))%bool.
Definition is_digit (c : ascii) : bool :=
  let n := nat_of_ascii c in (Nat.leb 48 n && Nat.leb n 57)%bool.
Definition lower (c : ascii) : ascii :=
  let n := nat_of_ascii c in if (Nat.leb 65 n && Nat.leb n 90)%bool then ascii_of_nat (n + 32) else c.
Definition upper (c : ascii) : ascii :=
  let n := nat_of_ascii c in if (Nat.leb 97 n && Nat.leb n 122)%bool then ascii_of_nat (n - 32) else c.
Definition lower_str (s : str) : str := map lower s.

(* s[a:b] for 0 <= a, b (Python slices truncate at the end of the string, as firstn/skipn do) *)
Definition slice (a b : nat) (s : str) : str := firstn (b - a) (skipn a s).
(* s[a:-1] *)
Definition slice_to_last (a : nat) (s : str) : str := firstn (List.length s - 1 - a) (skipn a s).

Fixpoint lstrip (s : str) : str :=
  match s with c :: t => if is_ws c then lstrip t else s | [] => [] end.
Definition rstrip (s : str) : str := rev (lstrip (rev s)).
Definition strip (s : str) : str := rstrip (lstrip s).

Fixpoint strip_char_l (x : ascii) (s : str) : str :=
  match s with c :: t => if aeqb c x then strip_char_l x t else s | [] => [] end.
Definition strip_char (x : ascii) (s : str) : str := rev (strip_char_l x (rev (strip_char_l x s))).

(* str.replace(x, y) for single characters *)
Definition replace_char (x y : ascii) (s : str) : str := map (fun c => if aeqb c x then y else c) s.

(* file.readlines(): every line keeps its newline *)
Fixpoint lines_aux (cur : str) (s : str) : list str :=
  match s with
  | [] => match cur with [] => [] | _ => [rev cur] end
  | c :: t => if aeqb c nl then rev (c :: cur) :: lines_aux [] t else lines_aux (c :: cur) t
  end.
Definition lines (s : str) : list str := lines_aux [] s.

(* str.split(): maximal runs of non-blank characters *)
Fixpoint split_ws_aux (cur : str) (s : str) : list str :=
  match s with
  | [] => match cur with [] => [] | _ => [rev cur] end
  | c :: t => if is_ws c then match cur with [] => split_ws_aux [] t | _ => rev cur :: split_ws_aux [] t end
              else split_ws_aux (c :: cur) t
  end.
Definition split_ws (s : str) : list str := split_ws_aux [] s.

(* re.split(r"\s{2,}", s): cut at every maximal run of >= 2 blanks (single blanks stay inside a piece) *)
Fixpoint span_ws (s : str) : str * str :=
  match s with c :: t => if is_ws c then let '(a, b) := span_ws t in (c :: a, b) else ([], s) | [] => ([], []) end.
Fixpoint split_2ws_aux (fuel : nat) (cur : str) (s : str) : list str :=
  match fuel with O => [rev cur] | S f =>
    match s with
    | [] => [rev cur]
    | c :: t => if is_ws c then
                  let '(run, rest) := span_ws s in
                  if Nat.leb 2 (List.length run) then rev cur :: split_2ws_aux f [] rest
                  else split_2ws_aux f (c :: cur) t
                else split_2ws_aux f (c :: cur) t
    end
  end.
Definition split_2ws (s : str) : list str := split_2ws_aux (Datatypes.S (List.length s)) [] s.

Fixpoint is_infix_at (p s : str) : bool :=
  match p, s with [], _ => true | x :: p', y :: s' => aeqb x y && is_infix_at p' s' | _, [] => false end.
Fixpoint contains (p s : str) : bool :=
  is_infix_at p s || match s with [] => false | _ :: t => contains p t end.

(* ---- numbers ------------------------------------------------------------------------------- *)
Definition digit_val (c : ascii) : Z := Z.of_nat (nat_of_ascii c) - 48.
Fixpoint digits_val (acc : Z) (s : str) : option Z :=
  match s with
  | [] => Some acc
  | c :: t => if is_digit c then digits_val (10 * acc + digit_val c) t else None
  end.
Definition all_digits (s : str) : option Z := match s with [] => None | _ => digits_val 0 s end.

Definition split_sign (s : str) : bool * str :=
  match s with
  | c :: t => if aeqb c "-"%char then (true, t) else if aeqb c "+"%char then (false, t) else (false, s)
  | [] => (false, [])
  end.

(* int(s): blanks stripped, optional sign, one or more digits *)
Definition parse_int (s : str) : option Z :=
  let '(neg, d) := split_sign (strip s) in
  match all_digits d with Some v => Some (if neg then - v else v) | None => None end.

Fixpoint span_digits (s : str) : str * str :=
  match s with c :: t => if is_digit c then let '(a, b) := span_digits t in (c :: a, b) else ([], s) | [] => ([], []) end.

(* float(s) on decimal text, as the exact rational it denotes: [sign] digits [. digits] [(e|E) [sign] digits]
   (at least one mantissa digit).  inf/nan/underscores are not modelled (None). *)
Definition parse_float (s : str) : option Q :=
  let '(neg, r) := split_sign (strip s) in
  let '(ip, r1) := span_digits r in
  let '(fp, r2) := match r1 with
                   | c :: t => if aeqb c "."%char then span_digits t else ([], r1)
                   | [] => ([], [])
                   end in
  match ip ++ fp with
  | [] => None
  | md =>
    match digits_val 0 md with
    | None => None
    | Some m =>
      let ex := match r2 with
                | [] => Some 0
                | c :: t => if aeqb (lower c) "e"%char then
                              let '(eneg, ed) := split_sign t in
                              match all_digits ed with Some e => Some (if eneg then - e else e) | None => None end
                            else None
                end in
      match ex with
      | None => None
      | Some e => let v := (inject_Z m * Qpower (10 # 1) (e - Z.of_nat (List.length fp)))%Q in
                  Some (Qred (if neg then Qopp v else v))
      end
    end
  end.

(* ---- regular expressions (Python `re` subset: literals, classes, ., greedy bounded repetition,
   groups, ^, $; optional IGNORECASE).  Backtracking matcher in continuation-passing style. --------- *)
Inductive citem := CLit (a : ascii) | CRange (lo hi : ascii) | CSpace | CDigit.
Inductive re :=
| RLit (a : ascii)
| RAny
| RSet (neg : bool) (items : list citem)
| RSeq (l : list re)
| RRep (mn : nat) (mx : option nat) (r : re)
| RGroup (idx : nat) (r : re)
| RBol
| REol.

Definition item_match (c : ascii) (it : citem) : bool :=
  match it with
  | CLit a => aeqb a c
  | CRange lo hi => (Nat.leb (nat_of_ascii lo) (nat_of_ascii c) && Nat.leb (nat_of_ascii c) (nat_of_ascii hi))%bool
  | CSpace => let n := nat_of_ascii c in (Nat.eqb n 32 || (Nat.leb 9 n && Nat.leb n 13))%bool
  | CDigit => is_digit c
  end.
Definition item_match_ci (ci : bool) (c : ascii) (it : citem) : bool :=
  if ci then (item_match (lower c) it || item_match (upper c) it)%bool else item_match c it.
Definition lit_match (ci : bool) (a c : ascii) : bool :=
  if ci then aeqb (lower a) (lower c) else aeqb a c.

Definition caps := list (nat * str).
Definition set_cap (i : nat) (v : str) (c : caps) : caps := (i, v) :: filter (fun p => negb (Nat.eqb (fst p) i)) c.
Fixpoint get_cap (i : nat) (c : caps) : str :=
  match c with [] => [] | (j, v) :: t => if Nat.eqb i j then v else get_cap i t end.

Section Matcher.
  Variable R : Type.
  Variable ci : bool.
  Definition kont := nat -> str -> caps -> option R.

  (* pos: number of characters consumed so far; s: the rest *)
  Fixpoint m (r : re) (pos : nat) (s : str) (cp : caps) (k : kont) {struct r} : option R :=
    match r with
    | RLit a => match s with c :: t => if lit_match ci a c then k (Datatypes.S pos) t cp else None | [] => None end
    | RAny => match s with c :: t => if aeqb c nl then None else k (Datatypes.S pos) t cp | [] => None end
    | RSet neg items =>
        match s with
        | c :: t => if xorb neg (existsb (item_match_ci ci c) items) then k (Datatypes.S pos) t cp else None
        | [] => None
        end
    | RSeq l =>
        (fix seq (l : list re) (pos : nat) (s : str) (cp : caps) (k : kont) {struct l} : option R :=
           match l with
           | [] => k pos s cp
           | r1 :: l' => m r1 pos s cp (fun p' s' c' => seq l' p' s' c' k)
           end) l pos s cp k
    | RRep mn mx r1 =>
        (fix rep (fuel : nat) (cnt : nat) (pos : nat) (s : str) (cp : caps) {struct fuel} : option R :=
           match fuel with
           | O => None
           | Datatypes.S f =>
               let more := match mx with Some b => Nat.ltb cnt b | None => true end in
               let tried := if more then
                              m r1 pos s cp (fun p' s' c' => if Nat.eqb p' pos then None else rep f (Datatypes.S cnt) p' s' c')
                            else None in
               match tried with
               | Some x => Some x
               | None => if Nat.leb mn cnt then k pos s cp else None
               end
           end) (Datatypes.S (List.length s)) O pos s cp
    | RGroup i r1 =>
        m r1 pos s cp (fun p' s' c' => k p' s' (set_cap i (firstn (p' - pos) s) c'))
    | RBol => if Nat.eqb pos 0 then k pos s cp else None
    | REol => match s with
              | [] => k pos s cp
              | [c] => if aeqb c nl then k pos s cp else None
              | _ => None
              end
    end.
End Matcher.

(* re.match(r, s): anchored at the start; the captures of a successful match *)
Definition re_match (ci : bool) (r : re) (s : str) : option caps :=
  m caps ci r 0 s [] (fun _ _ c => Some c).
Definition re_matches (ci : bool) (r : re) (s : str) : bool :=
  match re_match ci r s with Some _ => true | None => false end.

(* re.search(r, s).group(): the text of the leftmost match (r must not start with ^) *)
Fixpoint re_search_aux (ci : bool) (r : re) (s : str) (fuel : nat) : option str :=
  match m str ci r 1 s [] (fun p' _ _ => Some (firstn (p' - 1) s)) with
  | Some g => Some g
  | None => match fuel, s with Datatypes.S f, _ :: t => re_search_aux ci r t f | _, _ => None end
  end.
Definition re_search (ci : bool) (r : re) (s : str) : option str := re_search_aux ci r s (List.length s).
