(* Executable comparator used by the correspondence check of C06 (definitions only).
   One case = one history: the calls, the keys that are read back after every call (raw arguments
   of the get_* functions, with the repository they are read from), and what the implementation
   did: per call its outcome (0 returned, 1 ValueError) and the identifier found under every key
   (0 = RuntimeError, n > 0 = the n-th value written in this history); finally the files found
   on disk.  The result is 0 when the model agrees everywhere, otherwise
   1000 * (index of the first disagreeing call + 1) + (1 outcome | 2 reads), or 3 (files differ). *)
From Coq Require Import ZArith List Bool String.
Require Import Cherab.Model.C06_Repo.
Import ListNotations.
Open Scope Z_scope.

(* literal helper for the generated case files *)
Definition T (k : dkind) (shapes : list shape) (v : Z) : tbl := {| t_kind := k; t_shapes := shapes; t_ser := true; t_val := Z.to_pos v |}.
(* the same with an entry json.dumps rejects *)
Definition TX (k : dkind) (shapes : list shape) (v : Z) : tbl := {| t_kind := k; t_shapes := shapes; t_ser := false; t_val := Z.to_pos v |}.

Definition oc_code (o : outcome) : Z := match o with Done => 0 | ErrValue => 1 | ErrType => 3 end.
Definition res_code (r : option val) : Z := match r with Some v => Zpos v | None => 0 end.

Fixpoint zlist_eqb (a b : list Z) : bool :=
  match a, b with
  | [], [] => true
  | x :: a', y :: b' => (x =? y) && zlist_eqb a' b'
  | _, _ => false
  end.

Definition rquery := (option path * query)%type.
Definition qloc (x : rquery) : path * (path * subkey) := (eff_root (fst x), loc (key_of_query (snd x))).
Definition read_all (locs : list (path * (path * subkey))) (d : fs) : list Z :=
  map (fun l => res_code (get_loc (fst l) (snd l) d)) locs.

Fixpoint check_steps (locs : list (path * (path * subkey))) (cs : list call) (impl : list (Z * list Z))
                     (d : fs) (i : Z) : Z * fs :=
  match cs, impl with
  | [], [] => (0, d)
  | c :: cs', (oc, reads) :: impl' =>
      let (d', o) := run_call c d in
      if negb (oc_code o =? oc) then (1000 * (i + 1) + 1, d')
      else if negb (zlist_eqb (read_all locs d') reads) then (1000 * (i + 1) + 2, d')
      else check_steps locs cs' impl' d' (i + 1)
  | _, _ => (-1, d)
  end.

Definition path_mem (p : path) (l : list path) : bool := existsb (path_eqb p) l.
Definition same_files (a b : list path) : bool :=
  forallb (fun p => path_mem p b) a && forallb (fun p => path_mem p a) b.

Definition check_seq (cs : list call) (queries : list rquery) (impl : list (Z * list Z))
                     (impl_files : list path) : Z :=
  let (code, d) := check_steps (map qloc queries) cs impl [] 0 in
  if code =? 0 then (if same_files (files d) impl_files then 0 else 3) else code.

(* what the model reads and where it has files (printed for a disagreeing case) *)
Definition model_trace (cs : list call) (queries : list rquery) : list (Z * list Z) * list path :=
  let locs := map qloc queries in
  let fix go cs d := match cs with
                     | [] => ([], d)
                     | c :: cs' => let (d', o) := run_call c d in
                                   let (t, dn) := go cs' d' in ((oc_code o, read_all locs d') :: t, dn)
                     end in
  let (t, dn) := go cs [] in (t, files dn).
