(* C19 -- argument-validation policy of the constructors and helpers: which Python objects the typed
   Cython signatures `(str name, str symbol, int atomic_number, double atomic_weight)`,
   `(str, str, Element, int, double)`, `(Element, int, tuple)` accept, what they are converted to and
   which exception kind is raised otherwise (elements.pyx l.50, l.106; line.pyx l.49-59;
   utility.py encode_transition / valid_charge).  The signatures themselves are regenerated from the
   source on every run (Gen/C19/Shape.v: src_*_init_sig = *_init_sig).  Definitions only. *)
Require Import Cherab.Common.Qx.
From Coq Require Import String Ascii Qround.
Require Import Cherab.Model.C19_Registry Cherab.Model.C19_Shape.
Local Open Scope Z_scope.

Inductive exc := ExcValue | ExcType | ExcOverflow | ExcAttribute.
(* Outside: the code accepts the call, but the result lies outside what the model represents (None as a
   name, an Isotope used as the element of an Isotope, None passed for a typed Element argument - the
   latter reads the fields of None through a C pointer -, an int that is not exactly a double) *)
Inductive outcome (A : Type) := Done (a : A) | Raise (e : exc) | Outside.
Arguments Done {A} a.
Arguments Raise {A} e.
Arguments Outside {A}.

Inductive pyval :=
| PStr (s : string)            (* exactly str *)
| PStrSub (s : string)         (* an instance of a subclass of str (numpy.str_) *)
| PInt (z : Z)                 (* int, numpy integer *)
| PBool (b : bool)
| PFloat (q : Q)               (* finite float / numpy float *)
| PInf | PNan
| PNone
| PTuple (l : list tval) | PList (l : list tval)
| PSpecies (o : species)
| POther.                      (* bytes, dict, complex, ... *)

Definition int_min : Z := - 2 ^ 31.
Definition int_max : Z := 2 ^ 31 - 1.
Definition in_int (z : Z) : bool := (Z.leb int_min z && Z.leb z int_max)%bool.
(* Python int(float): truncation toward zero *)
Definition trunc (q : Q) : Z := if Qle_bool 0 q then Qfloor q else Qceiling q.

(* C `int` argument: __Pyx_PyInt_As_int *)
Definition conv_int (v : pyval) : outcome Z :=
  match v with
  | PInt z => if in_int z then Done z else Raise ExcOverflow
  | PBool b => Done (if b then 1 else 0)
  | PFloat q => let t := trunc q in if in_int t then Done t else Raise ExcOverflow
  | PInf => Raise ExcOverflow
  | PNan => Raise ExcValue
  | _ => Raise ExcType
  end.

(* C `double` argument: PyFloat_AsDouble; an int converts exactly when |z| < 2^53 (larger ones are
   rounded: Outside, unless too large for a double at all) *)
Definition conv_double (v : pyval) : outcome Q :=
  match v with
  | PInt z => if Z.ltb (Z.abs z) (2 ^ 53) then Done (inject_Z z)
              else if Z.leb (2 ^ 1024) (Z.abs z) then Raise ExcOverflow else Outside
  | PBool b => Done (if b then 1 else 0)%Q
  | PFloat q => Done q
  | PInf | PNan => Outside
  | _ => Raise ExcType
  end.

(* pass 1: the C conversions, in signature order; pass 2: the type tests of the object arguments, in
   signature order (this is the order in which the generated wrapper performs them) *)
Definition conv_c (t : ctype) (v : pyval) : outcome argv :=
  match t with
  | TyInt => match conv_int v with Done z => Done (VZ z) | Raise e => Raise e | Outside => Outside end
  | TyDouble => match conv_double v with Done q => Done (VQ q) | Raise e => Raise e | Outside => Outside end
  | _ => Done (VZ 0)            (* placeholder: object arguments are looked at in pass 2 *)
  end.
Definition conv_obj (t : ctype) (v : pyval) (c : argv) : outcome argv :=
  match t with
  | TyStr => match v with PStr s => Done (VS s) | PNone => Outside | _ => Raise ExcType end
  | TyElement => match v with
                 | PSpecies (SE e) => Done (VE e)
                 | PSpecies (SI _) => Outside
                 | PNone => Outside
                 | _ => Raise ExcType end
  | TyTuple => match v with PTuple l => Done (VT l) | PNone => Outside | _ => Raise ExcType end
  | TyObject => Outside
  | TyInt | TyDouble => Done c
  end.

Fixpoint pass1 (sig : list ctype) (args : list pyval) : outcome (list argv) :=
  match sig, args with
  | [], [] => Done []
  | t :: sig', v :: args' =>
      match conv_c t v with
      | Done c => match pass1 sig' args' with Done r => Done (c :: r) | Raise e => Raise e | Outside => Outside end
      | Raise e => Raise e
      | Outside => match pass1 sig' args' with Raise e => Raise e | _ => Outside end
      end
  | _, _ => Raise ExcType       (* wrong number of arguments *)
  end.
Fixpoint pass2 (sig : list ctype) (args : list pyval) (cs : list argv) : outcome (list argv) :=
  match sig, args, cs with
  | [], [], [] => Done []
  | t :: sig', v :: args', c :: cs' =>
      match conv_obj t v c with
      | Done a => match pass2 sig' args' cs' with Done r => Done (a :: r) | Raise e => Raise e | Outside => Outside end
      | Raise e => Raise e
      | Outside => match pass2 sig' args' cs' with Raise e => Raise e | _ => Outside end
      end
  | _, _, _ => Raise ExcType
  end.
Definition convert_args (sig : list ctype) (args : list pyval) : outcome (list argv) :=
  if negb (Nat.eqb (List.length sig) (List.length args)) then Raise ExcType
  else match pass1 sig args with
       | Done cs => pass2 sig args cs
       | Raise e => Raise e
       | Outside => match pass2 sig args (map (fun _ => VZ 0) args) with Raise e => Raise e | _ => Outside end
       end.

Definition element_init_py (args : list pyval) : outcome element :=
  match convert_args element_init_sig args with
  | Done [VS n; VS s; VZ z; VQ w] => Done (new_element n s z w)
  | Done _ => Outside
  | Raise e => Raise e
  | Outside => Outside
  end.
Definition isotope_init_py (args : list pyval) : outcome isotope :=
  match convert_args isotope_init_sig args with
  | Done [VS n; VS s; VE el; VZ a; VQ w] => Done (new_isotope n s el a w)
  | Done _ => Outside
  | Raise e => Raise e
  | Outside => Outside
  end.
(* An Isotope passed as the `Element element` argument of Isotope(...) is accepted (subclass instance) and
   kept as .element; the registry model has no such objects (exec refuses them, so they cannot be exported),
   but the constructor outcome is modelled: the new object takes the atomic number of its parent isotope *)
Record nested_isotope := mkNested { ni_name : string; ni_symbol : string; ni_Z : Z; ni_weight : Q; ni_A : Z;
                                    ni_parent : isotope }.
Definition isotope_on_isotope_init_py (args : list pyval) : outcome nested_isotope :=
  match args with
  | [n; s; PSpecies (SI j); a; w] =>
      match convert_args isotope_init_sig [n; s; PSpecies (SE (base (SI j))); a; w] with
      | Done [VS n'; VS s'; VE b; VZ a'; VQ w'] => Done (mkNested n' s' (e_Z b) w' a' j)
      | Done _ => Outside
      | Raise e => Raise e
      | Outside => Outside
      end
  | _ => Outside
  end.

(* Line accepts an Isotope for its Element argument (a subclass instance) and keeps it *)
Definition line_sig_value (v : pyval) : pyval :=
  match v with PSpecies (SI i) => PSpecies (SE (base (SI i))) | _ => v end.
Definition line_init_py (args : list pyval) : outcome line :=
  match args with
  | [PSpecies o; c; t] =>
      match convert_args line_init_sig [line_sig_value (PSpecies o); c; t] with
      | Done [VE _; VZ ch; VT tr] =>
          match new_line o ch tr with Ok l => Done l | ErrValue => Raise ExcValue end
      | Done _ => Outside
      | Raise e => Raise e
      | Outside => Outside
      end
  | _ => match convert_args line_init_sig args with Raise e => Raise e | _ => Outside end
  end.

(* utility.valid_charge(element, charge): plain Python `charge <= element.atomic_number` *)
Definition valid_charge_py (e c : pyval) : outcome bool :=
  match e with
  | PSpecies o =>
      match c with
      | PInt z => Done (Z.leb z (species_Z o))
      | PBool b => Done (Z.leb (if b then 1 else 0) (species_Z o))
      | PFloat q => Done (Qle_bool q (inject_Z (species_Z o)))
      | PInf | PNan => Outside
      | _ => Raise ExcType
      end
  | _ => Raise ExcAttribute
  end.

(* utility.encode_transition(transition): `upper, lower = transition` *)
Definition encode_transition_py (t : pyval) : outcome string :=
  match t with
  | PTuple l | PList l => match encode_transition l with Ok s => Done s | ErrValue => Raise ExcValue end
  | PStr s | PStrSub s =>
      match s with
      | String a (String b EmptyString) =>
          Done (sapp (lower (String a EmptyString)) (sapp " -> " (lower (String b EmptyString))))
      | _ => Raise ExcValue
      end
  | PSpecies _ | PInt _ | PBool _ | PFloat _ | PInf | PNan | PNone => Raise ExcType
  | POther => Outside
  end.
