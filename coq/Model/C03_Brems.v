(* Executable model of cherab/core/model/plasma/bremsstrahlung.pyx (definitions only).

     BremsFunction.evaluate      lines 74-97   the Hutchinson eq. 5.3.40 integrand in W/m^3/sr/nm
     BREMS_CONST / EXP_FACTOR    lines 30-35   from the CODATA constants of utility/constants.pyx
     Bremsstrahlung.emission     lines 175-214 per-bin integral / delta_wavelength
     Bremsstrahlung._populate_cache lines 216-243 charges of the species with charge > 0

   sqrt, exp, the Gaunt factor and the integrator are oracles (Section variables). *)
Require Import Cherab.Common.Qx Cherab.Model.C03_Passive.
Open Scope Q_scope.

(* the constants of cherab/core/utility/constants.pyx that the model needs (doubles as exact rationals) *)
Record consts := mkConsts {
  c_e : Q;       (* ELEMENTARY_CHARGE *)
  c_c : Q;       (* SPEED_OF_LIGHT *)
  c_h : Q;       (* PLANCK_CONSTANT *)
  c_me : Q;      (* ELECTRON_REST_MASS *)
  c_eps0 : Q;    (* VACUUM_PERMITTIVITY *)
  c_pi : Q;      (* M_PI *)
  c_r4pi : Q     (* RECIP_4_PI *)
}.

(* CODATA 2018 values (NIST), as decimal rationals: what the documentation refers to *)
Definition codata : consts :=
  mkConsts (801088317 # 5000000000000000000000000000)   (* 1.602176634e-19 C *)
           (299792458 # 1)   (* 299792458 m/s *)
           (132521403 # 200000000000000000000000000000000000000000)   (* 6.62607015e-34 J s *)
           (18218767403 # 20000000000000000000000000000000000000000)   (* 9.1093837015e-31 kg *)
           (5533867383 # 625000000000000000000)   (* 8.8541878128e-12 F/m *)
           (3141592653589793 # 1000000000000000)   (* 3.141592653589793 *)
           k4pi.

Definition nano : Q := 1000000000 # 1.   (* 1e9: metres -> nanometres *)

Section Brems.
  Variable C : consts.
  Variables sqrtf expf : Q -> Q.
  Variable gaunt : Q -> Q -> Q -> Q.          (* gaunt_factor.evaluate(z, te, wvl) *)

  (* EXP_FACTOR = PLANCK_CONSTANT * SPEED_OF_LIGHT * 1e9 / ELEMENTARY_CHARGE   (h c / e in eV nm) *)
  Definition exp_factor : Q := Qred (c_h C * c_c C * nano / c_e C).

  (* Hutchinson (5.3.40), 4 pi j(nu) = ne ni Z^2 (e^2/4 pi eps0)^3 32 pi^2/(3 sqrt3 m^2 c^3) sqrt(2m/(pi T)) exp(-h nu/T) g,
     with T = e Te[eV], per steradian (1/4pi) and per nm (d nu = 1e9 c / lambda^2 d lambda) *)
  Definition brems_const : Q :=
    Qred ((c_e C ^ 2 * c_r4pi C / c_eps0 C) ^ 3
          * (32 * c_pi C ^ 2 / (3 * sqrtf 3 * c_me C ^ 2 * c_c C ^ 3))
          * sqrtf (2 * c_me C / (c_pi C * c_e C))
          * (c_c C * nano * c_r4pi C)).

  (* _populate_cache / emission: the (charge, density) pairs of the species with charge > 0, in composition order *)
  Definition charged (comp : composition) : list species := filter (fun s => Z.ltb 0 (s_charge s)) comp.
  Definition charged_pairs (comp : composition) : list (Q * Q) :=
    map (fun s => (inject_Z (s_charge s), s_dens s)) (charged comp).

  (* the loop of BremsFunction.evaluate:  if ni > 0: ni_gff_z2 += ni * gaunt(z, te, wvl) * z * z *)
  (* Qred only normalises the representation of a rational (Qred q == q); it keeps the fractions small when the
     model is run by vm_compute) *)
  Definition gff_term (te wvl : Q) (zn : Q * Q) : Q := Qred (snd zn * gaunt (fst zn) te wvl * fst zn * fst zn).
  Definition ni_gff_z2 (te wvl : Q) (zs : list (Q * Q)) : Q :=
    fold_left (fun acc zn => if Qle_bool (snd zn) 0 then acc else Qred (acc + gff_term te wvl zn)) zs 0.

  (* pre_factor = BREMS_CONST / (sqrt(te) * wvl * wvl) * ne * ni_gff_z2
     radiance = pre_factor * exp(- EXP_FACTOR / (te * wvl)) *)
  Definition brems_function (ne te : Q) (zs : list (Q * Q)) (wvl : Q) : Q :=
    let pre_factor := brems_const / (sqrtf te * wvl * wvl) * ne * ni_gff_z2 te wvl zs in
    pre_factor * expf (- exp_factor / (te * wvl)).

  (* the contribution of one ion per unit density *)
  Definition brems_coef (ne te wvl z : Q) : Q :=
    brems_const / (sqrtf te * wvl * wvl) * ne * (gaunt z te wvl * z * z) * expf (- exp_factor / (te * wvl)).

  Variable integ : (Q -> Q) -> Q -> Q -> Q.     (* integrator.evaluate(lower, upper) of the given function *)

  (* lower = min_wavelength; for i in range(bins): upper = min + delta * (i + 1);
       samples[i] += integrator(lower, upper) / delta; lower = upper *)
  Fixpoint brems_bins_from (f : Q -> Q) (minw delta lower : Q) (i : Z) (n : nat) : list Q :=
    match n with
    | O => []
    | S m => let upper := minw + delta * inject_Z (i + 1) in
             integ f lower upper / delta :: brems_bins_from f minw delta upper (i + 1) m
    end.

  (* emission(): None = early return (ne <= 0 or te <= 0) *)
  Definition brems_emission (ne te : Q) (comp : composition) (minw delta : Q) (nbins : nat) : option (list Q) :=
    if Qle_bool ne 0 then None else
    if Qle_bool te 0 then None else
    Some (brems_bins_from (brems_function ne te (charged_pairs comp)) minw delta minw 0 nbins).
End Brems.
