(* C19 -- boolean comparators used by the correspondence (coq/Gen/C19/cases_*.v).
   Each takes the inputs of one call of the real implementation and what it returned, runs the
   MODEL (Model/C19_Registry.v, no second evaluator) on the same inputs and compares exactly.
   Definitions only. *)
Require Import Cherab.Common.Qx.
From Coq Require Import String Ascii.
Require Import Cherab.Model.C19_Registry Cherab.Model.C19_Shape Cherab.Model.C19_Args.
Local Open Scope Z_scope.

Definition element_seqb (a b : element) : bool := element_eqb a b.
Definition isotope_seqb (a b : isotope) : bool :=
  (String.eqb (i_name a) (i_name b) && String.eqb (i_symbol a) (i_symbol b) && Z.eqb (i_Z a) (i_Z b)
   && Qeqb_struct (i_weight a) (i_weight b) && Z.eqb (i_A a) (i_A b) && element_eqb (i_element a) (i_element b))%bool.
(* structural identity of two model objects *)
Definition species_seqb (a b : species) : bool :=
  match a, b with SE x, SE y => element_seqb x y | SI x, SI y => isotope_seqb x y | _, _ => false end.

(* ---- references to objects ------------------------------------------------------------------ *)
Inductive sref :=
| RAttr (attr : string)                                     (* the object bound to a module attribute *)
| RNewElement (name sym : string) (z : Z) (w : Q)           (* a fresh Element(name, sym, z, w) *)
| RNewIsotope (name sym : string) (elem : sref) (a : Z) (w : Q). (* a fresh Isotope(name, sym, <elem>, a, w) *)

Fixpoint resolve (en : env) (s : sref) : option species :=
  match s with
  | RAttr a => env_get en a
  | RNewElement n s z w => Some (SE (new_element n s z w))
  | RNewIsotope n s er a w =>
      match resolve en er with Some (SE el) => Some (SI (new_isotope n s el a w)) | _ => None end
  end.

(* ---- exported objects ----------------------------------------------------------------------- *)
(* what dir(module) shows: fields of every exported object read from the imported module; [wdec] is
   the exact decimal value of the weight expression in the source text *)
Inductive export :=
| XElement (attr name sym : string) (z : Z) (w wdec : Q)
| XIsotope (attr name sym elem_attr : string) (z a : Z) (w wdec : Q).

(* (1 + 2^-53)^5 - 1 < 2^-51: at most 3 correctly rounded literals and 2 rounded operations per expression *)
Definition weight_matches_text (w wdec : Q) : bool := close (pow2 (-51)) 0 w wdec.

Definition check_export (en : env) (x : export) : bool :=
  match x with
  | XElement attr n s z w wdec =>
      match env_get en attr with
      | Some (SE e) => (element_seqb e (mkElement n s z w) && weight_matches_text w wdec)%bool
      | _ => false
      end
  | XIsotope attr n s ea z a w wdec =>
      match env_get en attr, env_get en ea with
      | Some (SI i), Some (SE el) => (isotope_seqb i (mkIsotope n s z w a el) && weight_matches_text w wdec)%bool
      | _, _ => false
      end
  end.

Definition check_export_count (en : env) (rg : registry) (n_elements n_isotopes : Z) : bool :=
  (Z.eqb (Z.of_nat (List.length (elements rg))) n_elements && Z.eqb (Z.of_nat (List.length (isotopes rg))) n_isotopes
   && Z.eqb (Z.of_nat (List.length en)) (n_elements + n_isotopes))%bool.

(* ---- lookups ---------------------------------------------------------------------------------- *)
(* AOther s: an object of any other type whose str() is s (the harness records str(obj)) *)
Inductive arg := AStr (s : string) | AInt (z : Z) | ARef (s : sref) | AOther (s : string).
(* the `number` argument: absent/None, an int, or any other object given by its truth value and str() *)
Inductive numarg := NNone | NInt (z : Z) | NOther (truth : bool) (s : string).
Definition num_core (n : numarg) : option string :=
  match n with
  | NNone => None
  | NInt z => option_map zstr (truthy (Some z))
  | NOther t s => if t then Some s else None
  end.
Inductive expect := EAttr (attr : string)   (* returned the object bound to this module attribute *)
                  | ESelf                   (* returned the argument object itself *)
                  | EErr.                   (* raised ValueError *)

Definition arg_value (en : env) (a : arg) : option value :=
  match a with
  | AStr s => Some (VStr s)
  | AInt z => Some (VInt z)
  | ARef s => option_map VSpecies (resolve en s)
  | AOther s => Some (VOther s)
  end.

Definition expect_matches (en : env) (v : value) (got : result species) (ex : expect) : bool :=
  match got, ex with
  | ErrValue, EErr => true
  | Ok o, EAttr a => match env_get en a with Some o' => species_seqb o o' | None => false end
  | Ok o, ESelf => match v with VSpecies o' => species_seqb o o' | _ => false end
  | _, _ => false
  end.

Definition check_lookup_element (en : env) (ixe : index element) (a : arg) (ex : expect) : bool :=
  match arg_value en a with
  | None => false
  | Some v =>
      expect_matches en v (match lookup_element_ix ixe v with Ok e => Ok (SE e) | ErrValue => ErrValue end) ex
  end.

Definition check_lookup_isotope (en : env) (ixe : index element) (ixi : index isotope)
           (a : arg) (number : numarg) (ex : expect) : bool :=
  match arg_value en a with
  | None => false
  | Some v =>
      expect_matches en v (match lookup_isotope_core ixe ixi v (num_core number) with
                           | Ok i => Ok (SI i) | ErrValue => ErrValue end) ex
  end.

(* repr(obj) / str(obj) of an exported or fresh object *)
Definition check_repr (en : env) (s : sref) (text : string) : bool :=
  match resolve en s with Some o => String.eqb (py_str (VSpecies o)) text | None => false end.

(* ---- == / != / hash ------------------------------------------------------------------------------ *)
(* [hash_equal] is whether hash(a) == hash(b) held in the implementation *)
Definition check_eq (en : env) (a b : sref) (eq ne hash_equal : bool) : bool :=
  match resolve en a, resolve en b with
  | Some x, Some y =>
      (Bool.eqb (py_eq x y) eq && Bool.eqb (py_ne x y) ne
       && Bool.eqb (hkey_eqb (hash_key x) (hash_key y)) hash_equal)%bool
  | _, _ => false
  end.

(* ---- lines --------------------------------------------------------------------------------------- *)
Inductive lref := LRef (s : sref) (charge : Z) (tr : list tval).
Definition resolve_line (en : env) (x : lref) : option (result line) :=
  match x with LRef s c tr => option_map (fun o => new_line o c tr) (resolve en s) end.

(* constructor outcome: true = a Line was built, false = ValueError *)
Definition check_line_new (en : env) (x : lref) (built : bool) : bool :=
  match resolve_line en x with
  | Some (Ok _) => built
  | Some ErrValue => negb built
  | None => false
  end.

Definition check_line_eq (en : env) (a b : lref) (eq ne hash_equal : bool) : bool :=
  match resolve_line en a, resolve_line en b with
  | Some (Ok x), Some (Ok y) =>
      (Bool.eqb (line_eq x y) eq && Bool.eqb (line_ne x y) ne && Bool.eqb (line_key_eqb x y) hash_equal)%bool
  | _, _ => false
  end.

(* expected: Some s = returned s, None = ValueError *)
Definition check_encode_transition (tr : list tval) (want : option string) : bool :=
  match encode_transition tr, want with
  | Ok s, Some s' => String.eqb s s'
  | ErrValue, None => true
  | _, _ => false
  end.
Definition check_valid_charge (en : env) (s : sref) (c : Z) (b : bool) : bool :=
  match resolve en s with Some o => Bool.eqb (valid_charge o c) b | None => false end.

(* ---- dictionaries --------------------------------------------------------------------------------- *)
(* keys of one Python dict: species and lines mixed (a Line and an Element never compare equal) *)
Inductive pykey := PKS (o : species) | PKL (l : line).
Definition pk_eq (a b : pykey) : bool :=
  match a, b with PKS x, PKS y => py_eq x y | PKL x, PKL y => line_eq x y | _, _ => false end.
Inductive kref := KS (s : sref) | KL (l : lref).
Definition resolve_key (en : env) (k : kref) : option pykey :=
  match k with
  | KS s => option_map PKS (resolve en s)
  | KL l => match resolve_line en l with Some (Ok x) => Some (PKL x) | _ => None end
  end.

Definition optz_eqb (a b : option Z) : bool :=
  match a, b with Some x, Some y => Z.eqb x y | None, None => true | _, _ => false end.

(* one live dict driven through a history: d[k] = v, d.pop(k, None), d.get(k) (with the value the
   implementation returned), len(d) (likewise).  The dict model is instantiated with the constant hash
   (every hash function that respects the hash key is allowed by the theorems; the constant one makes
   every slot comparison fall through to ==, so an implementation whose __hash__ disagrees with its
   __eq__ shows up as a difference). *)
Inductive dop := DSet (k : kref) (v : Z) | DDel (k : kref) | DGet (k : kref) (got : option Z) | DLen (n : Z).

Fixpoint run_dict (en : env) (d : list (pykey * Z)) (ops : list dop) : bool :=
  match ops with
  | [] => true
  | DSet k v :: t =>
      match resolve_key en k with
      | Some k' => run_dict en (dict_set (fun _ => 0) (fun _ _ => false) pk_eq d k' v) t
      | None => false end
  | DDel k :: t =>
      match resolve_key en k with
      | Some k' => run_dict en (dict_del (fun _ => 0) (fun _ _ => false) pk_eq d k') t
      | None => false end
  | DGet k got :: t =>
      match resolve_key en k with
      | Some k' => (optz_eqb (dict_get (fun _ => 0) (fun _ _ => false) pk_eq d k') got && run_dict en d t)%bool
      | None => false end
  | DLen n :: t => (Z.eqb (Z.of_nat (List.length d)) n && run_dict en d t)%bool
  end.

Definition check_dict (en : env) (ops : list dop) : bool := run_dict en [] ops.

(* ---- argument-validation policy of the constructors and helpers (Model/C19_Args.v) ------------------------ *)
Inductive parg := PA (v : pyval) | PRef (s : sref).       (* a plain value, or an object given by reference *)
Definition parg_value (en : env) (a : parg) : option pyval :=
  match a with PA v => Some v | PRef s => option_map PSpecies (resolve en s) end.
Fixpoint parg_values (en : env) (l : list parg) : option (list pyval) :=
  match l with
  | [] => Some []
  | a :: t => match parg_value en a, parg_values en t with Some v, Some r => Some (v :: r) | _, _ => None end
  end.
(* what the implementation did: built an object with these fields, or raised *)
Inductive built :=
| BElement (name sym : string) (z : Z) (w : Q)
| BIsotope (name sym : string) (z : Z) (w : Q) (a : Z) (elem : sref)
| BLine (elem : sref) (charge : Z) (tr : list tval)
| BNested (name sym : string) (z : Z) (w : Q) (a : Z) (parent : sref)     (* an Isotope whose .element is an Isotope *)
| BRaise (e : exc).
Definition exc_eqb (a b : exc) : bool :=
  match a, b with ExcValue, ExcValue | ExcType, ExcType | ExcOverflow, ExcOverflow | ExcAttribute, ExcAttribute => true | _, _ => false end.

Definition check_init (en : env) (cls : Z) (args : list parg) (got : built) : bool :=
  match parg_values en args with
  | None => false
  | Some vs =>
      match cls with
      | 0 => match element_init_py vs, got with
             | Done e, BElement n s z w => element_seqb e (mkElement n s z w)
             | Raise x, BRaise y => exc_eqb x y
             | Outside, _ => true
             | _, _ => false end
      | 1 => match isotope_init_py vs, got with
             | Done i, BIsotope n s z w a er =>
                 match resolve en er with
                 | Some (SE el) => isotope_seqb i (mkIsotope n s z w a el)
                 | _ => false end
             | Raise x, BRaise y => exc_eqb x y
             | Outside, _ => true
             | _, _ => false end
      | 3 => match isotope_on_isotope_init_py vs, got with
             | Done ni, BNested n s z w a pr =>
                 match resolve en pr with
                 | Some (SI j) => (String.eqb (ni_name ni) n && String.eqb (ni_symbol ni) s && Z.eqb (ni_Z ni) z
                                   && Qeqb_struct (ni_weight ni) w && Z.eqb (ni_A ni) a && isotope_seqb (ni_parent ni) j)%bool
                 | _ => false end
             | Raise x, BRaise y => exc_eqb x y
             | Outside, _ => true
             | _, _ => false end
      | _ => match line_init_py vs, got with
             | Done l, BLine er c tr =>
                 match resolve en er with
                 | Some o => (species_seqb (l_element l) o && Z.eqb (l_charge l) c && tlist_eqb (l_transition l) tr)%bool
                 | None => false end
             | Raise x, BRaise y => exc_eqb x y
             | Outside, _ => true
             | _, _ => false end
      end
  end.
(* 1 when the model makes no prediction for this call (counted in the evidence, not compared) *)
Definition init_outside (en : env) (cls : Z) (args : list parg) : bool :=
  match parg_values en args with
  | None => false
  | Some vs => match cls with
               | 0 => match element_init_py vs with Outside => true | _ => false end
               | 1 => match isotope_init_py vs with Outside => true | _ => false end
               | 3 => match isotope_on_isotope_init_py vs with Outside => true | _ => false end
               | _ => match line_init_py vs with Outside => true | _ => false end
               end
  end.

Inductive helper_out := HBool (b : bool) | HStr (s : string) | HRaise (e : exc).
Definition check_valid_charge_py (en : env) (e c : parg) (got : helper_out) : bool :=
  match parg_value en e, parg_value en c with
  | Some ev, Some cv =>
      match valid_charge_py ev cv, got with
      | Done b, HBool b' => Bool.eqb b b'
      | Raise x, HRaise y => exc_eqb x y
      | Outside, _ => true
      | _, _ => false end
  | _, _ => false
  end.
Definition check_encode_py (t : pyval) (got : helper_out) : bool :=
  match encode_transition_py t, got with
  | Done s, HStr s' => String.eqb s s'
  | Raise x, HRaise y => exc_eqb x y
  | Outside, _ => true
  | _, _ => false
  end.

(* ---- the periodic table the Python side of the search uses must be the model's ---------------------- *)
Fixpoint rows_eqb (a b : list (Z * string * string)) : bool :=
  match a, b with
  | [], [] => true
  | (z, n, s) :: t, (z', n', s') :: t' => (Z.eqb z z' && String.eqb n n' && String.eqb s s' && rows_eqb t t')%bool
  | _, _ => false
  end.
Definition check_periodic_table (rows : list (Z * string * string)) : bool := rows_eqb rows periodic_table.

(* ---- which clause of wf fails (printed by the tie for diagnosis) --------------------------------------- *)
Definition wf_clauses (r : registry) : list bool :=
  [nodupb (map species_name (all_species r));
   pairwise_disjoint e_name element_keys (elements r);
   pairwise_disjoint i_name isotope_keys (isotopes r);
   forallb in_periodic_table (elements r);
   forallb (isotope_ok r) (isotopes r)].
Definition wf_offenders (r : registry) : list string :=
  map e_name (filter (fun e => negb (in_periodic_table e)) (elements r))
  ++ map i_name (filter (fun i => negb (isotope_ok r i)) (isotopes r)).
