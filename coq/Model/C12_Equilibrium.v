(* Model of cherab/tools/equilibrium/efit.pyx (EFITEquilibrium, EFITLCFSMask, MagneticField,
   PoloidalFieldVector, FluxSurfaceNormal, FluxCoordToCartesian), of the function wrappers it is
   built from (cherab/core/math/clamp.pyx ClampOutput2D, mappers.pyx IsoMapper2D /
   AxisymmetricMapper / VectorAxisymmetricMapper, mask.pyx PolygonMask2D as a function) and of the
   raysect pieces they call (clamp, float Blend2D, vector Blend2D, Vector3D.normalise / set_length /
   transform, rotate_z).  Definitions only; proofs are in Proofs/C12_*.v.

   What is NOT modelled but enters as a function (field of the record [env]):
     e_psi      raysect Interpolator2DArray of the psi grid               (efit.pyx:113)
     e_poly     PolygonMask2D of the LCFS polygon (triangulation + mesh)   (mask.pyx, efit.pyx:158)
     e_dpsidr, e_dpsidz  interpolators of the np.gradient grids            (efit.pyx:173-183; the grid
                         values themselves are modelled in C12_Gradient.v)
     e_fprof    Interpolator1DArray of the f profile                       (efit.pyx:123)
     e_sqrt     libm sqrt, and libm hypot(x, y) seen as a function of x*x + y*y (the radius of the
                axisymmetric mappers);   e_cs  (cos, sin) of the angle atan2(y, x)      (mappers.pyx:331-335)
     e_slerp    Vector3D.slerp (reached only for a mask value strictly between 0 and 1)
   Reals are Q; a float comparison [a == 0] is [Qeq_bool a 0]. *)
Require Import Cherab.Common.Qx.
Open Scope Q_scope.

(* ---------------------------------------------------------------- vectors (raysect Vector3D) *)
Record vec := V { vx : Q; vy : Q; vz : Q }.
Definition vzero : vec := V 0 0 0.
Definition dot (a b : vec) : Q := vx a * vx b + vy a * vy b + vz a * vz b.
Definition cross (a b : vec) : vec :=
  V (vy a * vz b - vz a * vy b) (vz a * vx b - vx a * vz b) (vx a * vy b - vy a * vx b).
Definition vscale (k : Q) (a : vec) : vec := V (k * vx a) (k * vy a) (k * vz a).
Definition veq (a b : vec) : Prop := vx a == vx b /\ vy a == vy b /\ vz a == vz b.
(* x = x * t; y = y * t; z = z * t   (the code multiplies from the right) *)
Definition vscale_r (a : vec) (k : Q) : vec := V (vx a * k) (vy a * k) (vz a * k).

Definition Qlt_b (a b : Q) : bool := negb (Qle_bool b a).

(* raysect.core.math.cython.utility.clamp: if v < min: min; if v > max: max; v.  max = +inf is None *)
Definition clamp (v lo : Q) (hi : option Q) : Q :=
  if Qlt_b v lo then lo
  else match hi with Some h => if Qlt_b h v then h else v | None => v end.

Record env := {
  e_psi_axis : Q; e_psi_lcfs : Q;
  e_psi : Q -> Q -> Q;
  e_poly : Q -> Q -> Q;
  e_dpsidr : Q -> Q -> Q; e_dpsidz : Q -> Q -> Q;
  e_fprof : Q -> Q;
  e_bvac_r : Q; e_bvac_m : Q;
  e_sqrt : Q -> Q;
  e_cs : Q -> Q -> Q * Q;
  e_slerp : vec -> vec -> Q -> vec }.

Section Model.
  Variable E : env.

  (* efit.pyx:116  ClampOutput2D(Interpolator2DArray(r, z, (psi - psi_axis) / (psi_lcfs - psi_axis), ...), min=0).
     The code normalises the grid and then interpolates; the model normalises the interpolated
     value.  The two agree when the interpolator is linear in its data and reproduces constants
     (raysect's; not proved here; the correspondence measures the difference on every case). *)
  Definition psin_raw (r z : Q) : Q := (e_psi E r z - e_psi_axis E) / (e_psi_lcfs E - e_psi_axis E).
  Definition psi_n (r z : Q) : Q := clamp (psin_raw r z) 0 None.

  (* efit.pyx:408  EFITLCFSMask.evaluate: polygon(r, z) > 0.0 and psi_normalised(r, z) <= 1.0, as a double *)
  Definition inside_b (r z : Q) : bool := Qlt_b 0 (e_poly E r z) && Qle_bool (psi_n r z) 1.
  Definition inside_lcfs (r z : Q) : Q := if inside_b r z then 1 else 0.

  (* raysect float Blend2D.evaluate *)
  Definition blend (f1 f2 m : Q) : Q :=
    let t := clamp m 0 (Some 1) in
    if Qeq_bool t 0 then f1 else if Qeq_bool t 1 then f2 else (1 - t) * f1 + t * f2.

  (* efit.pyx:229-237 map2d: ScalarBlend2D(value_outside_lcfs, IsoMapper2D(psi_normalised, profile), inside_lcfs);
     mappers.pyx:72 IsoMapper2D.evaluate = function1d(function2d(x, y)) *)
  Definition map2d (profile : Q -> Q) (outside : Q) (r z : Q) : Q :=
    blend outside (profile (psi_n r z)) (inside_lcfs r z).

  (* efit.pyx:261 map3d = AxisymmetricMapper(map2d);  mappers.pyx:275 function2d(hypot(x, y), z):
     the radius is whatever e_sqrt returns for x*x + y*y *)
  Definition map3d (profile : Q -> Q) (outside : Q) (x y z : Q) : Q :=
    map2d profile outside (e_sqrt E (x * x + y * y)) z.

  (* efit.pyx:436-458 MagneticField.evaluate *)
  Definition b_field (r z : Q) : vec :=
    let br := - e_dpsidz E r z / r in
    let bz := e_dpsidr E r z / r in
    let bt := if negb (Qeq_bool (inside_lcfs r z) 0)
              then e_fprof E (psi_n r z) / r
              else e_bvac_m E * e_bvac_r E / r in
    V br bt bz.

  Definition inplane_zero (b : vec) : bool := Qeq_bool (vx b) 0 && Qeq_bool (vz b) 0.

  (* Vector3D.normalise: None stands for its ZeroDivisionError *)
  Definition normalise (v : vec) : option vec :=
    let t := dot v v in
    if Qeq_bool t 0 then None
    else Some (vscale_r v (1 / e_sqrt E t)).

  (* _Vec3.set_length *)
  Definition set_length (v : vec) (len : Q) : option vec :=
    let t := dot v v in
    if Qeq_bool t 0 then None
    else Some (vscale_r v (len / e_sqrt E t)).

  (* efit.pyx:128 *)
  Definition toroidal_vector (r z : Q) : vec := V 0 1 0.

  (* efit.pyx:469-479 PoloidalFieldVector.evaluate *)
  Definition pol_raw (b : vec) : vec := V (vx b) 0 (vz b).
  Definition nor_raw (b : vec) : vec := V (- vz b) 0 (vx b).
  Definition poloidal_vector (r z : Q) : option vec :=
    let b := b_field r z in
    if inplane_zero b then Some vzero else normalise (pol_raw b).

  (* efit.pyx:490-500 FluxSurfaceNormal.evaluate *)
  Definition surface_normal (r z : Q) : option vec :=
    let b := b_field r z in
    if inplane_zero b then Some vzero else normalise (nor_raw b).

  (* efit.pyx:520-547 FluxCoordToCartesian.evaluate *)
  Definition flux_to_cart (vt vp vn : Q -> Q) (r z : Q) : option vec :=
    let f := b_field r z in
    let p := psi_n r z in
    if inplane_zero f then Some (V (0 + 0) (vt p) (0 + 0))
    else match set_length (pol_raw f) (vp p), set_length (nor_raw f) (vn p) with
         | Some pol, Some nor => Some (V (vx pol + vx nor) (vt p) (vz pol + vz nor))
         | _, _ => None
         end.

  (* raysect vector3d Blend2D.evaluate *)
  Definition blendv (f1 : vec) (f2 : option vec) (m : Q) : option vec :=
    let t := clamp m 0 (Some 1) in
    if Qeq_bool t 0 then Some f1 else if Qeq_bool t 1 then f2
    else match f2 with Some v2 => Some (e_slerp E f1 v2 t) | None => None end.

  (* efit.pyx:341-344 map_vector2d *)
  Definition map_vector2d (vt vp vn : Q -> Q) (outside : vec) (r z : Q) : option vec :=
    blendv outside (flux_to_cart vt vp vn r z) (inside_lcfs r z).

  (* rotate_z(phi) applied by Vector3D.transform: rows (c, -s, 0), (s, c, 0), (0, 0, 1) *)
  Definition rotate_z_apply (c s : Q) (v : vec) : vec :=
    V (c * vx v + (- s) * vy v + 0 * vz v) (s * vx v + c * vy v + 0 * vz v) (0 * vx v + 0 * vy v + 1 * vz v).

  (* efit.pyx:386 map_vector3d = VectorAxisymmetricMapper(map_vector2d); mappers.pyx:324-338 *)
  Definition map_vector3d (vt vp vn : Q -> Q) (outside : vec) (x y z : Q) : option vec :=
    let r := e_sqrt E (x * x + y * y) in
    let cs := e_cs E x y in
    match map_vector2d vt vp vn outside r z with
    | Some v => Some (rotate_z_apply (fst cs) (snd cs) v)
    | None => None
    end.
End Model.

(* the same environment with psi, psi_axis, psi_lcfs all negated (the other sign convention) *)
Definition flip_sign (E : env) : env :=
  {| e_psi_axis := - e_psi_axis E; e_psi_lcfs := - e_psi_lcfs E;
     e_psi := fun r z => - e_psi E r z; e_poly := e_poly E;
     e_dpsidr := fun r z => - e_dpsidr E r z; e_dpsidz := fun r z => - e_dpsidz E r z;
     e_fprof := e_fprof E; e_bvac_r := e_bvac_r E; e_bvac_m := e_bvac_m E;
     e_sqrt := e_sqrt E; e_cs := e_cs E; e_slerp := e_slerp E |}.
