(* C07 -- OpenADAS provider: which data each accessor uses, and what it does when data are missing.
   Definitions only.

   Source mirrored: /repo/cherab/openadas/openadas.py (class OpenADAS).  The class has 14 accessor
   methods (wavelength + 13 rate accessors; the "16" of the property text counts __init__ and the
   data_path getter as well).  Every rate accessor has the same control flow:

       species = species.element if isinstance(species, Isotope)          (rates are per element)
       try:    data = repository.get_xxx(element(s), ..., repository_path)
       except RuntimeError:
               if self._missing_rates_return_null: return NullXxx(...)
               raise
       wavelength = self.wavelength(<requested species>, charge, transition)   (photon accessors only)
       return Xxx(data, [wavelength], extrapolate=self._permit_extrapolation)

   A policy case fixes the accessor, the three constructor flags, whether each species argument is
   an element or an isotope, and what the repository holds.  The outcome says whose table the
   returned rate reproduces, whose wavelength converted photons to watts, what happens outside the
   tabulated range, or which exception came out. *)
Require Import Cherab.Common.Qx.

Inductive accessor :=
  | AWavelength | AIonisation | ARecombination | AThermalCXRate | ABeamCXPEC | ABeamStopping
  | ABeamPopulation | ABeamEmissionPEC | AImpactExcitationPEC | ARecombinationPEC | AThermalCXPEC
  | ALinePower | AContinuumPower | ACXPower.

Inductive kind := KElement | KIsotope.
(* the rate data of the ELEMENT(s): stored / no file at all / file present but charge or transition key absent *)
Inductive avail := Present | NoFile | NoKey.
Inductive err := ErrRuntime | ErrValue | ErrType | ErrKey | ErrOther.
Inductive src := SrcEl | SrcIso.          (* whose stored table the returned rate reproduces (per species slot) *)
Inductive wsrc := WNone | WEl | WIso.     (* whose wavelength is used (WNone: no photon conversion) *)
Inductive outside := ORaise | OFinite | OBad.

Inductive pout :=
  | PRate (s1 s2 : src) (w : wsrc) (o : outside)   (* a rate reproducing a stored table *)
  | PWave (w : wsrc)                               (* wavelength(): the number returned *)
  | PNull                                          (* a rate that is exactly zero everywhere probed *)
  | PRaise (e : err)
  | POther.                                        (* anything else (values matching no stored table ...) *)

Record pcase := mkcase {
  acc : accessor;
  pe : bool;          (* permit_extrapolation *)
  null : bool;        (* missing_rates_return_null *)
  fb : bool;          (* wavelength_element_fallback *)
  k1 : kind;          (* first species argument: ion / donor / beam *)
  k2 : kind;          (* second species argument (receiver / plasma ion); KElement when there is none *)
  rate_av : avail;    (* rate data under the element path *)
  decoy : bool;       (* different rate data also stored under the isotope path(s) *)
  wl_iso : bool;      (* wavelength stored for the isotope *)
  wl_el : bool        (* wavelength stored for the element *)
}.

Definition photon (a : accessor) : bool :=
  match a with
  | ABeamCXPEC | ABeamEmissionPEC | AImpactExcitationPEC | ARecombinationPEC | AThermalCXPEC => true
  | _ => false
  end.

Definition two_slot (a : accessor) : bool :=
  match a with
  | AThermalCXRate | ABeamCXPEC | ABeamStopping | ABeamPopulation | ABeamEmissionPEC | AThermalCXPEC => true
  | _ => false
  end.

(* the species whose wavelength the property asks for ("of the requested species"):
   receiver for beam-CX and thermal-CX PECs, the beam atom for beam emission, the ion otherwise *)
Definition wl_kind (c : pcase) : kind :=
  match acc c with
  | ABeamCXPEC | AThermalCXPEC => k2 c
  | _ => k1 c
  end.

(* OpenADAS.wavelength, openadas.py:57-73 *)
Definition wavelength_lookup (fallback : bool) (k : kind) (has_iso has_el : bool) : option wsrc :=
  match k with
  | KIsotope =>
      if fallback then (if has_iso then Some WIso else if has_el then Some WEl else None)
      else if has_iso then Some WIso else None
  | KElement => if has_el then Some WEl else None
  end.

Definition out_of (permit : bool) : outside := if permit then OFinite else ORaise.

(* the accessors as the property wants them *)
Definition model_outcome (c : pcase) : pout :=
  match acc c with
  | AWavelength =>
      match wavelength_lookup (fb c) (k1 c) (wl_iso c) (wl_el c) with
      | Some w => PWave w
      | None => PRaise ErrRuntime
      end
  | a =>
      match rate_av c with
      | Present =>
          if photon a then
            match wavelength_lookup (fb c) (wl_kind c) (wl_iso c) (wl_el c) with
            | Some w => PRate SrcEl SrcEl w (out_of (pe c))
            | None => PRaise ErrRuntime
            end
          else PRate SrcEl SrcEl WNone (out_of (pe c))
      | _ => if null c then PNull else PRaise ErrRuntime
      end
  end.

(* the accessors as the source had them BEFORE /repo commit 4f8cd49: thermal_cx_pec replaced
   receiver_element by its element before asking for the wavelength.  Kept as the record of that
   finding (Proofs/C07_Policy.v: code_thermal_cx_pec_refuted); the current source agrees with
   model_outcome on every case. *)
Definition code_wl_kind (c : pcase) : kind :=
  match acc c with
  | ABeamCXPEC => k2 c
  | AThermalCXPEC => KElement
  | _ => k1 c
  end.

Definition code_outcome (c : pcase) : pout :=
  match acc c with
  | AWavelength => model_outcome c
  | a =>
      match rate_av c with
      | Present =>
          if photon a then
            match wavelength_lookup (fb c) (code_wl_kind c) (wl_iso c) (wl_el c) with
            | Some w => PRate SrcEl SrcEl w (out_of (pe c))
            | None => PRaise ErrRuntime
            end
          else PRate SrcEl SrcEl WNone (out_of (pe c))
      | _ => if null c then PNull else PRaise ErrRuntime
      end
  end.

(* ---- decidable equalities -------------------------------------------------------------------- *)
Definition accessor_eqb (a b : accessor) : bool :=
  match a, b with
  | AWavelength, AWavelength | AIonisation, AIonisation | ARecombination, ARecombination
  | AThermalCXRate, AThermalCXRate | ABeamCXPEC, ABeamCXPEC | ABeamStopping, ABeamStopping
  | ABeamPopulation, ABeamPopulation | ABeamEmissionPEC, ABeamEmissionPEC
  | AImpactExcitationPEC, AImpactExcitationPEC | ARecombinationPEC, ARecombinationPEC
  | AThermalCXPEC, AThermalCXPEC | ALinePower, ALinePower | AContinuumPower, AContinuumPower
  | ACXPower, ACXPower => true
  | _, _ => false
  end.
Definition kind_eqb (a b : kind) := match a, b with KElement, KElement | KIsotope, KIsotope => true | _, _ => false end.
Definition avail_eqb (a b : avail) :=
  match a, b with Present, Present | NoFile, NoFile | NoKey, NoKey => true | _, _ => false end.
Definition err_eqb (a b : err) :=
  match a, b with
  | ErrRuntime, ErrRuntime | ErrValue, ErrValue | ErrType, ErrType | ErrKey, ErrKey | ErrOther, ErrOther => true
  | _, _ => false
  end.
Definition src_eqb (a b : src) := match a, b with SrcEl, SrcEl | SrcIso, SrcIso => true | _, _ => false end.
Definition wsrc_eqb (a b : wsrc) := match a, b with WNone, WNone | WEl, WEl | WIso, WIso => true | _, _ => false end.
Definition outside_eqb (a b : outside) :=
  match a, b with ORaise, ORaise | OFinite, OFinite | OBad, OBad => true | _, _ => false end.
Definition pout_eqb (a b : pout) : bool :=
  match a, b with
  | PRate s1 s2 w o, PRate s1' s2' w' o' => src_eqb s1 s1' && src_eqb s2 s2' && wsrc_eqb w w' && outside_eqb o o'
  | PWave w, PWave w' => wsrc_eqb w w'
  | PNull, PNull => true
  | PRaise e, PRaise e' => err_eqb e e'
  | POther, POther => true
  | _, _ => false
  end.
Definition pcase_eqb (a b : pcase) : bool :=
  accessor_eqb (acc a) (acc b) && Bool.eqb (pe a) (pe b) && Bool.eqb (null a) (null b) && Bool.eqb (fb a) (fb b)
  && kind_eqb (k1 a) (k1 b) && kind_eqb (k2 a) (k2 b) && avail_eqb (rate_av a) (rate_av b)
  && Bool.eqb (decoy a) (decoy b) && Bool.eqb (wl_iso a) (wl_iso b) && Bool.eqb (wl_el a) (wl_el b).

(* ---- the property's policy, written from its text ---------------------------------------------
   - data missing: RuntimeError, or a null rate when null rates were requested;
   - an isotope request uses the element's rates (never the table stored under the isotope);
   - photon coefficients are converted with the wavelength of the requested species (the element's
     only through the documented wavelength_element_fallback);
   - outside the range: raise when extrapolation is not permitted, a finite value when it is.
   One reading choice is made explicit here: when the RATE is present but the WAVELENGTH needed for
   the photon conversion is missing, RuntimeError is accepted with either value of
   missing_rates_return_null (the flag speaks of rates), and so is a null rate when it is set. *)
Definition spec_ok (c : pcase) (o : pout) : bool :=
  match acc c with
  | AWavelength =>
      match wavelength_lookup (fb c) (k1 c) (wl_iso c) (wl_el c) with
      | Some w => pout_eqb o (PWave w)
      | None => pout_eqb o (PRaise ErrRuntime)
      end
  | a =>
      if negb (avail_eqb (rate_av c) Present) then
        (if null c then pout_eqb o PNull else pout_eqb o (PRaise ErrRuntime))
      else if photon a then
        match wavelength_lookup (fb c) (wl_kind c) (wl_iso c) (wl_el c) with
        | Some w => pout_eqb o (PRate SrcEl SrcEl w (out_of (pe c)))
        | None => pout_eqb o (PRaise ErrRuntime) || (null c && pout_eqb o PNull)
        end
      else pout_eqb o (PRate SrcEl SrcEl WNone (out_of (pe c)))
  end.

(* ---- the finite domain ------------------------------------------------------------------------ *)
Definition all_accessors : list accessor :=
  [AWavelength; AIonisation; ARecombination; AThermalCXRate; ABeamCXPEC; ABeamStopping; ABeamPopulation;
   ABeamEmissionPEC; AImpactExcitationPEC; ARecombinationPEC; AThermalCXPEC; ALinePower; AContinuumPower; ACXPower].
Definition bools : list bool := [false; true].
Definition kinds : list kind := [KElement; KIsotope].
Definition avails : list avail := [Present; NoFile; NoKey].

(* dimensions that cannot influence an accessor are pinned: no second species -> k2 = KElement;
   no photon conversion and not wavelength() -> no wavelengths stored; wavelength() -> no rate data *)
Definition relevant (c : pcase) : bool :=
  (two_slot (acc c) || kind_eqb (k2 c) KElement)
  && (photon (acc c) || accessor_eqb (acc c) AWavelength || (negb (wl_iso c) && negb (wl_el c)))
  && (negb (accessor_eqb (acc c) AWavelength) || (avail_eqb (rate_av c) NoFile && negb (decoy c))).

Definition full_product : list pcase :=
  flat_map (fun a => flat_map (fun p => flat_map (fun n => flat_map (fun f =>
  flat_map (fun x1 => flat_map (fun x2 => flat_map (fun r => flat_map (fun d =>
  flat_map (fun wi => map (fun we => mkcase a p n f x1 x2 r d wi we) bools) bools) bools) avails) kinds) kinds)
  bools) bools) bools) all_accessors.

Definition all_cases : list pcase := filter relevant full_product.

(* ---- probed tables ---------------------------------------------------------------------------- *)
Definition ptable := list (pcase * pout).

Fixpoint plookup (c : pcase) (t : ptable) : option pout :=
  match t with
  | [] => None
  | (c', o) :: r => if pcase_eqb c c' then Some o else plookup c r
  end.

Definition row_ok (t : ptable) (c : pcase) : bool :=
  match plookup c t with Some o => spec_ok c o | None => false end.

(* the table answers every case of [cs] and every answer satisfies the property's policy *)
Definition wf_on (cs : list pcase) (t : ptable) : bool := forallb (row_ok t) cs.

Definition minus (cs excl : list pcase) : list pcase :=
  filter (fun c => negb (existsb (pcase_eqb c) excl)) cs.

(* what a Gen file prints *)
Definition rows_vs_model (t : ptable) : list bool := map (fun r => pout_eqb (model_outcome (fst r)) (snd r)) t.
Definition rows_vs_spec (t : ptable) : list bool := map (fun r => spec_ok (fst r) (snd r)) t.
Definition uncovered (cs : list pcase) (t : ptable) : list bool :=
  map (fun c => match plookup c t with Some _ => true | None => false end) cs.

(* ---- histories on ONE long-lived provider ------------------------------------------------------
   The property speaks of every rate object the provider returns, for any repository content.  A
   provider lives through many accessor calls while the repository underneath it may grow.  The
   repository is abstracted to three sets of slots (a slot = one (file, key) of the repository):
   stored rate tables, stored decoy tables (under the isotope paths), stored wavelengths.  The
   accessors of the model keep no state of their own: what a call returns is model_outcome of the
   case made of the constructor flags, the call's own arguments and the repository content AT THE
   TIME OF THE CALL. *)
Inductive hop :=
  | HSetRate (rs : Z)                  (* repository.add_*_rate: the element's table of slot rs (again: new values) *)
  | HSetDecoy (rs : Z)                 (* different tables under the isotope paths of slot rs *)
  | HSetWl (w : Z)                     (* repository.add_wavelength into wavelength slot w (again: new value) *)
  | HCall (a : accessor) (x1 x2 : kind) (rs wi we : Z).
      (* accessor call with species kinds x1 x2, reading rate slot rs; wi / we: the wavelength slots
         of the requested isotope and of its element *)

Record hstate := mkst { st_rates : list Z; st_decoys : list Z; st_wls : list Z }.
Definition st0 : hstate := mkst [] [] [].
Definition zmem (z : Z) (l : list Z) : bool := existsb (Z.eqb z) l.

Definition hstep (st : hstate) (o : hop) : hstate :=
  match o with
  | HSetRate rs => mkst (rs :: st_rates st) (st_decoys st) (st_wls st)
  | HSetDecoy rs => mkst (st_rates st) (rs :: st_decoys st) (st_wls st)
  | HSetWl w => mkst (st_rates st) (st_decoys st) (w :: st_wls st)
  | HCall _ _ _ _ _ _ => st
  end.

Definition hcase (p n f : bool) (st : hstate) (a : accessor) (x1 x2 : kind) (rs wi we : Z) : pcase :=
  mkcase a p n f x1 x2 (if zmem rs (st_rates st) then Present else NoFile) (zmem rs (st_decoys st))
         (zmem wi (st_wls st)) (zmem we (st_wls st)).

(* the outcomes of the calls of a history, in order *)
Fixpoint hrun (p n f : bool) (st : hstate) (ops : list hop) : list pout :=
  match ops with
  | [] => []
  | HCall a x1 x2 rs wi we :: r => model_outcome (hcase p n f st a x1 x2 rs wi we) :: hrun p n f st r
  | o :: r => hrun p n f (hstep st o) r
  end.

Definition hfinal (st : hstate) (ops : list hop) : hstate := fold_left hstep ops st.
Definition is_set (o : hop) : bool := match o with HCall _ _ _ _ _ _ => false | _ => true end.

Fixpoint pouts_eqb (a b : list pout) : list bool :=
  match a, b with
  | x :: r, y :: s => pout_eqb x y :: pouts_eqb r s
  | [], [] => []
  | _, _ => [false]
  end.
(* what a Gen file prints for one history: positions of the calls whose observed outcome differs *)
Definition hcheck (p n f : bool) (ops : list hop) (observed : list pout) : list Z :=
  failing (pouts_eqb (hrun p n f st0 ops) observed).

(* ---- the static facts of the model against the source text -------------------------------------
   harness/c07_translate.py reads cherab/openadas/openadas.py with Python's ast on every run and emits
   one row per rate accessor (fail-closed: any statement it does not recognise makes the row false).
   A row records what the source does; src_ok compares it with the tables this model is built on. *)
Record srcrow := mksrc {
  s_acc : accessor;
  s_photon : bool;      (* self.wavelength(...) is called and its result handed to the rate class *)
  s_two : bool;         (* two species parameters *)
  s_wlslot : Z;         (* which species parameter (1 / 2) is handed, UNREDUCED, to self.wavelength; 0: none *)
  s_reduce : bool;      (* every species argument of repository.get_* is the element of the parameter *)
  s_catch : bool;       (* the repository call sits in try / except RuntimeError *)
  s_null : bool;        (* the handler returns a Null* rate iff self._missing_rates_return_null, else re-raises *)
  s_permit : bool       (* the rate class gets extrapolate=self._permit_extrapolation *)
}.
Definition wl_slot_of (a : accessor) : Z :=
  if photon a then (match a with ABeamCXPEC | AThermalCXPEC => 2 | _ => 1 end)%Z else 0%Z.
Definition src_row_ok (r : srcrow) : bool :=
  Bool.eqb (s_photon r) (photon (s_acc r)) && Bool.eqb (s_two r) (two_slot (s_acc r))
  && Z.eqb (s_wlslot r) (wl_slot_of (s_acc r)) && s_reduce r && s_catch r && s_null r && s_permit r.
Definition src_ok (wavelength_method_ok : bool) (rows : list srcrow) : bool :=
  wavelength_method_ok && forallb src_row_ok rows
  && forallb (fun a => accessor_eqb a AWavelength || existsb (fun r => accessor_eqb (s_acc r) a) rows) all_accessors.

(* ---- linear-time form of wf_on for a table whose rows are listed in the order of the cases (what the
   harness emits); sound for wf_on by Proofs/C07_Policy.v: wf_aligned_sound ---- *)
Fixpoint wf_aligned (cs : list pcase) (t : ptable) : bool :=
  match cs, t with
  | [], [] => true
  | c :: cr, (c', o) :: tr => pcase_eqb c c' && spec_ok c o && wf_aligned cr tr
  | _, _ => false
  end.
Fixpoint cases_aligned (cs : list pcase) (t : ptable) : bool :=
  match cs, t with
  | [], [] => true
  | c :: cr, (c', _) :: tr => pcase_eqb c c' && cases_aligned cr tr
  | _, _ => false
  end.
Definition tminus (t : ptable) (excl : list pcase) : ptable :=
  filter (fun r => negb (existsb (pcase_eqb (fst r)) excl)) t.
