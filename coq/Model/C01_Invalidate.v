(* Model for C01: a scene configuration with lazily (re)built derived data and per-setter
   invalidation (definitions only).

   A field is a public settable attribute (identified by a number); its value is abstracted to a
   version number (the identity of the value last assigned).  A datum is a piece of derived state
   (material, bounding geometry, model cache, attenuation profile, binned spectrum ...) that a
   from-scratch build computes from the fields [deps d].  The setter of field f discards the data
   [inval f] (the invalidation table, extracted from the running implementation on every run).
   Observing fills every missing datum from the current configuration and returns, for every
   datum, the versions of the fields it was built from. *)
From Coq Require Import List Arith Bool Lia.
Import ListNotations.

Definition field := nat.
Definition datum := nat.
Definition config := field -> nat.
Definition snapshot := list nat.
Definition cache := datum -> option snapshot.

Section Table.
  Variable ndata : nat.
  Variable deps : datum -> list field.
  Variable inval : field -> list datum.

  Definition mem (x : nat) (l : list nat) : bool := existsb (Nat.eqb x) l.

  Definition proj (c : config) (d : datum) : snapshot := map c (deps d).

  Record state := { cfg : config; cch : cache }.

  Inductive op := Set_ (f : field) | Observe.

  Definition bump (c : config) (f : field) : config := fun g => if Nat.eqb g f then S (c g) else c g.

  Definition do_set (s : state) (f : field) : state :=
    {| cfg := bump (cfg s) f;
       cch := fun d => if mem d (inval f) then None else cch s d |}.

  Definition fill (s : state) : state :=
    {| cfg := cfg s;
       cch := fun d => match cch s d with Some x => Some x | None => Some (proj (cfg s) d) end |}.

  (* what an observation sees: for every datum the snapshot it is (now) built from *)
  Definition view (s : state) : list (option snapshot) := map (cch s) (seq 0 ndata).
  Definition fresh_view (c : config) : list (option snapshot) := map (fun d => Some (proj c d)) (seq 0 ndata).

  Definition step (s : state) (o : op) : state * list (option snapshot) :=
    match o with
    | Set_ f => (do_set s f, [])
    | Observe => let s' := fill s in (s', view s')
    end.

  Definition init (c : config) : state := {| cfg := c; cch := fun _ => None |}.

  (* run a history; collect, for every Observe, (what was seen, what a fresh scene would show) *)
  Fixpoint run (s : state) (ops : list op) : list (list (option snapshot) * list (option snapshot)) :=
    match ops with
    | [] => []
    | o :: t => let (s', out) := step s o in
                match o with
                | Observe => (out, fresh_view (cfg s')) :: run s' t
                | Set_ _ => run s' t
                end
    end.
  Fixpoint final (s : state) (ops : list op) : state :=
    match ops with [] => s | o :: t => final (fst (step s o)) t end.

  (* the per-setter obligation: every datum that reads f is discarded by the setter of f *)
  Definition covers (nfields : nat) : bool :=
    forallb (fun d => forallb (fun f => mem d (inval f)) (deps d)) (seq 0 ndata).

  (* executable staleness report used by the correspondence: data whose snapshot differs from fresh *)
  Definition snap_eqb (a b : option snapshot) : bool :=
    match a, b with
    | Some x, Some y => (length x =? length y) && forallb (fun p => Nat.eqb (fst p) (snd p)) (combine x y)
    | None, None => true
    | _, _ => false
    end.
  Definition stale_data (seen fresh : list (option snapshot)) : list nat :=
    map fst (filter (fun p => negb (snap_eqb (fst (snd p)) (snd (snd p)))) (combine (seq 0 ndata) (combine seen fresh))).
  Definition stale_report (c0 : config) (ops : list op) : list (list nat) :=
    map (fun p => stale_data (fst p) (snd p)) (run (init c0) ops).
End Table.

