(* C18 -- executable model of the laser profiles of cherab/core/model/laser/profile.pyx,
   the functions of cherab/core/model/laser/math_functions.pyx they install, the geometry
   generator generate_segmented_cylinder, and the part of cherab/core/laser/node.pyx that keeps
   the segments of the Laser node in step with the profile (notifier -> configure_geometry).
   Definitions only.

   Conventions.
   * All arithmetic is exact (Q).  The speed of light [c], pi, sqrt((2 pi)^3) and exp are
     parameters; the theorems hold for every value / function with the listed hypotheses, the
     correspondence instantiates them with the doubles of the running system.
   * A profile object is [pstate]: the private attributes (one Q per attribute, [pvals]), the
     argument of the last set_polarization, a description [edfun] of the Function3D object that is
     currently installed by set_energy_density_function, and the segments currently parented to
     the Laser node the profile is attached to.
   * A setter call is [step]; it returns the new state and what Python would report
     (ROk / RValue = ValueError / RAttr = no such attribute in this class). *)
Require Import Cherab.Common.Qx.
From Coq Require Import Qround Qabs.
Open Scope Q_scope.

(* ------------------------------------------------------------------------------------------ *)
(* generate_segmented_cylinder(radius, length)      profile.pyx, last function                  *)
(* ------------------------------------------------------------------------------------------ *)
(* n_segments = int(length // (2 * radius)) *)
Definition n_segments (r L : Q) : Z := Qfloor (L / (2 * r)).

(* one segment = (z offset of its base, height) *)
Definition seg_at (h : Q) (i : nat) : Q * Q := (inject_Z (Z.of_nat i) * h, h).

Definition segments (r L : Q) : option (list (Q * Q)) :=
  let n := n_segments r L in
  if (1 <? n)%Z then                       (* if n_segments > 1: n cylinders of length / n *)
    let h := L / inject_Z n in
    Some (map (seg_at h) (seq 0 (Z.to_nat n)))
  else if (0 <=? n)%Z then Some [(0, L)]    (* elif 0 <= n_segments < 2: one cylinder *)
  else None.                                (* else: raise ValueError *)

(* number of segments whose half-open z-interval contains z *)
Definition covers (z : Q) (s : Q * Q) : bool :=
  Qle_bool (fst s) z && negb (Qle_bool (fst s + snd s) z).
Definition cover_count (z : Q) (l : list (Q * Q)) : nat := length (filter (covers z) l).

(* ------------------------------------------------------------------------------------------ *)
(* profile objects                                                                              *)
(* ------------------------------------------------------------------------------------------ *)
Inductive pkind := KUniform | KBiv | KTri | KBeam.
(* UniformEnergyDensity | ConstantBivariateGaussian | TrivariateGaussian | GaussianBeamAxisymmetric *)

(* private attributes: _energy_density _pulse_energy _pulse_length _stddev_x _stddev_y _stddev_z
   _mean_z _waist_z _stddev_waist _laser_wavelength _laser_radius _laser_length *)
Inductive fld := Fed | Fpe | Fpl | Fsx | Fsy | Fsz | Fmz | Fwz | Fsw | Fwl | Frad | Flen.

Record pvals := mkV {
  v_ed : Q; v_pe : Q; v_pl : Q; v_sx : Q; v_sy : Q; v_sz : Q;
  v_mz : Q; v_wz : Q; v_sw : Q; v_wl : Q; v_rad : Q; v_len : Q }.

Definition get (f : fld) (a : pvals) : Q :=
  match f with
  | Fed => v_ed a | Fpe => v_pe a | Fpl => v_pl a | Fsx => v_sx a | Fsy => v_sy a | Fsz => v_sz a
  | Fmz => v_mz a | Fwz => v_wz a | Fsw => v_sw a | Fwl => v_wl a | Frad => v_rad a | Flen => v_len a
  end.

Definition fld_eqb (f g : fld) : bool :=
  match f, g with
  | Fed, Fed | Fpe, Fpe | Fpl, Fpl | Fsx, Fsx | Fsy, Fsy | Fsz, Fsz
  | Fmz, Fmz | Fwz, Fwz | Fsw, Fsw | Fwl, Fwl | Frad, Frad | Flen, Flen => true
  | _, _ => false
  end.

Definition mkvals (h : fld -> Q) : pvals :=
  mkV (h Fed) (h Fpe) (h Fpl) (h Fsx) (h Fsy) (h Fsz) (h Fmz) (h Fwz) (h Fsw) (h Fwl) (h Frad) (h Flen).

Definition set (f : fld) (v : Q) (a : pvals) : pvals :=
  mkvals (fun g => if fld_eqb f g then v else get g a).

(* the Function3D installed as energy density:
   Constant3D(v) | norm * ConstantBivariateGaussian3D(sx, sy) | norm * TrivariateGaussian3D(mean, sx, sy, sz)
   | norm * GaussianBeamModel(wavelength, waist_z, stddev_waist) *)
Inductive edfun :=
| FUnset
| FConst (v : Q)
| FBiv (norm sx sy : Q)
| FTri (norm mean sx sy sz : Q)
| FBeam (norm wl waist sw : Q).

Definition vec := (Q * Q * Q)%type.

Record pstate := mkP {
  kind : pkind;
  vals : pvals;
  pol : vec;                          (* argument of the last set_polarization (normalised on use) *)
  efun : edfun;                       (* _energy_density3d *)
  att : bool;                         (* attached to a Laser node (its configure_geometry listens) *)
  geom : option (list (Q * Q)) }.     (* segments currently parented to that node *)

Definition with_vals (s : pstate) (a : pvals) := mkP (kind s) a (pol s) (efun s) (att s) (geom s).
Definition with_pol (s : pstate) (p : vec) := mkP (kind s) (vals s) p (efun s) (att s) (geom s).
Definition with_fun (s : pstate) (f : edfun) := mkP (kind s) (vals s) (pol s) f (att s) (geom s).
Definition with_geom (s : pstate) (a : bool) (g : option (list (Q * Q))) :=
  mkP (kind s) (vals s) (pol s) (efun s) a g.

Inductive res := ROk | RValue | RAttr | RZero | RType.      (* RZero = ZeroDivisionError, RType = TypeError *)
Definition res_code (r : res) : Z := match r with ROk => 0 | RValue => 1 | RAttr => 2 | RZero => 3 | RType => 4 end.

Inductive pop :=
| PSet (f : fld) (v : Q)              (* obj.<property> = v *)
| PSetPol (p : vec)                   (* obj.set_polarization(Vector3D(p)) *)
| PAttach                             (* laser.laser_profile = obj   (again, on the same Laser node) *)
| PBad (t : option fld).              (* obj.<property> = "3" / None / [1.0]  (Some f);  obj.set_polarization((0, 1, 0))  (None):
                                         a value that is not a number / not a Vector3D *)

(* Vector3D.normalise raises ZeroDivisionError for the zero vector *)
Definition vec_is_zero (p : vec) : bool :=
  let '(x, y, z) := p in Qeq_bool (x * x + y * y + z * z) 0.

Section WithC.
Variable c : Q.                        (* SPEED_OF_LIGHT *)

(* self.notifier.notify(): Laser.configure_geometry -> _build_geometry -> generate_geometry() *)
Definition notify (s : pstate) : pstate :=
  if att s then with_geom s true (segments (v_rad (vals s)) (v_len (vals s))) else s.

(* laser.laser_profile = profile *)
Definition attach (s : pstate) : pstate :=
  with_geom s true (segments (v_rad (vals s)) (v_len (vals s))).

(* _function_changed of the three Gaussian classes.  GaussianBeamModel.__init__ runs its own
   setters, which raise for wavelength <= 0 and then for stddev_waist <= 0. *)
Definition function_changed (s : pstate) : pstate * res :=
  let a := vals s in
  match kind s with
  | KUniform => (s, ROk)
  | KBiv => (with_fun s (FBiv (v_pe a / (c * v_pl a)) (v_sx a) (v_sy a)), ROk)
  | KTri => (with_fun s (FTri (v_pe a) (v_mz a) (v_sx a) (v_sy a) (v_sz a)), ROk)
  | KBeam =>
      if Qle_bool (v_wl a) 0 then (s, RValue)
      else if Qle_bool (v_sw a) 0 then (s, RValue)
      else (with_fun s (FBeam (v_pe a / (c * v_pl a)) (v_wl a) (v_wz a) (v_sw a)), ROk)
  end.

(* which properties a class has, and whether its setter starts with "if value <= 0: raise" *)
Definition has_field (k : pkind) (f : fld) : bool :=
  match k, f with
  | _, Frad | _, Flen => true
  | KUniform, Fed => true
  | KBiv, Fpe | KBiv, Fpl | KBiv, Fsx | KBiv, Fsy => true
  | KTri, Fpe | KTri, Fpl | KTri, Fsx | KTri, Fsy | KTri, Fmz => true
  | KBeam, Fpe | KBeam, Fpl | KBeam, Fwz | KBeam, Fsw | KBeam, Fwl => true
  | _, _ => false
  end.

Definition guarded (k : pkind) (f : fld) : bool :=
  match k, f with
  | KTri, Fmz => false
  | KBeam, Fwz | KBeam, Fsw | KBeam, Fwl => false
  | _, _ => true
  end.

(* what a setter does after the assignment (source: the setter bodies of profile.pyx; the table is
   regenerated from the current source on every run and compared by the kernel, coq/Gen/C18/Policy.v):
   ANotify = self.notifier.notify();  AConst = install Constant3D(value);
   AFunc = self._function_changed();  AFuncSz = _stddev_z = value * SPEED_OF_LIGHT, then _function_changed() *)
Inductive act := ANone | ANotify | AConst | AFunc | AFuncSz.
Definition action (k : pkind) (f : fld) : act :=
  match k, f with
  | _, Frad | _, Flen => ANotify
  | KUniform, Fed => AConst
  | KBiv, Fpe | KBiv, Fpl | KBiv, Fsx | KBiv, Fsy => AFunc
  | KTri, Fpl => AFuncSz
  | KTri, Fpe | KTri, Fsx | KTri, Fsy | KTri, Fmz => AFunc
  | KBeam, Fpe | KBeam, Fpl | KBeam, Fwz | KBeam, Fsw | KBeam, Fwl => AFunc
  | _, _ => ANone
  end.

Definition step (s : pstate) (o : pop) : pstate * res :=
  match o with
  | PSetPol p => (with_pol s p, ROk)       (* for a non-zero vector, see [pstep] *)
  | PAttach => (attach s, ROk)             (* listener removed and added again, configure_geometry() *)
  | PBad None => (s, RType)                (* argument conversion to Vector3D fails before the body runs *)
  | PBad (Some f) =>                       (* unknown attribute of a cdef class: AttributeError; otherwise the conversion to
                                              double (typed setters) or the comparison value <= 0 raises TypeError first *)
      if has_field (kind s) f then (s, RType) else (s, RAttr)
  | PSet f v =>
      if negb (has_field (kind s) f) then (s, RAttr)
      else if guarded (kind s) f && Qle_bool v 0 then (s, RValue)
      else
        let s1 := with_vals s (set f v (vals s)) in
        match action (kind s) f with
        | ANone => (s, RAttr)
        | ANotify => (notify s1, ROk)
        | AConst => (with_fun s1 (FConst v), ROk)                                   (* Constant3D(value) *)
        | AFuncSz => function_changed (with_vals s1 (set Fsz (v * c) (vals s1)))    (* _stddev_z = tau * c *)
        | AFunc => function_changed s1
        end
  end.

(* a public call: set_polarization normalises its argument first (value.normalise()), which raises
   for the zero vector before anything is assigned *)
Definition pstep (s : pstate) (o : pop) : pstate * res :=
  match o with
  | PSetPol p => if vec_is_zero p then (s, RZero) else step s o
  | _ => step s o
  end.

Fixpoint run (s : pstate) (ops : list pop) : pstate * list res :=
  match ops with
  | [] => (s, [])
  | o :: t => let (s1, r) := pstep s o in let (s2, rs) := run s1 t in (s2, r :: rs)
  end.

(* ---- several Laser nodes share one profile ------------------------------------------------------------
   [base] is the profile with its first node as before; [extras] are the segments held by further Laser nodes
   whose configure_geometry listens to the same notifier.  A notification ([fires]: an accepted setter whose
   action is ANotify) rebuilds the geometry of every listening node; laser2.laser_profile = obj adds a node
   (built from the current parameters); a node that is given another profile stops listening and leaves. *)
Inductive mop :=
| MOp (o : pop)                 (* a call on the profile *)
| MAttachNode                   (* Laser(...).laser_profile = obj   (a further node) *)
| MReplaceNode (i : nat).       (* extra node i: node.laser_profile = <another profile> *)

Record mstate := mkM { base : pstate; extras : list (option (list (Q * Q))) }.

Definition cur_segments (s : pstate) : option (list (Q * Q)) := segments (v_rad (vals s)) (v_len (vals s)).

Definition fires (k : pkind) (o : pop) (r : res) : bool :=
  match o, r with
  | PSet f _, ROk => match action k f with ANotify => true | _ => false end
  | _, _ => false
  end.

Fixpoint remove_nth {A} (i : nat) (l : list A) : list A :=
  match i, l with
  | _, [] => []
  | O, _ :: t => t
  | S j, x :: t => x :: remove_nth j t
  end.

Definition mstep (m : mstate) (o : mop) : mstate * res :=
  match o with
  | MOp o' =>
      let (s', r) := pstep (base m) o' in
      (mkM s' (if fires (kind (base m)) o' r then map (fun _ => cur_segments s') (extras m) else extras m), r)
  | MAttachNode => (mkM (base m) (extras m ++ [cur_segments (base m)]), ROk)
  | MReplaceNode i => (mkM (base m) (remove_nth i (extras m)), ROk)
  end.

Fixpoint mrun (m : mstate) (ops : list mop) : mstate * list res :=
  match ops with
  | [] => (m, [])
  | o :: t => let (m1, r) := mstep m o in let (m2, rs) := mrun m1 t in (m2, r :: rs)
  end.

(* ---- constructors: the raw assignments of __init__, then its setter calls in source order ---- *)
Record pargs := mkA { a_vals : pvals; a_pol : vec }.

Definition zero_vals : pvals := mkvals (fun _ => 0).

(* __init__ as a script, statement by statement in source order (regenerated from the source on every
   run and compared by the kernel, coq/Gen/C18/Policy.v):
   IRawC f q : self._f = <literal q>     IRawA f : self._f = <the constructor argument>
   ISet f    : self.f = <argument>  (the property setter)      IPol : self.set_polarization(polarization)
   (set_pointing_function(ConstantVector3D(Vector3D(0, 0, 1))) has no effect on the modelled state) *)
Inductive itok := IRawC (f : fld) (q : Q) | IRawA (f : fld) | ISet (f : fld) | IPol.

Definition init_script (k : pkind) : list itok :=
  match k with
  | KUniform => [IPol; ISet Fed; IRawC Frad (1 # 20); IRawC Flen 1; ISet Frad; ISet Flen]
  | KBiv => [IRawC Fpe 1; IRawC Fpl 1; IRawC Fsx (1 # 10); IRawC Fsy (1 # 10); IRawC Frad (1 # 20); IRawC Flen 1;
             ISet Frad; ISet Flen; IPol; ISet Fsx; ISet Fsy; ISet Fpe; ISet Fpl; IPol]
  | KTri => [IRawC Fpe 1; IRawC Fpl 1; IRawC Fsx (1 # 10); IRawC Fsy (1 # 10); IRawC Fsz 1; IRawC Frad (1 # 20);
             IRawC Flen 1; IRawA Fmz; ISet Frad; ISet Flen; ISet Fsx; ISet Fsy; ISet Fmz; ISet Fpe; ISet Fpl; IPol]
  | KBeam => [IRawC Fpe 1; IRawC Fpl 1; IRawC Fsw (1 # 10); IRawA Fwz; IRawC Fwl 1000; IRawC Frad (1 # 20);
              IRawC Flen 1; ISet Flen; ISet Frad; IPol; ISet Fsw; ISet Fwz; ISet Fpe; ISet Fpl; ISet Fwl]
  end.

(* an exception in __init__ aborts the construction *)
Fixpoint run_script (s : pstate) (a : pargs) (l : list itok) : option pstate :=
  match l with
  | [] => Some s
  | t :: r =>
      match t with
      | IRawC f q => run_script (with_vals s (set f q (vals s))) a r
      | IRawA f => run_script (with_vals s (set f (get f (a_vals a)) (vals s))) a r
      | ISet f => match step s (PSet f (get f (a_vals a))) with (s1, ROk) => run_script s1 a r | _ => None end
      | IPol => match step s (PSetPol (a_pol a)) with (s1, ROk) => run_script s1 a r | _ => None end
      end
  end.

(* Class(args) followed by laser.laser_profile = obj; None = the constructor raised *)
Definition construct0 (k : pkind) (a : pargs) : option pstate :=
  match run_script (mkP k zero_vals (0, 0, 0) FUnset false None) a (init_script k) with
  | Some s => Some (attach s)
  | None => None
  end.

(* every constructor hands its polarization argument to set_polarization: a zero vector raises *)
Definition construct (k : pkind) (a : pargs) : option pstate :=
  if vec_is_zero (a_pol a) then None else construct0 k a.

(* the constructor arguments that reproduce the object's current reported parameters *)
Definition args_of (s : pstate) : pargs := mkA (vals s) (pol s).

End WithC.

(* ------------------------------------------------------------------------------------------ *)
(* evaluation of the installed function (math_functions.pyx)                                    *)
(* ------------------------------------------------------------------------------------------ *)
Section Eval.
Variable pi : Q.
Variable s2pi3 : Q.                  (* sqrt((2 * pi) ** 3) *)
Variable expo : Q -> Q.

Definition sq (x : Q) : Q := x * x.

(* ConstantBivariateGaussian3D: _kx = -1/(2 sx^2), _ky, _normalisation = 1/(2 pi sx sy) *)
Definition biv_eval (sx sy x y : Q) : Q :=
  (1 / (2 * pi * sx * sy)) * expo (sq x * (-1 / (2 * sq sx)) + sq y * (-1 / (2 * sq sy))).

(* TrivariateGaussian3D *)
Definition tri_eval (m sx sy sz x y z : Q) : Q :=
  (1 / (s2pi3 * sx * sy * sz)) *
  expo (sq x * (-1 / (2 * sq sx)) + sq y * (-1 / (2 * sq sy)) + sq (z - m) * (-1 / (2 * sq sz))).

(* GaussianBeamModel: _rayleigh_range = 2 pi n sw^2 / wavelength / 1e-9;
   stddev_z2 = sw^2 (1 + (z'/zR)^2);  1/(2 pi stddev_z2) * exp(r2 / (-2 stddev_z2)) *)
Definition nm : Q := 1 # 1000000000.
Definition rayleigh (wl sw : Q) : Q := 2 * pi * 1 * sq sw / wl / nm.
Definition beam_var (wl wz sw z : Q) : Q := sq sw * (1 + sq ((z - wz) / rayleigh wl sw)).
Definition beam_eval (wl wz sw x y z : Q) : Q :=
  let v := beam_var wl wz sw z in
  1 / (2 * pi * v) * expo ((sq x + sq y) / (-2 * v)).

(* get_energy_density(x, y, z); None = no function installed *)
Definition ed_eval (f : edfun) (x y z : Q) : option Q :=
  match f with
  | FUnset => None
  | FConst v => Some v
  | FBiv n sx sy => Some (n * biv_eval sx sy x y)
  | FTri n m sx sy sz => Some (n * tri_eval m sx sy sz x y z)
  | FBeam n wl wz sw => Some (n * beam_eval wl wz sw x y z)
  end.

(* the argument handed to exp (used by the correspondence to validate the oracle table) *)
Definition exp_arg (f : edfun) (x y z : Q) : Q :=
  match f with
  | FBiv _ sx sy => sq x * (-1 / (2 * sq sx)) + sq y * (-1 / (2 * sq sy))
  | FTri _ m sx sy sz => sq x * (-1 / (2 * sq sx)) + sq y * (-1 / (2 * sq sy)) + sq (z - m) * (-1 / (2 * sq sz))
  | FBeam _ wl wz sw => (sq x + sq y) / (-2 * beam_var wl wz sw z)
  | _ => 0
  end.

End Eval.

(* get_polarization: ConstantVector3D(value.normalise()); [len] is sqrt(x^2+y^2+z^2) *)
Definition pol_eval (len : Q) (p : vec) : vec :=
  let '(x, y, z) := p in (x / len, y / len, z / len).
Definition norm2 (p : vec) : Q := let '(x, y, z) := p in x * x + y * y + z * z.
