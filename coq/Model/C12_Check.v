(* Executable comparators used by the correspondence check of C12 (definitions only).

   One case = one 3-D point (x, y, z) of one equilibrium with one set of profiles.  The functions
   the model does not contain (interpolated psi, polygon mask, interpolated d psi, f profile, the
   1-D profiles, sqrt, cos/sin of the toroidal angle) are instantiated by one-entry tables holding
   the values the running system returned at exactly the arguments the model must ask for: a
   function asked at any other argument returns [poison], which no implementation output matches.
   Keys that the model computes exactly but the implementation computes in floating point (the
   argument of sqrt, psi_n as argument of a profile) are matched within [key_tol] (relative). *)
Require Import Cherab.Common.Qx.
Require Import Cherab.Model.C12_Equilibrium Cherab.Model.C12_Gradient.
From Coq Require Import Qabs.
Open Scope Q_scope.

Definition poison : Q := Qmake (Z.pow 2 300) 1.
Definition key_tol : Q := pow2 (-36).
Definition near (k a : Q) : bool := Qle_bool (Qabs (k - a)) (key_tol * Qabs k).

Fixpoint near_lookup (tbl : list (Q * Q)) (a : Q) : Q :=
  match tbl with
  | [] => poison
  | (k, v) :: t => if near k a then v else near_lookup t a
  end.

Definition at2 (r0 z0 v : Q) : Q -> Q -> Q :=
  fun r z => if Qeq_bool r r0 && Qeq_bool z z0 then v else poison.
Definition at1 (tol k v : Q) : Q -> Q := fun p => if Qle_bool (Qabs (k - p)) tol then v else poison.

Record case := C12case {
  c_axis : Q; c_lcfs : Q; c_bvr : Q; c_bvm : Q;
  c_x : Q; c_y : Q; c_z : Q;
  c_sqrt : list (Q * Q);          (* (exact x^2+y^2, radius used by the implementation's mapper); (b_r^2+b_z^2 in floats, libm sqrt) *)
  c_r : Q;                        (* the radius the implementation's axisymmetric mapper handed to the 2-D function *)
  c_psi : Q; c_poly : Q; c_dr : Q; c_dz : Q;      (* the four 2-D functions at (c_r, c_z) *)
  c_pkey : Q;                     (* the implementation's psi_n(c_r, c_z): key of the 1-D tables *)
  c_f : Q; c_prof : Q; c_vt : Q; c_vp : Q; c_vn : Q;   (* f profile and the four profiles at c_pkey *)
  c_cs : Q * Q;                   (* cos, sin of radians(degrees(atan2 y x)) from libm *)
  c_out : Q; c_outv : vec;
  (* outputs of the implementation *)
  o_psin : Q; o_inside : Q; o_map2d : Q; o_map3d : Q;
  o_b : vec; o_tor : vec; o_pol : vec; o_nor : vec; o_v2 : vec; o_v3 : vec;
  (* 0, or the 3-D stage (4 = map3d, 10 = map_vector3d) whose mapper used a radius other than c_r: that
     stage is compared in a second case built on its own radius *)
  c_skip : Z }.

(* tolerance on psi_n: the code interpolates the normalised grid, the model normalises the
   interpolated psi; both are cubic interpolations of data of size |psi|, |psi_axis| divided by
   |psi_lcfs - psi_axis| *)
Definition psin_tol (c : case) : Q :=
  pow2 (-40) + pow2 (-38) * ((Qabs (c_psi c) + Qabs (c_axis c) + Qabs (c_lcfs c)) / Qabs (c_lcfs c - c_axis c)).

Definition env_of (c : case) : env :=
  {| e_psi_axis := c_axis c; e_psi_lcfs := c_lcfs c;
     e_psi := at2 (c_r c) (c_z c) (c_psi c);
     e_poly := at2 (c_r c) (c_z c) (c_poly c);
     e_dpsidr := at2 (c_r c) (c_z c) (c_dr c);
     e_dpsidz := at2 (c_r c) (c_z c) (c_dz c);
     e_fprof := at1 (psin_tol c) (c_pkey c) (c_f c);
     e_bvac_r := c_bvr c; e_bvac_m := c_bvm c;
     e_sqrt := near_lookup (c_sqrt c);
     e_cs := fun x y => if Qeq_bool x (c_x c) && Qeq_bool y (c_y c) then c_cs c else (poison, poison);
     e_slerp := fun _ _ _ => V poison poison poison |}.

Definition vmaxabs (v : vec) : Q := Qmaxabs (Qmaxabs (vx v) (vy v)) (vz v).
Definition vclose (rel abs : Q) (m i : vec) : bool :=
  let tol := abs + rel * Qmaxabs (vmaxabs m) (vmaxabs i) in
  Qle_bool (Qabs (vx m - vx i)) tol && Qle_bool (Qabs (vy m - vy i)) tol && Qle_bool (Qabs (vz m - vz i)) tol.
Definition ovclose (rel abs : Q) (m : option vec) (i : vec) : bool :=
  match m with Some v => vclose rel abs v i | None => false end.
Definition veqb (m i : vec) : bool := Qeq_bool (vx m) (vx i) && Qeq_bool (vy m) (vy i) && Qeq_bool (vz m) (vz i).

(* every square root the running system took (sqrt, or hypot for the mapper radius): s >= 0 and s*s within
   2^-49 (relative) of the argument, i.e. s within 2^-50 of the exact root -- any last-bit choice passes;
   cos/sin: (c, s) * r within 2^-40 r of (x, y) *)
Definition sqrt_entry_ok (e : Q * Q) : bool :=
  Qle_bool 0 (snd e) && Qle_bool (Qabs (snd e * snd e - fst e)) (pow2 (-49) * Qabs (fst e)).
Definition oracles_ok (c : case) : bool :=
  forallb sqrt_entry_ok (c_sqrt c) &&
  (let cc := fst (c_cs c) in let ss := snd (c_cs c) in let r := c_r c in
   Qle_bool (Qabs (cc * r - c_x c)) (pow2 (-40) * r) && Qle_bool (Qabs (ss * r - c_y c)) (pow2 (-40) * r)).

(* margin of the float comparison psi_n <= 1 (the clamp at 0 is covered by the tolerances): below the
   tolerance the case is ambiguous, unless model and implementation both have exactly 1 *)
Definition ambiguous (c : case) : bool :=
  let raw := psin_raw (env_of c) (c_r c) (c_z c) in
  Qle_bool (Qabs (raw - 1)) (psin_tol c) && negb (Qeq_bool raw 1 && Qeq_bool (o_psin c) 1).

Definition rel_v : Q := pow2 (-40).

(* result code: 0 = agrees; -1 = ambiguous (margin below tolerance; skipped); 90 = oracle table
   inconsistent (harness fault); otherwise the first stage that disagrees *)
Definition check_case (c : case) : Z :=
  let E := env_of c in
  let r := c_r c in let z := c_z c in
  let scale := Qabs (c_vt c) + Qabs (c_vp c) + Qabs (c_vn c) in
  let prof := at1 (psin_tol c) (c_pkey c) (c_prof c) in
  let vt := at1 (psin_tol c) (c_pkey c) (c_vt c) in let vp := at1 (psin_tol c) (c_pkey c) (c_vp c) in
  let vn := at1 (psin_tol c) (c_pkey c) (c_vn c) in
  if negb (oracles_ok c) then 90%Z
  else if negb (Qeq_bool (e_sqrt E (c_x c * c_x c + c_y c * c_y c)) r) then 91%Z
  else if negb (Qle_bool (Qabs (psi_n E r z - o_psin c)) (psin_tol c)) then 1%Z
  else if ambiguous c then (-1)%Z
  else if negb (Qeq_bool (inside_lcfs E r z) (o_inside c)) then 2%Z
  else if negb (Qeq_bool (map2d E prof (c_out c) r z) (o_map2d c)) then 3%Z
  else if negb (Z.eqb (c_skip c) 4) && negb (Qeq_bool (map3d E prof (c_out c) (c_x c) (c_y c) z) (o_map3d c)) then 4%Z
  else if negb (vclose rel_v 0 (b_field E r z) (o_b c)) then 5%Z
  else if negb (veqb (toroidal_vector r z) (o_tor c)) then 6%Z
  else if negb (ovclose rel_v 0 (poloidal_vector E r z) (o_pol c)) then 7%Z
  else if negb (ovclose rel_v 0 (surface_normal E r z) (o_nor c)) then 8%Z
  else if negb (ovclose 0 (rel_v * scale) (map_vector2d E vt vp vn (c_outv c) r z) (o_v2 c)) then 9%Z
  else if negb (Z.eqb (c_skip c) 10) && negb (ovclose 0 (rel_v * (scale + vmaxabs (c_outv c))) (map_vector3d E vt vp vn (c_outv c) (c_x c) (c_y c) z) (o_v3 c)) then 10%Z
  else 0%Z.

(* ---- derivative grids: the implementation's d psi interpolator evaluated at a grid node against
   the model's np.gradient line (axis = coordinate samples, col = psi samples along that axis) *)
Definition lmaxabs (l : list Q) : Q := fold_right (fun x m => Qmaxabs x m) 0 l.
Definition check_grad (axis col : list Q) (i : nat) (impl : Q) : bool :=
  let m := nth i (dgrid axis col) 0 in
  Qle_bool (Qabs (m - impl)) (pow2 (-38) * lmaxabs col * Qabs (1 / grad_at axis i) + pow2 (-40) * Qabs m).
