(* Model of EFITEquilibrium._calculate_differentials (efit.pyx:173-183): the grids handed to the
   two derivative interpolators.  One line of the grid along the differentiated axis:
     np.gradient(f, edge_order=2)      (unit spacing: second-order one-sided differences at both ends,
                                        central differences inside; needs >= 3 samples)
     dix_dr = 1.0 / np.gradient(r, edge_order=2)
     dpsi_dr[:, j] = np.gradient(psi, axis 0)[:, j] * dix_dr
   Definitions only. *)
Require Import Cherab.Common.Qx.
Open Scope Q_scope.

Definition nthq (l : list Q) (i : nat) : Q := nth i l 0.

Definition grad_at (l : list Q) (i : nat) : Q :=
  let n := length l in
  if Nat.eqb i 0 then - (3 # 2) * nthq l 0 + 2 * nthq l 1 - (1 # 2) * nthq l 2
  else if Nat.eqb i (n - 1) then (3 # 2) * nthq l (n - 1) - 2 * nthq l (n - 2) + (1 # 2) * nthq l (n - 3)
  else (nthq l (i + 1) - nthq l (i - 1)) / 2.

Definition grad1 (l : list Q) : list Q := map (grad_at l) (seq 0 (length l)).

(* derivative samples along one grid line: axis = the coordinate samples, col = the psi samples *)
Definition dgrid (axis col : list Q) : list Q :=
  map (fun i => grad_at col i * (1 / grad_at axis i)) (seq 0 (length col)).

Definition axis_uniform (x0 h : Q) (n : nat) : list Q :=
  map (fun i => x0 + inject_Z (Z.of_nat i) * h) (seq 0 n).
