(* C07 -- executable instance of the oracles and the comparators used by the correspondence.
   Definitions only.

   Instance: the log domain is represented multiplicatively, L := Q with lg v := v, ex a := |a|,
   ladd := multiplication; the interpolators return the value stored at the knot whose coordinate
   equals the argument (knot 0 when there is none).  This instance obeys oracle_laws
   (Proofs/C07_Check.v), so every theorem of Properties/C07.v applies to what Coq computes here.
   Between knots and in the extrapolation region all members of the oracle class differ; there the
   comparator only asks for what the property asks: a finite, non-negative value. *)
Require Import Cherab.Common.Qx Cherab.Model.C07_Rates.
From Coq Require Import Qabs Uint63.
Open Scope Q_scope.

(* a double as (53-bit mantissa, binary exponent): m * 2^e exactly.  The mantissa is written as a primitive
   63-bit integer literal, which coqc reads ~5x faster than a Z literal of the numerator and the 2^k denominator;
   it is turned into Z / Q before anything is computed with it.  Only the generated case files use this. *)
Definition dq (m : int) (e : Z) : Q :=
  let z := Uint63.to_Z m in
  if (0 <=? e)%Z then Qmake (z * 2 ^ e) 1 else Qmake z (Z.to_pos (2 ^ (- e))).
Definition dqn (m : int) (e : Z) : Q := Qopp (dq m e).
Arguments dq m%uint63_scope e%Z_scope.
Arguments dqn m%uint63_scope e%Z_scope.

Definition xlg (v : Q) : Q := v.
Definition xex (a : Q) : Q := Qabs a.
Definition xadd (a b : Q) : Q := a * b.

Fixpoint find_up (fuel i : nat) (p : nat -> bool) : nat :=
  match fuel with O => O | S f => if p i then i else find_up f (S i) p end.
Definition find_idx (n : nat) (p : nat -> bool) : nat := find_up n O p.

Definition hit (k : nat -> Q) (x : Q) : nat -> bool := fun i => Qeq_bool (Qabs (k i)) (Qabs x).
Definition xinterp1 (n : nat) (k v : nat -> Q) (x : Q) : Q := v (find_idx n (hit k x)).
Definition xinterp2 (nx ny : nat) (kx ky : nat -> Q) (v : nat -> nat -> Q) (x y : Q) : Q :=
  v (find_idx nx (hit kx x)) (find_idx ny (hit ky y)).
Definition xinterp3 (nx ny nz : nat) (kx ky kz : nat -> Q) (v : nat -> nat -> nat -> Q) (x y z : Q) : Q :=
  v (find_idx nx (hit kx x)) (find_idx ny (hit ky y)) (find_idx nz (hit kz z)).
Definition xinterpq (n : nat) (k v : nat -> Q) (x : Q) : Q := v (find_idx n (fun i => Qeq_bool (k i) x)).

(* what the implementation did at one evaluation point *)
Inductive iout := IVal (q : Q) | IRaise | IBad.   (* finite double / ValueError / anything else (inf, nan, other exception) *)

Definition tol : Q := rel30.

(* guarded: some density/temperature/energy argument is <= 0  -> exactly 0
   node:    every argument sits on its axis                    -> the stored value after conversion, relative 2^-30
   else (strictly inside, or extrapolating)                    -> some finite value >= 0 *)
Definition cmp (guarded node : bool) (m : outcome) (i : iout) : bool :=
  match m, i with
  | Raise, IRaise => true
  | Val q, IVal v => if guarded then Qeq_bool v 0 else if node then close tol 0 q v else Qle_bool 0 v
  | _, _ => false
  end.

Definition on_axis (xs : list Q) (x : Q) : bool := existsb (Qeq_bool x) xs.
Definition on_free_axis (xs : list Q) (x : Q) : bool := single xs || on_axis xs x.
Definition posb (x : Q) : bool := negb (Qle_bool x 0).
Definition shape2 (tbl : list (list Q)) (n m : nat) : bool :=
  Nat.eqb (length tbl) n && forallb (fun r => Nat.eqb (length r) m && allposb r) tbl.
Definition shape3 (tbl : list (list (list Q))) (n m k : nat) : bool :=
  Nat.eqb (length tbl) n && forallb (fun p => shape2 p m k) tbl.

(* ---- 2-D rates ---- *)
Record rate2 := mk2 { r2_photon : bool; r2_cf : Q; r2_wl : Q; r2_ext : bool;
                      r2_xs : list Q; r2_ys : list Q; r2_tbl : list (list Q) }.
Definition wf2 (r : rate2) : bool :=
  axisb (r2_xs r) && axisb (r2_ys r) && shape2 (r2_tbl r) (length (r2_xs r)) (length (r2_ys r))
  && posb (r2_cf r) && posb (r2_wl r).
Definition model2 (r : rate2) (x y : Q) : outcome :=
  eval2 Q xlg xex xinterp2 (conv (r2_photon r) (r2_cf r) (r2_wl r)) (r2_ext r) (r2_xs r) (r2_ys r) (r2_tbl r) x y.
Definition pt2 (r : rate2) (x y : Q) (i : iout) : bool :=
  cmp (nonpos x || nonpos y) (on_axis (r2_xs r) x && on_axis (r2_ys r) y) (model2 r x y) i.

(* ---- 3-D rate ---- *)
Record rate3 := mk3 { r3_photon : bool; r3_cf : Q; r3_wl : Q; r3_ext : bool;
                      r3_xs : list Q; r3_ys : list Q; r3_zs : list Q; r3_tbl : list (list (list Q)) }.
Definition wf3 (r : rate3) : bool :=
  axisb (r3_xs r) && axisb (r3_ys r) && axisb (r3_zs r)
  && shape3 (r3_tbl r) (length (r3_xs r)) (length (r3_ys r)) (length (r3_zs r))
  && posb (r3_cf r) && posb (r3_wl r).
Definition model3 (r : rate3) (x y z : Q) : outcome :=
  eval3 Q xlg xex xinterp3 (conv (r3_photon r) (r3_cf r) (r3_wl r)) (r3_ext r) (r3_xs r) (r3_ys r) (r3_zs r)
        (r3_tbl r) x y z.
Definition pt3 (r : rate3) (x y z : Q) (i : iout) : bool :=
  cmp (nonpos x || nonpos y || nonpos z)
      (on_axis (r3_xs r) x && on_axis (r3_ys r) y && on_axis (r3_zs r) z) (model3 r x y z) i.

(* ---- beam rates ---- *)
Record rateb := mkb { rb_photon : bool; rb_cf : Q; rb_wl : Q; rb_ext : bool;
                      rb_es : list Q; rb_ns : list Q; rb_ts : list Q;
                      rb_sen : list (list Q); rb_st : list Q; rb_sref : Q }.
Definition wfb (r : rateb) : bool :=
  axisb (rb_es r) && axisb (rb_ns r) && axisb (rb_ts r)
  && shape2 (rb_sen r) (length (rb_es r)) (length (rb_ns r))
  && Nat.eqb (length (rb_st r)) (length (rb_ts r)) && allposb (rb_st r) && posb (rb_sref r)
  && posb (rb_cf r) && posb (rb_wl r).
Definition modelb (r : rateb) (e n t : Q) : outcome :=
  evalbeam Q xlg xex xadd xinterp1 xinterp2 (conv (rb_photon r) (rb_cf r) (rb_wl r)) (rb_ext r)
           (rb_es r) (rb_ns r) (rb_ts r) (rb_sen r) (rb_st r) (rb_sref r) e n t.
Definition ptb (r : rateb) (e n t : Q) (i : iout) : bool :=
  cmp (nonpos e || nonpos n || nonpos t)
      (on_free_axis (rb_es r) e && on_free_axis (rb_ns r) n && on_free_axis (rb_ts r) t) (modelb r e n t) i.

(* ---- beam CX ---- *)
Record ratecx := mkcx { rc_cf : Q; rc_wl : Q; rc_ext : bool;
                        rc_ebs : list Q; rc_tis : list Q; rc_nis : list Q; rc_zs : list Q; rc_bs : list Q;
                        rc_qeb : list Q; rc_qti : list Q; rc_qni : list Q; rc_qz : list Q; rc_qb : list Q;
                        rc_qref : Q }.
Definition wfax (ks vs : list Q) : bool := axisb ks && Nat.eqb (length vs) (length ks) && allposb vs.
Definition wfcx (r : ratecx) : bool :=
  wfax (rc_ebs r) (rc_qeb r) && wfax (rc_tis r) (rc_qti r) && wfax (rc_nis r) (rc_qni r)
  && wfax (rc_zs r) (rc_qz r) && wfax (rc_bs r) (rc_qb r) && posb (rc_qref r) && posb (rc_cf r) && posb (rc_wl r).
Definition modelcx (r : ratecx) (e t n z b : Q) : outcome :=
  evalcx Q xlg xex xinterp1 xinterpq (conv true (rc_cf r) (rc_wl r)) (rc_ext r)
         (rc_ebs r) (rc_tis r) (rc_nis r) (rc_zs r) (rc_bs r)
         (rc_qeb r) (rc_qti r) (rc_qni r) (rc_qz r) (rc_qb r) (rc_qref r) e t n z b.
Definition ptcx (r : ratecx) (e t n z b : Q) (i : iout) : bool :=
  cmp (nonpos e || nonpos t || nonpos n)
      (on_free_axis (rc_ebs r) e && on_free_axis (rc_tis r) t && on_free_axis (rc_nis r) n
       && on_free_axis (rc_zs r) z && on_free_axis (rc_bs r) b) (modelcx r e t n z b) i.

(* ---- null rates and the conversion factor ---- *)
Definition ptnull (i : iout) : bool := match i with IVal v => Qeq_bool v 0 | _ => false end.
Definition cf_ok (cf : Q) : bool := close rel40 0 cf hc_nm.

(* ---- interior points of BeamCXPEC's linear-space axes against raysect's cubic -------------------
   energy sits on its axis (the log-space factor is then the stored value, no transcendental function
   involved); temperature, density, Z-effective and B-field are anywhere inside their ranges and go
   through Model/C07_Cubic.v: cubic1_r (= cubic1, Proofs/C07_Cubic.v cubic1_r_eq) in exact rational arithmetic, including the "rate <= 0 -> 0" exits *)
Require Import Cherab.Model.C07_Cubic.
Definition modelcx_cubic (r : ratecx) (e t n z b : Q) : outcome :=
  evalcx Q xlg xex xinterp1 cubic1_r (conv true (rc_cf r) (rc_wl r)) (rc_ext r)
         (rc_ebs r) (rc_tis r) (rc_nis r) (rc_zs r) (rc_bs r)
         (rc_qeb r) (rc_qti r) (rc_qni r) (rc_qz r) (rc_qb r) (rc_qref r) e t n z b.
Definition inside_free (xs : list Q) (x : Q) : bool := single xs || inrange xs x.
Definition ptcx_cubic (r : ratecx) (e t n z b : Q) (i : iout) : bool :=
  on_free_axis (rc_ebs r) e && inside_free (rc_tis r) t && inside_free (rc_nis r) n
  && inside_free (rc_zs r) z && inside_free (rc_bs r) b && posb t && posb n &&
  match modelcx_cubic r e t n z b, i with
  | Val q, IVal v => close tol 0 q v
  | _, _ => false
  end.

(* a null rate: the model's evalnull_at against what came back, at any arguments *)
Definition ptnull_at (args : list Q) (i : iout) : bool :=
  match evalnull_at args, i with Val q, IVal v => Qeq_bool v q | _, _ => false end.
