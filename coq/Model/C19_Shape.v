(* C19 -- interpreters for the SHAPE of the class bodies of elements.pyx / line.pyx.
   harness/c19_shape.py translates, on every run, the bodies of __hash__, __richcmp__, __init__, the
   two index builders and the key expressions of the two lookup functions into the little
   languages below (coq/Gen/C19/Shape.v); the tie lemmas there say that interpreting what the
   SOURCE says gives exactly the functions of Model/C19_Registry.v, for all arguments.
   Definitions only. *)
Require Import Cherab.Common.Qx.
From Coq Require Import String Ascii.
Require Import Cherab.Model.C19_Registry.
Local Open Scope Z_scope.

(* attribute names that occur in the source: name, symbol, atomic_number, atomic_weight,
   mass_number, element (species); element, charge, transition (Line) *)
Inductive attr := AName | ASymbol | AZ | AWeight | AA | AElement | ACharge | ATransition.

Fixpoint opts {A} (l : list (option A)) : option (list A) :=
  match l with
  | [] => Some []
  | None :: _ => None
  | Some x :: t => match opts t with Some r => Some (x :: r) | None => None end
  end.

(* `a op b op c ...` is left-associated in Python's grammar for and / or chains of this form *)
Definition chain (op : bool -> bool -> bool) (l : list bool) : option bool :=
  match l with [] => None | x :: t => Some (fold_left op t x) end.

(* ---- hash((self.f1, self.f2, ...)) ----------------------------------------------------------------- *)
Definition element_atom (f : attr) (e : element) : option hatom :=
  match f with
  | AName => Some (HStr (e_name e)) | ASymbol => Some (HStr (e_symbol e))
  | AZ => Some (HInt (e_Z e)) | AWeight => Some (HFloat (e_weight e))
  | _ => None
  end.
Definition isotope_atom (f : attr) (i : isotope) : option hatom :=
  match f with
  | AName => Some (HStr (i_name i)) | ASymbol => Some (HStr (i_symbol i))
  | AZ => Some (HInt (i_Z i)) | AWeight => Some (HFloat (i_weight i)) | AA => Some (HInt (i_A i))
  | _ => None
  end.
Definition hash_by {X} (atom : attr -> X -> option hatom) (fs : list attr) (x : X) : option (list hatom) :=
  opts (map (fun f => atom f x) fs).

(* ---- self.f == e.f and ... / self.f != e.f or ... ------------------------------------------------------ *)
Definition element_cmp (f : attr) (a b : element) : option bool :=
  match f with
  | AName => Some (String.eqb (e_name a) (e_name b)) | ASymbol => Some (String.eqb (e_symbol a) (e_symbol b))
  | AZ => Some (Z.eqb (e_Z a) (e_Z b)) | AWeight => Some (Qeq_bool (e_weight a) (e_weight b))
  | _ => None
  end.
Definition isotope_cmp (f : attr) (a b : isotope) : option bool :=
  match f with
  | AName => Some (String.eqb (i_name a) (i_name b)) | ASymbol => Some (String.eqb (i_symbol a) (i_symbol b))
  | AZ => Some (Z.eqb (i_Z a) (i_Z b)) | AWeight => Some (Qeq_bool (i_weight a) (i_weight b))
  | AA => Some (Z.eqb (i_A a) (i_A b))
  | AElement => Some (element_eq (i_element a) (i_element b))      (* == of two Elements *)
  | _ => None
  end.
Definition isotope_ncmp (f : attr) (a b : isotope) : option bool :=
  match f with
  | AElement => Some (element_ne (i_element a) (i_element b))      (* != of two Elements *)
  | _ => option_map negb (isotope_cmp f a b)
  end.
Definition eq_by {X} (cmp : attr -> X -> X -> option bool) (fs : list attr) (a b : X) : option bool :=
  match opts (map (fun f => cmp f a b) fs) with Some l => chain andb l | None => None end.
Definition ne_by {X} (ncmp : attr -> X -> X -> option bool) (fs : list attr) (a b : X) : option bool :=
  match opts (map (fun f => ncmp f a b) fs) with Some l => chain orb l | None => None end.

Definition line_cmp (f : attr) (a b : line) : option bool :=
  match f with
  | AElement => Some (py_eq (l_element a) (l_element b))
  | ACharge => Some (Z.eqb (l_charge a) (l_charge b))
  | ATransition => Some (tlist_eqb (l_transition a) (l_transition b))
  | _ => None
  end.
Definition line_ncmp (f : attr) (a b : line) : option bool :=
  match f with
  | AElement => Some (py_ne (l_element a) (l_element b))
  | _ => option_map negb (line_cmp f a b)
  end.

(* ---- key expressions: obj.a.b, str(.), (.).lower(), . + . -------------------------------------------- *)
Inductive kexpr :=
| KAttr (path : list attr)      (* obj.<path> in the builders; element.<path> in lookup_isotope *)
| KVar                          (* the argument v of a lookup function *)
| KNumber                       (* the argument number of lookup_isotope *)
| KStr (e : kexpr) | KLower (e : kexpr) | KAdd (a b : kexpr).
Inductive kval := KVs (s : string) | KVz (z : Z).

Definition element_path (e : element) (p : list attr) : option kval :=
  match p with
  | [AName] => Some (KVs (e_name e)) | [ASymbol] => Some (KVs (e_symbol e)) | [AZ] => Some (KVz (e_Z e))
  | _ => None
  end.
Definition isotope_path (i : isotope) (p : list attr) : option kval :=
  match p with
  | [AName] => Some (KVs (i_name i)) | [ASymbol] => Some (KVs (i_symbol i))
  | [AZ] => Some (KVz (i_Z i)) | [AA] => Some (KVz (i_A i))
  | AElement :: q => element_path (i_element i) q
  | _ => None
  end.

(* [vstr] = str(v), [numstr] = str(number): both are strings by the time the code uses them *)
Fixpoint keval (obj : list attr -> option kval) (vstr numstr : string) (e : kexpr) : option kval :=
  match e with
  | KAttr p => obj p
  | KVar => None
  | KNumber => None
  | KStr KVar => Some (KVs vstr)
  | KStr KNumber => Some (KVs numstr)
  | KStr a => match keval obj vstr numstr a with
              | Some (KVz z) => Some (KVs (zstr z)) | Some (KVs s) => Some (KVs s) | None => None end
  | KLower a => match keval obj vstr numstr a with Some (KVs s) => Some (KVs (lower s)) | _ => None end
  | KAdd a b => match keval obj vstr numstr a, keval obj vstr numstr b with
                | Some (KVs s), Some (KVs t) => Some (KVs (sapp s t)) | _, _ => None end
  end.
Definition kstring (v : option kval) : option string := match v with Some (KVs s) => Some s | _ => None end.
Definition keys_by (obj : list attr -> option kval) (es : list kexpr) : option (list string) :=
  opts (map (fun e => kstring (keval obj EmptyString EmptyString e)) es).

(* ---- constructor signatures and bodies ------------------------------------------------------------------- *)
(* Cython argument types: they decide which Python objects a constructor accepts *)
Inductive ctype := TyStr | TyInt | TyDouble | TyElement | TyTuple | TyObject.
(* right-hand sides of `self.x = ...` / arguments of super().__init__(...): a parameter (by position,
   0 = first after self) or an attribute of a parameter *)
Inductive iexpr := IParam (n : nat) | IParamAttr (n : nat) (a : attr).

(* the shapes the model mirrors (Model/C19_Registry.v: new_element, new_isotope, new_line) *)
Definition element_init_sig : list ctype := [TyStr; TyStr; TyInt; TyDouble].
Definition element_init_body : list (attr * iexpr) :=
  [(AName, IParam 0); (ASymbol, IParam 1); (AZ, IParam 2); (AWeight, IParam 3)].
Definition isotope_init_sig : list ctype := [TyStr; TyStr; TyElement; TyInt; TyDouble].
(* super().__init__(name, symbol, element.atomic_number, atomic_weight); self.mass_number = ...; self.element = ... *)
Definition isotope_init_super : list iexpr := [IParam 0; IParam 1; IParamAttr 2 AZ; IParam 4].
Definition isotope_init_body : list (attr * iexpr) := [(AA, IParam 3); (AElement, IParam 2)].
Definition line_init_sig : list ctype := [TyElement; TyInt; TyTuple].
Definition line_init_body : list (attr * iexpr) := [(AElement, IParam 0); (ACharge, IParam 1); (ATransition, IParam 2)].

(* interpreting an __init__ over symbolic arguments: which argument ends up in which field *)
Inductive argv := VS (s : string) | VZ (z : Z) | VQ (q : Q) | VE (e : element) | VT (t : list tval).
Definition ieval (args : list argv) (e : iexpr) : option argv :=
  match e with
  | IParam n => nth_error args n
  | IParamAttr n AZ => match nth_error args n with Some (VE el) => Some (VZ (e_Z el)) | _ => None end
  | IParamAttr _ _ => None
  end.
Fixpoint field_of (body : list (attr * iexpr)) (f : attr) : option iexpr :=
  match body with
  | [] => None
  | (g, e) :: t => match field_of t f with Some x => Some x | None =>
                     match f, g with
                     | AName, AName | ASymbol, ASymbol | AZ, AZ | AWeight, AWeight | AA, AA | AElement, AElement
                     | ACharge, ACharge | ATransition, ATransition => Some e
                     | _, _ => None end end
  end.
Definition build_element_by (body : list (attr * iexpr)) (args : list argv) : option element :=
  match option_map (ieval args) (field_of body AName), option_map (ieval args) (field_of body ASymbol),
        option_map (ieval args) (field_of body AZ), option_map (ieval args) (field_of body AWeight) with
  | Some (Some (VS n)), Some (Some (VS s)), Some (Some (VZ z)), Some (Some (VQ w)) => Some (mkElement n s z w)
  | _, _, _, _ => None
  end.
Definition build_isotope_by (ebody : list (attr * iexpr)) (sup : list iexpr) (body : list (attr * iexpr)) (args : list argv)
  : option isotope :=
  match opts (map (ieval args) sup) with
  | Some sargs =>
      match build_element_by ebody sargs,
            option_map (ieval args) (field_of body AA), option_map (ieval args) (field_of body AElement) with
      | Some b, Some (Some (VZ a)), Some (Some (VE el)) =>
          Some (mkIsotope (e_name b) (e_symbol b) (e_Z b) (e_weight b) a el)
      | _, _, _ => None
      end
  | None => None
  end.
