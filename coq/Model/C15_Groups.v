(* Model of the observer groups of cherab/tools/observers/group/*.py and of BolometerCamera in
   cherab/tools/observers/bolometry.py (definitions only; proofs are in Proofs/C15_*.v).

   A group is an ordered list of members.  A member is a scene-graph observer: an identity, a
   type tag, its parent, the number of times observe() was called on it and a store of
   attribute values.  The member's own setters are raysect's: they are modelled as plain
   stores (`observer.attr = v`), the correspondence only feeds them values they accept.

   Every group-level attribute is described by a descriptor in a small DSL.  The descriptors of
   the unchanged tree are extracted from the source on every run (harness/c15_translate.py ->
   coq/Gen/C15/Extracted.v) and `wf_descr` is checked on them by the kernel. *)
Require Import Cherab.Common.Qx.
From Coq Require Import String.
Open Scope string_scope.
Open Scope list_scope.
Open Scope Z_scope.

(* ---------------------------------------------------------------------------------------- *)
(* values                                                                                   *)
(* ---------------------------------------------------------------------------------------- *)
Inductive kind := KList | KTuple | KArr.          (* list, tuple, numpy.ndarray *)
Definition kind_eqb (a b : kind) : bool :=
  match a, b with KList, KList | KTuple, KTuple | KArr, KArr => true | _, _ => false end.

Inductive val :=
| VNone
| VQ (q : Q)                         (* int / float / numpy scalar, compared numerically *)
| VB (b : bool)
| VS (s : string)
| VObj (tag id : Z)                  (* object compared by identity; tag = its class family *)
| VRec (tag : Z) (fields : list val) (* value object compared by value: Point3D, Vector3D *)
| VSeq (k : kind) (items : list val).

Definition tag_engine : Z := 1.      (* raysect.core.workflow.RenderEngine instances *)
Definition tag_primitive : Z := 2.
Definition tag_pipeline : Z := 3.
Definition tag_point : Z := 4.
Definition tag_vector : Z := 5.

Inductive err := EValue | EType | EIndex | EAttr | EOther.
Inductive outcome := Done | Raised (e : err).

(* ---------------------------------------------------------------------------------------- *)
(* members                                                                                  *)
(* ---------------------------------------------------------------------------------------- *)
Definition store := list (string * val).

Fixpoint sget (a : string) (st : store) : option val :=
  match st with
  | [] => None
  | (b, v) :: t => if String.eqb a b then Some v else sget a t
  end.

Fixpoint sset (a : string) (v : val) (st : store) : store :=
  match st with
  | [] => [(a, v)]
  | (b, w) :: t => if String.eqb a b then (b, v) :: t else (b, w) :: sset a v t
  end.

Record member := { mid : Z; mtype : Z; mparent : Z; mobs : Z; mstore : store }.

Definition mget (a : string) (m : member) : val :=
  match sget a (mstore m) with Some v => v | None => VNone end.
Definition mset (a : string) (v : val) (m : member) : member :=
  {| mid := mid m; mtype := mtype m; mparent := mparent m; mobs := mobs m; mstore := sset a v (mstore m) |}.
Definition mbump (m : member) : member :=
  {| mid := mid m; mtype := mtype m; mparent := mparent m; mobs := mobs m + 1; mstore := mstore m |}.

Definition group := list member.

(* ---------------------------------------------------------------------------------------- *)
(* descriptors of group-level attributes                                                    *)
(* ---------------------------------------------------------------------------------------- *)
Inductive shape :=
| Broadcast (kinds : list kind)
    (* if isinstance(value, kinds): (len equal -> zip assign | raise ValueError) else broadcast;
       base.py:155-348 and every subclass setter of this form *)
| TypedBroadcast (kinds : list kind) (tag : Z)
    (* render_engine, base.py:134-149: as Broadcast, but every assigned value must be an instance
       of the guard class, TypeError otherwise (raised in the middle of the zip loop) *)
| NestedSeq
    (* targets, targettedpixel.py:87-99: all(isinstance(v,(list,tuple)) for v in value) -> zip with
       length check, otherwise the value (a flat list of primitives) is broadcast *)
| SeqOnly (kinds : list kind)
    (* names, base.py:113-123: a sequence of the listed kinds is required, TypeError otherwise *)
| LenOnly
    (* pipelines, base.py:392-398: len(value) is compared without an isinstance test *)
| Members
    (* observers / sight_lines / foil_detectors: the member tuple itself (see [step]) *)
| ReadOnly                            (* a property without setter *)
| Custom.                             (* a body the translator does not recognise (fail closed) *)

Record descr := {
  d_name : string;        (* the name the property object is bound to in the class *)
  d_settarget : string;   (* x in the decorator @x.setter of the setter function *)
  d_get : string;         (* member attribute read by the getter *)
  d_zip : string;         (* member attribute written in the zip loop *)
  d_bcast : string;       (* member attribute written in the broadcast loop *)
  d_shape : shape }.

(* group attribute -> member attribute: identical except names -> name *)
Definition member_attr (name : string) : string :=
  if String.eqb name "names" then "name" else name.

Definition shape_ok (s : shape) : bool :=
  match s with Broadcast _ | TypedBroadcast _ _ | NestedSeq | SeqOnly _ | LenOnly => true | _ => false end.

(* the property is bound under its own name, its setter is attached to the same property, getter
   and both setter loops use the member attribute that belongs to that name *)
Definition wf_descr (d : descr) : bool :=
  String.eqb (d_settarget d) (d_name d)
  && String.eqb (d_get d) (member_attr (d_name d))
  && String.eqb (d_zip d) (member_attr (d_name d))
  && String.eqb (d_bcast d) (member_attr (d_name d))
  && shape_ok (d_shape d).

(* Members-shaped entries are checked separately: bound under their own name *)
Definition wf_entry (d : descr) : bool :=
  match d_shape d with
  | Members => String.eqb (d_settarget d) (d_name d)
  | _ => wf_descr d
  end.

(* ---------------------------------------------------------------------------------------- *)
(* semantics of a setter / getter described by a descriptor                                  *)
(* ---------------------------------------------------------------------------------------- *)
Definition seq_of (ks : list kind) (v : val) : option (list val) :=
  match v with
  | VSeq k l => if existsb (kind_eqb k) ks then Some l else None
  | _ => None
  end.

Definition has_tag (tag : Z) (v : val) : bool :=
  match v with VObj t _ => t =? tag | _ => false end.

Definition is_list_or_tuple (v : val) : bool :=
  match v with VSeq KList _ | VSeq KTuple _ => true | _ => false end.

(* for observer, v in zip(self._observers, value): observer.a = v *)
Fixpoint zip_assign (a : string) (g : group) (vs : list val) : group :=
  match g, vs with
  | m :: g', v :: vs' => mset a v m :: zip_assign a g' vs'
  | _, _ => g
  end.

(* the same loop with the isinstance guard of render_engine: stops at the first bad element,
   the members before it keep the values already assigned *)
Fixpoint zip_typed (a : string) (tag : Z) (g : group) (vs : list val) : group * outcome :=
  match g, vs with
  | m :: g', v :: vs' =>
      if has_tag tag v then let (r, o) := zip_typed a tag g' vs' in (mset a v m :: r, o)
      else (m :: g', Raised EType)
  | _, _ => (g, Done)
  end.

(* for observer in self._observers: observer.a = value *)
Definition bcast (a : string) (v : val) (g : group) : group := map (mset a v) g.

Definition len_eq (vs : list val) (g : group) : bool := Nat.eqb (List.length vs) (List.length g).

Definition set_sem (d : descr) (v : val) (g : group) : group * outcome :=
  match d_shape d with
  | Broadcast ks =>
      match seq_of ks v with
      | Some vs => if len_eq vs g then (zip_assign (d_zip d) g vs, Done) else (g, Raised EValue)
      | None => (bcast (d_bcast d) v g, Done)
      end
  | TypedBroadcast ks tag =>
      match seq_of ks v with
      | Some vs => if len_eq vs g then zip_typed (d_zip d) tag g vs else (g, Raised EValue)
      | None => if has_tag tag v then (bcast (d_bcast d) v g, Done) else (g, Raised EType)
      end
  | NestedSeq =>
      match v with
      | VSeq _ vs =>
          if forallb is_list_or_tuple vs
          then (if len_eq vs g then (zip_assign (d_zip d) g vs, Done) else (g, Raised EValue))
          else (bcast (d_bcast d) v g, Done)
      | _ => (g, Raised EType)          (* all(... for v in value) on a non-iterable *)
      end
  | SeqOnly ks =>
      match seq_of ks v with
      | Some vs => if len_eq vs g then (zip_assign (d_zip d) g vs, Done) else (g, Raised EValue)
      | None => (g, Raised EType)
      end
  | LenOnly =>
      match v with
      | VSeq _ vs => if len_eq vs g then (zip_assign (d_zip d) g vs, Done) else (g, Raised EValue)
      | _ => (g, Raised EType)          (* len() of an unsized object *)
      end
  | Members => (g, Raised EOther)
  | ReadOnly => (g, Raised EAttr)
  | Custom => (g, Raised EOther)
  end.

(* return [observer.a for observer in self._observers] *)
Definition get_sem (d : descr) (g : group) : list val := map (mget (d_get d)) g.

(* how the group-level guard of a descriptor reads a value *)
(* the value is taken as ONE value for every member *)
Definition scalar_case (d : descr) (v : val) : bool :=
  match d_shape d with
  | Broadcast ks => match seq_of ks v with None => true | Some _ => false end
  | TypedBroadcast ks tag => match seq_of ks v with None => has_tag tag v | Some _ => false end
  | NestedSeq => match v with VSeq _ vs => negb (forallb is_list_or_tuple vs) | _ => false end
  | _ => false
  end.

(* the value is taken as a sequence of per-member values (before any check of the elements) *)
Definition seq_view (d : descr) (v : val) : option (list val) :=
  match d_shape d with
  | Broadcast ks | TypedBroadcast ks _ | SeqOnly ks => seq_of ks v
  | NestedSeq => match v with VSeq _ vs => if forallb is_list_or_tuple vs then Some vs else None | _ => None end
  | LenOnly => match v with VSeq _ vs => Some vs | _ => None end
  | _ => None
  end.

(* ... and all its elements pass the element guard (only render_engine has one) *)
Definition seq_case (d : descr) (v : val) : option (list val) :=
  match seq_view d v with
  | Some vs =>
      match d_shape d with
      | TypedBroadcast _ tag => if forallb (has_tag tag) vs then Some vs else None
      | _ => Some vs
      end
  | None => None
  end.

(* A member observer may refuse a value (raysect's own validation: ValueError / RuntimeError /
   TypeError raised by observer.a = v).  The loops of the group setters then stop there: the first k
   members already carry their new value, the k-th raised e, the rest is untouched.  k and e are
   inputs of the model (which member refuses what is raysect's business); the length check of the
   group comes first.  (render_engine, whose loop has its own element guard, is not covered.) *)
Definition set_sem_rej (d : descr) (v : val) (k : nat) (e : err) (g : group) : group * outcome :=
  match d_shape d with
  | TypedBroadcast _ _ | Members | ReadOnly | Custom => set_sem d v g
  | _ =>
      match seq_view d v with
      | Some vs =>
          if len_eq vs g then (zip_assign (d_zip d) (firstn k g) vs ++ skipn k g, Raised e)
          else (g, Raised EValue)
      | None =>
          if scalar_case d v then (bcast (d_bcast d) v (firstn k g) ++ skipn k g, Raised e)
          else set_sem d v g
      end
  end.

(* ---------------------------------------------------------------------------------------- *)
(* group classes, member retrieval, operations                                              *)
(* ---------------------------------------------------------------------------------------- *)
Inductive flavour := FObserver0D | FBolometer.

Record gcls := {
  c_name : string;
  c_flavour : flavour;
  c_accept : list Z;          (* member type tags t with isinstance(t-object, _OBSERVER_TYPE) *)
  c_table : list descr }.

Definition gid : Z := 1.       (* identity of the group node; 0 = no parent / another node *)

Definition accepts (c : gcls) (ty : Z) : bool := existsb (Z.eqb ty) (c_accept c).

(* KIdx: an object with __index__ that is not an int (numpy integer) *)
(* KSliceStep: a slice with an explicit step (any integer, also 1, 0 and negative) *)
Inductive key := KInt (i : Z) | KSlice (lo hi : option Z) | KStr (s : string) | KBad | KIdx (i : Z)
  | KSliceStep (lo hi : option Z) (step : Z).

Inductive res :=
| ROk
| RErr (e : err)
| RVals (l : list val)
| RMem (id : Z)
| RMems (ids : list Z)
| RObs (trace : list Z)
| RLen (n : Z).

(* Python sequence indexing *)
Definition norm_index (n i : Z) : option Z :=
  if (0 <=? i) && (i <? n) then Some i
  else if (i <? 0) && (0 <=? i + n) then Some (i + n) else None.

(* Python slice bounds, step 1 *)
Definition clamp (n : Z) (x : option Z) (dflt : Z) : Z :=
  match x with
  | None => dflt
  | Some i => let j := if i <? 0 then i + n else i in Z.max 0 (Z.min n j)
  end.

Definition slice_of {A} (l : list A) (lo hi : option Z) : list A :=
  let n := Z.of_nat (List.length l) in
  let a := clamp n lo 0 in
  let b := clamp n hi n in
  firstn (Z.to_nat (b - a)) (skipn (Z.to_nat a) l).

(* Python slice with an explicit step: slice(lo, hi, step).indices(n) and the elements it selects.
   step > 0: bounds clamped to [0, n], defaults 0 and n; step < 0: bounds clamped to [-1, n-1],
   defaults n-1 and -1; the indices are start, start+step, ... strictly before stop. *)
Definition clamp_to (lowb highb n : Z) (x : option Z) (dflt : Z) : Z :=
  match x with
  | None => dflt
  | Some i => let j := if i <? 0 then i + n else i in Z.max lowb (Z.min highb j)
  end.

Definition slice_start_stop (n : Z) (lo hi : option Z) (step : Z) : Z * Z :=
  if 0 <? step then (clamp_to 0 n n lo 0, clamp_to 0 n n hi n)
  else (clamp_to (-1) (n - 1) n lo (n - 1), clamp_to (-1) (n - 1) n hi (-1)).

Definition slice_len (start stop step : Z) : Z :=
  if 0 <? step then (if start <? stop then (stop - start - 1) / step + 1 else 0)
  else (if stop <? start then (start - stop - 1) / (- step) + 1 else 0).

Definition slice_indices (n : Z) (lo hi : option Z) (step : Z) : list Z :=
  let (a, b) := slice_start_stop n lo hi step in
  map (fun k => a + Z.of_nat k * step) (seq 0 (Z.to_nat (slice_len a b step))).

Definition pick {A} (l : list A) (i : Z) : list A :=
  if i <? 0 then [] else match nth_error l (Z.to_nat i) with Some x => [x] | None => [] end.

Definition slice_step {A} (l : list A) (lo hi : option Z) (step : Z) : list A :=
  flat_map (pick l) (slice_indices (Z.of_nat (List.length l)) lo hi step).

(* tuple / list slicing: "slice step cannot be zero" is a ValueError *)
Definition getitem_slice_step (lo hi : option Z) (step : Z) (g : group) : res :=
  if step =? 0 then RErr EValue else RMems (map mid (slice_step g lo hi step)).

Definition name_is (s : string) (m : member) : bool :=
  match mget "name" m with VS t => String.eqb s t | _ => false end.

Definition by_name (s : string) (g : group) : list member := filter (name_is s) g.

(* Observer0DGroup.__getitem__, base.py:62-80 *)
Definition getitem_0d (k : key) (g : group) : res :=
  match k with
  | KInt i =>
      match norm_index (Z.of_nat (List.length g)) i with
      | Some j => match nth_error g (Z.to_nat j) with Some m => RMem (mid m) | None => RErr EIndex end
      | None => RErr EIndex
      end
  | KSlice lo hi => RMems (map mid (slice_of g lo hi))
  | KStr s => match by_name s g with [m] => RMem (mid m) | _ => RErr EValue end
  | KBad => RErr EType
  | KIdx i =>        (* tuple indexing accepts anything with __index__ *)
      match norm_index (Z.of_nat (List.length g)) i with
      | Some j => match nth_error g (Z.to_nat j) with Some m => RMem (mid m) | None => RErr EIndex end
      | None => RErr EIndex
      end
  | KSliceStep lo hi step => getitem_slice_step lo hi step g
  end.

(* BolometerCamera.__getitem__, bolometry.py:103-124: int, slice or str; first match by name.
   (Before the fix c11e2e2 a slice key raised TypeError; that version is kept as
   getitem_bolo_unfixed in Proofs/C15_Members.v as the record of the finding.) *)
Definition getitem_bolo (k : key) (g : group) : res :=
  match k with
  | KInt i =>
      match norm_index (Z.of_nat (List.length g)) i with
      | Some j => match nth_error g (Z.to_nat j) with Some m => RMem (mid m) | None => RErr EIndex end
      | None => RErr EIndex
      end
  | KSlice lo hi => RMems (map mid (slice_of g lo hi))
  | KStr s => match by_name s g with m :: _ => RMem (mid m) | [] => RErr EValue end
  | KBad => RErr EType
  | KIdx _ => RErr EType      (* isinstance(item, (int, slice)) is False for a numpy integer *)
  | KSliceStep lo hi step => getitem_slice_step lo hi step g
  end.

Definition getitem (c : gcls) : key -> group -> res :=
  match c_flavour c with FObserver0D => getitem_0d | FBolometer => getitem_bolo end.

(* list(group).  Observer0DGroup defines no __iter__: Python falls back to __getitem__(0),
   __getitem__(1), ... until IndexError (base.py:62-80); BolometerCamera.__iter__ yields the foils
   (bolometry.py:92-101).  The fuel is one more than the number of members. *)
Fixpoint iterate_from (fuel : nat) (i : Z) (g : group) : list Z :=
  match fuel with
  | O => []
  | S f => match getitem_0d (KInt i) g with RMem id => id :: iterate_from f (i + 1) g | _ => [] end
  end.

Definition iterate (c : gcls) (g : group) : res :=
  match c_flavour c with
  | FObserver0D => RMems (iterate_from (S (List.length g)) 0 g)
  | FBolometer => RMems (map mid g)
  end.

(* the objects a case can add: identity -> (type tag, initial attribute store incl. its name) *)
Record env := { e_pool : list (Z * (Z * store)) }.

Fixpoint zlookup {A} (k : Z) (l : list (Z * A)) : option A :=
  match l with [] => None | (k', v) :: t => if k =? k' then Some v else zlookup k t end.

Definition fresh (e : env) (id : Z) : option member :=
  match zlookup id (e_pool e) with
  | Some (ty, st) => Some {| mid := id; mtype := ty; mparent := gid; mobs := 0; mstore := st |}
  | None => None
  end.

Definition type_of (e : env) (id : Z) : option Z :=
  match zlookup id (e_pool e) with Some (ty, _) => Some ty | None => None end.

(* observer.parent = self; an object that already is a member keeps its state *)
Definition member_for (e : env) (g : group) (id : Z) : option member :=
  match find (fun m => mid m =? id) g with
  | Some m => Some {| mid := mid m; mtype := mtype m; mparent := gid; mobs := mobs m; mstore := mstore m |}
  | None => fresh e id
  end.

Fixpoint members_for (e : env) (g : group) (ids : list Z) : option group :=
  match ids with
  | [] => Some []
  | id :: t =>
      match member_for e g id, members_for e g t with
      | Some m, Some r => Some (m :: r)
      | _, _ => None
      end
  end.

Definition all_accepted (c : gcls) (e : env) (ids : list Z) : bool :=
  forallb (fun id => match type_of e id with Some ty => accepts c ty | None => false end) ids.

Inductive op :=
| OAdd (id : Z)                                  (* add_observer / add_sight_line / add_foil_detector *)
| OSetMembers (k : option kind) (ids : list Z)   (* observers = / sight_lines = / foil_detectors = ; None: not a sequence *)
| OAssign (a : string) (v : val)                 (* group.a = v *)
| OGet (a : string)                              (* group.a *)
| OKey (k : key)                                 (* group[k] *)
| OObserve                                       (* group.observe() *)
| OLen                                           (* len(group) *)
| ODirect (id : Z) (a : string) (v : val)        (* member.a = v, done on the member itself, not through the group *)
| OMembers                                       (* group.observers / .sight_lines / .foil_detectors / list(group) *)
| OAssignRej (a : string) (v : val) (k : nat) (e : err)   (* group.a = v where the k-th member refuses its value with e *)
| OIter                                          (* list(group): the iteration protocol *)
| OConnect (classes : list Z) (nkw : option nat) (w : Z) (obs : list (list (Z * Z))).
    (* group.connect_pipelines(classes, keywords_list of length nkw | default), base.py:400-436.
       The pipeline objects it creates have identities nobody can predict, so the OUTCOME observed on the
       implementation (per member: the (class, identity) of each pipeline) is an input, and the model
       accepts it only if it meets the identity-free specification [connect_valid]:
       one row per member, every row has exactly the requested classes in order, all identities are
       pairwise distinct (nothing shared between or within members) and newer than the watermark w
       (none existed before the call). *)

Definition find_descr (c : gcls) (a : string) : option descr :=
  find (fun d => String.eqb (d_name d) a) (c_table c).

Definition add_err (c : gcls) : err := match c_flavour c with FObserver0D => EValue | FBolometer => EType end.

Fixpoint nodupz (l : list Z) : bool :=
  match l with [] => true | x :: t => negb (existsb (Z.eqb x) t) && nodupz t end.

Fixpoint zlist_eq (a b : list Z) : bool :=
  match a, b with
  | [], [] => true
  | x :: a', y :: b' => (x =? y) && zlist_eq a' b'
  | _, _ => false
  end.

Definition connect_valid (classes : list Z) (w : Z) (obs : list (list (Z * Z))) (g : group) : bool :=
  Nat.eqb (List.length obs) (List.length g)
  && forallb (fun row => zlist_eq (map fst row) classes) obs
  && nodupz (map snd (List.concat obs))
  && forallb (fun p => w <? snd p) (List.concat obs).

Definition pipelines_value (row : list (Z * Z)) : val := VSeq KList (map (fun p => VObj tag_pipeline (snd p)) row).

Definition connect_sem (c : gcls) (classes : list Z) (nkw : option nat) (w : Z) (obs : list (list (Z * Z)))
           (g : group) : group * res :=
  match find (fun d => String.eqb (d_name d) "pipelines") (c_table c),
        find (fun d => String.eqb (d_name d) "sight_lines") (c_table c) with
  | Some _, None =>
      if match nkw with Some k => negb (Nat.eqb k (List.length classes)) | None => false end
      then (g, RErr EValue)                       (* one keyword dict per pipeline class *)
      else match classes, g with
           | [], _ :: _ => (g, RErr EValue)       (* the first member refuses an empty pipeline list *)
           | _, _ => if connect_valid classes w obs g
                     then (zip_assign "pipelines" g (map pipelines_value obs), ROk)
                     else (g, RErr EOther)        (* the observed outcome violates the specification *)
           end
  | Some _, Some _ => (g, RErr EOther)            (* deprecated groups: another signature, not modelled *)
  | None, _ => (g, RErr EAttr)                    (* BolometerCamera has no connect_pipelines *)
  end.

Definition step (c : gcls) (e : env) (g : group) (o : op) : group * res :=
  match o with
  | OAdd id =>
      (* base.py:103-108 / bolometry.py:158-178 *)
      match type_of e id, fresh e id with
      | Some ty, Some m => if accepts c ty then (g ++ [m], ROk) else (g, RErr (add_err c))
      | _, _ => (g, RErr EOther)
      end
  | OSetMembers k ids =>
      (* base.py:94-101: not list/tuple -> TypeError; any element of a wrong type -> ValueError;
         bolometry.py:134-156: not a list -> TypeError; a wrong element -> TypeError *)
      let seq_ok := match c_flavour c, k with
                    | FObserver0D, Some KList | FObserver0D, Some KTuple | FBolometer, Some KList => true
                    | _, _ => false end in
      if negb seq_ok then (g, RErr EType)
      else if negb (all_accepted c e ids) then (g, RErr (add_err c))
      else match members_for e g ids with Some g' => (g', ROk) | None => (g, RErr EOther) end
  | OAssign a v =>
      match find_descr c a with
      | Some d => let (g', o) := set_sem d v g in (g', match o with Done => ROk | Raised x => RErr x end)
      | None => (g, RErr EAttr)
      end
  | OGet a =>
      match find_descr c a with
      | Some d => (g, RVals (get_sem d g))
      | None => (g, RErr EAttr)
      end
  | OKey k => (g, getitem c k g)
  | OObserve => (map mbump g, RObs (map mid g))
  | OLen => (g, RLen (Z.of_nat (List.length g)))
  | ODirect id a v => (map (fun m => if mid m =? id then mset a v m else m) g, ROk)
  | OMembers => (g, RMems (map mid g))
  | OAssignRej a v k e =>
      match find_descr c a with
      | Some d => let (g', o) := set_sem_rej d v k e g in (g', match o with Done => ROk | Raised x => RErr x end)
      | None => (g, RErr EAttr)
      end
  | OIter => (g, iterate c g)
  | OConnect classes nkw w obs => connect_sem c classes nkw w obs g
  end.

Fixpoint run (c : gcls) (e : env) (g : group) (ops : list op) : group * list res :=
  match ops with
  | [] => (g, [])
  | o :: t => let (g1, r) := step c e g o in let (g2, rs) := run c e g1 t in (g2, r :: rs)
  end.

(* the state reached by a history, without the results *)
Definition exec (c : gcls) (e : env) (g : group) (ops : list op) : group := fst (run c e g ops).

(* ---------------------------------------------------------------------------------------- *)
(* BolometerCamera: bookkeeping of the slits (bolometry.py:126-178)                           *)
(* ---------------------------------------------------------------------------------------- *)
(* The camera keeps a second list, _slits, next to the foils.  add_foil_detector and every step of
   the loop of the foil_detectors setter append the foil's slit when it is not in the list yet;
   nothing is ever removed (also not when foils are dropped by a member-list assignment, and the
   loop of the setter keeps what it appended before it raised).  The slit of a pool object is the
   identity stored under "slit" in its initial store.  This machine runs next to [step]. *)
Definition slit_of (e : env) (id : Z) : Z :=
  match zlookup id (e_pool e) with
  | Some (_, st) => match sget "slit" st with Some (VObj _ s) => s | _ => 0 end
  | None => 0
  end.

Definition add_slit (s : Z) (sl : list Z) : list Z := if existsb (Z.eqb s) sl then sl else sl ++ [s].

Fixpoint slits_loop (c : gcls) (e : env) (ids : list Z) (sl : list Z) : list Z :=
  match ids with
  | [] => sl
  | id :: t =>
      match type_of e id with
      | Some ty => if accepts c ty then slits_loop c e t (add_slit (slit_of e id) sl) else sl   (* TypeError raised here *)
      | None => sl
      end
  end.

Definition slits_step (c : gcls) (e : env) (sl : list Z) (o : op) : list Z :=
  match c_flavour c with
  | FObserver0D => sl
  | FBolometer =>
      match o with
      | OAdd id => match type_of e id, fresh e id with
                   | Some ty, Some _ => if accepts c ty then add_slit (slit_of e id) sl else sl
                   | _, _ => sl
                   end
      | OSetMembers (Some KList) ids => slits_loop c e ids sl
      | _ => sl
      end
  end.

(* the slit lists after each operation of a history *)
Fixpoint slits_states (c : gcls) (e : env) (sl : list Z) (ops : list op) : list (list Z) :=
  match ops with
  | [] => []
  | o :: t => let sl1 := slits_step c e sl o in sl1 :: slits_states c e sl1 t
  end.

(* ---------------------------------------------------------------------------------------- *)
(* one observer named twice                                                                  *)
(* ---------------------------------------------------------------------------------------- *)
(* Nothing in the code stops add_observer(o) for an o that is a member already, or a member list
   naming o twice: the member tuple then has two slots holding ONE object.  The list-of-records model
   keeps a copy per slot; [step_shared] restores the sharing: after every operation all copies of an
   identity take the state of its last slot (the zip loops write slot after slot, so the last write is
   the one that stays), observe() runs once per slot on the shared object, adding a member again
   appends another slot for the same object.  On groups of distinct observers it IS [step]
   (Proofs/C15_Shared.v).  Not covered: a loop that stops half way (a member refusing a value, a bad
   render engine in the middle) on a group that has such repeats. *)
Definition last_copy (g : group) (id : Z) : option member := find (fun m => mid m =? id) (rev g).

Definition share (g : group) : group :=
  map (fun m => match last_copy g (mid m) with Some m' => m' | None => m end) g.

Definition count_id (g : group) (id : Z) : Z := Z.of_nat (List.length (filter (fun m => mid m =? id) g)).

Definition mbump_by (n : Z) (m : member) : member :=
  {| mid := mid m; mtype := mtype m; mparent := mparent m; mobs := mobs m + n; mstore := mstore m |}.

Definition step_shared (c : gcls) (e : env) (g : group) (o : op) : group * res :=
  match o with
  | OObserve => (map (fun m => mbump_by (count_id g (mid m)) m) g, RObs (map mid g))
  | OAdd id =>
      match find (fun m => mid m =? id) g with
      | Some m => if accepts c (mtype m) then (g ++ [m], ROk) else (g, RErr (add_err c))
      | None => step c e g o
      end
  | _ => let (g', r) := step c e g o in (share g', r)
  end.

Fixpoint run_shared (c : gcls) (e : env) (g : group) (ops : list op) : group * list res :=
  match ops with
  | [] => (g, [])
  | o :: t => let (g1, r) := step_shared c e g o in let (g2, rs) := run_shared c e g1 t in (g2, r :: rs)
  end.
