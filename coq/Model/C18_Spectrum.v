(* C18 -- executable model of cherab/core/laser/laserspectrum.pyx (LaserSpectrum: parameters,
   setters, _update_cache, accessors) and cherab/core/model/laser/laserspectrum.pyx
   (ConstantSpectrum, GaussianSpectrum).  Definitions only.

   erf, exp and the two constants sqrt(2) (M_SQRT2) and sqrt(2 pi) are parameters.  All arithmetic
   is exact; the binned arrays are computed by the same loop as _update_cache (bin edges are
   accumulated: wvl_lower = wvl_upper).  [Qred] (reduction of a fraction to lowest terms, the
   identity up to ==) keeps the accumulated edges small when the model is executed. *)
Require Import Cherab.Common.Qx.
Require Import Cherab.Model.C18_Laser.
From Coq Require Import Qround Qabs.
Open Scope Q_scope.

Inductive skind := SConst | SGauss.

Record sstate := mkS {
  sk : skind;
  s_min : Q; s_max : Q; s_bins : Z;          (* _min_wavelength _max_wavelength _bins *)
  s_mean : Q; s_std : Q;                      (* _mean _stddev (GaussianSpectrum) *)
  s_recip : Q; s_norm : Q; s_ncdf : Q;        (* _recip_stddev _normalisation _norm_cdf *)
  s_delta : Q;                                (* _delta_wavelength *)
  s_wl : list Q; s_psd : list Q; s_pow : list Q }.   (* _wavelengths _power_spectral_density _power *)

Inductive sop :=
| SSetMin (v : Q) | SSetMax (v : Q) | SSetBins (n : Z) | SSetMean (v : Q) | SSetStd (v : Q)
| SBad (gauss_only : bool).           (* a non-numeric value assigned to min/max/bins (false) or to mean/stddev (true) *)

Record sargs := mkSA { g_min : Q; g_max : Q; g_bins : Z; g_mean : Q; g_std : Q }.

Section Spectrum.
Variable erf : Q -> Q.
Variable expo : Q -> Q.
Variable sqrt2 : Q.                   (* M_SQRT2 *)
Variable sqrt2pi : Q.                 (* sqrt(2 * M_PI) *)

(* evaluate(x) *)
Definition s_eval (s : sstate) (x : Q) : Q :=
  match sk s with
  | SConst => if Qle_bool (s_min s) x && Qle_bool x (s_max s) then 1 / (s_max s - s_min s) else 0
  | SGauss => s_norm s * expo (-(1 # 2) * sq ((x - s_mean s) * s_recip s))
  end.

Definition qmax (a b : Q) : Q := if Qle_bool a b then b else a.
Definition qmin (a b : Q) : Q := if Qle_bool a b then a else b.

(* _get_bin_power_spectral_density(lower, upper).  ConstantSpectrum (since 879f8f0): the fraction of
   the bin that lies inside [min, max], divided by (max - min) * (upper - lower), 0 when the overlap
   is empty.  GaussianSpectrum: erf difference, divided by the already updated _delta_wavelength.
   (The trapezoid of the base class is not used by either class any more.) *)
Definition bin_psd (s : sstate) (delta lo hi : Q) : Q :=
  match sk s with
  | SConst =>
      let l := qmax lo (s_min s) in
      let u := qmin hi (s_max s) in
      if Qle_bool u l then 0 else (u - l) / ((s_max s - s_min s) * (hi - lo))
  | SGauss => (1 # 2) * (erf ((hi - s_mean s) * s_ncdf s) - erf ((lo - s_mean s) * s_ncdf s)) / delta
  end.

(* the second loop of _update_cache *)
Fixpoint bins_loop (s : sstate) (delta : Q) (n : nat) (lo : Q) : list Q :=
  match n with
  | O => []
  | S n' => let hi := Qred (lo + delta) in bin_psd s delta lo hi :: bins_loop s delta n' hi
  end.

Definition centre (mn delta : Q) (i : nat) : Q := mn + ((1 # 2) + inject_Z (Z.of_nat i)) * delta.

Definition update_cache (s : sstate) : sstate :=
  let delta := Qred ((s_max s - s_min s) / inject_Z (s_bins s)) in
  let n := Z.to_nat (s_bins s) in
  let wl := map (centre (s_min s) delta) (seq 0 n) in
  let lo0 := nth 0 wl 0 - delta * (1 # 2) in           (* wavelengths_mv[0] - delta_wvl_half *)
  let psd := bins_loop s delta n lo0 in
  mkS (sk s) (s_min s) (s_max s) (s_bins s) (s_mean s) (s_std s) (s_recip s) (s_norm s) (s_ncdf s)
      delta wl psd (map (fun p => p * delta) psd).

(* _check_wavelength_validity: true = raises ValueError *)
Definition range_invalid (mn mx : Q) : bool :=
  Qle_bool mn 0 || Qle_bool mx 0 || Qle_bool mx mn.

Definition set_min (s : sstate) (v : Q) :=
  mkS (sk s) v (s_max s) (s_bins s) (s_mean s) (s_std s) (s_recip s) (s_norm s) (s_ncdf s)
      (s_delta s) (s_wl s) (s_psd s) (s_pow s).
Definition set_max (s : sstate) (v : Q) :=
  mkS (sk s) (s_min s) v (s_bins s) (s_mean s) (s_std s) (s_recip s) (s_norm s) (s_ncdf s)
      (s_delta s) (s_wl s) (s_psd s) (s_pow s).
Definition set_bins (s : sstate) (n : Z) :=
  mkS (sk s) (s_min s) (s_max s) n (s_mean s) (s_std s) (s_recip s) (s_norm s) (s_ncdf s)
      (s_delta s) (s_wl s) (s_psd s) (s_pow s).
Definition set_mean (s : sstate) (v : Q) :=
  mkS (sk s) (s_min s) (s_max s) (s_bins s) v (s_std s) (s_recip s) (s_norm s) (s_ncdf s)
      (s_delta s) (s_wl s) (s_psd s) (s_pow s).
(* stddev setter: _stddev, _recip_stddev = 1/v, _normalisation = 1/(v sqrt(2 pi)), _norm_cdf = 1/(v sqrt 2) *)
Definition set_std (s : sstate) (v : Q) :=
  mkS (sk s) (s_min s) (s_max s) (s_bins s) (s_mean s) v (1 / v) (1 / (v * sqrt2pi)) (1 / (v * sqrt2))
      (s_delta s) (s_wl s) (s_psd s) (s_pow s).

(* "if self._bins > 0: self._update_cache()" of the mean / stddev setters *)
Definition rebin_if_initialised (s : sstate) : sstate :=
  if (0 <? s_bins s)%Z then update_cache s else s.

(* the policy of the five property setters (source: laserspectrum.pyx of cherab/core/laser and of
   cherab/core/model/laser; regenerated from the current source on every run and compared by the kernel,
   coq/Gen/C18/Policy.v):  which class owns the property, which validation comes first, how the cache is refreshed *)
Inductive sattr := AMin | AMax | ABins | AMean | AStd.
Inductive scheck :=
| CRangeMin      (* self._check_wavelength_validity(value, self.max_wavelength) *)
| CRangeMax      (* self._check_wavelength_validity(self.min_wavelength, value) *)
| CPos.          (* if value <= 0: raise ValueError *)
Inductive srebin :=
| RAlways        (* self._update_cache() *)
| RIfInit.       (* if self._bins > 0: self._update_cache() *)
Definition spolicy (a : sattr) : bool * scheck * srebin :=      (* (GaussianSpectrum only, check, refresh) *)
  match a with
  | AMin => (false, CRangeMin, RAlways)
  | AMax => (false, CRangeMax, RAlways)
  | ABins => (false, CPos, RAlways)
  | AMean => (true, CPos, RIfInit)
  | AStd => (true, CPos, RIfInit)
  end.
Definition gauss_only (a : sattr) : bool := fst (fst (spolicy a)).
Definition check_of (a : sattr) : scheck := snd (fst (spolicy a)).
Definition rebin_of (a : sattr) : srebin := snd (spolicy a).

Definition check_fails (c : scheck) (s : sstate) (v : Q) : bool :=
  match c with
  | CRangeMin => range_invalid v (s_max s)
  | CRangeMax => range_invalid (s_min s) v
  | CPos => Qle_bool v 0
  end.
Definition rebin_by (r : srebin) (s : sstate) : sstate :=
  match r with RAlways => update_cache s | RIfInit => rebin_if_initialised s end.
Definition missing (a : sattr) (s : sstate) : bool :=
  gauss_only a && match sk s with SConst => true | SGauss => false end.

Definition sset (a : sattr) (s : sstate) (v : Q) (assign : sstate) : sstate * res :=
  if missing a s then (s, RAttr)
  else if check_fails (check_of a) s v then (s, RValue)
  else (rebin_by (rebin_of a) assign, ROk).

Definition sstep (s : sstate) (o : sop) : sstate * res :=
  match o with
  | SSetMin v => sset AMin s v (set_min s v)
  | SSetMax v => sset AMax s v (set_max s v)
  | SSetBins n => sset ABins s (inject_Z n) (set_bins s n)
  | SSetMean v => sset AMean s v (set_mean s v)
  | SSetStd v => sset AStd s v (set_std s v)
  | SBad g => match g, sk s with true, SConst => (s, RAttr) | _, _ => (s, RType) end
  end.

Fixpoint srun (s : sstate) (ops : list sop) : sstate * list res :=
  match ops with
  | [] => (s, [])
  | o :: t => let (s1, r) := sstep s o in let (s2, rs) := srun s1 t in (s2, r :: rs)
  end.

(* a freshly allocated object: every cdef double / int is 0, the arrays are empty *)
Definition s_blank (k : skind) : sstate := mkS k 0 0 0 0 0 0 0 0 0 [] [] [].

(* LaserSpectrum.__init__(min, max, bins): check, raw assignments, then the bins setter *)
Definition base_init (s : sstate) (a : sargs) : option sstate :=
  if range_invalid (g_min a) (g_max a) then None
  else
    let s1 := set_max (set_min s (g_min a)) (g_max a) in
    match sstep s1 (SSetBins (g_bins a)) with
    | (s2, ROk) => Some s2
    | _ => None
    end.

(* ConstantSpectrum(min, max, bins);  GaussianSpectrum(min, max, bins, mean, stddev): stddev setter,
   mean setter, then the base class *)
Definition sconstruct (k : skind) (a : sargs) : option sstate :=
  match k with
  | SConst => base_init (s_blank SConst) a
  | SGauss =>
      match sstep (s_blank SGauss) (SSetStd (g_std a)) with
      | (s1, ROk) =>
          match sstep s1 (SSetMean (g_mean a)) with
          | (s2, ROk) => base_init s2 a
          | _ => None
          end
      | _ => None
      end
  end.

Definition sargs_of (s : sstate) : sargs := mkSA (s_min s) (s_max s) (s_bins s) (s_mean s) (s_std s).

(* accessors: get_min_wavelenth get_max_wavelenth get_spectral_bins get_delta_wavelength *)
(* which attribute each accessor returns (regenerated from the source and compared by the kernel, Policy.v) *)
Inductive sacc := GMin | GMax | GDelta.
Inductive sfield := WMin | WMax | WDelta.
Definition acc_field (g : sacc) : sfield := match g with GMin => WMin | GMax => WMax | GDelta => WDelta end.
Definition getw (f : sfield) (s : sstate) : Q := match f with WMin => s_min s | WMax => s_max s | WDelta => s_delta s end.
Definition get_min_wavelenth (s : sstate) : Q := getw (acc_field GMin) s.
Definition get_max_wavelenth (s : sstate) : Q := getw (acc_field GMax) s.
Definition get_spectral_bins (s : sstate) : Z := s_bins s.
Definition get_delta_wavelength (s : sstate) : Q := getw (acc_field GDelta) s.

(* bin edges as the property talks about them *)
Definition edge (s : sstate) (i : nat) : Q := s_min s + inject_Z (Z.of_nat i) * s_delta s.

End Spectrum.
