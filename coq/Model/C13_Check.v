(* Executable comparators used by the correspondence check of C13 (definitions only).
   Every comparator takes the inputs of one call of a real wrapper / sampler and what the
   implementation did (arguments received by the wrapped callable, value returned), evaluates the
   model of Model/C13_Wrappers.v / C13_Float.v on the same inputs and returns whether they agree. *)
Require Import Cherab.Common.Qx.
Require Import Cherab.Model.C13_Wrappers Cherab.Model.C13_Float.
From Coq Require Import Qabs Qround String.
From Coq Require Import Uint63 PrimFloat SpecFloat FloatOps.
Open Scope Q_scope.

Fixpoint forallb2 {A B} (p : A -> B -> bool) (l1 : list A) (l2 : list B) : bool :=
  match l1, l2 with
  | [], [] => true
  | a :: t1, b :: t2 => p a b && forallb2 p t1 t2
  | _, _ => false
  end.

Notation F := F_of_bits (only parsing).
(* model's floats against the bits the implementation produced, bit for bit *)
Definition same (model : list float) (impl : list fbits) : bool :=
  forallb2 (fun m i => fbits_eqb (bits_of_F m) i) model impl.

Definition rec2 (a b : float) : list float := [a; b].
Definition rec3 (a b c : float) : list float := [a; b; c].

(* ---- routing wrappers: the recorder's arguments ------------------------------------------------ *)
Definition chk_swizzle2 (x y : fbits) (got : list fbits) : bool := same (swizzle2 rec2 (F x) (F y)) got.
Definition chk_swizzle3 (s0 s1 s2 : Z) (x y z : fbits) (got : list fbits) : bool :=
  same (swizzle3 s0 s1 s2 rec3 (F x) (F y) (F z)) got.
Definition chk_slice2 (axis : Z) (v x : fbits) (got : list fbits) : bool :=
  same (slice2 axis (F v) rec2 (F x)) got.
Definition chk_slice3 (axis : Z) (v x y : fbits) (got : list fbits) : bool :=
  same (slice3 axis (F v) rec3 (F x) (F y)) got.
(* iso-mapping: the inner function receives (x, y[, z]); the outer receives exactly the inner's value *)
Definition chk_iso2 (x y fv : fbits) (got_f got_g : list fbits) : bool :=
  same (iso2 (fun l : list float => l) rec2 (F x) (F y)) got_f
  && same (iso2 (fun v : float => [v]) (fun _ _ : float => F fv) (F x) (F y)) got_g.
Definition chk_iso3 (x y z fv : fbits) (got_f got_g : list fbits) : bool :=
  same (iso3 (fun l : list float => l) rec3 (F x) (F y) (F z)) got_f
  && same (iso3 (fun v : float => [v]) (fun _ _ _ : float => F fv) (F x) (F y) (F z)) got_g.

(* ---- clamps (binary64, including infinite bounds, NaN and infinite arguments) --------------------- *)
Definition chk_clamp_in1 (lo hi x : fbits) (got : list fbits) : bool :=
  same (clamp_in1 PrimFloat.ltb (F lo) (F hi) (fun a => [a]) (F x)) got.
Definition chk_clamp_in2 (xlo xhi ylo yhi x y : fbits) (got : list fbits) : bool :=
  same (clamp_in2 PrimFloat.ltb (F xlo) (F xhi) (F ylo) (F yhi) rec2 (F x) (F y)) got.
Definition chk_clamp_in3 (xlo xhi ylo yhi zlo zhi x y z : fbits) (got : list fbits) : bool :=
  same (clamp_in3 PrimFloat.ltb (F xlo) (F xhi) (F ylo) (F yhi) (F zlo) (F zhi) rec3 (F x) (F y) (F z)) got.
(* output clamp: fv is what the wrapped function returned, out what the wrapper returned *)
Definition chk_clamp_out (lo hi fv out : fbits) : bool :=
  same [clamp_out1 PrimFloat.ltb (F lo) (F hi) (fun _ => F fv) zero] [out].

(* ---- periodic extension ------------------------------------------------------------------------------ *)
Definition Qof (b : fbits) : Q := match Q_of_bits b with Some q => q | None => 0 end.
Definition finite_bits (b : fbits) : bool := match b with FZero _ | FFin _ _ _ => true | _ => false end.

(* got = the inner argument the wrapped function received for (x, period p):
   (1) bit-identical with the binary64 model of the algorithm,
   (2) inside [0, p) when p > 0 (the property's range clause), equal to x when p = 0,
   (3) within 2^-52 p of the exact reduction x - p floor(x/p) *)
Definition chk_periodic (x p got : fbits) : bool :=
  same [remainder_F (F x) (F p)] [got]
  && (if Qeq_bool (Qof p) 0 then fbits_eqb got x
      else finite_bits got && Qle_bool 0 (Qof got) && Qltb (Qof got) (Qof p)
           && Qle_bool (Qabs (Qof got - remainder_Q (Qof x) (Qof p))) (pow2 (-52) * Qof p)).
(* the executable statement alone (no model of the algorithm): used by the failing-input search *)
Definition periodic_spec (x p got : fbits) : bool :=
  if Qeq_bool (Qof p) 0 then fbits_eqb got x
  else finite_bits got && Qle_bool 0 (Qof got) && Qltb (Qof got) (Qof p)
       && Qle_bool (Qabs (Qof got - remainder_Q (Qof x) (Qof p))) (pow2 (-52) * Qof p).

(* ---- radius and toroidal angle ---------------------------------------------------------------------------- *)
(* what is required of the radius handed to the wrapped function (libm hypot since efb2198), for ALL finite
   (x, y) whose exact radius is representable, huge and subnormal-near-zero included: r is finite, r >= 0 and
   |r - sqrt(x^2 + y^2)| <= max (2^-51 * r, 2^-1074), decided exactly on the squares.
   2^-51 relative: hypot is accurate to about one unit in the last place but not correctly rounded (the former
   sqrt(x*x + y*y) had four roundings, |error| <= 2 * 2^-53 + O(2^-106), and was measured more than one ulp off
   about once in 2000 cases); 2^-1074 absolute: the spacing of subnormal results, where no relative bound can hold. *)
Definition accurate_radius (x y r : fbits) : bool :=
  match r with
  | FZero _ | FFin false _ _ =>
      let s := Qof x * Qof x + Qof y * Qof y in
      let q := Qof r in
      let d := if Qle_bool (pow2 (-1074)) (q * pow2 (-51)) then q * pow2 (-51) else pow2 (-1074) in
      let lo := if Qle_bool q d then 0 else q - d in
      let hi := q + d in
      Qle_bool (lo * lo) s && Qle_bool s (hi * hi)
  | _ => false
  end.
(* the radius before efb2198, bit for bit (only used to replay the old behaviour) *)
Definition chk_radius_old (x y r : fbits) : bool := same [radius_F_old (F x) (F y)] [r].

(* rational enclosures of pi *)
Definition pi_lo : Q := 3141592653589793 # 1000000000000000.
Definition pi_hi : Q := 3141592653589794 # 1000000000000000.
Definition is_negzero (b : fbits) : bool := match b with FZero true => true | _ => false end.
Definition near_pi (neg : bool) (t : Q) : bool :=
  if neg then Qltb (- pi_hi) t && Qltb t (- pi_lo) else Qltb pi_lo t && Qltb t pi_hi.
(* the angle handed to the wrapped function: right quadrant; on the branch cut and on the axis exactly libm's
   choice for signed zeros: atan2(+-0, x<0) = +-pi, atan2(+-0, +0) = +-0, atan2(+-0, -0) = +-pi *)
Definition chk_quadrant (x y phi : fbits) : bool :=
  let t := Qof phi in
  finite_bits phi &&
  match quadrant (Qof x) (Qof y) with
  | 0 => Qeq_bool t 0
  | 1 => Qle_bool 0 t && Qltb t (pi_hi / 2)        (* atan2 may underflow to 0 *)
  | 2 => Qltb (pi_lo / 2) t && Qltb t (pi_hi / 2)
  | 3 => Qltb (pi_lo / 2) t && Qltb t pi_hi
  | 4 => near_pi (is_negzero y) t
  | 5 => Qltb (- pi_hi) t && Qltb t (- (pi_lo / 2))
  | 6 => Qltb (- (pi_hi / 2)) t && Qltb t (- (pi_lo / 2))
  | 7 => Qltb (- (pi_hi / 2)) t && Qle_bool t 0
  | _ => if is_negzero x then near_pi (is_negzero y) t else Qeq_bool t 0
  end%Z.

(* returned vector = the wrapped function's vector rotated about z by the toroidal angle of (x, y), for EVERY
   finite (x, y):
   - on the axis (x = y = 0 exactly): no rotation when x is +0 - compared EXACTLY - and a half turn when x is -0;
   - elsewhere (cos, sin) = (xs / rho, ys / rho) where (xs, ys) = (x, y) * 2^k exactly and rho is a radius of
     (xs, ys) that this comparator itself checks with accurate_radius (k = 0 and rho = the implementation's radius
     in the normal range; k = 1000 for subnormal-near-zero points, whose own radius has no relative accuracy).
   Tolerance 2^-40 of the largest component (libm cos/sin of the angle, rotate_z), 0 for the unrotated axis case. *)
Definition vmax (v : vec) : Q := let '(a, b, c) := v in Qmaxabs (Qmaxabs a b) c.
Definition chk_rot (k : Z) (x y xs ys rho : fbits) (v out : vec) : bool :=
  let on_axis := Qeq_bool (Qof x) 0 && Qeq_bool (Qof y) 0 in
  let cs := toroidal_cs (is_negzero x) (Qof xs) (Qof ys) (if on_axis then 0 else Qof rho) in
  let '(mx, my, mz) := rotz (fst cs) (snd cs) v in
  let '(ox, oy, oz) := out in
  let tol := if on_axis && negb (is_negzero x) then 0 else pow2 (-40) * vmax v in
  Qeq_bool (Qof xs) (Qof x * pow2 k) && Qeq_bool (Qof ys) (Qof y * pow2 k)
  && (on_axis || (accurate_radius xs ys rho && Qltb (pow2 (-900)) (Qof rho)))
  && Qle_bool (Qabs (mx - ox)) tol && Qle_bool (Qabs (my - oy)) tol && Qeq_bool mz oz.

(* ---- samplers ------------------------------------------------------------------------------------------------ *)
Definition lists_eq (a b : list Q) : bool := forallb2 Qeq_bool a b.
(* the axis returned by the sampler against linspace: same length, end points exact, interior points
   within 2^-48 of the span *)
Definition chk_linspace (n : Z) (a b : Q) (xs : list Q) : bool :=
  let m := linspace n a b in
  let tol := pow2 (-48) * (Qmaxabs a b) in
  forallb2 (fun u v => Qle_bool (Qabs (u - v)) tol) m xs
  && Qeq_bool (nth 0 xs (a + 1)) a
  && (if (1 <? n)%Z then Qeq_bool (last xs (b + 1)) b else true).
(* got[i][j][k] = the arguments of the call whose value was stored at v[i,j,k] *)
Definition chk_sample1 (xs : list Q) (got : list (list Q)) : bool :=
  forallb2 lists_eq (sample1d (fun x => [x]) xs) got.
Definition chk_sample2 (xs ys : list Q) (got : list (list (list Q))) : bool :=
  forallb2 (forallb2 lists_eq) (sample2d (fun x y => [x; y]) xs ys) got.
Definition chk_sample3 (xs ys zs : list Q) (got : list (list (list (list Q)))) : bool :=
  forallb2 (forallb2 (forallb2 lists_eq)) (sample3d (fun x y z => [x; y; z]) xs ys zs) got.
Definition chk_points2 (pts : list (Q * Q)) (got : list (list Q)) : bool :=
  forallb2 lists_eq (sample2d_points (fun x y => [x; y]) pts) got.
Definition chk_points3 (pts : list (Q * Q * Q)) (got : list (list Q)) : bool :=
  forallb2 lists_eq (sample3d_points (fun x y z => [x; y; z]) pts) got.

(* ---- polygon mask ------------------------------------------------------------------------------------------------ *)
Definition chk_mask (poly : list pt) (p : pt) (inside_impl : bool) : bool :=
  Bool.eqb (point_in_polygon p poly) inside_impl.

(* ---- constructor validation ----------------------------------------------------------------------------------- *)
Definition err_eqb (a b : option err) : bool :=
  match a, b with
  | None, None => true | Some ErrValue, Some ErrValue => true | Some ErrType, Some ErrType => true
  | _, _ => false
  end.
Definition chk_swizzle3_validate (is_tuple : bool) (shape : list Z) (impl : option err) : bool :=
  err_eqb (swizzle3_validate is_tuple shape) impl.
(* impl: the error raised, or the axis stored by the constructor *)
Definition chk_slice_validate (dims : Z) (a : axis_sel) (impl : err + Z) : bool :=
  match slice_validate dims a, impl with
  | inl e, inl e' => err_eqb (Some e) (Some e')
  | inr k, inr k' => (k =? k')%Z
  | _, _ => false
  end.
Definition chk_clamp_validate (lo hi : option Q) (impl : option err) : bool := err_eqb (clamp_validate lo hi) impl.
Definition chk_period1_validate (p : Q) (impl : option err) : bool := err_eqb (period1_validate p) impl.
Definition chk_periodn_validate (ps : list Q) (impl : option err) : bool := err_eqb (periodn_validate ps) impl.
Definition chk_range_validate (len : Z) (a b : Q) (n : Z) (impl : option err) : bool :=
  err_eqb (range_validate len a b n) impl.

(* ---- argument forms outside the modelled domain: the recorded policy of the code (which exception), part of the model
   and compared in Coq with what the implementation raises ------------------------------------------------------------- *)
Definition form_policy : list (string * option err) := [
  ("PolygonMask2D: Fortran-ordered Nx2 vertex array", Some ErrValue);
  ("Swizzle3D call: string argument", Some ErrType);
  ("Swizzle2D: a number as the wrapped function", Some ErrType);
  ("ClampInput1D(None): constructed, the call fails", Some ErrType);
  ("PeriodicTransform1D: string period", Some ErrType);
  ("Slice2D: axis None", Some ErrValue);
  ("PolygonMask2D: empty vertex list", Some ErrValue);
  ("PolygonMask2D: None", Some ErrType);
  ("sample1d: list instead of range tuple", Some ErrType);
  ("sample2d_points: Nx3 points", Some ErrValue);
  ("sample3d_grid: 2-D axis array", Some ErrValue);
  ("sample1d_points: read-only array", Some ErrValue)
]%string.
Fixpoint form_lookup (name : string) (t : list (string * option err)) : option (option err) :=
  match t with [] => None | (n, e) :: r => if String.eqb n name then Some e else form_lookup name r end.
Definition chk_form (name : string) (impl : option err) : bool :=
  match form_lookup name form_policy with Some e => err_eqb e impl | None => false end.

(* the coordinate array a range sampler returns, against numpy.linspace evaluated in binary64: bit for bit, so that the
   first point is the requested minimum, the last point the requested maximum, and every interior point the documented one *)
Definition chk_linspace_F (n : Z) (a b : fbits) (xs : list fbits) : bool := same (linspace_F n (F a) (F b)) xs.
