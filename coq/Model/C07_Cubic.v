(* C07 -- raysect's 1-D cubic interpolation (Interpolator1DArray(x, f, 'cubic', ...), inside the range
   of the knots), as the OpenADAS rates use it.  Definitions only, exact rational arithmetic.

   Source mirrored (raysect 0.8.1): core/math/function/float/function1d/interpolate.pyx
     Interpolator1DArray.evaluate:   index = find_index(x, px);  px == x[last] -> cell last-1, else cell index
     _Interpolator1DCubic.evaluate:  f = f[index], f[index+1]; dfdx = derivative(index, False), derivative(index+1, True)
                                     a = calc_coefficients_1d(f, dfdx); nx = (px - x[index]) / (x[index+1] - x[index])
                                     return a0 nx^3 + a1 nx^2 + a2 nx + a3
     _ArrayDerivative1D.evaluate:    first / last knot: f[1]-f[0] / f[last]-f[last-1] (unit normalisation);
                                     else second-order formula for unequal spacing, optionally re-normalised
   core/math/cython/interpolation/cubic.pyx calc_coefficients_1d, evaluate_cubic_1d
   core/math/cython/utility.pyx find_index (bisection; here: the number of knots 1..n-1 that are <= px)

   Knots and values are functions of the index (k, v : nat -> Q) with n knots, as in Model/C07_Rates.v. *)
Require Import Cherab.Common.Qx.
Open Scope Q_scope.

Fixpoint count_le (m : nat) (k : nat -> Q) (x : Q) : nat :=
  match m with
  | O => O
  | S m' => ((if Qle_bool (k (S m')) x then 1 else 0) + count_le m' k x)%nat
  end.
(* lower index of the bin [k i, k (i+1)) holding x, for k 0 <= x; n-1 for x >= k (n-1) *)
Definition find_index (n : nat) (k : nat -> Q) (x : Q) : nat := count_le (n - 1) k x.

Definition d_edge (v : nat -> Q) (i : nat) : Q := v (S i) - v i.
Definition d_mid (k v : nat -> Q) (i : nat) : Q :=
  let r := (k i - k (i - 1)%nat) / (k (S i) - k i) in
  (v (S i) * (r * r) - v (i - 1)%nat - v i * (r * r - 1)) / (r + r * r).
Definition derivative (n : nat) (k v : nat -> Q) (i : nat) (rescale : bool) : Q :=
  if Nat.eqb i 0 then d_edge v 0
  else if Nat.eqb i (n - 1) then d_edge v (i - 1)
  else let d := d_mid k v i in
       if rescale then d * (k i - k (i - 1)%nat) / (k (S i) - k i) else d.

Definition cubic_poly (f0 f1 d0 d1 nx : Q) : Q :=
  let a0 := 2 * f0 - 2 * f1 + d0 + d1 in
  let a1 := -(3) * f0 + 3 * f1 - 2 * d0 - d1 in
  let x2 := nx * nx in let x3 := x2 * nx in
  a0 * x3 + a1 * x2 + d0 * nx + f0.

Definition cubic_cell (n : nat) (k v : nat -> Q) (i : nat) (x : Q) : Q :=
  cubic_poly (v i) (v (S i)) (derivative n k v i false) (derivative n k v (S i) true)
             ((x - k i) / (k (S i) - k i)).

(* the interpolator inside [k 0, k (n-1)] *)
Definition cubic1 (n : nat) (k v : nat -> Q) (x : Q) : Q :=
  if Qeq_bool x (k (n - 1)%nat) then cubic_cell n k v (n - 2) x
  else cubic_cell n k v (find_index n k x) x.

(* lists in, for the correspondence *)
Definition cubic1_list (xs fs : list Q) (x : Q) : Q :=
  cubic1 (length xs) (fun i => nth i xs 0) (fun i => nth i fs 0) x.

(* ---- the same interpolator with fractions reduced after every step (what the correspondence runs:
   unreduced numerators grow to ~10^5 bits along the five chained factors of BeamCXPEC); proved equal to
   cubic1 in Proofs/C07_Cubic.v ---- *)
Definition d_mid_r (k v : nat -> Q) (i : nat) : Q :=
  let r := Qred ((k i - k (i - 1)%nat) / (k (S i) - k i)) in
  Qred ((v (S i) * (r * r) - v (i - 1)%nat - v i * (r * r - 1)) / (r + r * r)).
Definition derivative_r (n : nat) (k v : nat -> Q) (i : nat) (rescale : bool) : Q :=
  if Nat.eqb i 0 then d_edge v 0
  else if Nat.eqb i (n - 1) then d_edge v (i - 1)
  else let d := d_mid_r k v i in
       if rescale then Qred (d * (k i - k (i - 1)%nat) / (k (S i) - k i)) else d.
Definition cubic_cell_r (n : nat) (k v : nat -> Q) (i : nat) (x : Q) : Q :=
  Qred (cubic_poly (v i) (v (S i)) (derivative_r n k v i false) (derivative_r n k v (S i) true)
                   (Qred ((x - k i) / (k (S i) - k i)))).
Definition cubic1_r (n : nat) (k v : nat -> Q) (x : Q) : Q :=
  if Qeq_bool x (k (n - 1)%nat) then cubic_cell_r n k v (n - 2) x
  else cubic_cell_r n k v (find_index n k x) x.
