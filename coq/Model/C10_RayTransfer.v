(* Model of cherab/tools/raytransfer/emitters.pyx (definitions only; proofs are in Proofs/C10_*.v).

   CartesianRayTransferIntegrator.integrate / CylindricalRayTransferIntegrator.integrate:
     start, end  = the two end points in the primitive's frame
     length      = |end - start|          (a square root: enters the model as the value [len])
     n           = max(min_samples, <int>(length / step));   dt = length / n
     for it in range(n):  t = (it + 0.5) * dt;  p = start + direction * t;  cell indices by <int>(coord / size)
        [the flush-on-change loop, see loop_step below]
   RayTransferEmitter._map_from_mask, the voxel_map setter and bins.

   All arithmetic is exact (Q / Z).  The C cast <int>(double) truncates towards zero: [ctrunc]. *)
Require Import Cherab.Common.Qx.
From Coq Require Import Qabs Qround.
Open Scope Q_scope.

Definition Qltb (a b : Q) : bool := negb (Qle_bool b a).
Definition ctrunc (q : Q) : Z := Z.quot (Qnum q) (Zpos (Qden q)).

(* ------------------------------------------------------------------------------------------ *)
(* spectra (spectrum.samples_mv) and cells                                                      *)
(* ------------------------------------------------------------------------------------------ *)
Definition spectrum := Z -> Q.
Definition sp_add (s : spectrum) (i : Z) (v : Q) : spectrum :=
  fun j => if (j =? i)%Z then s j + v else s j.

Definition cell := (Z * Z * Z)%type.
Definition cell_eqb (a b : cell) : bool :=
  let '(a1, a2, a3) := a in let '(b1, b2, b3) := b in ((a1 =? b1) && (a2 =? b2) && (a3 =? b3))%Z.
(* ix_current = iy_current = iz_current = -1 *)
Definition cinit : cell := (-1, -1, -1)%Z.

(* ------------------------------------------------------------------------------------------ *)
(* the accumulation loop (identical in both integrators)                                        *)
(*   if ix != ix_current or ...:            # we moved to the next cell                          *)
(*       (ix,iy,iz)_current = (ix,iy,iz);  isource = voxel_map_mv[ix, iy, iz]                    *)
(*       if isource != isource_current:    # we moved to the next source                         *)
(*           if isource_current > -1: samples[isource_current] += res                            *)
(*           isource_current = isource;  res = 0                                                 *)
(*   if isource_current > -1: res += dt                                                          *)
(* after the loop:  if isource_current > -1: samples[isource_current] += res                     *)
(* ------------------------------------------------------------------------------------------ *)
Record lstate := { l_cur : cell; l_src : Z; l_res : Q; l_spec : spectrum }.

Definition flush (st : lstate) : spectrum :=
  if (l_src st >? -1)%Z then sp_add (l_spec st) (l_src st) (l_res st) else l_spec st.

Definition loop_step (vm : cell -> Z) (dt : Q) (st : lstate) (c : cell) : lstate :=
  let st1 :=
    if cell_eqb c (l_cur st) then st
    else let isource := vm c in
         if (isource =? l_src st)%Z
         then {| l_cur := c; l_src := l_src st; l_res := l_res st; l_spec := l_spec st |}
         else {| l_cur := c; l_src := isource; l_res := 0; l_spec := flush st |} in
  if (l_src st1 >? -1)%Z
  then {| l_cur := l_cur st1; l_src := l_src st1; l_res := l_res st1 + dt; l_spec := l_spec st1 |}
  else st1.

Definition loop_init (s0 : spectrum) : lstate := {| l_cur := cinit; l_src := -1; l_res := 0; l_spec := s0 |}.

Definition accumulate_runs (vm : cell -> Z) (dt : Q) (cells : list cell) (s0 : spectrum) : spectrum :=
  flush (fold_left (loop_step vm dt) cells (loop_init s0)).

(* the specification: every sample adds dt to the source of its cell, nothing if the cell has none *)
Definition simple_step (vm : cell -> Z) (dt : Q) (s : spectrum) (c : cell) : spectrum :=
  if (vm c >? -1)%Z then sp_add s (vm c) dt else s.
Definition accumulate_simple (vm : cell -> Z) (dt : Q) (cells : list cell) (s0 : spectrum) : spectrum :=
  fold_left (simple_step vm dt) cells s0.

(* number of list members satisfying p, as Z *)
Fixpoint countp {A} (p : A -> bool) (l : list A) : Z :=
  match l with [] => 0%Z | x :: t => ((if p x then 1 else 0) + countp p t)%Z end.

(* ------------------------------------------------------------------------------------------ *)
(* sampling                                                                                    *)
(* ------------------------------------------------------------------------------------------ *)
Definition vec := (Q * Q * Q)%type.
Definition vsub (a b : vec) : vec :=
  let '(a1, a2, a3) := a in let '(b1, b2, b3) := b in (a1 - b1, a2 - b2, a3 - b3).
Definition vdot (a b : vec) : Q :=
  let '(a1, a2, a3) := a in let '(b1, b2, b3) := b in a1 * b1 + a2 * b2 + a3 * b3.
Definition vscale (k : Q) (a : vec) : vec := let '(a1, a2, a3) := a in (k * a1, k * a2, k * a3).

(* if length < 0.1 * self._step: return spectrum.   The literal 0.1 is the double 3602879701896397 / 2^55 (not 1/10);
   the product with the step is exact whenever the step is a power of two (the boundary cases the harness generates). *)
Definition c01 : Q := 3602879701896397 # 36028797018963968.
Definition too_short (len stp : Q) : bool := Qltb len (c01 * stp).
(* n = max(self._min_samples, <int>(length / self._step)) *)
Definition nsamples (min_samples : Z) (len stp : Q) : Z := Z.max min_samples (ctrunc (len / stp)).
(* dt = length / n *)
Definition dt_of (len : Q) (n : Z) : Q := len / inject_Z n.
(* t = (it + 0.5) * dt *)
Definition t_of (dt : Q) (k : Z) : Q := (inject_Z k + (1 # 2)) * dt.
(* x = start.x + direction.x * t *)
Definition point_at (start dir : vec) (t : Q) : vec :=
  let '(s1, s2, s3) := start in let '(d1, d2, d3) := dir in (s1 + d1 * t, s2 + d2 * t, s3 + d3 * t).

Definition zrange (n : nat) : list Z := map Z.of_nat (seq 0 n).

(* the list of sample points of one call *)
Definition sample_points (start dir : vec) (dt : Q) (n : Z) : list vec :=
  map (fun k => point_at start dir (t_of dt k)) (zrange (Z.to_nat n)).

(* ix = <int>(x / dx) ... *)
Definition cart_cell (steps : vec) (p : vec) : cell :=
  let '(dx, dy, dz) := steps in let '(x, y, z) := p in (ctrunc (x / dx), ctrunc (y / dy), ctrunc (z / dz)).

(* ------------------------------------------------------------------------------------------ *)
(* cylindrical cell                                                                            *)
(*   iz = <int>(z / dz); r = sqrt(x*x + y*y); ir = <int>((r - rmin) / dr)                        *)
(*   iphi = 0 if nphi == 1 else <int>( ((180/pi) atan2(y, x) + 360) % period / dphi )            *)
(* ------------------------------------------------------------------------------------------ *)
(* ir without the square root: for r >= rmin, <int>((r - rmin)/dr) = i  iff
   (rmin + i dr)^2 <= x^2+y^2 < (rmin + (i+1) dr)^2.  For r < rmin the quotient is negative and the
   cast truncates towards zero: -i with  rmin - (i+1) dr < r <= rmin - i dr. *)
Fixpoint ir_up (fuel : nat) (i : Z) (s rmin dr : Q) : Z :=
  match fuel with
  | O => i
  | S f => let b := rmin + inject_Z (i + 1) * dr in
           if Qltb s (b * b) then i else ir_up f (i + 1)%Z s rmin dr
  end.
Fixpoint ir_down (fuel : nat) (i : Z) (s rmin dr : Q) : Z :=
  match fuel with
  | O => (- i)%Z
  | S f => let b := rmin - inject_Z (i + 1) * dr in
           if Qltb b 0 || Qltb (b * b) s then (- i)%Z else ir_down f (i + 1)%Z s rmin dr
  end.
Definition ir_of (fuel : nat) (s rmin dr : Q) : Z :=
  if Qle_bool (rmin * rmin) s then ir_up fuel 0 s rmin dr else ir_down fuel 0 s rmin dr.

(* The code's own angular formula, as a function of the angle in degrees that atan2 returned:
   phi = (phi + 360.) % period;  iphi = <int>(phi / dphi).  (fmod of a non-negative number.) *)
Definition Qmod (a p : Q) : Q := a - p * inject_Z (Qfloor (a / p)).
Definition iphi_of_phi (period dphi phi : Q) : Z := ctrunc (Qmod (phi + 360) period / dphi).

(* Exact decision of the angular sector without atan2, for sector boundaries at multiples of 30 or
   45 degrees.  A number a + b*sqrt 3 is the pair (a, b); boundary directions (not normalised):
   0:(1,0) 30:(sqrt3,1) 45:(1,1) 60:(1,sqrt3), the rest by quarter turns. *)
Definition q3 := (Q * Q)%type.
Definition sgn (a : Q) : Z := if Qltb 0 a then 1%Z else if Qltb a 0 then (-1)%Z else 0%Z.
Definition sign_q3 (v : q3) : Z :=
  let '(a, b) := v in
  let sa := sgn a in let sb := sgn b in
  if (sa =? 0)%Z then sb else if (sb =? 0)%Z then sa else
  if (sa =? sb)%Z then sa else
  (* opposite signs: compare a^2 with 3 b^2 *)
  let d := sgn (a * a - 3 * b * b) in (sa * d)%Z.

Definition base_dir (deg : Z) : option (q3 * q3) :=
  if (deg =? 0)%Z then Some ((1, 0), (0, 0))
  else if (deg =? 30)%Z then Some ((0, 1), (1, 0))
  else if (deg =? 45)%Z then Some ((1, 0), (1, 0))
  else if (deg =? 60)%Z then Some ((1, 0), (0, 1))
  else None.
Definition q3neg (v : q3) : q3 := (- fst v, - snd v).
(* quarter turn: (ux, uy) -> (-uy, ux) *)
Definition quarter (u : q3 * q3) : q3 * q3 := (q3neg (snd u), fst u).
Definition udir (deg : Z) : option (q3 * q3) :=
  let qt := (deg / 90)%Z in
  match base_dir (deg mod 90)%Z with
  | None => None
  | Some u => Some (if (qt =? 0)%Z then u else if (qt =? 1)%Z then quarter u
                    else if (qt =? 2)%Z then quarter (quarter u) else quarter (quarter (quarter u)))
  end.

(* cross (u, p) and dot (u, p) as numbers a + b sqrt 3 *)
Definition cross3 (u : q3 * q3) (x y : Q) : q3 :=
  let '((a, b), (c, d)) := u in (a * y - c * x, b * y - d * x).
Definition dot3 (u : q3 * q3) (x y : Q) : q3 :=
  let '((a, b), (c, d)) := u in (a * x + c * y, b * x + d * y).

(* "the polar angle of (x, y), taken in [0, 360), is >= theta"  for 0 < theta < 360.
   atan2 conventions: y > 0 or y = 0 gives [0,180]; y < 0 gives (180, 360). *)
Definition angle_ge (x y : Q) (theta : Z) : bool :=
  match udir theta with
  | None => false
  | Some u =>
    (* counter-clockwise of (or on) the boundary direction, within the same half plane *)
    let test (_ : unit) := let sc := sign_q3 (cross3 u x y) in
                if (sc =? 1)%Z then true else if (sc =? 0)%Z then (sign_q3 (dot3 u x y) =? 1)%Z else false in
    if (theta <=? 180)%Z then (if Qltb y 0 then true else test tt)
    else (if Qltb y 0 then test tt else false)
  end.

(* global sector index in [0, 360/dphi): number of boundaries j*dphi, 0 < j < 360/dphi, that are <= angle *)
Definition gsector (dphi_deg : Z) (x y : Q) : Z :=
  countp (fun j => angle_ge x y (j * dphi_deg)%Z) (map (fun k => (k + 1)%Z) (zrange (Z.to_nat (360 / dphi_deg - 1)))).

Definition iphi_sector (nphi dphi_deg : Z) (x y : Q) : Z :=
  if (nphi =? 1)%Z then 0%Z else (gsector dphi_deg x y mod nphi)%Z.

Record cylgrid := { cg_rmin : Q; cg_dr : Q; cg_dz : Q; cg_nphi : Z; cg_dphi : Z; cg_nr : Z }.

Definition cyl_cell (g : cylgrid) (p : vec) : cell :=
  let '(x, y, z) := p in
  (ir_of (Z.to_nat (cg_nr g) + 2) (x * x + y * y) (cg_rmin g) (cg_dr g),
   iphi_sector (cg_nphi g) (cg_dphi g) x y,
   ctrunc (z / cg_dz g)).

(* The cell exactly as the code computes it from the angle atan2 returned (degrees, an oracle value): any sector size and
   any period = grid_shape[1] * grid_steps[1] (also one that divides 360 only within the emitter's 1e-3 tolerance). *)
Record cylq := { q_rmin : Q; q_dr : Q; q_dz : Q; q_nphi : Z; q_dphi : Q; q_nr : Z }.
Definition cyl_cell_code (g : cylq) (phi : Q) (p : vec) : cell :=
  let '(x, y, z) := p in
  (ir_of (Z.to_nat (q_nr g) + 2) (x * x + y * y) (q_rmin g) (q_dr g),
   (if (q_nphi g =? 1)%Z then 0%Z else iphi_of_phi (inject_Z (q_nphi g) * q_dphi g) (q_dphi g) phi),
   ctrunc (z / q_dz g)).

(* ------------------------------------------------------------------------------------------ *)
(* voxel maps                                                                                  *)
(* ------------------------------------------------------------------------------------------ *)
(* voxel_map = -1 * ones; voxel_map[mask] = arange(mask.sum())   (C order) *)
Fixpoint map_from_mask_from (next : Z) (mask : list bool) : list Z :=
  match mask with
  | [] => []
  | true :: t => next :: map_from_mask_from (next + 1) t
  | false :: t => (-1)%Z :: map_from_mask_from next t
  end.
Definition map_from_mask (mask : list bool) : list Z := map_from_mask_from 0 mask.
(* self._bins = self._voxel_map.max() + 1 *)
Definition bins_of (vm : list Z) : Z :=
  match vm with [] => 0%Z | x :: t => (fold_left Z.max t x + 1)%Z end.

Definition shape := (Z * Z * Z)%type.
Definition in_grid (sh : shape) (c : cell) : bool :=
  let '(n1, n2, n3) := sh in let '(i, j, k) := c in
  ((0 <=? i) && (i <? n1) && (0 <=? j) && (j <? n2) && (0 <=? k) && (k <? n3))%Z.
Definition flat_index (sh : shape) (c : cell) : Z :=
  let '(n1, n2, n3) := sh in let '(i, j, k) := c in ((i * n2 + j) * n3 + k)%Z.
(* voxel_map_mv[i, j, k]; -1 outside (the implementation raises IndexError there: see in_grid) *)
Definition vm_lookup (sh : shape) (vm : list Z) (c : cell) : Z :=
  if in_grid sh c then nth (Z.to_nat (flat_index sh c)) vm (-1)%Z else (-1)%Z.
(* the one-source-per-cell map *)
Definition id_map (sh : shape) (c : cell) : Z := if in_grid sh c then flat_index sh c else (-1)%Z.

(* ------------------------------------------------------------------------------------------ *)
(* the whole call, given the value [len] the implementation obtained for |end - start|          *)
(* ------------------------------------------------------------------------------------------ *)
(* The sample points do not depend on the square root:  with direction = (end - start) / length and
   t = (it + 0.5) * length / n,   start + direction * t = start + (end - start) * (2 it + 1) / (2 n).
   The executable model evaluates the right-hand side (small numbers); the identity with the literal
   formula of the code ([point_at], [sample_points]) is lemma point_lam_literal in Proofs/C10_Chord.v. *)
Definition lam_of (n k : Z) : Q := inject_Z (2 * k + 1) / inject_Z (2 * n).
Definition point_lam (start d : vec) (n k : Z) : vec :=
  let '(s1, s2, s3) := start in let '(d1, d2, d3) := d in
  let l := lam_of n k in (Qred (s1 + d1 * l), Qred (s2 + d2 * l), Qred (s3 + d3 * l)).
Definition sample_points_lam (start d : vec) (n : Z) : list vec :=
  map (point_lam start d n) (zrange (Z.to_nat n)).

Definition integrate_cells (cellfn : vec -> cell) (start stop : vec) (len stp : Q) (min_samples : Z) : list cell :=
  let n := nsamples min_samples len stp in
  map cellfn (sample_points_lam start (vsub stop start) n).

Definition integrate (cellfn : vec -> cell) (vm : cell -> Z) (start stop : vec) (len stp : Q) (min_samples : Z)
           (s0 : spectrum) : spectrum :=
  if too_short len stp then s0
  else accumulate_runs vm (dt_of len (nsamples min_samples len stp))
                       (integrate_cells cellfn start stop len stp min_samples) s0.

(* ------------------------------------------------------------------------------------------ *)
(* exact chord of a Cartesian cell (slab method), in the parameter t of p(t) = start + dir t    *)
(* ------------------------------------------------------------------------------------------ *)
(* t-interval on which lo <= s + d t <= hi, clipped to [0, L]; (1, 0) when empty *)
Definition slab (s d lo hi L : Q) : Q * Q :=
  if Qltb 0 d then ((lo - s) / d, (hi - s) / d)
  else if Qltb d 0 then ((hi - s) / d, (lo - s) / d)
  else if Qle_bool lo s && Qltb s hi then (0, L) else (1, 0).
Definition Qmax (a b : Q) : Q := if Qle_bool a b then b else a.
Definition Qmin (a b : Q) : Q := if Qle_bool a b then a else b.
Definition cell_interval (steps start dir : vec) (L : Q) (c : cell) : Q * Q :=
  let '(dx, dy, dz) := steps in let '(s1, s2, s3) := start in let '(d1, d2, d3) := dir in
  let '(i, j, k) := c in
  let ix := slab s1 d1 (inject_Z i * dx) (inject_Z (i + 1) * dx) L in
  let iy := slab s2 d2 (inject_Z j * dy) (inject_Z (j + 1) * dy) L in
  let iz := slab s3 d3 (inject_Z k * dz) (inject_Z (k + 1) * dz) L in
  (Qmax (Qmax (fst ix) (fst iy)) (Qmax (fst iz) 0), Qmin (Qmin (snd ix) (snd iy)) (Qmin (snd iz) L)).
Definition chord_cart (steps start dir : vec) (L : Q) (c : cell) : Q :=
  let ab := cell_interval steps start dir L c in Qmax 0 (snd ab - fst ab).
