(* Floating-point replay of the attenuation loop of SingleRayAttenuator (definitions only).

   Every double-precision operation of
       _beam_stopping        stopping_coeff += (density * charge) * coeff
       _calc_attenuation     beam_z = np.linspace(0.0, length, nbeam)
       _beam_attenuation     beam_density = (power / EvToJ.to(energy * mass)) / speed
                             beam_density * np.exp(-cumulative_trapezoid(stopping_coeff, axis, initial=0) / speed)
       scipy                 d = np.diff(x); np.cumsum(d * (y[1:] + y[:-1]) / 2.0)
   is one rounding [rn] of the exact result (IEEE-754 round-to-nearest-even).  The correspondence
   instantiates [rn] with round53 of Model/C16_Instruments.v (53-bit RNE, normal range; its relative
   error 2^-53 is proved in Proofs/C16_Round.v) and compares the node values of the interpolator
   BIT FOR BIT; exp is libm's (table keyed by the exact double argument), sqrt is checked to be the
   correctly rounded root. *)
Require Import Cherab.Common.Qx.
From Coq Require Import Qabs Qround.
Open Scope Q_scope.

(* IEEE-754 binary64 round-to-nearest-even, normal range (a verbatim copy of round53 of Model/C16_Instruments.v, kept
   here so that the generated case files depend on C04 files only; Proofs/C04_Float.v shows the two are the same
   function and imports the 2^-53 relative error bound proved in Proofs/C16_Round.v) *)
Definition fl_round_half_even (q : Q) : Z :=
  let f := Qfloor q in
  match Qcompare (q - inject_Z f) (1 # 2) with
  | Lt => f
  | Gt => (f + 1)%Z
  | Eq => if Z.even f then f else (f + 1)%Z
  end.
Definition fl_round53_pos (a : Q) : Q :=
  let e0 := (Z.log2 (Qnum a) - Z.log2 (Zpos (Qden a)) - 52)%Z in
  let e := if Qle_bool (pow2 52) (a / pow2 e0) then e0 else (e0 - 1)%Z in
  Qred (inject_Z (fl_round_half_even (a / pow2 e)) * pow2 e).
Definition fl_round53 (q : Q) : Q :=
  match Qcompare q 0 with
  | Eq => 0
  | Gt => fl_round53_pos q
  | Lt => - fl_round53_pos (- q)
  end.

Definition Zseq' (n : Z) : list Z := map Z.of_nat (seq 0 (Z.to_nat n)).

Section Float.
  Variable rn : Q -> Q.

  (* second loop of _beam_stopping at one node: terms are (density, charge, coefficient value) per species *)
  Definition fl_stopping (terms : list (Q * Q * Q)) : Q :=
    fold_left (fun acc t => let '(n, z, k) := t in rn (acc + rn (rn (n * z) * k))) terms 0.

  (* np.linspace(0.0, L, n): step = L / (n-1); arange(n) * step; the last element is set to L *)
  Definition fl_nodes (L : Q) (n : Z) : list Q :=
    let step := rn (L / inject_Z (n - 1)) in
    map (fun i => if (i =? n - 1)%Z then L else rn (inject_Z i * step)) (Zseq' n).

  (* cumulative_trapezoid(y, x, initial=0) *)
  Fixpoint fl_cumtrapz_from (acc z0 s0 : Q) (l : list (Q * Q)) : list Q :=
    match l with
    | [] => []
    | (z1, s1) :: t =>
        let acc' := rn (acc + rn (rn (rn (z1 - z0) * rn (s0 + s1)) / 2)) in
        acc' :: fl_cumtrapz_from acc' z1 s1 t
    end.
  Definition fl_cumtrapz (l : list (Q * Q)) : list Q :=
    match l with [] => [] | (z0, s0) :: t => 0 :: fl_cumtrapz_from 0 z0 s0 t end.

  (* power / EvToJ.to(energy * mass) / speed *)
  Definition fl_source (P E m ec speed : Q) : Q := rn (rn (P / rn (rn (E * m) * ec)) / speed).

  (* the argument handed to np.exp at a node *)
  Definition fl_exp_arg (T speed : Q) : Q := - rn (T / speed).

  (* beam_density * np.exp(...) *)
  Definition fl_line (n0 e : Q) : Q := rn (n0 * e).
End Float.

(* s is the double nearest to sqrt x:  (s - h)^2 <= x <= (s + h)^2 with h half the spacing of doubles at s *)
Definition half_ulp (s : Q) : Q :=
  pow2 (Z.log2 (Qnum s) - Z.log2 (Zpos (Qden s)) - 53 + (if Qle_bool (pow2 (Z.log2 (Qnum s) - Z.log2 (Zpos (Qden s)))) s then 0 else -1)).
Definition sqrt_rn_ok (s x : Q) : bool :=
  Qle_bool 0 (s - half_ulp s) && Qle_bool ((s - half_ulp s) * (s - half_ulp s)) x && Qle_bool x ((s + half_ulp s) * (s + half_ulp s)).
