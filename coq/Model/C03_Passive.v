(* Executable model of the passive emission models of cherab/core/model/plasma
   (definitions only; lemmas are in Proofs/C03_*.v).

   A plasma point is the electron density/temperature and the composition, a list of species
   (element id, charge, atomic number of the element, density and temperature at the point).
   The atomic-data provider is a record of arbitrary functions: every theorem holds for every
   provider ("rate-coefficient tables" of the property).

   Sources mirrored:
     impact_excitation.pyx  ExcitationLine.emission / _populate_cache        (lines 79-127)
     recombination.pyx      RecombinationLine.emission / _populate_cache     (lines 79-130)
     thermal_cx.pyx         ThermalCXLine.emission / _populate_cache         (lines 82-158)
     total_radiated_power.pyx TotalRadiatedPower.__init__/emission/_populate_cache (lines 58-160)
     tools/emitters/radiation_function.pyx RadiationFunction.emission_function (lines 63-76)
     utility/constants.pyx  RECIP_4_PI                                                          *)
Require Import Cherab.Common.Qx.
Open Scope Q_scope.

(* ---------------------------------------------------------------------------------------- *)
(* plasma point                                                                             *)
(* ---------------------------------------------------------------------------------------- *)
Record species := mkSpecies {
  s_elem : Z;      (* identity of the Element object (hydrogen, deuterium, ... are different ids) *)
  s_charge : Z;
  s_znum : Z;      (* element.atomic_number *)
  s_dens : Q;      (* distribution.density(x, y, z) at the point *)
  s_temp : Q       (* distribution.effective_temperature(x, y, z) at the point *)
}.
Definition composition := list species.

(* Composition is a dict keyed by (element, charge): Composition.get *)
Definition key_eqb (e c : Z) (s : species) : bool := Z.eqb (s_elem s) e && Z.eqb (s_charge s) c.
Definition comp_get (comp : composition) (e c : Z) : option species := find (key_eqb e c) comp.

Record line := mkLine { l_elem : Z; l_charge : Z; l_trans : Z }.

(* the atomic data provider: each accessor returns a rate function *)
Record provider := mkProvider {
  excit_pec : Z -> Z -> Z -> Q -> Q -> Q;               (* element charge transition; ne te *)
  recom_pec : Z -> Z -> Z -> Q -> Q -> Q;
  tcx_pec : Z -> Z -> Z -> Z -> Z -> Q -> Q -> Q -> Q;  (* donor el, donor charge, receiver el, receiver charge, transition; ne te t_donor *)
  plt_rate : Z -> Z -> option (Q -> Q -> Q);            (* line_radiated_power_rate(element, charge); None = no data *)
  prb_rate : Z -> Z -> option (Q -> Q -> Q);            (* continuum_radiated_power_rate *)
  prc_rate : Z -> Z -> option (Q -> Q -> Q)             (* cx_radiated_power_rate *)
}.

(* what one call of model.emission(point, direction, spectrum) does *)
Inductive outcome :=
| ErrValue                 (* ValueError (constructor argument check) *)
| ErrRuntime               (* RuntimeError (species missing from the composition) *)
| Skip                     (* early return: the spectrum is returned untouched *)
| Emit (r : Q).            (* radiance handed to the line shape / added to every bin *)

Definition emitted (o : outcome) : Q := match o with Emit r => r | _ => 0 end.

(* RECIP_4_PI = 1 / (4 * M_PI) as the exact rational of the double 0x1.45f306dc9c883p-4 *)
Definition k4pi : Q := Qmake 5734161139222659 72057594037927936.

(* ---------------------------------------------------------------------------------------- *)
(* ExcitationLine / RecombinationLine                                                       *)
(* ---------------------------------------------------------------------------------------- *)
(* emission(): ne <= 0, te <= 0, ni <= 0 guards in this order, then
   radiance = RECIP_4_PI * rates.evaluate(ne, te) * ne * ni *)
Definition line_radiance (rate : Q -> Q -> Q) (ne te : Q) (target : species) : outcome :=
  if Qle_bool ne 0 then Skip else
  if Qle_bool te 0 then Skip else
  let ni := s_dens target in
  if Qle_bool ni 0 then Skip else
  Emit (k4pi * rate ne te * ne * ni).

(* _populate_cache: composition.get(line.element, line.charge), impact_excitation_pec(element, charge, transition) *)
Definition excitation_radiance (P : provider) (l : line) (ne te : Q) (comp : composition) : outcome :=
  match comp_get comp (l_elem l) (l_charge l) with
  | None => ErrRuntime
  | Some target => line_radiance (excit_pec P (l_elem l) (l_charge l) (l_trans l)) ne te target
  end.

(* _populate_cache: receiver_charge = line.charge + 1; composition.get(element, receiver_charge);
   recombination_pec(element, line.charge, transition) *)
Definition recombination_radiance (P : provider) (l : line) (ne te : Q) (comp : composition) : outcome :=
  match comp_get comp (l_elem l) (l_charge l + 1) with
  | None => ErrRuntime
  | Some target => line_radiance (recom_pec P (l_elem l) (l_charge l) (l_trans l)) ne te target
  end.

(* ---------------------------------------------------------------------------------------- *)
(* ThermalCXLine                                                                            *)
(* ---------------------------------------------------------------------------------------- *)
(* _populate_cache: for species in composition:
     if species != target_species and species.charge < species.element.atomic_number: cache a rate
   (Species objects are unique per (element, charge) key, so != is key inequality) *)
Definition is_donor (receiver s : species) : bool :=
  negb (key_eqb (s_elem receiver) (s_charge receiver) s) && Z.ltb (s_charge s) (s_znum s).
Definition donors (receiver : species) (comp : composition) : list species := filter (is_donor receiver) comp.

(* donor_density * rate.evaluate(ne, te, donor_temperature) *)
Definition tcx_raw_term (P : provider) (l : line) (ne te : Q) (d : species) : Q :=
  s_dens d * tcx_pec P (s_elem d) (s_charge d) (l_elem l) (l_charge l + 1) (l_trans l) ne te (s_temp d).

(* the contribution of one donor: nothing when its density is non-positive (the donor is skipped before its
   temperature is sampled and before the rate is evaluated) *)
Definition tcx_term (P : provider) (l : line) (ne te : Q) (d : species) : Q :=
  if Qle_bool (s_dens d) 0 then 0 else tcx_raw_term P l ne te d.

(* the loop:  if donor_density <= 0.0: continue
              weighted_rate += donor_density * rate.evaluate(ne, te, donor_temperature) *)
Definition tcx_weighted (P : provider) (l : line) (ne te : Q) (ds : list species) : Q :=
  fold_left (fun acc d => if Qle_bool (s_dens d) 0 then acc else acc + tcx_raw_term P l ne te d) ds 0.

Definition thermalcx_radiance (P : provider) (l : line) (ne te : Q) (comp : composition) : outcome :=
  match comp_get comp (l_elem l) (l_charge l + 1) with
  | None => ErrRuntime
  | Some receiver =>
    if Qle_bool ne 0 then Skip else
    if Qle_bool te 0 then Skip else
    let nr := s_dens receiver in
    if Qle_bool nr 0 then Skip else
    Emit (k4pi * tcx_weighted P l ne te (donors receiver comp) * nr)
  end.

(* ---------------------------------------------------------------------------------------- *)
(* TotalRadiatedPower                                                                       *)
(* ---------------------------------------------------------------------------------------- *)
(* nhyd: for hyd_isotope in (hydrogen, deuterium, tritium): composition.get(isotope, 0), missing ones skipped *)
Definition hyd_density (hyd : list Z) (comp : composition) : Q :=
  fold_left (fun acc h => match comp_get comp h 0 with Some s => acc + s_dens s | None => acc end) hyd 0.

(* the three guarded terms, in the order of the code; a missing rate object is falsy *)
Definition power_term (rate : option (Q -> Q -> Q)) (ne te : Q) (guard_ok : bool) (factor : Q) : Q :=
  match rate with
  | Some r => if guard_ok then r ne te * factor else 0
  | None => 0
  end.

Definition pos (x : Q) : bool := negb (Qle_bool x 0).

(* if self._plt_rate and ni > 0:  power_density += plt.evaluate(ne, te) * ne * ni *)
Definition exc_term (P : provider) (e c : Z) (ne te ni : Q) : Q :=
  power_term (plt_rate P e c) ne te (pos ni) (ne * ni).
(* if self._prb_rate and ni_upper > 0:  power_density += prb.evaluate(ne, te) * ne * ni_upper *)
Definition rec_term (P : provider) (e c : Z) (ne te ni_upper : Q) : Q :=
  power_term (prb_rate P e (c + 1)) ne te (pos ni_upper) (ne * ni_upper).
(* if self._prc_rate and ni_upper > 0 and nhyd > 0:  power_density += prc.evaluate(ne, te) * nhyd * ni_upper *)
Definition cx_term (P : provider) (e c : Z) (ne te ni_upper nhyd : Q) : Q :=
  power_term (prc_rate P e (c + 1)) ne te (pos ni_upper && pos nhyd) (nhyd * ni_upper).

Definition total_power_density (P : provider) (e c : Z) (ne te ni ni_upper nhyd : Q) : Q :=
  0 + exc_term P e c ne te ni + rec_term P e c ne te ni_upper + cx_term P e c ne te ni_upper nhyd.

(* the coefficient of a rate that may be missing *)
Definition coef (rate : option (Q -> Q -> Q)) (ne te : Q) : Q :=
  match rate with Some r => r ne te | None => 0 end.
Definition dens_or_0 (comp : composition) (h : Z) : Q :=
  match comp_get comp h 0 with Some s => s_dens s | None => 0 end.

(* __init__: 0 <= charge < element.atomic_number else ValueError;
   _populate_cache: get(element, charge), get(element, charge + 1) else RuntimeError;
   emission: ne, te guards; radiance = RECIP_4_PI * power_density / (max_wavelength - min_wavelength) *)
Definition total_power_radiance (P : provider) (hyd : list Z) (e c znum : Z) (ne te : Q)
           (comp : composition) (minw maxw : Q) : outcome :=
  if negb (Z.leb 0 c && Z.ltb c znum) then ErrValue else
  match comp_get comp e c with
  | None => ErrRuntime
  | Some sp =>
    match comp_get comp e (c + 1) with
    | None => ErrRuntime
    | Some up =>
      if Qle_bool ne 0 then Skip else
      if Qle_bool te 0 then Skip else
      Emit (k4pi * total_power_density P e c ne te (s_dens sp) (s_dens up) (hyd_density hyd comp) / (maxw - minw))
    end
  end.

(* for i in range(spectrum.bins): samples[i] += radiance  (starting from an empty spectrum) *)
Definition uniform_bins (o : outcome) (nbins : nat) : list Q := repeat (emitted o) nbins.

(* wavelength integral of a binned spectrum: sum of samples times the bin width *)
Definition integrate_bins (bins : list Q) (delta : Q) : Q := Qsum bins * delta.

(* ---------------------------------------------------------------------------------------- *)
(* tools/emitters RadiationFunction                                                         *)
(* ---------------------------------------------------------------------------------------- *)
(* emission = radiation_function(x, y, z) / (4 * M_PI * wvl_range), added to every bin;
   mpi is the double M_PI *)
Definition mpi : Q := Qmake 884279719003555 281474976710656.
Definition radiation_function_bin (phi minw maxw : Q) : Q := phi / (4 * mpi * (maxw - minw)).

(* ---------------------------------------------------------------------------------------- *)
(* changing the density of one species (used to state linearity in a density)               *)
(* ---------------------------------------------------------------------------------------- *)
Definition set_dens (s : species) (n : Q) : species :=
  mkSpecies (s_elem s) (s_charge s) (s_znum s) n (s_temp s).
Definition upd_species (e c : Z) (n : Q) (s : species) : species := if key_eqb e c s then set_dens s n else s.
Definition upd_dens (e c : Z) (n : Q) (comp : composition) : composition := map (upd_species e c n) comp.

(* the coefficient of a thermal-CX donor: PEC_d(ne, te, T_d) *)
Definition tcx_coef (P : provider) (l : line) (ne te : Q) (d : species) : Q :=
  tcx_pec P (s_elem d) (s_charge d) (l_elem l) (l_charge l + 1) (l_trans l) ne te (s_temp d).

(* ---------------------------------------------------------------------------------------- *)
(* one model instance evaluated at a sequence of points                                     *)
(* ---------------------------------------------------------------------------------------- *)
(* The modelled emission has no state: evaluating an instance at a sequence of plasma points is the map of the
   single-point function.  (In the code the instance caches _populate_cache results and, for bremsstrahlung, the charge
   and density arrays of its BremsFunction; that they do not leak from one point to the next is what the
   correspondence checks on sequences.) *)
Record ppoint := mkPoint { pt_ne : Q; pt_te : Q; pt_comp : composition }.
Definition emission_seq {B} (emit : Q -> Q -> composition -> B) (pts : list ppoint) : list B :=
  map (fun p => emit (pt_ne p) (pt_te p) (pt_comp p)) pts.

(* ---------------------------------------------------------------------------------------- *)
(* writing into a spectrum that already holds something                                     *)
(* ---------------------------------------------------------------------------------------- *)
(* for i in range(spectrum.bins): spectrum.samples_mv[i] += radiance;  an early return / error leaves it untouched *)
Definition spectrum_after (old : list Q) (o : outcome) : list Q :=
  match o with Emit r => map (fun s => s + r) old | _ => old end.
