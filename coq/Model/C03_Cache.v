(* The per-instance caches of the passive models as a state machine (definitions only).

   Line models / TotalRadiatedPower: _change() (called on every notification of the plasma and by the plasma /
   atomic_data setters) clears the cache; emission() populates it when it is empty; a populate that raises leaves it
   empty (impact_excitation.pyx 84-85/129-135, total_radiated_power.pyx 77-78/150-160).
   Bremsstrahlung: the gaunt_factor setter records whether the user supplied a factor; _change() forgets the factor
   unless it is the user's; _populate_cache fetches the provider's factor when none is held
   (bremsstrahlung.pyx 131-141, 186-187, 222-229, 245-250). *)
Require Import Cherab.Common.Qx.

(* one evaluation: notified = a change notification reached the model since the previous evaluation;
   ok = the populate succeeds.  Returns (the cache is populated during this evaluation, populated afterwards) *)
Definition populate_step (populated notified ok : bool) : bool * bool :=
  let p := if notified then false else populated in
  if p then (false, true) else (true, ok).

Fixpoint run_steps (populated : bool) (steps : list (bool * (bool -> bool) * bool)) : list bool :=
  match steps with
  | [] => []
  | (notified, chk, ok) :: t =>
    let '(fresh, p') := populate_step populated notified ok in chk fresh :: run_steps p' t
  end.

(* Bremsstrahlung: state = (populated, the user supplied a Gaunt factor);
   op 0 nothing, 1 change notification, 2 gaunt_factor = <object>, 3 gaunt_factor = None.
   Returns (the provider's free_free_gaunt_factor() is called during this evaluation, new state) *)
Definition brems_cache_step (st : bool * bool) (op : Z) : bool * (bool * bool) :=
  let '(pop, user) := st in
  let '(pop1, user1) :=
      if Z.eqb op 1 then (false, user) else if Z.eqb op 2 then (false, true) else if Z.eqb op 3 then (false, false)
      else (pop, user) in
  if pop1 then (false, (true, user1)) else (negb user1, (true, user1)).

Fixpoint run_brems_steps (st : bool * bool) (steps : list (Z * (bool -> bool))) : list bool :=
  match steps with
  | [] => []
  | (op, chk) :: t => let '(called, st') := brems_cache_step st op in chk called :: run_brems_steps st' t
  end.
