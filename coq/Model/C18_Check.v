(* Executable comparators used by the correspondence check of C18 (definitions only).
   Each returns a code: 0 = the implementation's observations agree with the model, otherwise the
   number of the first comparison that failed. *)
Require Import Cherab.Common.Qx.
Require Import Cherab.Model.C18_Laser Cherab.Model.C18_Spectrum Cherab.Model.C18_Float.
From Coq Require Import Qabs.
Open Scope Q_scope.

Fixpoint forallb2 {A B} (p : A -> B -> bool) (l1 : list A) (l2 : list B) : bool :=
  match l1, l2 with
  | [], [] => true
  | a :: t1, b :: t2 => p a b && forallb2 p t1 t2
  | _, _ => false
  end.

(* first failing comparison: list of (code, ok) *)
Fixpoint first_bad (l : list (Z * bool)) : Z :=
  match l with [] => 0%Z | (cd, ok) :: t => if ok then first_bad t else cd end.

Fixpoint nonzero_from (i : Z) (l : list Z) : list (Z * Z) :=
  match l with
  | [] => []
  | x :: t => if (x =? 0)%Z then nonzero_from (i + 1) t else (i, x) :: nonzero_from (i + 1) t
  end.
Definition nonzero (l : list Z) : list (Z * Z) := nonzero_from 0 l.

(* tolerances *)
Definition tol_ed : Q := pow2 (-36).       (* energy density, relative *)
Definition tol_tiny : Q := pow2 (-1000).   (* absolute slack for values in the subnormal range (exp underflow) *)
Definition tol_arg : Q := pow2 (-40).      (* exp / erf argument computed in doubles vs exactly, relative *)
Definition tol_geo : Q := pow2 (-48).      (* segment offsets / heights, wavelengths, delta: one or two roundings *)
Definition tol_pow : Q := pow2 (-34).      (* Gaussian bin power, absolute (erf argument error up to 2^-36) *)
Definition tol_key : Q := 1 # 16777216.    (* erf table lookup: 2^-24 absolute; the harness drops cases whose
                                              neighbouring erf arguments are closer than 2^-10 (+ 2^-30 relative); for huge
                                              arguments (tiny stddev) the key is matched to 2^-40 relative *)

Definition sqrt_ok (s v : Q) : bool := Qle_bool 0 s && close tol_geo 0 (s * s) v.

(* ------------------------------------------------------------------------------------------ *)
(* profiles                                                                                     *)
(* ------------------------------------------------------------------------------------------ *)
Definition fields_of (k : pkind) : list fld :=
  match k with
  | KUniform => [Fed; Frad; Flen]
  | KBiv => [Fpe; Fpl; Fsx; Fsy; Frad; Flen]
  | KTri => [Fpe; Fpl; Fsx; Fsy; Fmz; Frad; Flen]
  | KBeam => [Fpe; Fpl; Fwz; Fsw; Fwl; Frad; Flen]
  end.

Definition probe := (vec * Q * Q * Q)%type.     (* point, exp argument (double), exp value, get_energy_density *)

Definition check_probe (pi s2pi3 : Q) (f : edfun) (p : probe) : bool :=
  let '(pt, arg, ev, impl) := p in
  let '(x, y, z) := pt in
  close tol_arg (pow2 (-70)) (exp_arg pi f x y z) arg &&
  match ed_eval pi s2pi3 (fun _ => ev) f x y z with
  | Some v => close tol_ed tol_tiny v impl
  | None => false
  end.

Definition check_vec (a b : vec) : bool :=
  let '(x, y, z) := a in let '(u, v, w) := b in
  close 0 tol_geo x u && close 0 tol_geo y v && close 0 tol_geo z w.

(* radii: the distinct radii of the node's cylinders; nseg: their number; segs: (index, (offset, height)) of
   the first two, the last and some random cylinders (the search checks the complete tiling on the real objects) *)
Definition check_seg (m i : Q * Q) : bool :=
  close tol_geo 0 (fst m) (fst i) && close tol_geo 0 (snd m) (snd i).

Definition check_profile (c pi s2pi3 : Q) (k : pkind) (a : pargs) (ops : list pop)
    (ctor_ok : bool) (rs : list Z) (rep : list Q) (probes : list probe)
    (polv : vec) (pol_len : Q) (radii : list Q) (nseg : Z) (segs : list (Z * (Q * Q))) (exactfl : bool) : Z :=
  match construct c k a with
  | None => if ctor_ok then 1%Z else 0%Z
  | Some s0 =>
      if negb ctor_ok then 1%Z else
      let (s, mr) := run c s0 ops in
      first_bad [
        (2%Z, forallb2 Z.eqb (map res_code mr) rs);
        (3%Z, forallb2 Qeq_bool (map (fun f => get f (vals s)) (fields_of k)) rep);
        (4%Z, sqrt_ok s2pi3 ((2 * pi) * (2 * pi) * (2 * pi)));
        (5%Z, forallb (check_probe pi s2pi3 (efun s)) probes);
        (6%Z, sqrt_ok pol_len (norm2 (pol s)) && check_vec (pol_eval pol_len (pol s)) polv);
        (7%Z, forallb (Qeq_bool (v_rad (vals s))) radii);
        (8%Z, match geom s with
              | Some l => (Z.of_nat (length l) =? nseg)%Z &&
                          forallb (fun e => check_seg (nth (Z.to_nat (fst e)) l (-1, -1)) (snd e)) segs
              | None => false
              end);
        (* the same cylinders against the computation in doubles: EXACT (normal range only, [exactfl]) *)
        (9%Z, negb exactfl ||
              forallb (fun e => let m := if (1 <? nseg)%Z then fl_segment round53 (v_len (vals s)) nseg (fst e)
                                         else (0, v_len (vals s)) in
                                Qeq_bool (fst m) (fst (snd e)) && Qeq_bool (snd m) (snd (snd e))) segs) ]
  end.

(* several Laser nodes sharing one profile: results of the calls, number of listening extra nodes, and for each
   of them the number of cylinders and sampled (index, (offset, height)) *)
Definition check_node (m : option (list (Q * Q))) (i : Z * list (Z * (Q * Q))) : bool :=
  match m with
  | Some l => (Z.of_nat (length l) =? fst i)%Z &&
              forallb (fun e => check_seg (nth (Z.to_nat (fst e)) l (-1, -1)) (snd e)) (snd i)
  | None => false
  end.

Definition check_nodes (c : Q) (k : pkind) (a : pargs) (ops : list mop) (rs : list Z)
    (nodes : list (Z * list (Z * (Q * Q)))) : Z :=
  match construct c k a with
  | None => 1%Z
  | Some s0 =>
      let (m, mr) := mrun c (mkM s0 []) ops in
      first_bad [
        (2%Z, forallb2 Z.eqb (map res_code mr) rs);
        (3%Z, forallb2 check_node (geom (base m) :: extras m) nodes) ]
  end.

(* ------------------------------------------------------------------------------------------ *)
(* spectra                                                                                      *)
(* ------------------------------------------------------------------------------------------ *)
Definition sentinel : Q := 1000.

(* [slack]: the implementation's argument (edge - mean) * norm_cdf carries the rounding of the edge (about one ulp
   of the wavelength) times norm_cdf; the harness hands over 2^-44 * max_wavelength * norm_cdf and drops cases whose
   neighbouring arguments are closer than 2^-10 + 4 slack *)
Fixpoint erf_lookup_red (slack : Q) (tbl : list (Q * Q)) (a : Q) : Q :=
  match tbl with
  | [] => sentinel
  | (k, v) :: t => if Qle_bool (Qabs (k - a)) slack then v else erf_lookup_red slack t a
  end.
Definition erf_lookup (slack : Q) (tbl : list (Q * Q)) (a : Q) : Q := erf_lookup_red (tol_key + slack) tbl (Qred a).

(* ConstantSpectrum: bin power = overlap / (max - min).  The implementation accumulates the bin edges in
   doubles (error about one ulp of the wavelength per edge); where an outer bin is clipped to [min, max]
   this enters the power as ulp(wavelength) / (max - min).  Tolerance on the power: 2^-46 * max / (max - min)
   (1.4e-11 for a 1 nm range at 1000 nm); a halved bin is off by 1/(2 bins). *)
Definition check_psd_const (s : sstate) (impl : list Q) : bool :=
  (* one rounding per accumulated edge: the allowance grows with the number of bins (64 ulp + 1 ulp per bin) *)
  let tol := (pow2 (-46) + pow2 (-52) * inject_Z (s_bins s)) * (s_max s / (s_max s - s_min s)) in
  forallb2 (fun m i => close 0 tol (m * s_delta s) (i * s_delta s)) (s_psd s) impl.

Definition seval := (Q * Q * Q * Q)%type.      (* x, exp argument (double), exp value, spectrum(x) *)

Definition check_seval (erf : Q -> Q) (sqrt2 sqrt2pi : Q) (s : sstate) (e : seval) : bool :=
  let '(x, arg, ev, impl) := e in
  match sk s with
  | SConst => Qeq_bool (s_eval (fun _ => ev) s x) impl
              || close tol_geo 0 (s_eval (fun _ => ev) s x) impl
  | SGauss => close tol_arg (pow2 (-70)) (-(1 # 2) * sq ((x - s_mean s) * s_recip s)) arg
              && close tol_ed tol_tiny (s_eval (fun _ => ev) s x) impl
  end.

(* rep = [min_wavelength; max_wavelength; get_min_wavelenth(); get_max_wavelenth(); mean; stddev]
   (mean, stddev only for the Gaussian), zrep = [bins; get_spectral_bins()],
   deltas = [delta_wavelength; get_delta_wavelength()] *)
Definition check_spectrum (pi sqrt2 sqrt2pi : Q) (k : skind) (a : sargs) (ops : list sop)
    (ctor_ok : bool) (rs : list Z) (rep : list Q) (zrep : list Z) (deltas : list Q)
    (slack : Q) (tbl : list (Q * Q)) (wl psd : list Q) (evals : list seval)
    (exactfl : bool) (calls : list (Q * Q * Q)) : Z :=
  let erf := erf_lookup slack tbl in
  match sconstruct erf sqrt2 sqrt2pi k a with
  | None => if ctor_ok then 1%Z else 0%Z
  | Some s0 =>
      if negb ctor_ok then 1%Z else
      let (s, mr) := srun erf sqrt2 sqrt2pi s0 ops in
      let mrep := [s_min s; s_max s; get_min_wavelenth s; get_max_wavelenth s] ++
                  match k with SGauss => [s_mean s; s_std s] | SConst => [] end in
      first_bad [
        (2%Z, forallb2 Z.eqb (map res_code mr) rs);
        (3%Z, forallb2 Qeq_bool mrep rep);
        (4%Z, forallb2 Z.eqb [s_bins s; get_spectral_bins s] zrep);
        (5%Z, sqrt_ok sqrt2pi (2 * pi) && sqrt_ok sqrt2 2);
        (6%Z, forallb2 (close tol_geo 0) [s_delta s; get_delta_wavelength s] deltas);
        (7%Z, forallb2 (close tol_geo 0) (s_wl s) wl);
        (8%Z, match k with
              | SConst => check_psd_const s psd
              | SGauss => forallb2 (fun m i => close 0 tol_pow (m * s_delta s) (i * s_delta s)) (s_psd s) psd
              end);
        (9%Z, forallb (check_seval erf sqrt2 sqrt2pi s) evals);
        (* delta_wavelength, wavelengths and (ConstantSpectrum) the binned density against the computation in doubles:
           EXACT, no tolerance (normal range only, [exactfl]) *)
        (10%Z, negb exactfl ||
               let d := fl_delta round53 (s_min s) (s_max s) (s_bins s) in
               forallb (Qeq_bool d) deltas &&
               forallb2 Qeq_bool (map (fl_centre round53 (s_min s) d) (seq 0 (Z.to_nat (s_bins s)))) wl &&
               match k with
               | SConst => forallb2 Qeq_bool (fl_const_psd round53 (s_min s) (s_max s) (s_bins s)) psd
               | SGauss => true
               end);
        (* direct calls obj._get_bin_power_spectral_density(lo, hi) of the ConstantSpectrum: the model's bin_psd *)
        (11%Z, forallb (fun cl => let '(lo, hi, impl) := cl in
                          close tol_geo (pow2 (-1000)) (bin_psd erf s (s_delta s) lo hi) impl) calls) ]
  end.
