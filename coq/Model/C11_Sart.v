(* Model of cherab/tools/inversions/sart.pyx : invert_sart (lines 26-157) and
   invert_constrained_sart (lines 161-302).  Definitions only; proofs are in Proofs/C11_Sart.v.

   Vectors are lists of rationals, a matrix is the list of its rows.  Arithmetic is exact (Q).
   [Qred] (the identity on the value of a rational, [Qred_correct]) is applied where the code
   stores a number, so that numerators/denominators stay reduced when the model is run.

   What is mirrored, with the source lines:
     cell_ray_densities = sum over axis 0        (99 / 240)      -> [col_sum W j]
     ray_lengths        = sum over axis 1        (103 / 244)     -> [row_sums W]
     y_hat = W . solution                        (107,142 / 248,287) -> [mv W x]
       (the code carries y_hat from the end of the previous sweep; it is always W . solution
        for the current solution, which is what the model recomputes)
     grad_penalty = (L . solution) * beta        (253)           -> [penalties]
     inner loop, "if ray_lengths[i] == 0: continue" (121-126 / 266-271) -> [obs_diff]
     "if density > 0: x + relax/density*obs_diff [- pen] else x [- pen]" (116-132 / 260-277)
     "if x_new < 0: x_new = 0"                   (135-136 / 280-281) -> [clip]
     all cells are updated from the OLD solution (solution_new is a second array) -> [cells]
     convergence value (145-147 / 290-292)       -> [conv]; division by m.m = 0 raises
                                                    ZeroDivisionError (C double division, checked)
     "if k > 0: if |c_k - c_(k-1)| < conv_tol: break" (153-155 / 298-300) -> [stop_now], [loop]
     initial guess None / scalar / array         (81-86 / 222-227) -> [initial_solution] *)
Require Import Cherab.Common.Qx.
From Coq Require Import Qabs.
Open Scope Q_scope.

Definition vec := list Q.
Definition mat := list (list Q).

Definition Qltb (a b : Q) : bool := negb (Qle_bool b a).

Fixpoint dot (a b : vec) : Q :=
  match a, b with
  | x :: a', y :: b' => Qred (x * y + dot a' b')
  | _, _ => 0
  end.

Fixpoint qsum (l : vec) : Q := match l with [] => 0 | x :: t => Qred (x + qsum t) end.

Fixpoint vsub (a b : vec) : vec :=
  match a, b with x :: a', y :: b' => Qred (x - y) :: vsub a' b' | _, _ => [] end.

Definition mv (W : mat) (x : vec) : vec := map (fun r => dot r x) W.
Definition entry (r : vec) (j : nat) : Q := nth j r 0.
Definition row_sums (W : mat) : vec := map qsum W.
Definition col_sum (W : mat) (j : nat) : Q := qsum (map (fun r => entry r j) W).

(* sum over the observations i of (W[i,j] / ray_length[i]) * (b[i] - y_hat[i]), rays of zero length skipped;
   [lens] = ray lengths, [diffs] = b - y_hat *)
Fixpoint obs_diff (j : nat) (W : mat) (lens diffs : vec) : Q :=
  match W, lens, diffs with
  | r :: W', l :: lens', e :: diffs' =>
      Qred ((if Qeq_bool l 0 then 0 else (entry r j * / l) * e) + obs_diff j W' lens' diffs')
  | _, _, _ => 0
  end.

Definition clip (v : Q) : Q := if Qltb v 0 then 0 else Qred v.

(* invert_sart, body of "for jth_cell" *)
Definition sart_cell (relax : Q) (W : mat) (lens diffs : vec) (j : nat) (xj : Q) : Q :=
  let dj := col_sum W j in
  clip (if Qltb 0 dj then xj + (relax / dj) * obs_diff j W lens diffs else xj).

(* invert_constrained_sart, body of "for jth_cell" *)
Definition csart_cell (relax : Q) (W : mat) (lens diffs pen : vec) (j : nat) (xj : Q) : Q :=
  let dj := col_sum W j in
  clip (if Qltb 0 dj then xj + (relax / dj) * obs_diff j W lens diffs - entry pen j
        else xj - entry pen j).

(* simultaneous update of all cells from the old solution *)
Fixpoint cells (f : nat -> Q -> Q) (j : nat) (x : vec) : vec :=
  match x with [] => [] | xj :: t => f j xj :: cells f (S j) t end.

Definition sart_step (relax : Q) (W : mat) (b x : vec) : vec :=
  let lens := row_sums W in
  let diffs := vsub b (mv W x) in
  cells (sart_cell relax W lens diffs) 0 x.

Definition penalties (beta : Q) (L : mat) (x : vec) : vec := map (fun v => Qred (v * beta)) (mv L x).

Definition csart_step (relax beta : Q) (W L : mat) (b x : vec) : vec :=
  let lens := row_sums W in
  let diffs := vsub b (mv W x) in
  let pen := penalties beta L x in
  cells (csart_cell relax W lens diffs pen) 0 x.

(* (m.m - y_hat.y_hat) / m.m *)
Definition conv (W : mat) (b x : vec) : Q :=
  let y := mv W x in Qred ((dot b b - dot y y) / dot b b).

(* the test made after iteration k; [prev] = None exactly when k = 0 *)
Definition stop_now (tol : Q) (prev : option Q) (c : Q) : bool :=
  match prev with None => false | Some p => Qltb (Qabs (c - p)) tol end.

Section Loop.
  Variable step : vec -> vec.
  Variable cv : vec -> Q.
  Variable tol : Q.

  (* [fuel] = iterations still allowed; returns the solution and the convergence list *)
  Fixpoint loop (fuel : nat) (prev : option Q) (x : vec) : vec * list Q :=
    match fuel with
    | O => (x, [])
    | S f =>
        let x' := step x in
        let c := cv x' in
        if stop_now tol prev c then (x', [c])
        else let (xf, cs) := loop f (Some c) x' in (xf, c :: cs)
    end.
End Loop.

(* the k-th iterate of the update rule from x *)
Fixpoint iterate (step : vec -> vec) (k : nat) (x : vec) : vec :=
  match k with O => x | S k' => iterate step k' (step x) end.

Inductive guess := GuessNone | GuessConst (c : Q) | GuessVec (v : vec).
(* [e1] is the double np.exp(-1) (a constant of the run-time system, supplied by the harness) *)
Definition initial_solution (e1 : Q) (n : nat) (g : guess) : vec :=
  match g with GuessNone => repeat e1 n | GuessConst c => repeat c n | GuessVec v => v end.

Inductive result := Ok (x : vec) (convs : list Q) | ErrZeroDivision.

Definition run_with (step : vec -> vec) (W : mat) (b x0 : vec) (max_iterations : Z) (tol : Q) : result :=
  match Z.to_nat max_iterations with
  | O => Ok x0 []
  | fuel => if Qeq_bool (dot b b) 0 then ErrZeroDivision
            else let (x, cs) := loop step (conv W b) tol fuel None x0 in Ok x cs
  end.

Definition invert_sart (e1 : Q) (n : nat) (W : mat) (b : vec) (g : guess)
           (max_iterations : Z) (relax tol : Q) : result :=
  run_with (sart_step relax W b) W b (initial_solution e1 n g) max_iterations tol.

Definition invert_constrained_sart (e1 : Q) (n : nat) (W L : mat) (b : vec) (g : guess)
           (max_iterations : Z) (relax beta tol : Q) : result :=
  run_with (csart_step relax beta W L b) W b (initial_solution e1 n g) max_iterations tol.

(* ---- the documented update rule (docstring of invert_sart / invert_constrained_sart), written as
   the formula reads: x_l + omega / W_(+,l) * sum_k W_(k,l)/W_(k,+) * (Phi_k - PhiHat_k) [- beta*(L x)_l] ---- *)
Definition doc_sum (W : mat) (b x : vec) (l : nat) : Q :=
  Qsum (map (fun rb => (entry (fst rb) l / Qsum (fst rb)) * (snd rb - dot (fst rb) x)) (combine W b)).
Definition doc_update (relax : Q) (W : mat) (b x : vec) (l : nat) : Q :=
  entry x l + relax / Qsum (map (fun r => entry r l) W) * doc_sum W b x l.
Definition doc_penalty (beta : Q) (L : mat) (x : vec) (l : nat) : Q :=
  beta * dot (nth l L []) x.
