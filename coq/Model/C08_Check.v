(* C08 -- boolean comparators used by the correspondence (definitions only). *)
Require Import Cherab.Common.Qx.
Require Import Cherab.Model.C08_Text Cherab.Model.C08_Adf.
Require Cherab.Model.C11_Round.
From Coq Require Import Ascii String Qround.
Open Scope Z_scope.

Fixpoint forallb2 {A B} (p : A -> B -> bool) (l1 : list A) (l2 : list B) : bool :=
  match l1, l2 with
  | [], [] => true
  | a :: t1, b :: t2 => p a b && forallb2 p t1 t2
  | _, _ => false
  end.

(* float() is correctly rounded (2^-53), each conversion is one or two double operations with a constant
   that is itself within 2^-53 of the decimal factor: 2^-50 relative bounds the total with room to spare;
   no absolute slack (a printed zero must come back as zero) *)
(* literals of the case files: a double m * 2^e, a decimal m * 10^k *)
Definition qd (m e : Z) : Q := (inject_Z m * pow2 e)%Q.
Definition qe (m k : Z) : Q := (inject_Z m * Qpower (10 # 1) k)%Q.

Definition tol : Q := pow2 (-50).
Definition qclose (a b : Q) : bool := close tol 0 a b.

(* nested ifs, not &&: under vm_compute (call by value) the values are then compared only for entries with equal keys *)
Definition entry_close (a b : entry) : bool :=
  if keys_eqb (e_keys a) (e_keys b) then
    if forallb2 Z.eqb (e_shape a) (e_shape b) then forallb2 (forallb2 qclose) (e_vals a) (e_vals b) else false
  else false.
(* same key set, and for every key the same shape and values (order of the entries is immaterial) *)
Definition table_eqv (a b : table) : bool :=
  Nat.eqb (List.length a) (List.length b) && forallb (fun x => existsb (entry_close x) b) a.

Definition err_eqb (a b : err) : bool :=
  match a, b with
  | EValue, EValue | ERuntime, ERuntime | EIndex, EIndex | EKey, EKey | EType, EType | EAttr, EAttr | EOther, EOther => true
  | _, _ => false
  end.
Definition res_eqv (a b : res table) : bool :=
  match a, b with
  | Ok x, Ok y => table_eqv x y
  | Err x, Err y => err_eqb x y
  | _, _ => false
  end.

Definition text (s : string) : list str := lines (S_ s).

(* ---- ADF11 through install_adf11* and back through the repository ---------------------------------
   pow is the harness's evaluation of 10**x (libm) at the values the parser returned, in the layout of
   the parser's table.  Checked here: pow lies between the integer powers of ten that bracket the model's
   (exact) log value, and the table read back is pow with the cm^3 factors, under the stored charge. *)
Definition bracket (x p : Q) : bool :=
  let lo := Qpower (10 # 1) (Qfloor x) in let hi := Qpower (10 # 1) (Qceiling x) in
  Qle_bool (lo * (1 - pow2 (-40)))%Q p && Qle_bool p (hi * (1 + pow2 (-40)))%Q.
Definition entry_bracket (mdl pw : entry) : bool :=
  keys_eqb (e_keys mdl) (e_keys pw) && forallb2 (forallb2 bracket) (e_vals mdl) (e_vals pw).
Definition apply_units (e : entry) : entry :=
  match e_vals e with
  | [ne; te; r] => {| e_keys := e_keys e; e_shape := e_shape e; e_vals := [scale per_cm3 ne; te; scale cm3 r] |}
  | _ => e
  end.
Definition check_adf11_install (t : adf11_type) (model : res table) (pw readback : table) : bool :=
  match model with
  | Ok mt => forallb (fun x => existsb (entry_bracket x) pw) mt && Nat.eqb (List.length mt) (List.length pw)
             && table_eqv (adf11_rekey t (map apply_units pw)) readback
  | Err _ => false
  end.

(* the Coq writer model reproduces the records of the file actually used *)
Definition check_writer (per_line : nat) (fields : list str) (file_lines : list str) : bool :=
  forallb2 streqb (write_values per_line fields) file_lines.

(* ADF15 thermal-CX blocks read back from the repository (3-D) against the model's parse of the file *)
Definition check_thermalcx (charge : Z) (model : res table) (readback : table) : bool :=
  match model with Ok t => table_eqv (thermalcx_table charge t) readback | Err _ => false end.

Definition located_eqb (a b : located) : bool :=
  match a, b with InAdasPath, InAdasPath | InCache, InCache | Download, Download | NotLocated, NotLocated => true | _, _ => false end.
(* the probed behaviour of _locate_adas_file on all sixteen situations *)
Definition check_locate (obs : list (bool * bool * bool * bool * located)) : bool :=
  forallb (fun o => let '(a, b, c, d, r) := o in located_eqb (locate a b c d) r) obs && Nat.eqb (List.length obs) 16.

(* ==== EXACT comparison (no tolerance): the doubles the implementation returns are reproduced bit for bit ==================
   float() / np.fromstring are correctly rounded (round-to-nearest-even to binary64: r53, the model of Model/C11_Round.v),
   and every documented conversion is ONE further double operation with a double constant:
     x * 1e6        -> r53 (r53 x * 1e6)              (1e6 is a double)
     x * 1e-6       -> r53 (r53 x * r53 (1/10^6))     (the constant 1e-6 is the double nearest to 10^-6)
     wavelength/10  -> r53 (r53 w / 10)
   The model's tables hold the exact decimal value v = f * x; the token value x is recovered as v / f. *)
Definition r53 (q : Q) : Q := C11_Round.round53 q.
Inductive fspec := FMul (f : Q) | FDiv (d : Q) | FEach (fs : list Q).
Definition dbl_mul (f v : Q) : Q := if Qeq_bool f 1 then r53 v else r53 (r53 (v / f) * r53 f).
Definition exact_list (sp : fspec) (model impl : list Q) : bool :=
  match sp with
  | FMul f => forallb2 (fun v i => Qeq_bool (dbl_mul f v) i) model impl
  | FDiv d => forallb2 (fun v i => Qeq_bool (r53 (r53 (v * d) / d)) i) model impl
  | FEach fs => Nat.eqb (List.length fs) (List.length model)
                && forallb2 (fun fv i => Qeq_bool (dbl_mul (fst fv) (snd fv)) i) (combine fs model) impl
  end.
Fixpoint exact_lists (sps : list fspec) (model impl : list (list Q)) : bool :=
  match sps, model, impl with
  | [], [], [] => true
  | sp :: sps', a :: model', b :: impl' => if exact_list sp a b then exact_lists sps' model' impl' else false
  | _, _, _ => false
  end.
Definition entry_exact (spec : entry -> list fspec) (a b : entry) : bool :=
  if keys_eqb (e_keys a) (e_keys b) then
    if forallb2 Z.eqb (e_shape a) (e_shape b) then exact_lists (spec a) (e_vals a) (e_vals b) else false
  else false.
Definition table_exact (spec : entry -> list fspec) (a b : table) : bool :=
  Nat.eqb (List.length a) (List.length b) && forallb (fun x => existsb (entry_exact spec x) b) a.
Definition res_exact (spec : entry -> list fspec) (a b : res table) : bool :=
  match a, b with
  | Ok x, Ok y => table_exact spec x y
  | Err x, Err y => err_eqb x y
  | _, _ => false
  end.

(* which conversion each value list of each format carries *)
Definition spec_2x (norm : Q) (_ : entry) : list fspec :=
  [FMul 1; FMul per_cm3; FMul 1; FMul norm; FMul norm; FEach [1; per_cm3; 1; norm]%Q].
Definition spec_12 (_ : entry) : list fspec :=
  [FMul 1; FMul 1; FMul per_cm3; FMul 1; FMul 1; FMul cm3; FMul cm3; FMul cm3; FMul cm3; FMul cm3;
   FEach [1; 1; per_cm3; 1; 1; cm3]%Q].
Definition spec_11 (_ : entry) : list fspec := [FMul 1; FMul 1; FMul 1].
Definition spec_15 (e : entry) : list fspec :=
  match e_shape e with [] => [FDiv (10 # 1)] | _ => [FMul per_cm3; FMul 1; FMul cm3] end.
Definition spec_tcx (_ : entry) : list fspec := [FMul per_cm3; FMul 1; FMul 1; FMul cm3].

(* model = what the writer wrote: two exact rationals, compared for equality *)
Definition spec_id (e : entry) : list fspec := map (fun _ => FMul 1) (e_vals e).
Definition entry_same (a b : entry) : bool :=
  if keys_eqb (e_keys a) (e_keys b) then
    if forallb2 Z.eqb (e_shape a) (e_shape b) then forallb2 (forallb2 Qeq_bool) (e_vals a) (e_vals b) else false
  else false.
Definition res_same (a b : res table) : bool :=
  match a, b with
  | Ok x, Ok y => Nat.eqb (List.length x) (List.length y) && forallb (fun e => existsb (entry_same e) y) x
  | Err x, Err y => err_eqb x y
  | _, _ => false
  end.

(* ADF11 through install and back, exactly: pow is the libm value of 10**x at the doubles the parser returned (oracle,
   bracketed as before); the table read back is r53 (pow * 1e6), pow, r53 (pow * r53 1e-6), under the stored charge *)
Definition apply_units_exact (e : entry) : entry :=
  match e_vals e with
  | [ne; te; r] => {| e_keys := e_keys e; e_shape := e_shape e;
                      e_vals := [map (fun p => r53 (p * per_cm3)) ne; te; map (fun p => r53 (p * r53 cm3)) r] |}
  | _ => e
  end.
Definition check_adf11_install_exact (t : adf11_type) (model : res table) (pw readback : table) : bool :=
  match model with
  | Ok mt => forallb (fun x => existsb (entry_bracket x) pw) mt && Nat.eqb (List.length mt) (List.length pw)
             && res_same (Ok (adf11_rekey t (map apply_units_exact pw))) (Ok readback)
  | Err _ => false
  end.
Definition check_thermalcx_exact (charge : Z) (model : res table) (readback : table) : bool :=
  match model with Ok t => table_exact spec_tcx (thermalcx_table charge t) readback | Err _ => false end.
