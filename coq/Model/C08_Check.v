(* C08 -- boolean comparators used by the correspondence (definitions only). *)
Require Import Cherab.Common.Qx.
Require Import Cherab.Model.C08_Text Cherab.Model.C08_Adf.
From Coq Require Import Ascii String Qround.
Open Scope Z_scope.

Fixpoint forallb2 {A B} (p : A -> B -> bool) (l1 : list A) (l2 : list B) : bool :=
  match l1, l2 with
  | [], [] => true
  | a :: t1, b :: t2 => p a b && forallb2 p t1 t2
  | _, _ => false
  end.

(* float() is correctly rounded (2^-53), each conversion is one or two double operations with a constant
   that is itself within 2^-53 of the decimal factor: 2^-50 relative bounds the total with room to spare;
   no absolute slack (a printed zero must come back as zero) *)
(* literals of the case files: a double m * 2^e, a decimal m * 10^k *)
Definition qd (m e : Z) : Q := (inject_Z m * pow2 e)%Q.
Definition qe (m k : Z) : Q := (inject_Z m * Qpower (10 # 1) k)%Q.

Definition tol : Q := pow2 (-50).
Definition qclose (a b : Q) : bool := close tol 0 a b.

(* nested ifs, not &&: under vm_compute (call by value) the values are then compared only for entries with equal keys *)
Definition entry_close (a b : entry) : bool :=
  if keys_eqb (e_keys a) (e_keys b) then
    if forallb2 Z.eqb (e_shape a) (e_shape b) then forallb2 (forallb2 qclose) (e_vals a) (e_vals b) else false
  else false.
(* same key set, and for every key the same shape and values (order of the entries is immaterial) *)
Definition table_eqv (a b : table) : bool :=
  Nat.eqb (List.length a) (List.length b) && forallb (fun x => existsb (entry_close x) b) a.

Definition err_eqb (a b : err) : bool :=
  match a, b with
  | EValue, EValue | ERuntime, ERuntime | EIndex, EIndex | EKey, EKey | EType, EType | EAttr, EAttr | EOther, EOther => true
  | _, _ => false
  end.
Definition res_eqv (a b : res table) : bool :=
  match a, b with
  | Ok x, Ok y => table_eqv x y
  | Err x, Err y => err_eqb x y
  | _, _ => false
  end.

Definition text (s : string) : list str := lines (S_ s).

(* ---- ADF11 through install_adf11* and back through the repository ---------------------------------
   pow is the harness's evaluation of 10**x (libm) at the values the parser returned, in the layout of
   the parser's table.  Checked here: pow lies between the integer powers of ten that bracket the model's
   (exact) log value, and the table read back is pow with the cm^3 factors, under the stored charge. *)
Definition bracket (x p : Q) : bool :=
  let lo := Qpower (10 # 1) (Qfloor x) in let hi := Qpower (10 # 1) (Qceiling x) in
  Qle_bool (lo * (1 - pow2 (-40)))%Q p && Qle_bool p (hi * (1 + pow2 (-40)))%Q.
Definition entry_bracket (mdl pw : entry) : bool :=
  keys_eqb (e_keys mdl) (e_keys pw) && forallb2 (forallb2 bracket) (e_vals mdl) (e_vals pw).
Definition apply_units (e : entry) : entry :=
  match e_vals e with
  | [ne; te; r] => {| e_keys := e_keys e; e_shape := e_shape e; e_vals := [scale per_cm3 ne; te; scale cm3 r] |}
  | _ => e
  end.
Definition check_adf11_install (t : adf11_type) (model : res table) (pw readback : table) : bool :=
  match model with
  | Ok mt => forallb (fun x => existsb (entry_bracket x) pw) mt && Nat.eqb (List.length mt) (List.length pw)
             && table_eqv (adf11_rekey t (map apply_units pw)) readback
  | Err _ => false
  end.

(* the Coq writer model reproduces the records of the file actually used *)
Definition check_writer (per_line : nat) (fields : list str) (file_lines : list str) : bool :=
  forallb2 streqb (write_values per_line fields) file_lines.

(* ADF15 thermal-CX blocks read back from the repository (3-D) against the model's parse of the file *)
Definition check_thermalcx (charge : Z) (model : res table) (readback : table) : bool :=
  match model with Ok t => table_eqv (thermalcx_table charge t) readback | Err _ => false end.

Definition located_eqb (a b : located) : bool :=
  match a, b with InAdasPath, InAdasPath | InCache, InCache | Download, Download | NotLocated, NotLocated => true | _, _ => false end.
(* the probed behaviour of _locate_adas_file on all sixteen situations *)
Definition check_locate (obs : list (bool * bool * bool * bool * located)) : bool :=
  forallb (fun o => let '(a, b, c, d, r) := o in located_eqb (locate a b c d) r) obs && Nat.eqb (List.length obs) 16.
