(* Model of the linear interpolation behind interpolators1d_* and equilibrium_map3d_fractional /
   _from_elementdensity (raysect Interpolator1DArray(x, f, 'linear', 'none', 0): piecewise linear through the
   knots, no extrapolation) and of the argument policy of _parameters_to_numpy / _assign_donor_density
   (definitions only). *)
Require Import Cherab.Common.Qx.
Require Import Cherab.Model.C09_Balance.
Open Scope Q_scope.

(* segment index and weight of x in the knot list: the first segment [x_i, x_(i+1)] that contains x *)
Fixpoint locate (xs : list Q) (x : Q) (i : nat) : option (nat * Q) :=
  match xs with
  | x0 :: t =>
      match t with
      | x1 :: _ =>
          if Qle_bool x0 x && Qle_bool x x1 then Some (i, (x - x0) / (x1 - x0)) else locate t x (S i)
      | [] => None
      end
  | [] => None
  end.

Definition lerp (xs ys : list Q) (x : Q) : option Q :=
  match locate xs x 0 with
  | Some (i, w) => Some (nth i ys 0 + (nth (S i) ys 0 - nth i ys 0) * w)
  | None => None          (* extrapolation 'none': raysect raises ValueError *)
  end.

Fixpoint increasing (xs : list Q) : Prop :=
  match xs with
  | x0 :: t => match t with x1 :: _ => x0 < x1 /\ increasing t | [] => True end
  | [] => True
  end.

Definition oQeq (a b : option Q) : Prop :=
  match a, b with Some p, Some q => p == q | None, None => True | _, _ => False end.

(* value between two neighbouring profile points *)
Definition blend (fa fb : nat -> Q) (w : Q) : nat -> Q := fun z => fa z + (fb z - fa z) * w.

(* ---------------------------------------------------------------------------------------------
   Argument policy (lines 32-131).  What an argument is, as far as the shape logic is concerned. *)
Inductive arg :=
| AScalar                         (* Python / numpy scalar *)
| AArray (shape : list nat)       (* ndarray of that shape; [] is a 0-d array *)
| AFun1                           (* Function1D *)
| AFun2                           (* Function2D *)
| AOther.                         (* list, tuple, ... : not accepted *)

Inductive freevar :=
| FNone
| FScalar
| F1 (n : nat)                    (* 1-D array of n coordinates *)
| F2 (nx ny : nat).               (* pair of 1-D arrays *)

Inductive outcome := OkShape (shape : list nat) | ErrValue | ErrOther.

(* shape of the array one argument is turned into (lines 58-94) *)
Definition arg_shape (fv : freevar) (a : arg) : outcome :=
  match a with
  | AScalar => OkShape [1%nat]
  | AArray s => OkShape s
  | AFun1 => match fv with FScalar => OkShape [1%nat] | F1 n => OkShape [n] | _ => ErrOther end
  | AFun2 => match fv with F2 nx ny => OkShape [nx; ny] | FNone => ErrOther | _ => ErrValue end   (* line 79-81 *)
  | AOther => ErrValue
  end.

Fixpoint shape_eqb (a b : list nat) : bool :=
  match a, b with
  | [], [] => true
  | x :: a', y :: b' => Nat.eqb x y && shape_eqb a' b'
  | _, _ => false
  end.

(* _assign_donor_density (lines 114-131): the donor argument after defaulting; None -> zeros shaped like n_e *)
Definition donor_default (fv : freevar) (ne : arg) : outcome :=
  match ne with
  | AFun1 => match fv with FNone => ErrValue | FScalar => OkShape [1%nat] | F1 n => OkShape [n] | F2 _ _ => ErrOther end
  | AFun2 => match fv with FNone => ErrValue | F2 nx ny => OkShape [nx; ny] | _ => ErrOther end
  | AArray [] => OkShape [1%nat]                   (* zeros_like of a 0-d array, then wrapped into shape (1,) *)
  | AArray s => OkShape s
  | AOther => ErrOther                              (* zeros_like(list) works; the list itself is rejected later *)
  | AScalar => OkShape [1%nat]
  end.

(* _parameters_to_numpy: every argument must be acceptable and all shapes equal (lines 96-98) *)
Fixpoint all_shapes (fv : freevar) (args : list arg) : option (list (list nat)) :=
  match args with
  | [] => Some []
  | a :: t => match arg_shape fv a, all_shapes fv t with
              | OkShape s, Some r => Some (s :: r)
              | _, _ => None
              end
  end.

Definition first_error (fv : freevar) (args : list arg) : outcome :=
  fold_right (fun a acc => match arg_shape fv a with OkShape _ => acc | e => e end) (OkShape []) args.

(* fractional_abundance(n_e, t_e, tcx_donor_n = given or None, free_variable): outcome of the argument handling *)
Definition fractional_args (fv : freevar) (ne te : arg) (nd : option arg) : outcome :=
  let donor := match nd with
               | Some AFun1 => arg_shape fv AFun1
               | Some AFun2 => arg_shape fv AFun2
               | Some AScalar => OkShape [1%nat]
               | Some (AArray []) => OkShape [1%nat]
               | Some (AArray s) => OkShape s
               | Some AOther => ErrOther
               | None => donor_default fv ne
               end in
  match donor with
  | OkShape sd =>
      match arg_shape fv ne, arg_shape fv te with
      | OkShape s1, OkShape s2 => if shape_eqb s1 s2 && shape_eqb s1 sd then OkShape s1 else ErrValue
      | OkShape _, e => e
      | e, _ => e
      end
  | e => e
  end.

(* charges for which rates are requested (get_rates_ionisation / _recombination / _tcx, lines 143-181) *)
Definition ion_keys (Z : nat) : list nat := seq 0 Z.
Definition rec_keys (Z : nat) : list nat := seq 1 Z.

(* ---------------------------------------------------------------------------------------------
   2-D: raysect Interpolator2DArray(x, y, f, 'linear', 'none', 0, 0) is bilinear on the cell that contains (x, y);
   tbl is indexed [ix][iy] as the array handed to it (interpolators2d_*, lines 655, 755, 790) *)
Definition cell (tbl : list (list Q)) (a b : nat) : Q := nth b (nth a tbl []) 0.

Definition bilerp (xs ys : list Q) (tbl : list (list Q)) (x y : Q) : option Q :=
  match locate xs x 0, locate ys y 0 with
  | Some (i, u), Some (j, v) =>
      let lo := cell tbl i j + (cell tbl (S i) j - cell tbl i j) * u in
      let hi := cell tbl i (S j) + (cell tbl (S i) (S j) - cell tbl i (S j)) * u in
      Some (lo + (hi - lo) * v)
  | _, _ => None
  end.

(* abundance_axisymmetric_mapper (lines 795-806): AxisymmetricMapper(f2d)(x, y, z) = f2d(sqrt(x^2 + y^2), z);
   equilibrium.map3d(f1d) (lines 829-836, 860-867; efit.pyx map2d/map3d) = AxisymmetricMapper of
   (r, z) -> f1d(psi_n(r, z)) inside the last closed flux surface, the outside value (0) elsewhere.
   The square root, the normalised flux and the inside test are functions of the running system: they enter as
   parameters, nothing is assumed about them. *)
Definition axisym (f2 : Q -> Q -> option Q) (sqrt : Q -> Q) (x y z : Q) : option Q := f2 (sqrt (x * x + y * y)) z.

Definition map3d (f1 : Q -> option Q) (psin : Q -> Q -> Q) (inside : Q -> Q -> bool) (outside : Q)
           (sqrt : Q -> Q) (x y z : Q) : option Q :=
  axisym (fun r zz => if inside r zz then f1 (psin r zz) else Some outside) sqrt x y z.
